(* Proofs/WriterSays.v — the infoset of the reference SAX tree says exactly what the
   specification reads from the events: names, attributes (xsi:nil kept or dropped,
   xsi:type and QName values denoting the intended names in scope), text, nesting, order. *)
From Coq Require Import NArith List Bool Lia.
From XV Require Import Base.Str Base.Eqb Spec.XmlNs Gen.WriterTables Model.Writer
  Proofs.WriterTree Proofs.WriterStep Proofs.WriterMaps Proofs.WriterEnc Proofs.WriterCtx
  Proofs.WriterWf Proofs.WriterNative Proofs.WriterDenote.
Import ListNotations.
Open Scope N_scope.

(* the model's constants (regenerated from enums.py) are the specification's *)
Lemma q_xsi_nil_same : q_xsi_nil_m = q_xsi_nil.
Proof. reflexivity. Qed.
Lemma q_xsi_type_same : q_xsi_type_m = q_xsi_type.
Proof. vm_compute. reflexivity. Qed.

(* ------------------------------------------------------------------ lexical QNames in scope *)
Lemma split_colon_plain l : is_ncname l = true -> split_colon l = (None, l).
Proof. intros H. unfold split_colon. rewrite (is_ncname_no l c_colon H) by (right; left; reflexivity). reflexivity. Qed.
Lemma split_colon_prefixed p l : is_ncname p = true -> split_colon (p ++ [c_colon] ++ l) = (Some p, l).
Proof.
  intros H. unfold split_colon. cbn [app].
  rewrite (find_chr_app_stop c_colon p l) by (apply is_ncname_no; [exact H|right; left; reflexivity]).
  rewrite firstn_app_exact, skipn_app_exact. reflexivity.
Qed.

Lemma renders_lex e m t q :
  env_is e m -> legal_map m -> name_ok q = true -> renders m t q -> lex_denotes e q t = true.
Proof.
  intros He Hl Hq Hr. unfold name_ok in Hq. apply andb_true_iff in Hq as [Hloc Hu].
  unfold renders in Hr. unfold lex_denotes. destruct q as [ou l]. cbn [fst snd] in *.
  destruct ou as [u|].
  - cbn in Hu. assert (Hne : u <> []) by (intros ->; discriminate).
    destruct Hr as [p [Hg Ht]]. destruct p as [[|x p]|].
    + destruct (legal_some_nonempty _ _ _ Hl Hg) as [_ [_ H]]. contradiction.
    + destruct (legal_some_nonempty _ _ _ Hl Hg) as [Hnc _]. subst t.
      rewrite split_colon_prefixed by exact Hnc. rewrite str_eqb_refl.
      rewrite (lookup_prefix_ok e m _ _ He Hl Hg), ostr_eqb_refl. reflexivity.
    + subst t. rewrite split_colon_plain by exact Hloc. rewrite str_eqb_refl.
      rewrite (default_ns_some e m u He Hg Hne), ostr_eqb_refl. reflexivity.
  - subst t. rewrite split_colon_plain by exact Hloc. rewrite str_eqb_refl. reflexivity.
Qed.

Definition atom_lex (e : env) (a : atom) (t : str) : Prop :=
  match a with
  | AText s => t = s
  | AQName q => lex_denotes e q t = true /\ find_chr c_space t = None
  end.

Lemma startswith_app a b : startswith a (a ++ b) = true.
Proof. induction a as [|x a IH]; cbn; [destruct b; reflexivity|]. rewrite N.eqb_refl. exact IH. Qed.
Lemma skipn_app_len {A} (a b : list A) : skipn (length a) (a ++ b) = b.
Proof. induction a; cbn; [reflexivity|assumption]. Qed.

Lemma atoms_match_join e atoms ts :
  Forall2 (fun t a => atom_lex e a t) ts atoms -> atoms_match e atoms (join [c_space] ts) = true.
Proof.
  induction 1 as [|t a ts atoms Ha Hr IH]; [reflexivity|].
  destruct Hr as [|t2 a2 ts' atoms' Ha2 Hr'].
  - cbn [join atoms_match]. destruct a as [s|q]; cbn in Ha |- *.
    + subst. apply str_eqb_refl.
    + apply Ha.
  - change (join [c_space] (t :: t2 :: ts')) with (t ++ [c_space] ++ join [c_space] (t2 :: ts')).
    change (atoms_match e (a :: a2 :: atoms') (t ++ [c_space] ++ join [c_space] (t2 :: ts')))
      with (match a with
            | AText s => startswith (s ++ [c_space]) (t ++ [c_space] ++ join [c_space] (t2 :: ts'))
                         && atoms_match e (a2 :: atoms') (skipn (S (length s)) (t ++ [c_space] ++ join [c_space] (t2 :: ts')))
            | AQName q => match cut_space (t ++ [c_space] ++ join [c_space] (t2 :: ts')) with
                          | Some (x, rest) => lex_denotes e q x && atoms_match e (a2 :: atoms') rest
                          | None => false
                          end
            end).
    destruct a as [s|q]; cbn in Ha.
    + subst t. rewrite app_assoc, startswith_app. cbn [andb].
      rewrite <- app_assoc. cbn [app]. rewrite skipn_app_exact. exact IH.
    + destruct Ha as [Hd Hs]. unfold cut_space. cbn [app].
      rewrite (find_chr_app_stop c_space t _ Hs), firstn_app_exact, skipn_app_exact, Hd. exact IH.
Qed.

Lemma rendered_atoms_match e m ts atoms :
  env_is e m -> legal_map m -> forallb atom_names_ok atoms = true ->
  Forall2 (atom_renders m) ts atoms -> atoms_match e atoms (join [c_space] ts) = true.
Proof.
  intros He Hl Hn Hr. apply atoms_match_join.
  induction Hr as [|t a ts atoms Ha _ IH]; [constructor|].
  cbn [forallb] in Hn. apply andb_true_iff in Hn as [Hna Hn]. constructor; [|exact (IH Hn)].
  destruct a as [s|q]; cbn in Ha |- *; [exact Ha|].
  unfold atom_names_ok in Hna. cbn in Hna. rewrite andb_true_r in Hna.
  split; [exact (renders_lex e m t q He Hl Hna Ha)|]. apply (renders_chars m t q Hl Hna Ha).
Qed.

(* an encoded value is empty exactly when the specification calls its atoms trivial *)
Lemma join_empty ts : join [c_space] ts = [] -> ts = [] \/ ts = [[]].
Proof.
  destruct ts as [|t [|t2 ts]]; cbn [join]; [tauto|intros ->; tauto|].
  intros H. apply app_eq_nil in H as [_ H]. discriminate.
Qed.
Lemma rendered_trivial m ts atoms :
  legal_map m -> forallb atom_names_ok atoms = true -> atoms <> [] ->
  Forall2 (atom_renders m) ts atoms ->
  (join [c_space] ts = [] <-> atoms_trivial atoms = true).
Proof.
  intros Hl Hn Hne Hr. split.
  - intros Hj. apply join_empty in Hj. destruct Hj as [Hj|Hj]; subst ts.
    + inversion Hr; subst. contradiction.
    + inversion Hr as [|? a ? ? Ha Hr']; subst. inversion Hr'; subst.
      destruct a as [s|q]; cbn in Ha; [subst; reflexivity|].
      cbn [forallb] in Hn. rewrite andb_true_r in Hn. unfold atom_names_ok in Hn. cbn in Hn. rewrite andb_true_r in Hn.
      destruct (renders_chars m [] q Hl Hn Ha) as [_ [_ [H _]]]. contradiction.
  - intros Ht. destruct atoms as [|a [|a2 r]]; [contradiction| |].
    2: { destruct a as [[|x s]|[[u|] [|x l]]]; discriminate. }
    inversion Hr as [|t ? ? ? Ha Hr']; subst. inversion Hr'; subst.
    destruct a as [[|x s]|[[u|] [|x l]]]; try discriminate.
    cbn in Ha. subst. reflexivity.
Qed.

(* ------------------------------------------------------------------ says as a list function *)
Lemma existsb_ext {A} (f g : A -> bool) l : (forall x, f x = g x) -> existsb f l = existsb g l.
Proof. intros H. induction l as [|x l IH]; [reflexivity|]. cbn. rewrite H, IH. reflexivity. Qed.

Definition rest_text (i : nat) (s : str) (ts : list inode) : list inode :=
  if Nat.eqb i (length s) then ts else IText (skipn i s) :: ts.
Fixpoint says_list (e : env) (es : list enode) (ts : list inode) : bool :=
  match es with
  | [] => match ts with [] => true | _ => false end
  | EData atoms :: es' =>
      match ts with
      | IText s :: ts' =>
          existsb (fun i => atoms_match e atoms (firstn i s) && says_list e es' (rest_text i s ts'))
                  (seq 0 (S (length s)))
      | _ => false
      end
  | (EElem _ _ _ as x1) :: es' =>
      match ts with
      | t1 :: ts' => says e x1 t1 && says_list e es' ts'
      | [] => false
      end
  end.
Lemma says_elem_eq e q eats ekids q' ds tats tkids :
  says e (EElem q eats ekids) (IElem q' ds tats tkids)
  = (qname_eqb q q' && Nat.eqb (length eats) (length tats)
     && forallb (fun ea => existsb (fun ta => qname_eqb (fst ea) (fst ta)
                                              && atoms_match (rev ds ++ e) (snd ea) (snd ta)) tats) eats
     && says_list (rev ds ++ e) ekids tkids).
Proof.
  cbn [says]. f_equal. revert tkids. induction ekids as [|x es IH]; intros ts; [reflexivity|].
  destruct x as [atoms|qx ax kx]; cbn [says_list].
  - destruct ts as [|[s|] ts']; try reflexivity.
    apply existsb_ext. intros i. unfold rest_text. rewrite IH. reflexivity.
  - destruct ts as [|t1 ts']; [reflexivity|]. rewrite IH. reflexivity.
Qed.

(* ------------------------------------------------------------------ attributes *)
Definition attr_rel (m : nsmap) (ea : qname * list atom) (ma : qname * option str) : Prop :=
  fst ea = fst ma /\ forallb atom_names_ok (snd ea) = true /\ snd ea <> []
  /\ exists ts, snd ma = Some (join [c_space] ts) /\ Forall2 (atom_renders m) ts (snd ea).

Lemma attr_rel_ext m m' ea ma : ext m m' -> attr_rel m ea ma -> attr_rel m' ea ma.
Proof.
  intros He [H1 [H2 [H3 [ts [H4 H5]]]]]. split; [exact H1|split; [exact H2|split; [exact H3|]]].
  exists ts. split; [exact H4|]. clear -He H5. induction H5; constructor; [eapply atom_renders_ext; eassumption|assumption].
Qed.

Lemma set_attr_rel m E A q atoms enc :
  Forall2 (attr_rel m) E A -> attr_rel m (q, atoms) (q, enc) ->
  Forall2 (attr_rel m) (set_attr q atoms E) (am_set A q enc).
Proof.
  intros H Hr. induction H as [|[qe ae] [qa ea] E A Hh Htl IH]; cbn [set_attr am_set].
  - constructor; [exact Hr|constructor].
  - destruct Hh as [Hk Hrest]. cbn [fst snd] in Hk. subst qa.
    destruct (qname_eqb q qe) eqn:Eq.
    + apply qname_eqb_eq in Eq. subst qe. constructor; [exact Hr|exact Htl].
    + constructor; [split; [reflexivity|exact Hrest]|exact IH].
Qed.

(* the atoms the specification assigns to an attribute event are those of the converted value *)
Lemma datatype_qnames_clark : forallb (startswith [c_lbrace]) datatype_qnames = true.
Proof. vm_compute. reflexivity. Qed.

Definition clark_ok (a : qname * wvalue) : bool :=
  match snd a with
  | VAtom (AText s) => qname_eqb (fst a) q_xsi_type_m || negb (existsb (str_eqb s) datatype_qnames)
  | _ => true
  end.

Lemma atoms_of_value_atoms v : value_none v = false -> atoms_of_value v = Some (value_atoms v).
Proof. destruct v as [|a|[|a l]]; cbn; intros H; try discriminate; reflexivity. Qed.

Lemma conv_atoms qa v :
  clark_ok (qa, v) = true -> value_none v = false ->
  attr_atoms qa v = Some (value_atoms (attr_value_conv qa v)).
Proof.
  intros Hc Hn. unfold clark_ok in Hc. cbn [fst snd] in Hc.
  unfold attr_atoms, attr_value_conv, is_xsi_type. rewrite <- q_xsi_type_same.
  destruct v as [|a|l].
  - discriminate.
  - destruct a as [s|q']; [|reflexivity].
    destruct (startswith [c_lbrace] s) eqn:Es; [|rewrite andb_false_r; reflexivity].
    cbn [andb]. destruct (qname_eqb qa q_xsi_type_m) eqn:Eq.
    + cbn [orb andb value_atoms]. rewrite clark_split_split_qname. reflexivity.
    + cbn [orb] in Hc |- *. apply negb_true_iff in Hc. rewrite Hc. reflexivity.
  - apply atoms_of_value_atoms. exact Hn.
Qed.

Definition sattr_ok (u0 : option str) (a : qname * wvalue) : bool :=
  attr_name_ok (fst a) && value_names_ok (attr_conv a) && value_texts_ok (attr_conv a)
  && negb (value_none (snd a)) && clark_ok a.

Lemma value_atoms_nonempty v : value_none v = false -> value_atoms v <> [].
Proof. destruct v as [|a|[|a l]]; cbn; intros H; try discriminate; discriminate. Qed.

Lemma fold_attrs_rel u0 ats : forall m E A,
  minv u0 m -> Forall2 (attr_rel m) E A ->
  forallb (sattr_ok u0) ats = true ->
  let '(am, m') := fold_attrs m A ats in
  exists E', spec_attrs E ats = Some E' /\ minv u0 m' /\ ext m m' /\ Forall2 (attr_rel m') E' am.
Proof.
  induction ats as [|[qa v] ats IH]; intros m E A Hinv Hrel Hg; cbn [fold_attrs spec_attrs].
  - exists E. split; [reflexivity|split; [exact Hinv|split; [apply ext_refl|exact Hrel]]].
  - cbn [forallb] in Hg. apply andb_true_iff in Hg as [Ha Hg]. unfold sattr_ok in Ha.
    apply andb_true_iff in Ha as [Ha Hck].
    apply andb_true_iff in Ha as [Ha Hnn]. apply andb_true_iff in Ha as [Ha _].
    apply andb_true_iff in Ha as [_ Hvn]. apply negb_true_iff in Hnn.
    unfold attr_conv in Hvn. cbn [fst snd] in *.
    rewrite (conv_atoms qa v Hck Hnn).
    pose proof (encode_data_ok u0 m (attr_value_conv qa v) Hinv Hvn) as He.
    destruct (encode_data m (attr_value_conv qa v)) as [enc m1]. destruct He as [I1 [E1 R1]].
    assert (Hnc : value_none (attr_value_conv qa v) = false) by (rewrite value_none_conv; exact Hnn).
    destruct enc as [t|]; [|rewrite Hnc in R1; discriminate].
    destruct R1 as [_ [ts [Hr Ht]]].
    assert (Hone : attr_rel m1 (qa, value_atoms (attr_value_conv qa v)) (qa, Some t)).
    { split; [reflexivity|split; [exact Hvn|split; [apply value_atoms_nonempty, Hnc|]]].
      exists ts. split; [cbn; rewrite Ht; reflexivity|exact Hr]. }
    assert (Hrel1 : Forall2 (attr_rel m1) E A).
    { clear -Hrel E1. induction Hrel; constructor; [eapply attr_rel_ext; eassumption|assumption]. }
    pose proof (IH m1 _ _ I1 (set_attr_rel m1 E A qa _ (Some t) Hrel1 Hone) Hg) as H2.
    destruct (fold_attrs m1 (am_set A qa (Some t)) ats) as [am m']. destruct H2 as [E' [S2 [I2 [E2 R2]]]].
    exists E'. split; [exact S2|split; [exact I2|split; [exact (ext_trans _ _ _ E1 E2)|exact R2]]].
Qed.

Lemma qname_eqb_sym a b : qname_eqb a b = qname_eqb b a.
Proof.
  destruct (qname_eqb a b) eqn:E.
  - apply qname_eqb_eq in E. subst. symmetry. apply qname_eqb_refl.
  - destruct (qname_eqb b a) eqn:E2; [|reflexivity]. apply qname_eqb_eq in E2. subst.
    rewrite qname_eqb_refl in E. discriminate.
Qed.

(* keys of the expected attribute list *)
Lemma Forall2_keys m E A : Forall2 (attr_rel m) E A -> map fst E = map fst A.
Proof. induction 1 as [|x y E A [H _] _ IH]; [reflexivity|]. cbn. rewrite H, IH. reflexivity. Qed.

Lemma filter_remove_rel m E A :
  Forall2 (attr_rel m) E A -> NoDup (map fst A) ->
  Forall2 (attr_rel m) (filter (fun a => negb (qname_eqb (fst a) q_xsi_nil)) E) (am_remove A q_xsi_nil_m).
Proof.
  rewrite q_xsi_nil_same.
  induction 1 as [|[qe ae] [qa ea] E A Hh Hr IH]; intros Hnd; [constructor|].
  cbn [filter am_remove fst]. destruct Hh as [Hk Hrest]. cbn [fst] in Hk. subst qa.
  cbn [map fst] in Hnd. inversion Hnd as [|? ? Hni Hnd']; subst.
  rewrite (qname_eqb_sym qe q_xsi_nil).
  destruct (qname_eqb q_xsi_nil qe) eqn:Eq; cbn [negb].
  - (* the nil attribute: dropped on both sides; no other nil follows *)
    apply qname_eqb_eq in Eq. subst qe.
    assert (Hno : filter (fun a => negb (qname_eqb (fst a) q_xsi_nil)) E = E).
    { rewrite <- (Forall2_keys _ _ _ Hr) in Hni. clear -Hni.
      induction E as [|[k v] E IH]; [reflexivity|]. cbn [filter fst map] in *.
      destruct (qname_eqb k q_xsi_nil) eqn:E1.
      - apply qname_eqb_eq in E1. subst. exfalso. apply Hni. left. reflexivity.
      - cbn [negb]. rewrite IH; [reflexivity|]. intros H. apply Hni. right. exact H. }
    rewrite Hno. exact Hr.
  - constructor; [split; [reflexivity|exact Hrest]|exact (IH Hnd')].
Qed.

(* ------------------------------------------------------------------ guards *)
Definition dq_value (u0 : option str) (q : qname) (v : wvalue) : bool :=
  match u0 with
  | None => true
  | Some u => match fst q with Some (_ :: _) => true | _ => no_qname_in u v end
  end.
Definition dq_node (u0 : option str) (q : qname) (ats : list (qname * wvalue)) (ks : list item) : bool :=
  forallb (fun a => dq_value u0 q (attr_conv a)) ats
  && forallb (fun k => match k with IData v => dq_value u0 q v | INode _ _ _ => true end) ks.
Definition sg_node (u0 : option str) (q : qname) (ats : list (qname * wvalue)) (ks : list item) : bool :=
  name_ok q && forallb (sattr_ok u0) ats && nil_ok ats ks && late_ok ks && dq_node u0 q ats ks.
Definition sguard (u0 : option str) : item -> bool := all_nodes (sg_node u0) data_wf.

(* ------------------------------------------------------------------ renderings survive the flush *)
Lemma atom_uri_in u v q : In (AQName q) (value_atoms v) -> fst q = Some u -> no_qname_in u v = false.
Proof.
  intros Hin Hq. unfold no_qname_in. apply negb_false_iff. apply existsb_exists. exists q. split.
  - unfold value_qnames. apply in_flat_map. exists (AQName q). split; [exact Hin|left; reflexivity].
  - rewrite Hq. apply ostr_eqb_refl.
Qed.

Lemma flush_renders u0 qel attrs mx m4 v t a :
  flushed u0 qel attrs mx m4 -> minv u0 mx -> dq_value u0 qel v = true ->
  In a (value_atoms v) -> atom_names_ok a = true ->
  atom_renders mx t a -> atom_renders m4 t a.
Proof.
  intros Hf Hinv Hdq Hin Hn Hr. destruct a as [s|q]; [exact Hr|].
  cbn in Hr |- *. unfold renders in *. destruct (fst q) as [u|] eqn:Eq; [|exact Hr].
  destruct Hr as [p [Hg Ht]]. exists p. split; [|exact Ht].
  destruct p as [p|]; [apply (fl_prefixed _ _ _ _ _ Hf); [discriminate|exact Hg]|].
  (* the default prefix: the namespace is the user's default one *)
  unfold atom_names_ok in Hn. cbn in Hn. rewrite andb_true_r in Hn.
  assert (Hne : u <> []).
  { unfold name_ok in Hn. rewrite Eq in Hn. apply andb_true_iff in Hn as [_ Hn]. cbn in Hn. intros ->. discriminate. }
  pose proof (fl_default _ _ _ _ _ Hf) as Hd.
  destruct (mi_default_user _ _ Hinv u Hg) as [H|H]; [contradiction|].
  unfold dq_value in Hdq. rewrite H in Hdq.
  destruct (fst qel) as [[|x r]|].
  - rewrite (atom_uri_in u v q Hin Eq) in Hdq. discriminate.
  - apply Hd, Hg.
  - rewrite (atom_uri_in u v q Hin Eq) in Hdq. discriminate.
Qed.

Lemma flush_renders_list u0 qel attrs mx m4 v :
  flushed u0 qel attrs mx m4 -> minv u0 mx -> dq_value u0 qel v = true ->
  forall l ts, (forall a, In a l -> In a (value_atoms v)) -> forallb atom_names_ok l = true ->
               Forall2 (atom_renders mx) ts l -> Forall2 (atom_renders m4) ts l.
Proof.
  intros Hf Hinv Hdq l ts Hsub Hn Hr. induction Hr as [|t a ts l Ha _ IH]; [constructor|].
  cbn [forallb] in Hn. apply andb_true_iff in Hn as [Hna Hn]. constructor.
  - apply (flush_renders u0 qel attrs mx m4 v t a Hf Hinv Hdq (Hsub a (or_introl eq_refl)) Hna Ha).
  - apply IH; [intros a' Ha'; apply Hsub; right; exact Ha'|exact Hn].
Qed.
Lemma flush_renders_all u0 qel attrs mx m4 v ts :
  flushed u0 qel attrs mx m4 -> minv u0 mx -> dq_value u0 qel v = true ->
  value_names_ok v = true ->
  Forall2 (atom_renders mx) ts (value_atoms v) -> Forall2 (atom_renders m4) ts (value_atoms v).
Proof.
  intros Hf Hinv Hdq Hn Hr.
  apply (flush_renders_list u0 qel attrs mx m4 v Hf Hinv Hdq (value_atoms v) ts); [tauto|exact Hn|exact Hr].
Qed.

(* ------------------------------------------------------------------ character data *)
(* the data value `v`, encoded under `mx` and read in scope `e` (= the final map `mf`) *)
Lemma enc_says u0 mf e v enc :
  minv u0 mf -> env_is e mf -> data_wf v = true ->
  match enc with
  | None => value_none v = true
  | Some t => value_none v = false
              /\ exists ts, Forall2 (atom_renders mf) ts (value_atoms v) /\ t = join [c_space] ts
  end ->
  match denote (IData v), txt_of enc with
  | [], [] => True
  | [x], [SText t] => says e x (IText t) = true /\ t <> []
  | _, _ => False
  end.
Proof.
  intros Hinv He Hd Henc. unfold data_wf in Hd.
  apply andb_true_iff in Hd as [Hn _]. unfold value_names_ok in Hn.
  cbn [denote]. destruct enc as [t|].
  - destruct Henc as [Hnn [ts [Hr Ht]]]. rewrite (atoms_of_value_atoms v Hnn).
    pose proof (rendered_trivial mf ts (value_atoms v) (minv_legal _ _ Hinv) Hn (value_atoms_nonempty v Hnn) Hr) as Htr.
    destruct (atoms_trivial (value_atoms v)) eqn:Et.
    + assert (Hj : join [c_space] ts = []) by (apply Htr; reflexivity). subst t. rewrite Hj. exact I.
    + destruct t as [|x t'] eqn:Ett.
      * exfalso. symmetry in Ht. apply Htr in Ht. discriminate.
      * cbn [txt_of]. split; [|discriminate]. cbn [says]. rewrite Ht.
        apply (rendered_atoms_match e mf ts _ He (minv_legal _ _ Hinv) Hn Hr).
  - apply atoms_of_value_none in Henc. rewrite Henc. exact I.
Qed.

Lemma data_says u0 m e v :
  minv u0 m -> env_is e m -> data_wf v = true -> has_ns_qname v = false ->
  match denote (IData v), wref m (IData v) with
  | [], [] => True
  | [x], [SText t] => says e x (IText t) = true /\ t <> []
  | _, _ => False
  end.
Proof.
  intros Hinv He Hd Hq. cbn [wref].
  assert (Hn : value_names_ok v = true).
  { unfold data_wf in Hd. apply andb_true_iff in Hd as [Hd _]. exact Hd. }
  pose proof (encode_data_plain m v (data_plain_of v Hn Hq)) as Hm.
  pose proof (encode_data_ok u0 m v Hinv Hn) as Henc.
  destruct (encode_data m v) as [enc m']. cbn [fst snd] in *. subst m'.
  destruct Henc as [_ [_ Henc]]. exact (enc_says u0 m e v enc Hinv He Hd Henc).
Qed.

(* ------------------------------------------------------------------ adjacent text *)
Definition text_ne (n : inode) : Prop := match n with IText b => b <> [] | IElem _ _ _ _ => True end.
Definition head_ne (l : list inode) : Prop := match l with IText b :: _ => b <> [] | _ => True end.

Lemma merge_text_elem q ds ats ks r : merge_text (IElem q ds ats ks :: r) = IElem q ds ats ks :: merge_text r.
Proof. reflexivity. Qed.
Lemma merge_text_text t r :
  t <> [] ->
  merge_text (IText t :: r) = match merge_text r with
                              | IText b :: r' => IText (t ++ b) :: r'
                              | r' => IText t :: r'
                              end.
Proof.
  intros Ht. cbn [merge_text]. destruct (merge_text r) as [|[b|q ds ats ks] r']; try reflexivity;
    destruct t; [contradiction|reflexivity|contradiction|reflexivity].
Qed.
Lemma merge_text_head_ne l : Forall text_ne l -> head_ne (merge_text l).
Proof.
  induction 1 as [|n l Hn _ IH]; [exact I|]. destruct n as [t|q ds ats ks].
  - cbn [text_ne] in Hn. rewrite (merge_text_text t l Hn).
    destruct (merge_text l) as [|[b|q ds ats ks] r']; cbn [head_ne]; try exact Hn.
    intros E. apply app_eq_nil in E as [E _]. contradiction.
  - exact I.
Qed.

(* a text node written for one data event, in front of what the following events wrote *)
Lemma says_cons_text e l t E B :
  says e (EData l) (IText t) = true -> t <> [] ->
  says_list e E (merge_text B) = true -> head_ne (merge_text B) ->
  says_list e (EData l :: E) (merge_text (IText t :: B)) = true.
Proof.
  intros Hs Hne HE Hh. cbn [says] in Hs. rewrite (merge_text_text t B Hne).
  destruct (merge_text B) as [|[b|q ds ats ks] r'] eqn:EB; cbn [says_list].
  - apply existsb_exists. exists (length t). split; [apply in_seq; lia|].
    rewrite firstn_all, Hs. unfold rest_text. rewrite PeanoNat.Nat.eqb_refl. exact HE.
  - cbn [head_ne] in Hh. apply existsb_exists. exists (length t). split; [apply in_seq; rewrite app_length; lia|].
    rewrite firstn_app_exact, Hs. unfold rest_text.
    assert (Hlen : Nat.eqb (length t) (length (t ++ b)) = false).
    { apply PeanoNat.Nat.eqb_neq. rewrite app_length. destruct b; [contradiction|cbn; lia]. }
    rewrite Hlen, skipn_app_len. exact HE.
  - apply existsb_exists. exists (length t). split; [apply in_seq; lia|].
    rewrite firstn_all, Hs. unfold rest_text. rewrite PeanoNat.Nat.eqb_refl. exact HE.
Qed.

Definition kid_says (u0 : option str) (i : item) : Prop :=
  forall m e, minv u0 m -> env_is e m -> sguard u0 i = true ->
    match i with
    | IData v =>
        has_ns_qname v = false ->
        match denote i, wref m i with
        | [], [] => True
        | [x], [SText t] => says e x (IText t) = true /\ t <> []
        | _, _ => False
        end
    | INode _ _ _ =>
        exists x ds q a k, denote i = [x] /\ wref m i = [SNode ds q a k]
                           /\ says e x (itree_of (SNode ds q a k)) = true
    end.

Definition plain_kid (k : item) : bool :=
  match k with IData v => negb (has_ns_qname v) | INode _ _ _ => true end.

Lemma denote_data_shape v : denote (IData v) = [] \/ exists l, denote (IData v) = [EData l].
Proof.
  cbn [denote]. destruct (atoms_of_value v) as [l|]; [|left; reflexivity].
  destruct (atoms_trivial l); [left; reflexivity|right; eauto].
Qed.
Lemma denote_node_shape q ats ks x : denote (INode q ats ks) = [x] -> exists a k, x = EElem q a k.
Proof. cbn [denote]. destruct (spec_attrs [] ats); [|discriminate]. intros H. inversion H. eauto. Qed.

Lemma says_kids u0 ks :
  Forall (kid_says u0) ks ->
  forall m e, minv u0 m -> env_is e m ->
    forallb (sguard u0) ks = true -> forallb plain_kid ks = true ->
    says_list e (flat_map denote ks) (merge_text (map itree_of (flat_map (wref m) ks))) = true
    /\ Forall text_ne (map itree_of (flat_map (wref m) ks)).
Proof.
  induction 1 as [|k ks Hk _ IH]; intros m e Hinv He Hg Hp.
  - cbn. split; [reflexivity|constructor].
  - cbn [forallb] in Hg, Hp. apply andb_true_iff in Hg as [Hgk Hgs]. apply andb_true_iff in Hp as [Hpk Hps].
    destruct (IH m e Hinv He Hgs Hps) as [IH1 IH2].
    cbn [flat_map]. rewrite map_app.
    destruct k as [v|q ats kk].
    + cbn [plain_kid] in Hpk. apply negb_true_iff in Hpk.
      pose proof (Hk m e Hinv He Hgk Hpk) as Hd.
      destruct (denote_data_shape v) as [Ed|[l Ed]]; rewrite Ed in Hd |- *;
        destruct (wref m (IData v)) as [|[t|ds0 q0 a0 k0] [|n2 ns]]; try contradiction.
      * cbn [map app]. split; [exact IH1|exact IH2].
      * destruct Hd as [Hs Hne]. cbn [map app itree_of]. split.
        -- apply says_cons_text; [exact Hs|exact Hne|exact IH1|apply merge_text_head_ne, IH2].
        -- constructor; [exact Hne|exact IH2].
    + destruct (Hk m e Hinv He Hgk) as [x [ds [q' [a [k' [Hd [Hw Hs]]]]]]].
      rewrite Hd, Hw. cbn [map app]. destruct (denote_node_shape _ _ _ _ Hd) as [ea [ek ->]].
      cbn [itree_of] in Hs |- *. rewrite merge_text_elem. cbn [says_list]. rewrite Hs, IH1.
      split; [reflexivity|constructor; [exact I|exact IH2]].
Qed.

(* ------------------------------------------------------------------ where expected attributes come from *)
Lemma set_attr_In q l acc x : In x (set_attr q l acc) -> x = (q, l) \/ In x acc.
Proof.
  induction acc as [|[q' l'] acc IH]; cbn.
  - intros [H|[]]. left. symmetry. exact H.
  - destruct (qname_eqb q q') eqn:E.
    + apply qname_eqb_eq in E. subst. intros [H|H]; [left; symmetry; exact H|right; right; exact H].
    + intros [H|H]; [right; left; exact H|]. destruct (IH H) as [H1|H1]; [left; exact H1|right; right; exact H1].
Qed.
Lemma spec_attrs_origin ats : forall acc E,
  spec_attrs acc ats = Some E ->
  forall x, In x E -> In x acc \/ exists a, In a ats /\ fst x = fst a /\ attr_atoms (fst a) (snd a) = Some (snd x).
Proof.
  induction ats as [|a ats IH]; intros acc E H x Hx; cbn [spec_attrs] in H.
  - inversion H; subst. left. exact Hx.
  - destruct (attr_atoms (fst a) (snd a)) as [l|] eqn:El; [|discriminate].
    destruct (IH _ _ H x Hx) as [H1|[a' [Ha' Hr]]].
    + apply set_attr_In in H1 as [H1|H1].
      * right. exists a. subst x. split; [left; reflexivity|split; [reflexivity|exact El]].
      * left. exact H1.
    + right. exists a'. split; [right; exact Ha'|exact Hr].
Qed.

(* ------------------------------------------------------------------ one element *)
Lemma Forall2_In_l {A B} (R : A -> B -> Prop) l l' x :
  Forall2 R l l' -> In x l -> exists y, In y l' /\ R x y.
Proof.
  induction 1 as [|a b l l' Hab _ IH]; [intros []|]. intros [H|H].
  - subst. exists b. split; [left; reflexivity|exact Hab].
  - destruct (IH H) as [y [Hy Hr]]. exists y. split; [right; exact Hy|exact Hr].
Qed.
Lemma Forall2_length {A B} (R : A -> B -> Prop) l l' : Forall2 R l l' -> length l = length l'.
Proof. induction 1; cbn; [reflexivity|f_equal; assumption]. Qed.

Definition from_value (u0 : option str) (q : qname) (ea : qname * list atom) : Prop :=
  exists v, snd ea = value_atoms v /\ dq_value u0 q v = true /\ value_names_ok v = true.

Lemma node_says_core u0 pm mx q attrs E ekids kids_s e :
  (pm = [] \/ minv u0 pm) -> minv u0 mx -> ext pm mx -> env_is e pm ->
  Forall (am_entry_ok u0) attrs -> NoDup (map fst attrs) ->
  Forall2 (attr_rel mx) E attrs -> Forall (from_value u0 q) E ->
  (forall e', env_is e' (flush_map q attrs mx) -> says_list e' ekids (merge_text (map itree_of kids_s)) = true) ->
  says e (EElem q E ekids) (itree_of (SNode (changed_entries pm (flush_map q attrs mx)) q attrs kids_s)) = true.
Proof.
  intros Hpm Hmx Hext He Ham Hnd Hrel Hfrom Hkids.
  pose proof (flush_map_ok u0 q attrs mx Hmx Ham) as Hf.
  set (m4 := flush_map q attrs mx) in *.
  assert (Hnd4 : NoDup (map fst m4)) by exact (mi_uniq _ _ (fl_inv _ _ _ _ _ Hf)).
  assert (Hkeys : forall p, nm_get pm p <> None -> nm_get m4 p <> None).
  { intros p Hp. apply (fl_keys _ _ _ _ _ Hf). destruct (nm_get pm p) as [u|] eqn:G; [|contradiction].
    rewrite (Hext p u G). discriminate. }
  pose proof (env_is_step e pm m4 He Hnd4 Hkeys) as He'.
  cbn [itree_of]. rewrite says_elem_eq. rewrite qname_eqb_refl. cbn [andb].
  assert (Hlen : length E = length (attr_list attrs)).
  { unfold attr_list. rewrite map_length. exact (Forall2_length _ _ _ Hrel). }
  rewrite Hlen, PeanoNat.Nat.eqb_refl. cbn [andb].
  rewrite (Hkids _ He'), andb_true_r.
  apply forallb_forall. intros ea Hea.
  destruct (Forall2_In_l _ _ _ _ Hrel Hea) as [ma [Hma [Hk [Hn [Hne [ts [Hv Hr]]]]]]].
  apply existsb_exists. exists (fst ma, join [c_space] ts). split.
  - unfold attr_list. apply in_map_iff. exists ma. split; [|exact Hma].
    destruct ma as [qa va]. cbn [fst snd] in *. subst va. reflexivity.
  - cbn [fst snd]. rewrite Hk, qname_eqb_refl. cbn [andb].
    rewrite Forall_forall in Hfrom. destruct (Hfrom ea Hea) as [v [Hval [Hdq Hvn]]].
    apply (rendered_atoms_match _ m4 ts _ He' (minv_legal _ _ (fl_inv _ _ _ _ _ Hf)) Hn).
    rewrite Hval in *. exact (flush_renders_all u0 q attrs mx m4 v ts Hf Hmx Hdq Hvn Hr).
Qed.

Lemma sattr_ok_wf u0 ats :
  forallb (sattr_ok u0) ats = true ->
  forallb (fun a => attr_name_ok (fst a) && value_names_ok (attr_conv a) && value_texts_ok (attr_conv a)
                    && negb (value_none (snd a))) ats = true.
Proof.
  intros H. apply forallb_forall. intros a Ha. rewrite forallb_forall in H. specialize (H a Ha).
  unfold sattr_ok in H. apply andb_true_iff in H as [H _]. exact H.
Qed.

Lemma no_nil_key ats E :
  spec_attrs [] ats = Some E -> has_nil ats = false ->
  filter (fun a => negb (qname_eqb (fst a) q_xsi_nil)) E = E.
Proof.
  intros Hs Hn.
  assert (Hall : forall x, In x E -> qname_eqb (fst x) q_xsi_nil = false).
  { intros x Hx. destruct (spec_attrs_origin ats [] E Hs x Hx) as [[]|[a [Ha [Hk _]]]].
    destruct (qname_eqb (fst x) q_xsi_nil) eqn:Eq; [|reflexivity].
    exfalso. unfold has_nil in Hn. assert (existsb (fun a => q_xsi_nil_pair (fst a)) ats = true); [|congruence].
    apply existsb_exists. exists a. split; [exact Ha|]. unfold q_xsi_nil_pair. rewrite q_xsi_nil_same, <- Hk. exact Eq. }
  clear Hs. induction E as [|x E IH]; [reflexivity|]. cbn [filter].
  rewrite (Hall x (or_introl eq_refl)). cbn [negb]. rewrite IH; [reflexivity|].
  intros y Hy. apply Hall. right. exact Hy.
Qed.

Lemma nil_coherent m ats E am nf content :
  Forall2 (attr_rel m) E am -> NoDup (map fst am) -> spec_attrs [] ats = Some E ->
  ((nf = true /\ (content = false \/ has_nil ats = false)) \/ (nf = false /\ content = true)) ->
  Forall2 (attr_rel m) (nil_filter content E) (flush_attrs nf am).
Proof.
  intros Hrel Hnd Hs [[-> [->|Hn]]|[-> ->]]; unfold nil_filter, flush_attrs.
  - exact Hrel.
  - destruct content; [rewrite (no_nil_key ats E Hs Hn)|]; exact Hrel.
  - apply filter_remove_rel; assumption.
Qed.

Lemma from_value_filter u0 q (f : qname * list atom -> bool) E :
  Forall (from_value u0 q) E -> Forall (from_value u0 q) (filter f E).
Proof.
  intros H. apply Forall_forall. intros x Hx. apply filter_In in Hx as [Hx _].
  rewrite Forall_forall in H. exact (H x Hx).
Qed.

Lemma spec_attrs_from u0 q ats E :
  spec_attrs [] ats = Some E ->
  forallb (sattr_ok u0) ats = true -> forallb (fun a => dq_value u0 q (attr_conv a)) ats = true ->
  Forall (from_value u0 q) E.
Proof.
  intros Hs Hg Hdq. apply Forall_forall. intros x Hx.
  destruct (spec_attrs_origin ats [] E Hs x Hx) as [[]|[a [Ha [Hk Hat]]]].
  rewrite forallb_forall in Hg, Hdq. pose proof (Hg a Ha) as Hga. pose proof (Hdq a Ha) as Hda.
  unfold sattr_ok in Hga. apply andb_true_iff in Hga as [Hga Hck].
  apply andb_true_iff in Hga as [Hga Hnn]. apply andb_true_iff in Hga as [Hga _].
  apply andb_true_iff in Hga as [_ Hvn]. apply negb_true_iff in Hnn.
  destruct a as [qa v]. cbn [fst snd] in *.
  rewrite (conv_atoms qa v Hck Hnn) in Hat. inversion Hat as [Hat'].
  exists (attr_conv (qa, v)). split; [unfold attr_conv; cbn [fst snd]; symmetry; exact Hat'|split; assumption].
Qed.

Lemma nil_filter_from u0 q content E : Forall (from_value u0 q) E -> Forall (from_value u0 q) (nil_filter content E).
Proof. unfold nil_filter. destruct content; [apply from_value_filter|tauto]. Qed.

Lemma elem_says u0 pm m q ats ks e :
  Forall (kid_says u0) ks ->
  (pm = [] \/ minv u0 pm) -> minv u0 m -> ext pm m -> env_is e pm ->
  sg_node u0 q ats ks = true -> forallb (sguard u0) ks = true ->
  exists x ds a k, denote (INode q ats ks) = [x]
                   /\ wref_elem wref pm [] m q ats ks = SNode ds q a k
                   /\ says e x (itree_of (SNode ds q a k)) = true.
Proof.
  intros HK Hpm Hm Hext He Hg Hgk.
  unfold sg_node in Hg. apply andb_true_iff in Hg as [Hg Hdq]. apply andb_true_iff in Hg as [Hg Hlate].
  apply andb_true_iff in Hg as [Hg Hnil].
  apply andb_true_iff in Hg as [Hq Hats]. unfold dq_node in Hdq. apply andb_true_iff in Hdq as [Hdqa Hdqk].
  assert (Hqu : ouri_ok (fst q) = true) by (unfold name_ok in Hq; apply andb_true_iff in Hq; tauto).
  destruct (add_namespace_ok u0 m (fst q) Hm Hqu) as [I1 [E1 _]].
  unfold wref_elem.
  pose proof (fold_attrs_ok u0 ats (add_namespace (fst q) m) [] I1 (Forall_nil _) (NoDup_nil _) (sattr_ok_wf u0 ats Hats)) as Hwf.
  pose proof (fold_attrs_rel u0 ats (add_namespace (fst q) m) [] [] I1 (Forall2_nil _) Hats) as Hrel.
  destruct (fold_attrs (add_namespace (fst q) m) [] ats) as [am m2].
  destruct Hwf as [I2 [E2 [F2 N2]]]. destruct Hrel as [E [Hs [_ [_ R2]]]].
  rewrite (denote_node q ats ks E Hs).
  pose proof (spec_attrs_from u0 q ats E Hs Hats Hdqa) as Hfrom.
  assert (Hfl : forall nf, Forall (am_entry_ok u0) (flush_attrs nf am) /\ NoDup (map fst (flush_attrs nf am))).
  { intros nf. unfold flush_attrs. destruct nf; [split; assumption|]. split.
    - apply Forall_forall. intros x Hx. apply am_remove_In in Hx. rewrite Forall_forall in F2. exact (F2 x Hx).
    - apply am_remove_nodup, N2. }
  destruct ks as [|k r].
  - (* empty element *)
    destruct (Hfl true) as [Hfa Hfn].
    eexists _, _, _, _. split; [reflexivity|split; [reflexivity|]].
    apply (node_says_core u0 pm m2 q _ _ _ _ e Hpm I2 (ext_trans _ _ _ Hext (ext_trans _ _ _ E1 E2)) He Hfa Hfn).
    + apply (nil_coherent m2 ats E am true false R2 N2 Hs). left. split; [reflexivity|left; reflexivity].
    + apply nil_filter_from, Hfrom.
    + intros e' _. reflexivity.
  - destruct k as [v|qc ac kc].
    + (* first content is character data *)
      cbn [forallb] in Hgk, Hdqk. apply andb_true_iff in Hgk as [Hgv Hgr]. apply andb_true_iff in Hdqk as [Hdv Hdr].
      cbn [sguard all_nodes] in Hgv.
      assert (Hvn : value_names_ok v = true).
      { unfold data_wf in Hgv. apply andb_true_iff in Hgv as [Hgv _]. exact Hgv. }
      pose proof (encode_data_ok u0 m2 v I2 Hvn) as Henc.
      destruct (encode_data m2 v) as [enc m2']. destruct Henc as [I3 [E3 R3]].
      destruct (Hfl (enc_is_none enc)) as [Hfa Hfn].
      eexists _, _, _, _. split; [reflexivity|split; [reflexivity|]].
      assert (Hnone : enc_is_none enc = value_none v).
      { destruct enc; cbn; [destruct R3 as [R3 _]; symmetry; exact R3|symmetry; exact R3]. }
      apply (node_says_core u0 pm m2' q _ _ _ _ e Hpm I3
               (ext_trans _ _ _ Hext (ext_trans _ _ _ E1 (ext_trans _ _ _ E2 E3))) He Hfa Hfn).
      * assert (R2' : Forall2 (attr_rel m2') E am).
        { clear -R2 E3. induction R2; constructor; [eapply attr_rel_ext; eassumption|assumption]. }
        apply (nil_coherent m2' ats E am _ _ R2' N2 Hs). rewrite Hnone. cbn [existsb kid_content].
        destruct (value_none v) eqn:Evn; cbn [negb orb].
        -- left. split; [reflexivity|]. cbn [nil_ok] in Hnil. rewrite Evn in Hnil.
           destruct (has_nil ats); [|right; reflexivity]. cbn [andb] in Hnil. left.
           clear -Hnil. induction r as [|k r IH]; [reflexivity|]. cbn [forallb existsb] in *.
           apply andb_true_iff in Hnil as [Hk Hr]. rewrite (IH Hr), orb_false_r.
           destruct k as [v'|]; [cbn [kid_content]; rewrite Hk; reflexivity|discriminate].
        -- right. split; reflexivity.
      * apply nil_filter_from, Hfrom.
      * intros e' He'.
        pose proof (flush_map_ok u0 q (flush_attrs (enc_is_none enc) am) m2' I3 Hfa) as Hf.
        set (m4 := flush_map q (flush_attrs (enc_is_none enc) am) m2') in *.
        cbn [late_ok] in Hlate.
        inversion HK as [|? ? _ HK']; subst.
        destruct (says_kids u0 r HK' m4 e' (fl_inv _ _ _ _ _ Hf) He' Hgr Hlate) as [Hs1 Hs2].
        assert (Hfirst : match denote (IData v), txt_of enc with
                         | [], [] => True
                         | [x], [SText t] => says e' x (IText t) = true /\ t <> []
                         | _, _ => False
                         end).
        { apply (enc_says u0 m4 e' v enc (fl_inv _ _ _ _ _ Hf) He' Hgv).
          destruct enc as [t|]; [|exact R3]. destruct R3 as [Hnn [ts [Hr Ht]]].
          split; [exact Hnn|]. exists ts. split; [|exact Ht].
          exact (flush_renders_all u0 q _ m2' m4 v ts Hf I3 Hdv Hvn Hr). }
        cbn [flat_map]. rewrite map_app.
        destruct (denote_data_shape v) as [Ed|[l Ed]]; rewrite Ed in Hfirst |- *;
          destruct (txt_of enc) as [|[t|ds0 q0 a0 k0] [|n2 ns]]; try contradiction.
        -- exact Hs1.
        -- destruct Hfirst as [Hsx Hne]. cbn [map app itree_of].
           apply says_cons_text; [exact Hsx|exact Hne|exact Hs1|apply merge_text_head_ne, Hs2].
    + (* first content is an element *)
      destruct (Hfl false) as [Hfa Hfn].
      eexists _, _, _, _. split; [reflexivity|split; [reflexivity|]].
      apply (node_says_core u0 pm m2 q _ _ _ _ e Hpm I2 (ext_trans _ _ _ Hext (ext_trans _ _ _ E1 E2)) He Hfa Hfn).
      * apply (nil_coherent m2 ats E am false true R2 N2 Hs). right. split; reflexivity.
      * apply nil_filter_from, Hfrom.
      * intros e' He'.
        pose proof (flush_map_ok u0 q (flush_attrs false am) m2 I2 Hfa) as Hf.
        cbn [late_ok] in Hlate.
        apply (says_kids u0 _ HK _ e' (fl_inv _ _ _ _ _ Hf) He' Hgk).
        cbn [forallb plain_kid]. exact Hlate.
Qed.

Theorem kid_says_all u0 i : kid_says u0 i.
Proof.
  induction i as [v|q ats ks IH] using item_ind2; intros m e Hinv He Hg.
  - intros Hq. cbn [sguard all_nodes] in Hg. exact (data_says u0 m e v Hinv He Hg Hq).
  - cbn [sguard all_nodes] in Hg. apply andb_true_iff in Hg as [Hn Hk].
    destruct (elem_says u0 m m q ats ks e IH (or_intror Hinv) Hinv (ext_refl m) He Hn Hk) as [x [ds [a [k [Hd [Hw Hs]]]]]].
    exists x, ds, q, a, k. split; [exact Hd|split; [|exact Hs]]. cbn [wref]. rewrite Hw. reflexivity.
Qed.

(* the document element *)
Theorem root_says u0 user q ats ks :
  minv u0 user -> sguard u0 (INode q ats ks) = true ->
  exists x ds a k, denote (INode q ats ks) = [x]
                   /\ wref_elem wref [] [] user q ats ks = SNode ds q a k
                   /\ doc_says x (itree_of (SNode ds q a k)) = true.
Proof.
  intros Hu Hg. cbn [sguard all_nodes] in Hg. apply andb_true_iff in Hg as [Hn Hk].
  apply (elem_says u0 [] user q ats ks []); try assumption.
  - apply Forall_forall. intros k _. apply kid_says_all.
  - left. reflexivity.
  - intros p u H. discriminate.
  - apply env_is_nil.
Qed.
