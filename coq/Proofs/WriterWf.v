(* Proofs/WriterWf.v — the SAX tree the writer produces (`wref`) is well-formed with
   respect to the reader's environment and the sink's context (`sn_wf`): every
   declaration is legal and survives as written, every name used has a prefix that
   XMLGenerator will find and that the reader resolves to the intended namespace,
   attribute names are distinct, text is XML text. *)
From Coq Require Import NArith List Bool Lia.
From XV Require Import Base.Str Base.Dec Base.Eqb Spec.XmlNs Gen.WriterTables Model.Writer
  Proofs.WriterTree Proofs.WriterMaps Proofs.WriterEnc Proofs.WriterCtx Proofs.WriterEscape.
Import ListNotations.
Open Scope N_scope.

(* ------------------------------------------------------------------ well-formed SAX trees *)
Definition decl_fine (d : option str * str) : Prop :=
  attr_inner_value c_quot (sax_escape_uri (snd d)) = Some (snd d) /\ decl_ok d = true /\ fst d <> Some [].

Definition name_fine (e : env) (c : nctx) (q : qname) : Prop :=
  exists lex, n_qname c q = Some lex /\ elem_name e lex = Some q.
Definition attr_fine (e : env) (c : nctx) (a : qname * option str) : Prop :=
  exists lex v, n_qname c (fst a) = Some lex /\ snd a = Some v
                /\ attr_name e lex = Some (fst a) /\ forallb is_xml_char v = true.
Definition text_fine (t : str) : Prop := t <> [] /\ forallb is_xml_char t = true.

Fixpoint sn_wf (e : env) (c : nctx) (n : snode) : Prop :=
  match n with
  | SText t => text_fine t
  | SNode ds q ats ks =>
      let e' := rev ds ++ e in
      let c' := nc_sets c ds in
      Forall decl_fine ds /\ NoDup (map fst ds)
      /\ name_fine e' c' q
      /\ Forall (attr_fine e' c') ats /\ NoDup (map fst ats)
      /\ (fix all (l : list snode) : Prop :=
            match l with [] => True | k :: r => sn_wf e' c' k /\ all r end) ks
  end.

Fixpoint all_wf (e : env) (c : nctx) (l : list snode) : Prop :=
  match l with [] => True | k :: r => sn_wf e c k /\ all_wf e c r end.
Lemma all_wf_inner e c ks :
  (fix all (l : list snode) : Prop :=
     match l with [] => True | k :: r => sn_wf e c k /\ all r end) ks <-> all_wf e c ks.
Proof. induction ks as [|k ks IH]; cbn [all_wf]; [tauto|]. rewrite IH. tauto. Qed.
Lemma sn_wf_node e c ds q ats ks :
  sn_wf e c (SNode ds q ats ks)
  <-> (Forall decl_fine ds /\ NoDup (map fst ds)
       /\ name_fine (rev ds ++ e) (nc_sets c ds) q
       /\ Forall (attr_fine (rev ds ++ e) (nc_sets c ds)) ats /\ NoDup (map fst ats)
       /\ all_wf (rev ds ++ e) (nc_sets c ds) ks).
Proof. cbn [sn_wf]. rewrite all_wf_inner. tauto. Qed.
Lemma all_wf_app e c a b : all_wf e c a -> all_wf e c b -> all_wf e c (a ++ b).
Proof. induction a as [|x a IH]; cbn; [tauto|]. intros [H1 H2] Hb. split; [exact H1|exact (IH H2 Hb)]. Qed.

(* ------------------------------------------------------------------ the local guard *)
Definition value_texts_ok (v : wvalue) : bool := forallb (forallb is_xml_char) (value_texts v).
Definition node_wf (u0 : option str) (q : qname) (ats : list (qname * wvalue)) (ks : list item) : bool :=
  name_ok q
  && forallb (fun a => attr_name_ok (fst a) && value_names_ok (attr_conv a) && value_texts_ok (attr_conv a)
                       && negb (value_none (snd a))) ats.
Definition data_wf (v : wvalue) : bool :=
  value_names_ok v && value_texts_ok v.
Definition wf_guard (u0 : option str) : item -> bool := all_nodes (node_wf u0) data_wf.

(* ------------------------------------------------------------------ characters of rendered values *)
Lemma forallb_app_iff {A} (f : A -> bool) a b : forallb f (a ++ b) = true <-> forallb f a = true /\ forallb f b = true.
Proof. rewrite forallb_app, andb_true_iff. tauto. Qed.

Lemma mem_app' c a b : mem c (a ++ b) = mem c a || mem c b.
Proof. unfold mem. apply existsb_app. Qed.

Lemma ncname_no_cr s : is_ncname s = true -> mem 13 s = false.
Proof.
  intros H. apply is_ncname_chars in H as [H _].
  induction s as [|c s IH]; [reflexivity|]. cbn [forallb] in H. apply andb_true_iff in H as [Hc Hs].
  unfold mem in *. cbn [existsb]. rewrite (IH Hs), orb_false_r.
  apply N.eqb_neq. intros E. subst c. discriminate.
Qed.

Definition legal_map (m : nsmap) : Prop := forall p u, nm_get m p = Some u -> legal_entry p u.
Lemma minv_legal u0 m : minv u0 m -> legal_map m.
Proof. intros H p u G. apply (mi_legal _ _ H). apply nm_get_In, G. Qed.

Lemma renders_chars m t q :
  legal_map m -> name_ok q = true -> renders m t q ->
  forallb is_xml_char t = true /\ mem 13 t = false /\ t <> [] /\ find_chr c_space t = None.
Proof.
  intros Hl Hq Hr. unfold name_ok in Hq. apply andb_true_iff in Hq as [Hloc _].
  assert (Hl1 : forallb is_xml_char (snd q) = true /\ mem 13 (snd q) = false /\ snd q <> [] /\ find_chr c_space (snd q) = None).
  { repeat split; [apply is_ncname_xml, Hloc|apply ncname_no_cr, Hloc|apply is_ncname_chars, Hloc|].
    apply is_ncname_no; [exact Hloc|left; reflexivity]. }
  unfold renders in Hr. destruct (fst q) as [u|]; [|subst t; exact Hl1].
  destruct Hr as [p [Hg Ht]]. destruct p as [[|x p]|]; try (subst t; exact Hl1).
  pose proof (Hl _ _ Hg) as Hleg. unfold legal_entry in Hleg. destruct Hleg as [Hnc _].
  destruct Hl1 as [A [B [C D]]]. subst t. repeat split.
  - apply forallb_app_iff. split; [apply is_ncname_xml, Hnc|]. cbn [app forallb]. rewrite A. reflexivity.
  - rewrite mem_app', (ncname_no_cr _ Hnc). cbn [app]. unfold mem. cbn [existsb]. fold (mem 13 (snd q)). rewrite B. reflexivity.
  - discriminate.
  - apply find_chr_app_none; [apply is_ncname_no; [exact Hnc|left; reflexivity]|].
    cbn [app find_chr]. change (c_colon =? c_space) with false. cbv iota. rewrite D. reflexivity.
Qed.

Lemma atom_renders_chars m t a :
  legal_map m -> atom_names_ok a = true -> atom_renders m t a ->
  (match a with AText s => forallb is_xml_char s = true | _ => True end) ->
  forallb is_xml_char t = true.
Proof.
  intros Hl Hn Hr Ht. destruct a as [s|q]; cbn in Hr.
  - subst. exact Ht.
  - unfold atom_names_ok in Hn. cbn in Hn. rewrite andb_true_r in Hn.
    apply (renders_chars m t q Hl Hn Hr).
Qed.
Lemma atom_renders_no_cr m t a :
  legal_map m -> atom_names_ok a = true -> atom_renders m t a ->
  (match a with AText s => mem 13 s = false | _ => True end) ->
  mem 13 t = false.
Proof.
  intros Hl Hn Hr Ht. destruct a as [s|q]; cbn in Hr.
  - subst. exact Ht.
  - unfold atom_names_ok in Hn. cbn in Hn. rewrite andb_true_r in Hn.
    apply (renders_chars m t q Hl Hn Hr).
Qed.

Lemma join_chars (P : N -> bool) ts :
  P c_space = true -> Forall (fun t => forallb P t = true) ts -> forallb P (join [c_space] ts) = true.
Proof.
  intros Hs H. induction H as [|t ts Ht Hts IH]; [reflexivity|].
  cbn [join]. destruct ts as [|t2 ts]; [exact Ht|].
  apply forallb_app_iff. split; [exact Ht|]. cbn [app forallb]. rewrite Hs. exact IH.
Qed.
Lemma join_no_cr ts :
  Forall (fun t => mem 13 t = false) ts -> mem 13 (join [c_space] ts) = false.
Proof.
  intros H. induction H as [|t ts Ht Hts IH]; [reflexivity|].
  cbn [join]. destruct ts as [|t2 ts]; [exact Ht|].
  rewrite mem_app', Ht. cbn [app]. unfold mem at 1. cbn [existsb]. fold (mem 13 (join [c_space] (t2 :: ts))).
  rewrite IH. reflexivity.
Qed.

Lemma value_texts_In v s : In (AText s) (value_atoms v) -> In s (value_texts v).
Proof.
  unfold value_texts. intros H. apply in_flat_map. exists (AText s). split; [exact H|left; reflexivity].
Qed.

(* characters of an encoded value *)
Lemma encoded_chars m ts l :
  legal_map m -> forallb atom_names_ok l = true ->
  Forall2 (atom_renders m) ts l ->
  (forall s, In (AText s) l -> forallb is_xml_char s = true) ->
  forallb is_xml_char (join [c_space] ts) = true.
Proof.
  intros Hl Hn Hr Ht. apply join_chars; [reflexivity|].
  induction Hr as [|t a ts l Hta Hr IH]; [constructor|].
  cbn [forallb] in Hn. apply andb_true_iff in Hn as [Ha Hn]. constructor.
  - apply (atom_renders_chars m t a Hl Ha Hta). destruct a; [apply Ht; left; reflexivity|exact I].
  - apply IH; [exact Hn|]. intros s Hs. apply Ht. right. exact Hs.
Qed.
Lemma encoded_no_cr m ts l :
  legal_map m -> forallb atom_names_ok l = true ->
  Forall2 (atom_renders m) ts l ->
  (forall s, In (AText s) l -> mem 13 s = false) ->
  mem 13 (join [c_space] ts) = false.
Proof.
  intros Hl Hn Hr Ht. apply join_no_cr.
  induction Hr as [|t a ts l Hta Hr IH]; [constructor|].
  cbn [forallb] in Hn. apply andb_true_iff in Hn as [Ha Hn]. constructor.
  - apply (atom_renders_no_cr m t a Hl Ha Hta). destruct a; [apply Ht; left; reflexivity|exact I].
  - apply IH; [exact Hn|]. intros s Hs. apply Ht. right. exact Hs.
Qed.

Lemma value_texts_forall (P : str -> bool) v :
  forallb P (value_texts v) = true -> forall s, In (AText s) (value_atoms v) -> P s = true.
Proof. intros H s Hs. rewrite forallb_forall in H. apply H, value_texts_In, Hs. Qed.

(* ------------------------------------------------------------------ attributes *)
Definition am_entry_ok (u0 : option str) (a : qname * option str) : Prop :=
  attr_name_ok (fst a) = true
  /\ exists v, snd a = Some v /\ forallb is_xml_char v = true.

Lemma qname_eqb_neq a b : qname_eqb a b = false -> a <> b.
Proof. intros H ->. rewrite qname_eqb_refl in H. discriminate. Qed.

Lemma am_set_In am q v x : In x (am_set am q v) -> x = (q, v) \/ In x am.
Proof.
  induction am as [|[q' v'] am IH]; cbn.
  - intros [H|[]]. left. symmetry. exact H.
  - destruct (qname_eqb q q') eqn:E.
    + apply qname_eqb_eq in E. subst q'. intros [H|H]; [left; symmetry; exact H|right; right; exact H].
    + intros [H|H]; [right; left; exact H|]. destruct (IH H) as [H1|H1]; [left; exact H1|right; right; exact H1].
Qed.
Lemma am_set_keys_notin am q v k : k <> q -> ~ In k (map fst am) -> ~ In k (map fst (am_set am q v)).
Proof.
  intros Hk. induction am as [|[q' v'] am IH]; cbn.
  - intros _ [H|[]]. exact (Hk (eq_sym H)).
  - destruct (qname_eqb q q') eqn:E; cbn; [tauto|].
    intros Hn [H|H]; [apply Hn; left; exact H|]. apply IH; [|exact H]. intros H1. apply Hn. right. exact H1.
Qed.
Lemma am_set_nodup am q v : NoDup (map fst am) -> NoDup (map fst (am_set am q v)).
Proof.
  induction am as [|[q' v'] am IH]; cbn; intros H.
  - constructor; [tauto|constructor].
  - inversion H as [|? ? Hni Hnd]; subst. destruct (qname_eqb q q') eqn:E; cbn.
    + constructor; assumption.
    + constructor; [|exact (IH Hnd)]. apply am_set_keys_notin; [|exact Hni].
      intros ->. rewrite qname_eqb_refl in E. discriminate.
Qed.
Lemma am_remove_In am q x : In x (am_remove am q) -> In x am.
Proof.
  induction am as [|[q' v'] am IH]; cbn; [tauto|].
  destruct (qname_eqb q q'); [intros H; right; exact H|].
  intros [H|H]; [left; exact H|right; exact (IH H)].
Qed.
Lemma am_remove_nodup am q : NoDup (map fst am) -> NoDup (map fst (am_remove am q)).
Proof.
  induction am as [|[q' v'] am IH]; cbn; [tauto|]. intros H. inversion H as [|? ? Hni Hnd]; subst.
  destruct (qname_eqb q q'); [exact Hnd|]. cbn. constructor; [|exact (IH Hnd)].
  intros Hin. apply Hni. clear -Hin. induction am as [|[a b] am IH]; cbn in *; [tauto|].
  destruct (qname_eqb q a); [right; exact Hin|]. destruct Hin as [H|H]; [left; exact H|right; exact (IH H)].
Qed.

Lemma value_none_conv q v : value_none (attr_value_conv q v) = value_none v.
Proof.
  unfold attr_value_conv. destruct (is_xsi_type q v) eqn:E; [|reflexivity].
  destruct v as [|[s|q']|l]; reflexivity.
Qed.

Lemma fold_attrs_ok u0 ats : forall m am,
  minv u0 m -> Forall (am_entry_ok u0) am -> NoDup (map fst am) ->
  forallb (fun a => attr_name_ok (fst a) && value_names_ok (attr_conv a) && value_texts_ok (attr_conv a)
                    && negb (value_none (snd a))) ats = true ->
  let '(am', m') := fold_attrs m am ats in
  minv u0 m' /\ ext m m' /\ Forall (am_entry_ok u0) am' /\ NoDup (map fst am').
Proof.
  induction ats as [|[qa v] ats IH]; intros m am Hinv Ham Hnd Hg; cbn [fold_attrs].
  - split; [exact Hinv|split; [apply ext_refl|split; assumption]].
  - cbn [forallb] in Hg. apply andb_true_iff in Hg as [Ha Hg].
    apply andb_true_iff in Ha as [Ha Hnn].
    apply andb_true_iff in Ha as [Ha Htx]. apply andb_true_iff in Ha as [Hname Hvn].
    unfold attr_conv in *. cbn [fst snd] in *.
    pose proof (encode_data_ok u0 m (attr_value_conv qa v) Hinv Hvn) as He.
    destruct (encode_data m (attr_value_conv qa v)) as [enc m1]. destruct He as [I1 [E1 R1]].
    assert (Hentry : am_entry_ok u0 (qa, enc)).
    { split; [exact Hname|]. cbn [snd].
      destruct enc as [t|].
      - destruct R1 as [_ [ts [Hr Ht]]]. exists t. split; [reflexivity|]. subst t.
        apply (encoded_chars m1 ts _ (minv_legal _ _ I1) Hvn Hr).
        apply value_texts_forall. exact Htx.
      - rewrite value_none_conv in R1. rewrite R1 in Hnn. discriminate. }
    assert (Ham' : Forall (am_entry_ok u0) (am_set am qa enc)).
    { apply Forall_forall. intros x Hx. apply am_set_In in Hx as [Hx|Hx]; [subst; exact Hentry|].
      rewrite Forall_forall in Ham. exact (Ham x Hx). }
    pose proof (IH m1 (am_set am qa enc) I1 Ham' (am_set_nodup _ _ _ Hnd) Hg) as H2.
    destruct (fold_attrs m1 (am_set am qa enc) ats) as [am' m']. destruct H2 as [I2 [E2 [F2 N2]]].
    split; [exact I2|split; [exact (ext_trans _ _ _ E1 E2)|split; assumption]].
Qed.

(* flush_map: the map of the element *)
Lemma prefix_exists_ext m m' u : NoDup (map fst m) -> ext m m' -> prefix_exists u m = true -> prefix_exists u m' = true.
Proof.
  intros Hnd He H. apply prefix_exists_iff in H as [p Hin]. apply prefix_exists_iff. exists p.
  apply nm_get_In, He, In_nm_get; assumption.
Qed.

Lemma ext_prefixed m m' u : ext m m' -> (exists p, nm_get m (Some p) = Some u) -> exists p, nm_get m' (Some p) = Some u.
Proof. intros He [p H]. exists p. apply He, H. Qed.

Lemma fold_add_namespace_ok u0 (attrs : attrmap) : forall m,
  minv u0 m -> Forall (fun a => ouri_ok (fst (fst a)) = true) attrs ->
  let m' := fold_left (fun m a => add_namespace_attr (fst (fst a)) m) attrs m in
  minv u0 m' /\ ext m m'
  /\ Forall (fun a => forall u, fst (fst a) = Some u -> u <> [] -> exists p, nm_get m' (Some p) = Some u) attrs.
Proof.
  induction attrs as [|a attrs IH]; intros m Hinv Hu; cbn [fold_left].
  - split; [exact Hinv|split; [apply ext_refl|constructor]].
  - inversion Hu as [|? ? Ha Hr]; subst.
    destruct (add_namespace_attr_ok u0 m (fst (fst a)) Hinv Ha) as [I1 [E1 P1]].
    destruct (IH _ I1 Hr) as [I2 [E2 P2]].
    split; [exact I2|split; [exact (ext_trans _ _ _ E1 E2)|]].
    constructor; [|exact P2]. intros u Hu' Hne.
    apply (ext_prefixed _ _ u E2). exact (P1 u Hu' Hne).
Qed.

Lemma attr_name_ok_uri q : attr_name_ok q = true -> ouri_ok (fst q) = true /\ is_ncname (snd q) = true.
Proof.
  unfold attr_name_ok, name_ok. intros H. apply andb_true_iff in H as [H _].
  apply andb_true_iff in H as [H1 H2]. tauto.
Qed.

Record flushed (u0 : option str) (q : qname) (attrs : attrmap) (m m4 : nsmap) : Prop := {
  fl_inv : minv u0 m4;
  fl_ext : ext_reset m m4;
  fl_keys : forall p, nm_get m p <> None -> nm_get m4 p <> None;
  fl_prefixed : forall p u, p <> None -> nm_get m p = Some u -> nm_get m4 p = Some u;
  fl_attrs : Forall (fun a => forall u, fst (fst a) = Some u -> u <> [] ->
                                        exists p, nm_get m4 (Some p) = Some u) attrs;
  fl_default : match fst q with
               | Some (_ :: _) => ext m m4
               | _ => nm_get m4 None = None \/ nm_get m4 None = Some []
               end
}.

Lemma flush_map_ok u0 q attrs m :
  minv u0 m -> Forall (am_entry_ok u0) attrs ->
  flushed u0 q attrs m (flush_map q attrs m).
Proof.
  intros Hinv Ham. unfold flush_map.
  assert (Hu : Forall (fun a => ouri_ok (fst (fst a)) = true) attrs).
  { apply Forall_forall. intros a Ha. rewrite Forall_forall in Ham.
    destruct (Ham a Ha) as [Hn _]. apply attr_name_ok_uri in Hn. tauto. }
  destruct (fold_add_namespace_ok u0 attrs m Hinv Hu) as [I3 [E3 Hpre]].
  set (m3 := fold_left (fun m a => add_namespace_attr (fst (fst a)) m) attrs m) in *.
  destruct (negb (truthy (fst q)) && nm_has_key m3 None) eqn:Er.
  - apply andb_true_iff in Er as [Eq Ek].
    destruct (reset_default_ok u0 m3 I3 Ek) as [I4 [K4 D4]].
    constructor.
    + exact I4.
    + intros p u Hg. destruct p as [p|].
      * left. apply K4; [discriminate|apply E3, Hg].
      * right. split; [reflexivity|exact D4].
    + intros p Hp. destruct p as [p|].
      * destruct (nm_get m (Some p)) as [u|] eqn:G; [|contradiction].
        rewrite (K4 (Some p) u); [discriminate|discriminate|apply E3, G].
      * rewrite D4. discriminate.
    + intros p u Hp Hg. apply K4; [exact Hp|apply E3, Hg].
    + apply Forall_forall. intros a Ha u Hau Hne. rewrite Forall_forall in Hpre.
      destruct (Hpre a Ha u Hau Hne) as [p Hg]. exists p. apply K4; [discriminate|exact Hg].
    + unfold truthy in Eq. destruct (fst q) as [[|x r]|]; try discriminate; right; exact D4.
  - constructor.
    + exact I3.
    + intros p u Hg. left. apply E3, Hg.
    + intros p Hp. destruct (nm_get m p) as [u|] eqn:G; [|contradiction]. rewrite (E3 p u G). discriminate.
    + intros p u _ Hg. apply E3, Hg.
    + exact Hpre.
    + unfold truthy in Er. destruct (fst q) as [[|x r]|]; cbn [negb andb] in Er.
      * left. unfold nm_has_key in Er. destruct (nm_get m3 None); [discriminate|reflexivity].
      * exact E3.
      * left. unfold nm_has_key in Er. destruct (nm_get m3 None); [discriminate|reflexivity].
Qed.

(* ------------------------------------------------------------------ names *)
Lemma split_lex_plain l : is_ncname l = true -> split_lex l = Some (None, l).
Proof.
  intros H. unfold split_lex. rewrite (is_ncname_no l c_colon H) by (right; left; reflexivity).
  rewrite H. reflexivity.
Qed.
Lemma split_lex_prefixed p l :
  is_ncname p = true -> is_ncname l = true -> split_lex (p ++ [c_colon] ++ l) = Some (Some p, l).
Proof.
  intros Hp Hl. unfold split_lex. cbn [app].
  rewrite (find_chr_app_stop c_colon p l) by (apply is_ncname_no; [exact Hp|right; left; reflexivity]).
  rewrite firstn_app_exact, skipn_app_exact, Hp, Hl. reflexivity.
Qed.

Lemma legal_some_nonempty m p u : legal_map m -> nm_get m (Some p) = Some u -> is_ncname p = true /\ u <> [] /\ p <> [].
Proof.
  intros Hl Hg. pose proof (Hl _ _ Hg) as H. unfold legal_entry in H. destruct H as [H1 [_ [H3 _]]].
  split; [exact H1|split].
  - intros ->. discriminate.
  - intros ->. discriminate.
Qed.

Lemma lookup_prefix_ok e m p u :
  env_is e m -> legal_map m -> nm_get m (Some p) = Some u -> lookup_prefix e p = Some u.
Proof.
  intros He Hl Hg. pose proof (Hl _ _ Hg) as H. unfold legal_entry in H. destruct H as [_ [_ [Hu Hx]]].
  unfold lookup_prefix. destruct (str_eqb_spec p s_xml) as [E|E].
  - apply Hx in E. subst u. reflexivity.
  - rewrite He, Hg. destruct u; [discriminate|reflexivity].
Qed.
Lemma default_ns_some e m u : env_is e m -> nm_get m None = Some u -> u <> [] -> default_ns e = Some u.
Proof. intros He Hg Hu. unfold default_ns. rewrite He, Hg. destruct u; [contradiction|reflexivity]. Qed.
Lemma default_ns_none e m :
  env_is e m -> (nm_get m None = None \/ nm_get m None = Some []) -> default_ns e = None.
Proof. intros He [H|H]; unfold default_ns; rewrite He, H; reflexivity. Qed.

(* element names *)
Lemma elem_name_fine u0 e c m q :
  minv u0 m -> env_is e m -> ctx_maps c m -> name_ok q = true ->
  match fst q with
  | Some u => exists p, nm_get m p = Some u
  | None => nm_get m None = None \/ nm_get m None = Some []
  end ->
  name_fine e c q.
Proof.
  intros Hinv He Hc Hq Hb. pose proof (minv_legal _ _ Hinv) as Hl.
  destruct q as [ou l]. unfold name_ok in Hq. cbn [fst snd] in *. apply andb_true_iff in Hq as [Hloc Hu].
  unfold name_fine. destruct ou as [u|].
  - cbn in Hu. assert (Hne : u <> []) by (intros ->; discriminate).
    destruct Hb as [p Hp]. destruct (Hc p u Hp Hne) as [p' [Hc' Hp']].
    unfold n_qname. cbn [fst snd]. destruct u as [|x u]; [contradiction|]. set (uu := x :: u) in *.
    unfold sax_xml_ns. destruct (str_eqb_spec ns_xml uu) as [E|E].
    + exists (s_xml ++ [c_colon] ++ l). split; [reflexivity|].
      unfold elem_name. rewrite split_lex_prefixed by (reflexivity || exact Hloc).
      change (str_eqb s_xml s_xmlns) with false. cbv iota.
      unfold lookup_prefix. rewrite str_eqb_refl. rewrite E. reflexivity.
    + rewrite Hc'. destruct p' as [[|y p']|].
      * destruct (legal_some_nonempty _ _ _ Hl Hp') as [_ [_ H]]. contradiction.
      * destruct (legal_some_nonempty _ _ _ Hl Hp') as [Hnc _].
        exists ((y :: p') ++ [c_colon] ++ l). split; [reflexivity|].
        unfold elem_name. rewrite split_lex_prefixed by assumption.
        pose proof (Hl _ _ Hp') as Hleg. unfold legal_entry in Hleg. destruct Hleg as [_ [Hnx _]].
        rewrite (str_eqb_neq _ _ Hnx). rewrite (lookup_prefix_ok e m _ _ He Hl Hp'). reflexivity.
      * exists l. split; [reflexivity|]. unfold elem_name. rewrite split_lex_plain by exact Hloc.
        rewrite (default_ns_some e m uu He Hp' Hne). reflexivity.
  - exists l. split; [reflexivity|]. unfold elem_name. rewrite split_lex_plain by exact Hloc.
    rewrite (default_ns_none e m He Hb). reflexivity.
Qed.

(* attribute names *)
Lemma attr_name_fine u0 e c m a :
  minv u0 m -> env_is e m -> ctx_maps c m -> ctx_pref c m -> am_entry_ok u0 a ->
  (forall u, fst (fst a) = Some u -> u <> [] -> exists p, nm_get m (Some p) = Some u) ->
  attr_fine e c a.
Proof.
  intros Hinv He Hc Hcp [Hn [v [Hv Hx]]] Hb. pose proof (minv_legal _ _ Hinv) as Hl.
  destruct a as [[ou l] val]. cbn [fst snd] in *.
  unfold attr_name_ok, name_ok in Hn. cbn [fst snd] in Hn.
  apply andb_true_iff in Hn as [Hn Hxm]. apply andb_true_iff in Hn as [Hloc Hu].
  unfold attr_fine. cbn [fst snd].
  destruct ou as [u|].
  - cbn in Hu. assert (Hne : u <> []) by (intros ->; discriminate).
    destruct (Hb u eq_refl Hne) as [p Hp]. destruct (Hc _ u Hp Hne) as [p' [Hc' Hp']].
    unfold n_qname. cbn [fst snd]. destruct u as [|x u]; [contradiction|]. set (uu := x :: u) in *.
    unfold sax_xml_ns. destruct (str_eqb_spec ns_xml uu) as [E|E].
    + exists (s_xml ++ [c_colon] ++ l), v. split; [reflexivity|split; [exact Hv|split; [|exact Hx]]].
      unfold attr_name. rewrite split_lex_prefixed by (reflexivity || exact Hloc).
      change (str_eqb s_xml s_xmlns) with false. cbv iota.
      unfold lookup_prefix. rewrite str_eqb_refl. rewrite E. reflexivity.
    + rewrite Hc'. destruct p' as [[|y p']|].
      * destruct (legal_some_nonempty _ _ _ Hl Hp') as [_ [_ H]]. contradiction.
      * destruct (legal_some_nonempty _ _ _ Hl Hp') as [Hnc _].
        exists ((y :: p') ++ [c_colon] ++ l), v. split; [reflexivity|split; [exact Hv|split; [|exact Hx]]].
        unfold attr_name. rewrite split_lex_prefixed by assumption.
        pose proof (Hl _ _ Hp') as Hleg. unfold legal_entry in Hleg. destruct Hleg as [_ [Hnx _]].
        rewrite (str_eqb_neq _ _ Hnx). rewrite (lookup_prefix_ok e m _ _ He Hl Hp'). reflexivity.
      * (* the context never names the default prefix for a namespace with a prefixed binding *)
        exfalso. exact (Hcp p uu Hp Hc').
  - exists l, v. split; [reflexivity|split; [exact Hv|split; [|exact Hx]]].
    unfold attr_name. rewrite split_lex_plain by exact Hloc.
    cbn in Hxm. apply negb_true_iff in Hxm. rewrite Hxm. reflexivity.
Qed.

(* declarations *)
Lemma uri_ok_chars u : uri_ok u = true -> forallb is_xml_char u = true.
Proof.
  unfold uri_ok. destruct u as [|c u]; [discriminate|]. intros H. apply andb_true_iff in H as [H _].
  rewrite forallb_forall in *. intros x Hx. specialize (H x Hx). unfold uri_char_ok in H.
  apply andb_true_iff in H as [H _]. exact H.
Qed.

Lemma legal_decl_fine p u : legal_entry p u -> decl_fine (p, u).
Proof.
  intros H. unfold decl_fine. cbn [fst snd].
  assert (Hval : attr_inner_value c_quot (sax_escape_uri u) = Some u).
  { apply uri_escape_value. destruct p as [p|]; cbn in H.
    - destruct H as [_ [_ [Hu _]]]. apply uri_ok_chars, Hu.
    - destruct H as [->|[Hu _]]; [reflexivity|apply uri_ok_chars, Hu]. }
  split; [exact Hval|]. destruct p as [p|]; cbn in H.
  - destruct H as [Hnc [Hnx [Hu Hxml]]]. split; [|intros E; inversion E; subst; discriminate].
    unfold decl_ok. rewrite Hnc. rewrite (str_eqb_neq _ _ Hnx). cbn [negb andb].
    unfold uri_ok in Hu. destruct u as [|x u]; [discriminate|]. apply andb_true_iff in Hu as [_ Hu].
    rewrite Hu. cbn [andb].
    destruct (str_eqb_spec p s_xml) as [E|E]; destruct (str_eqb_spec (x :: u) ns_xml) as [E2|E2]; try reflexivity.
    + apply Hxml in E. contradiction.
    + apply Hxml in E2. contradiction.
  - split; [|discriminate]. unfold decl_ok. destruct H as [->|[Hu Hx]]; [reflexivity|].
    rewrite (str_eqb_neq _ _ Hx). unfold uri_ok in Hu. destruct u; [discriminate|].
    apply andb_true_iff in Hu as [_ Hu]. rewrite Hu. reflexivity.
Qed.

(* ------------------------------------------------------------------ one element *)
Lemma node_wf_core u0 pm m2 q attrs kids_s e c :
  (pm = [] \/ minv u0 pm) -> minv u0 m2 -> ext pm m2 -> env_is e pm -> ctx_maps c pm -> ctx_pref c pm ->
  name_ok q = true ->
  (forall u, fst q = Some u -> exists p, nm_get m2 p = Some u) ->
  Forall (am_entry_ok u0) attrs -> NoDup (map fst attrs) ->
  (forall e' c', env_is e' (flush_map q attrs m2) -> ctx_maps c' (flush_map q attrs m2) ->
                 ctx_pref c' (flush_map q attrs m2) -> all_wf e' c' kids_s) ->
  sn_wf e c (SNode (changed_entries pm (flush_map q attrs m2)) q attrs kids_s).
Proof.
  intros Hpm Hm2 Hext He Hc Hcp Hq Hqb Ham Hnd Hkids.
  pose proof (flush_map_ok u0 q attrs m2 Hm2 Ham) as Hf.
  set (m4 := flush_map q attrs m2) in *.
  set (ch := changed_entries pm m4).
  assert (Hnd4 : NoDup (map fst m4)) by exact (mi_uniq _ _ (fl_inv _ _ _ _ _ Hf)).
  assert (Hext4 : ext_reset pm m4).
  { intros p u Hg. apply (fl_ext _ _ _ _ _ Hf), Hext, Hg. }
  assert (Hkeys : forall p, nm_get pm p <> None -> nm_get m4 p <> None).
  { intros p Hp. apply (fl_keys _ _ _ _ _ Hf). destruct (nm_get pm p) as [u|] eqn:G; [|contradiction].
    rewrite (Hext p u G). discriminate. }
  pose proof (env_is_step e pm m4 He Hnd4 Hkeys) as He'.
  assert (Hnone : forall u, u <> [] -> nm_get m4 None = Some u -> pm = [] \/ nm_get pm None = Some u).
  { intros u Hu Hg. destruct Hpm as [Hpm|Hpm]; [left; exact Hpm|right].
    destruct (mi_default_user _ _ (fl_inv _ _ _ _ _ Hf) u Hg) as [H|H]; [contradiction|].
    pose proof (mi_has_default _ _ Hpm u H) as Hk.
    destruct (nm_get pm None) as [x|] eqn:G; [|contradiction].
    destruct (Hext4 None x G) as [H1|[_ H1]]; rewrite H1 in Hg; inversion Hg; subst; [reflexivity|contradiction]. }
  destruct (ctx_step u0 c pm m4 Hc Hcp (fl_inv _ _ _ _ _ Hf) Hext4 Hnone) as [Hc' Hcp'].
  fold ch in He', Hc', Hcp'.
  apply sn_wf_node. repeat split.
  - apply Forall_forall. intros [p u] Hin. unfold ch, changed_entries in Hin. apply filter_In in Hin as [Hin _].
    apply legal_decl_fine. exact (mi_legal _ _ (fl_inv _ _ _ _ _ Hf) _ _ Hin).
  - apply filter_keys_nodup, Hnd4.
  - apply (elem_name_fine u0 _ _ m4 q (fl_inv _ _ _ _ _ Hf) He' Hc' Hq).
    pose proof (fl_default _ _ _ _ _ Hf) as Hd.
    destruct q as [[[|x u]|] l]; cbn [fst] in *.
    + unfold name_ok in Hq. cbn in Hq. rewrite andb_false_r in Hq. discriminate.
    + destruct (Hqb _ eq_refl) as [p Hp]. exists p. apply Hd, Hp.
    + exact Hd.
  - apply Forall_forall. intros a Ha. rewrite Forall_forall in Ham.
    apply (attr_name_fine u0 _ _ m4 a (fl_inv _ _ _ _ _ Hf) He' Hc' Hcp' (Ham a Ha)).
    pose proof (fl_attrs _ _ _ _ _ Hf) as Hfa. rewrite Forall_forall in Hfa. exact (Hfa a Ha).
  - exact Hnd.
  - apply Hkids; assumption.
Qed.

Lemma txt_of_fine u0 m v :
  minv u0 m -> data_wf v = true ->
  let '(enc, m') := encode_data m v in
  minv u0 m' /\ ext m m' /\ (forall e c, all_wf e c (txt_of enc)).
Proof.
  intros Hinv Hd. unfold data_wf in Hd. apply andb_true_iff in Hd as [Hn Ht].
  pose proof (encode_data_ok u0 m v Hinv Hn) as H.
  destruct (encode_data m v) as [enc m']. destruct H as [Hi [E R]].
  split; [exact Hi|split; [exact E|]]. intros e c.
  destruct enc as [[|x t]|]; cbn [txt_of all_wf]; try exact I; try tauto.
  split; [|exact I]. cbn [sn_wf]. destruct R as [_ [ts [Hr Hj]]].
  unfold text_fine. split; [discriminate|]. rewrite Hj.
  apply (encoded_chars m' ts _ (minv_legal _ _ Hi) Hn Hr). apply value_texts_forall. exact Ht.
Qed.

Definition kid_wf (u0 : option str) (W : nsmap -> item -> list snode) (k : item) : Prop :=
  forall m e c, minv u0 m -> env_is e m -> ctx_maps c m -> ctx_pref c m -> wf_guard u0 k = true -> all_wf e c (W m k).

Lemma kids_wf u0 W ks m e c :
  Forall (kid_wf u0 W) ks -> minv u0 m -> env_is e m -> ctx_maps c m -> ctx_pref c m ->
  forallb (wf_guard u0) ks = true -> all_wf e c (flat_map (W m) ks).
Proof.
  intros HW Hinv He Hc Hcp. induction HW as [|k ks Hk _ IH]; intros Hg; [exact I|].
  cbn [forallb] in Hg. apply andb_true_iff in Hg as [Hgk Hgs]. cbn [flat_map].
  apply all_wf_app; [exact (Hk m e c Hinv He Hc Hcp Hgk)|exact (IH Hgs)].
Qed.

Lemma elem_wf u0 W pm a0 m q ats ks e c :
  Forall (kid_wf u0 W) ks ->
  (pm = [] \/ minv u0 pm) -> minv u0 m -> ext pm m -> env_is e pm -> ctx_maps c pm -> ctx_pref c pm ->
  Forall (am_entry_ok u0) a0 -> NoDup (map fst a0) ->
  node_wf u0 q ats ks = true -> forallb (wf_guard u0) ks = true ->
  sn_wf e c (wref_elem W pm a0 m q ats ks).
Proof.
  intros HW Hpm Hm Hext He Hc Hcp Ha0 Hnd0 Hnode Hkids.
  unfold node_wf in Hnode. apply andb_true_iff in Hnode as [Hq Hats].
  unfold wref_elem.
  assert (Hqu : ouri_ok (fst q) = true) by (unfold name_ok in Hq; apply andb_true_iff in Hq; tauto).
  destruct (add_namespace_ok u0 m (fst q) Hm Hqu) as [I1 [E1 P1]].
  pose proof (fold_attrs_ok u0 ats (add_namespace (fst q) m) a0 I1 Ha0 Hnd0 Hats) as Hf.
  destruct (fold_attrs (add_namespace (fst q) m) a0 ats) as [am m2]. destruct Hf as [I2 [E2 [F2 N2]]].
  assert (Hqb1 : forall u, fst q = Some u -> exists p, nm_get (add_namespace (fst q) m) p = Some u).
  { intros u Hu. assert (Hne : u <> []).
    { intros ->. rewrite Hu in Hqu. discriminate. }
    pose proof (P1 u Hu Hne) as Hp. apply prefix_exists_iff in Hp as [p Hin]. exists p.
    exact (minv_In_get _ _ _ _ I1 Hin). }
  assert (Hfl : forall nil, Forall (am_entry_ok u0) (flush_attrs nil am) /\ NoDup (map fst (flush_attrs nil am))).
  { intros nil. unfold flush_attrs. destruct nil; [split; assumption|]. split.
    - apply Forall_forall. intros x Hx. apply am_remove_In in Hx. rewrite Forall_forall in F2. exact (F2 x Hx).
    - apply am_remove_nodup, N2. }
  destruct ks as [|k ks'].
  - destruct (Hfl true) as [Hfa Hfn].
    apply (node_wf_core u0 pm m2 q _ _ e c Hpm I2 (ext_trans _ _ _ Hext (ext_trans _ _ _ E1 E2)) He Hc Hcp Hq); try assumption.
    + intros u Hu. destruct (Hqb1 u Hu) as [p Hp]. exists p. apply E2, Hp.
    + intros; exact I.
  - destruct k as [v|qc atc kc].
    + cbn [forallb] in Hkids. apply andb_true_iff in Hkids as [Hv Hrest]. cbn [wf_guard all_nodes] in Hv.
      pose proof (txt_of_fine u0 m2 v I2 Hv) as Ht.
      destruct (encode_data m2 v) as [enc m2']. destruct Ht as [I3 [E3 T3]].
      destruct (Hfl (enc_is_none enc)) as [Hfa Hfn].
      apply (node_wf_core u0 pm m2' q _ _ e c Hpm I3
               (ext_trans _ _ _ Hext (ext_trans _ _ _ E1 (ext_trans _ _ _ E2 E3))) He Hc Hcp Hq); try assumption.
      * intros u Hu. destruct (Hqb1 u Hu) as [p Hp]. exists p. apply E3, E2, Hp.
      * intros e' c' He' Hc' Hcp'. apply all_wf_app; [apply T3|].
        inversion HW as [|? ? _ HW']; subst.
        apply (kids_wf u0 W ks' _ e' c' HW'); try assumption.
        exact (fl_inv _ _ _ _ _ (flush_map_ok u0 q _ m2' I3 Hfa)).
    + destruct (Hfl false) as [Hfa Hfn].
      apply (node_wf_core u0 pm m2 q _ _ e c Hpm I2 (ext_trans _ _ _ Hext (ext_trans _ _ _ E1 E2)) He Hc Hcp Hq); try assumption.
      * intros u Hu. destruct (Hqb1 u Hu) as [p Hp]. exists p. apply E2, Hp.
      * intros e' c' He' Hc' Hcp'. apply (kids_wf u0 W _ _ e' c' HW); try assumption.
        exact (fl_inv _ _ _ _ _ (flush_map_ok u0 q _ m2 I2 Hfa)).
Qed.

Theorem wref_wf u0 i : kid_wf u0 wref i.
Proof.
  induction i as [v|q ats ks IH] using item_ind2; intros m e c Hinv He Hc Hcp Hg.
  - cbn [wf_guard all_nodes] in Hg. cbn [wref].
    pose proof (txt_of_fine u0 m v Hinv Hg) as H. destruct (encode_data m v) as [enc m']. cbn [fst].
    destruct H as [_ [_ H]]. apply H.
  - cbn [wf_guard all_nodes] in Hg. apply andb_true_iff in Hg as [Hn Hk]. cbn [wref all_wf]. split; [|exact I].
    apply (elem_wf u0 wref m [] m q ats ks e c IH (or_intror Hinv) Hinv (ext_refl m) He Hc Hcp); try assumption; constructor.
Qed.

(* the document element *)
Theorem wref_root_wf u0 user a0 q ats ks :
  minv u0 user -> Forall (am_entry_ok u0) a0 -> NoDup (map fst a0) ->
  wf_guard u0 (INode q ats ks) = true ->
  sn_wf [] [] (wref_root user a0 q ats ks).
Proof.
  intros Hu Ha0 Hnd Hg. cbn [wf_guard all_nodes] in Hg. apply andb_true_iff in Hg as [Hn Hk].
  unfold wref_root.
  apply (elem_wf u0 wref [] a0 user q ats ks [] []); try assumption.
  - apply Forall_forall. intros k _. apply wref_wf.
  - left. reflexivity.
  - intros p u H. discriminate.
  - apply env_is_nil.
  - apply ctx_maps_nil.
  - apply ctx_pref_nil.
Qed.
