(* Proofs/RoundtripText.v — the round trip at the text level (C01): composition of the infoset-level
   theorem with property C03's writer theorems (Proofs/WriterSound.v: inside `writer_guard` the
   native writer prints a well-formed document whose infoset SAYS what the events say; the tree
   the lxml writer builds is that infoset) and with the reading of documents of
   Proofs/RoundtripDoc.v (the XML reader's event stream for an infoset tree, also after
   indentation white space was added to element-only content). *)
From Coq Require Import NArith ZArith List Bool Lia Arith.
From XV Require Import Base.Str Base.Eqb Base.PyInt Spec.XmlNs Model.Writer Proofs.WriterSound
  Model.Bind Model.WriterBridge Spec.Fits Model.RoundtripCorr
  Proofs.RoundtripBase Proofs.RoundtripGen Proofs.RoundtripTree Proofs.RoundtripParse Proofs.RoundtripPump
  Proofs.RoundtripMain Proofs.RoundtripDoc.
From XV Require Model.EventGen Model.Parser.
Import ListNotations.
Open Scope N_scope.

Lemma expected_plain wcfg evs :
  cfg_schema_location wcfg = None -> cfg_no_ns_schema_location wcfg = None ->
  expected wcfg evs = itree_of_events evs.
Proof.
  intros H1 H2. unfold expected, expected_tree. rewrite H1, H2. cbn [root_extra app].
  unfold with_root_attrs. destruct evs as [|[q|q v|v|q] r]; reflexivity.
Qed.

Section Text.
  Variable cfg : Parser.pconfig.
  Variable c : conv.
  Variable u : universe.
  Variable ok : prim -> bool.
  Variable ign : bool.
  Hypothesis conv_law : conv_roundtrips c u ok.
  Hypothesis Hnodef : nodefault_free cfg = true.

  Notation fits := (fits c u ok py_isspace).

  (* every document tree that says the expected tree — possibly after indentation — is read and
     parsed back to the instance *)
  Theorem document_parses : forall n cl o e,
    wf_model u cl = true -> fits n cl o = true -> noq o = true -> exact_classes u n cl o = true -> nomaps_u u = true ->
    e = etop c u ign n o ->
    forall t' m k,
      wf_doc t' = true -> doc_says e (strip_indent t') = true ->
      Parser.parse_n k cfg c u (Some cl) (pump_doc m t' None) = Parser.Ok o [].
  Proof.
    intros n cl o e Hwf Hfit Hnq Hex Hnm -> t' m k Hwd Hs.
    apply (parse_reads cfg c u ok ign conv_law Hnodef false n k cl o _ (or_intror Hnm) Hwf Hfit).
    apply (doc_reads _ (plain_obj c u ok ign n cl o None _ (wf_model_wfr u cl Hwf) Hfit Hnq Hex (nil_ok_top c u ok cl o n Hfit)) [] m t' None Hwd eq_refl Hs).
  Qed.

  (* XmlEventWriter *)
  Theorem roundtrip_native : forall n cl o wcfg user,
    wf_model u cl = true -> fits n cl o = true -> noq o = true -> exact_classes u n cl o = true -> nomaps_u u = true ->
    cfg_schema_location wcfg = None -> cfg_no_ns_schema_location wcfg = None ->
    exists evs,
      EventGen.generate ign c u o = EventGen.Ok evs
      /\ (writer_guard wcfg user (map (of_wevent c) evs) = true ->
          exists d t,
            run_native wcfg user (map (of_wevent c) evs) = inl d /\ resolve d = Some t
            /\ forall t' m k,
                 wf_doc t' = true -> strip_indent t' = strip_indent t ->
                 Parser.parse_n k cfg c u (Some cl) (pump_doc m t' None) = Parser.Ok o []).
  Proof.
    intros n cl o wcfg user Hwf Hfit Hnq Hex Hnm Hc1 Hc2. pose proof (wf_model_wfr u cl Hwf) as Hw.
    exists (bflat (add_nil_g (cnil u o) (gobj c u ign n None o))). split; [apply (generate_ok c u ok ign n cl o Hwf Hfit)|].
    intros Hg. destruct (writer_sound_native wcfg user _ Hg) as [e [d [t [He [Hrun [Hres Hsays]]]]]].
    rewrite (expected_plain wcfg _ Hc1 Hc2) in He.
    rewrite (events_mean c u ok py_isspace ign n cl o Hw Hfit) in He. inversion He; subst e. clear He.
    exists d, t. split; [exact Hrun|]. split; [exact Hres|].
    intros t' m k Hwd Hst.
    apply (document_parses n cl o _ Hwf Hfit Hnq Hex Hnm eq_refl t' m k Hwd).
    unfold doc_says in *. rewrite Hst. apply says_strip; [|exact Hsays].
    apply (plain_obj c u ok ign n cl o None _ Hw Hfit Hnq Hex (nil_ok_top c u ok cl o n Hfit)).
  Qed.

  (* LxmlEventWriter *)
  Theorem roundtrip_lxml : forall n cl o wcfg user,
    wf_model u cl = true -> fits n cl o = true -> noq o = true -> exact_classes u n cl o = true -> nomaps_u u = true ->
    cfg_schema_location wcfg = None -> cfg_no_ns_schema_location wcfg = None ->
    exists evs,
      EventGen.generate ign c u o = EventGen.Ok evs
      /\ (writer_guard wcfg user (map (of_wevent c) evs) = true ->
          lxml_domain wcfg user (map (of_wevent c) evs) = true ->
          exists t,
            run_lxml wcfg user (map (of_wevent c) evs) = inl t
            /\ forall t' m k,
                 wf_doc t' = true -> strip_indent t' = strip_indent t ->
                 Parser.parse_n k cfg c u (Some cl) (pump_doc m t' None) = Parser.Ok o []).
  Proof.
    intros n cl o wcfg user Hwf Hfit Hnq Hex Hnm Hc1 Hc2. pose proof (wf_model_wfr u cl Hwf) as Hw.
    exists (bflat (add_nil_g (cnil u o) (gobj c u ign n None o))). split; [apply (generate_ok c u ok ign n cl o Hwf Hfit)|].
    intros Hg Hd. destruct (writer_sound_lxml wcfg user _ Hg Hd) as [e [t [He [Hrun Hsays]]]].
    rewrite (expected_plain wcfg _ Hc1 Hc2) in He.
    rewrite (events_mean c u ok py_isspace ign n cl o Hw Hfit) in He. inversion He; subst e. clear He.
    exists t. split; [exact Hrun|].
    intros t' m k Hwd Hst.
    apply (document_parses n cl o _ Hwf Hfit Hnq Hex Hnm eq_refl t' m k Hwd).
    unfold doc_says in *. rewrite Hst. apply says_strip; [|exact Hsays].
    apply (plain_obj c u ok ign n cl o None _ Hw Hfit Hnq Hex (nil_ok_top c u ok cl o n Hfit)).
  Qed.
End Text.
