(* Proofs/GenericParse.v — what the parser builds, as a function of the infoset:
   running the event stream of a tree through WildcardNode.child/bind yields
   `any_of` of the tree, for any visibility oracle, at any depth, inside any
   enclosing node queue. *)
From Coq Require Import NArith ZArith List Bool Lia.
From XV Require Import Base.Str Base.Eqb Base.PyInt Gen.GenericTables Spec.Infoset Model.Generic.
Import ListNotations.
Open Scope N_scope.

Section Mapi.
  Context {A B : Type} (f : nat -> A -> B).
  Fixpoint mapi (i : nat) (l : list A) : list B :=
    match l with [] => [] | x :: r => f i x :: mapi (S i) r end.
End Mapi.

Lemma mapi_length {A B} (f : nat -> A -> B) i l : length (mapi f i l) = length l.
Proof. revert i; induction l as [|x l IH]; intros i; cbn; [reflexivity| now rewrite IH]. Qed.

Lemma mapi_nil_iff {A B} (f : nat -> A -> B) i l : mapi f i l = [] <-> l = [].
Proof. destruct l; cbn; split; congruence. Qed.

(* the generic tree the parser builds for an element *)
Fixpoint any_of (o : oracle) (m : nsmap) (p : node_id) (t : itree) : gval :=
  match t with
  | INode n a d x ks l =>
      let m' := d ++ m in
      let kids := mapi (fun i k => any_of o m' (i :: p) k) 0 ks in
      let text := cut (o_text o p) x in
      let text1 := match kids with [] => text | _ => normalize_content text end in
      GAny (Some n) (match text1 with None => Some [] | t' => t' end)
           (normalize_content (cut (o_tail o p) l)) kids (parse_any_attributes m' a)
  end.

Definition any_kids (o : oracle) (m' : nsmap) (p : node_id) (i : nat) (ks : list itree) : list gval :=
  mapi (fun i k => any_of o m' (i :: p) k) i ks.

Lemma any_of_eq o m p n a d x ks l :
  any_of o m p (INode n a d x ks l) =
  let m' := d ++ m in
  let kids := any_kids o m' p 0 ks in
  let text := cut (o_text o p) x in
  let text1 := match kids with [] => text | _ => normalize_content text end in
  GAny (Some n) (match text1 with None => Some [] | t' => t' end)
       (normalize_content (cut (o_tail o p) l)) kids (parse_any_attributes m' a).
Proof. reflexivity. Qed.

Definition keyed (vq : str) (vs : list gval) : objects := map (fun v => (Some vq, v)) vs.

Lemma keyed_snd vq vs : map snd (keyed vq vs) = vs.
Proof. unfold keyed. rewrite map_map. cbn. apply map_id. Qed.

Lemma keyed_app vq a b : keyed vq (a ++ b) = keyed vq a ++ keyed vq b.
Proof. apply map_app. Qed.

Lemma prun_app m a b st :
  prun m (a ++ b) st = match prun m a st with Ok st' => prun m b st' | Err e => Err e end.
Proof.
  revert st; induction a as [|e a IH]; intros st; cbn; [reflexivity|].
  destruct (pstep m st e); [apply IH|reflexivity].
Qed.

Lemma skipn_app_exact {A} (a b : list A) : skipn (length a) (a ++ b) = b.
Proof. induction a; cbn; auto. Qed.
Lemma firstn_app_exact {A} (a b : list A) : firstn (length a) (a ++ b) = a.
Proof. induction a; cbn; [reflexivity| now f_equal]. Qed.

(* the statement proved by induction on the tree *)
Definition wild_ok (t : itree) : Prop :=
  forall md o m p vq a0 ns0 pos0 Q objs dn rest,
    prun md (pump o m p t ++ rest) (mkP (NWild vq a0 ns0 pos0 :: Q) objs dn)
    = prun md rest (mkP (NWild vq a0 ns0 pos0 :: Q) (objs ++ [(Some vq, any_of o m p t)]) dn).

(* a forest below a freshly pushed wildcard node *)
Lemma wild_forest ks :
  Forall wild_ok ks ->
  forall md o m' p i vq a ns pos Q objs dn rest,
    prun md (flat_mapi (fun i k => pump o m' (i :: p) k) i ks ++ rest) (mkP (NWild vq a ns pos :: Q) objs dn)
    = prun md rest (mkP (NWild vq a ns pos :: Q) (objs ++ keyed vq (any_kids o m' p i ks)) dn).
Proof.
  induction 1 as [|k ks Hk Hks IH]; intros md o m' p i vq a ns pos Q objs dn rest.
  - cbn. rewrite app_nil_r. reflexivity.
  - cbn [flat_mapi]. rewrite <- app_assoc. rewrite Hk. rewrite IH.
    unfold any_kids. cbn [mapi keyed map]. rewrite <- app_assoc. reflexivity.
Qed.

(* the events between an element's start and the end of its end event, once the
   start event has pushed a wildcard node at position |objs| *)
Lemma wild_body ks :
  Forall wild_ok ks ->
  forall md o m' p vq a n tx tl Q objs dn rest,
    prun md (flat_mapi (fun i k => pump o m' (i :: p) k) 0 ks ++ PEnd n tx tl :: rest)
         (mkP (NWild vq a m' (length objs) :: Q) objs dn)
    = prun md rest
        (mkP Q (objs ++ [(Some vq,
                          let kids := any_kids o m' p 0 ks in
                          let text1 := match kids with [] => tx | _ => normalize_content tx end in
                          GAny (Some n) (match text1 with None => Some [] | t' => t' end)
                               (normalize_content tl) kids (parse_any_attributes m' a))]) dn).
Proof.
  intros Hks md o m' p vq a n tx tl Q objs dn rest.
  rewrite (wild_forest ks Hks). cbn [prun pstep pend p_queue p_objs p_done].
  unfold bind_wild. rewrite skipn_app_exact, firstn_app_exact, keyed_snd. reflexivity.
Qed.

Theorem wild_ok_all t : wild_ok t.
Proof.
  induction t as [n a d x ks l IH] using itree_ind'.
  intros md o m p vq a0 ns0 pos0 Q objs dn rest.
  cbn [pump]. cbn [app prun pstep pstart p_queue p_objs p_done].
  rewrite <- app_assoc. cbn [app].
  rewrite (wild_body ks IH). reflexivity.
Qed.

(* ---- the stand-alone TreeParser ---------------------------------------- *)
Theorem tree_parse_pump o m p t : tree_parse (pump o m p t) = Some (any_of o m p t).
Proof.
  destruct t as [n a d x ks l]. unfold tree_parse. cbn [pump].
  cbn [prun pstep pstart pinit p_queue p_objs p_done].
  destruct (split_qname n) as [nsu name].
  change (@nil (option str * gval)) with (@nil (option str * gval)).
  pose proof (wild_body ks) as B.
  assert (F : Forall wild_ok ks) by (apply Forall_forall; intros; apply wild_ok_all).
  specialize (B F MTree o (d ++ m) p
                (build_qname (default_namespace match nsu with Some u => [u] | None => [] end) name)
                a n (cut (o_text o p) x) (cut (o_tail o p) l) [] [] None []).
  cbn [length] in B. rewrite B. cbn [prun p_queue p_objs app rev].
  reflexivity.
Qed.
