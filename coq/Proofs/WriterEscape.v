(* Proofs/WriterEscape.v — hostile text is safe: the XML parser's reading of what
   XMLGenerator's escape / quoteattr wrote is the original value.
   Guards dictated by the faithful escaping model: character data must not contain CR
   (escape() leaves it raw and the parser's line-end normalisation turns it into LF);
   attribute values need no such guard (quoteattr writes &#13; &#10; &#9;). *)
From Coq Require Import NArith List Bool Lia.
From XV Require Import Base.Str Spec.XmlNs Model.Writer.
Import ListNotations.
Open Scope N_scope.

(* ------------------------------------------------------------------ replace = char-wise map *)
Lemma replace_chr_app c r a b : replace_chr c r (a ++ b) = replace_chr c r a ++ replace_chr c r b.
Proof. unfold replace_chr. apply flat_map_app. Qed.

Definition esc1 (c : N) : str :=
  if c =? 38 then e_amp else if c =? 62 then e_gt else if c =? 60 then e_lt else [c].

Lemma sax_escape_cons c s : sax_escape (c :: s) = esc1 c ++ sax_escape s.
Proof.
  unfold sax_escape, esc1.
  change (replace_chr c_amp e_amp (c :: s))
    with ((if c =? c_amp then e_amp else [c]) ++ replace_chr c_amp e_amp s).
  rewrite !replace_chr_app. f_equal.
  unfold c_amp, c_gt, c_lt.
  destruct (c =? 38) eqn:E38; [reflexivity|].
  cbn [replace_chr flat_map app]. unfold c_gt.
  destruct (c =? 62) eqn:E62; [reflexivity|].
  cbn [replace_chr flat_map app].
  destruct (c =? 60) eqn:E60; reflexivity.
Qed.

Lemma sax_escape_flat s : sax_escape s = flat_map esc1 s.
Proof.
  induction s as [|c s IH]; [reflexivity|].
  rewrite sax_escape_cons, IH. reflexivity.
Qed.

(* quoteattr's data before quoting *)
Definition qa_data (s : str) : str :=
  replace_chr 9 e_tab (replace_chr 13 e_cr (replace_chr 10 e_nl (sax_escape s))).
Definition esc2 (c : N) : str :=
  if c =? 38 then e_amp else if c =? 62 then e_gt else if c =? 60 then e_lt
  else if c =? 10 then e_nl else if c =? 13 then e_cr else if c =? 9 then e_tab else [c].

Lemma qa_data_cons c s : qa_data (c :: s) = esc2 c ++ qa_data s.
Proof.
  unfold qa_data. rewrite sax_escape_cons, !replace_chr_app. f_equal.
  unfold esc1, esc2.
  destruct (c =? 38) eqn:E38; [reflexivity|].
  destruct (c =? 62) eqn:E62; [reflexivity|].
  destruct (c =? 60) eqn:E60; [reflexivity|].
  cbn [replace_chr flat_map app].
  destruct (c =? 10) eqn:E10; [reflexivity|].
  cbn [replace_chr flat_map app].
  destruct (c =? 13) eqn:E13; [reflexivity|].
  cbn [replace_chr flat_map app].
  destruct (c =? 9) eqn:E9; reflexivity.
Qed.
Lemma qa_data_flat s : qa_data s = flat_map esc2 s.
Proof.
  induction s as [|c s IH]; [reflexivity|]. rewrite qa_data_cons, IH. reflexivity.
Qed.

Definition esc3 (c : N) : str := if c =? 34 then e_quot else esc2 c.
Lemma esc2_no_quote_in_refs c : c <> 34 -> replace_chr c_quot e_quot (esc2 c) = esc2 c.
Proof.
  intros Hc. unfold esc2.
  destruct (c =? 38); [reflexivity|]. destruct (c =? 62); [reflexivity|].
  destruct (c =? 60); [reflexivity|]. destruct (c =? 10); [reflexivity|].
  destruct (c =? 13); [reflexivity|]. destruct (c =? 9); [reflexivity|].
  cbn. unfold c_quot. destruct (c =? 34) eqn:E; [apply N.eqb_eq in E; contradiction|reflexivity].
Qed.
Lemma replace_quot_flat s : replace_chr c_quot e_quot (flat_map esc2 s) = flat_map esc3 s.
Proof.
  induction s as [|c s IH]; [reflexivity|].
  cbn [flat_map]. rewrite replace_chr_app, IH. f_equal.
  unfold esc3. destruct (c =? 34) eqn:E.
  - apply N.eqb_eq in E. subst c. reflexivity.
  - apply esc2_no_quote_in_refs. intros ->. discriminate.
Qed.

(* ------------------------------------------------------------------ the reader on escaped text *)
Lemma expand_amp lit r : expand lit None (e_amp ++ r) = option_map (cons 38) (expand lit None r).
Proof. reflexivity. Qed.
Lemma expand_gt lit r : expand lit None (e_gt ++ r) = option_map (cons 62) (expand lit None r).
Proof. reflexivity. Qed.
Lemma expand_lt lit r : expand lit None (e_lt ++ r) = option_map (cons 60) (expand lit None r).
Proof. reflexivity. Qed.
Lemma expand_quot lit r : expand lit None (e_quot ++ r) = option_map (cons 34) (expand lit None r).
Proof. reflexivity. Qed.
Lemma expand_nl lit r : expand lit None (e_nl ++ r) = option_map (cons 10) (expand lit None r).
Proof. reflexivity. Qed.
Lemma expand_cr lit r : expand lit None (e_cr ++ r) = option_map (cons 13) (expand lit None r).
Proof. reflexivity. Qed.
Lemma expand_tab lit r : expand lit None (e_tab ++ r) = option_map (cons 9) (expand lit None r).
Proof. reflexivity. Qed.

Lemma expand_plain lit c r :
  (c =? 38) = false -> (c =? 60) = false -> is_xml_char c = true ->
  expand lit None (c :: r) = option_map (cons (lit c)) (expand lit None r).
Proof.
  intros H1 H2 H3. cbn [expand]. unfold c_amp, c_lt. rewrite H1, H2, H3. reflexivity.
Qed.

Lemma expand_esc1 s :
  forallb is_xml_char s = true -> expand (fun c => c) None (flat_map esc1 s) = Some s.
Proof.
  induction s as [|c s IH]; intros H; [reflexivity|].
  cbn [forallb] in H. apply andb_true_iff in H as [Hc Hs].
  change (flat_map esc1 (c :: s)) with (esc1 c ++ flat_map esc1 s). unfold esc1 at 1.
  destruct (c =? 38) eqn:E38.
  { apply N.eqb_eq in E38. subst. rewrite expand_amp, IH by exact Hs. reflexivity. }
  destruct (c =? 62) eqn:E62.
  { apply N.eqb_eq in E62. subst. rewrite expand_gt, IH by exact Hs. reflexivity. }
  destruct (c =? 60) eqn:E60.
  { apply N.eqb_eq in E60. subst. rewrite expand_lt, IH by exact Hs. reflexivity. }
  cbn [app]. rewrite expand_plain by assumption. rewrite IH by exact Hs. reflexivity.
Qed.

(* attribute values: literal tab/LF/CR never occur in the escaped data, so att_lit is inert *)
Lemma expand_esc3 s :
  forallb is_xml_char s = true -> expand att_lit None (flat_map esc3 s) = Some s.
Proof.
  induction s as [|c s IH]; intros H; [reflexivity|].
  cbn [forallb] in H. apply andb_true_iff in H as [Hc Hs].
  change (flat_map esc3 (c :: s)) with (esc3 c ++ flat_map esc3 s). unfold esc3 at 1. unfold esc2.
  destruct (c =? 34) eqn:E34.
  { apply N.eqb_eq in E34. subst. rewrite expand_quot, IH by exact Hs. reflexivity. }
  destruct (c =? 38) eqn:E38.
  { apply N.eqb_eq in E38. subst. rewrite expand_amp, IH by exact Hs. reflexivity. }
  destruct (c =? 62) eqn:E62.
  { apply N.eqb_eq in E62. subst. rewrite expand_gt, IH by exact Hs. reflexivity. }
  destruct (c =? 60) eqn:E60.
  { apply N.eqb_eq in E60. subst. rewrite expand_lt, IH by exact Hs. reflexivity. }
  destruct (c =? 10) eqn:E10.
  { apply N.eqb_eq in E10. subst. rewrite expand_nl, IH by exact Hs. reflexivity. }
  destruct (c =? 13) eqn:E13.
  { apply N.eqb_eq in E13. subst. rewrite expand_cr, IH by exact Hs. reflexivity. }
  destruct (c =? 9) eqn:E9.
  { apply N.eqb_eq in E9. subst. rewrite expand_tab, IH by exact Hs. reflexivity. }
  cbn [app]. rewrite expand_plain by assumption. rewrite IH by exact Hs.
  unfold att_lit. rewrite E9, E10, E13. reflexivity.
Qed.
Lemma expand_esc2 s :
  forallb is_xml_char s = true -> expand att_lit None (flat_map esc2 s) = Some s.
Proof.
  induction s as [|c s IH]; intros H; [reflexivity|].
  cbn [forallb] in H. apply andb_true_iff in H as [Hc Hs].
  change (flat_map esc2 (c :: s)) with (esc2 c ++ flat_map esc2 s). unfold esc2 at 1.
  destruct (c =? 38) eqn:E38.
  { apply N.eqb_eq in E38. subst. rewrite expand_amp, IH by exact Hs. reflexivity. }
  destruct (c =? 62) eqn:E62.
  { apply N.eqb_eq in E62. subst. rewrite expand_gt, IH by exact Hs. reflexivity. }
  destruct (c =? 60) eqn:E60.
  { apply N.eqb_eq in E60. subst. rewrite expand_lt, IH by exact Hs. reflexivity. }
  destruct (c =? 10) eqn:E10.
  { apply N.eqb_eq in E10. subst. rewrite expand_nl, IH by exact Hs. reflexivity. }
  destruct (c =? 13) eqn:E13.
  { apply N.eqb_eq in E13. subst. rewrite expand_cr, IH by exact Hs. reflexivity. }
  destruct (c =? 9) eqn:E9.
  { apply N.eqb_eq in E9. subst. rewrite expand_tab, IH by exact Hs. reflexivity. }
  cbn [app]. rewrite expand_plain by assumption. rewrite IH by exact Hs.
  unfold att_lit. rewrite E9, E10, E13. reflexivity.
Qed.

(* ------------------------------------------------------------------ absence of characters *)
Lemma mem_app c a b : mem c (a ++ b) = mem c a || mem c b.
Proof. unfold mem. apply existsb_app. Qed.

Lemma mem_flat_map_false c (f : N -> str) s :
  (forall x, mem c (f x) = false) -> mem c (flat_map f s) = false.
Proof.
  intros H. induction s as [|x s IH]; [reflexivity|].
  cbn [flat_map]. rewrite mem_app, H, IH. reflexivity.
Qed.
Lemma mem_flat_map_char c (f : N -> str) s :
  (forall x, mem c (f x) = (c =? x)) -> mem c (flat_map f s) = mem c s.
Proof.
  intros H. induction s as [|x s IH]; [reflexivity|].
  cbn [flat_map]. rewrite mem_app, H, IH. reflexivity.
Qed.

Lemma esc1_no_gt x : mem 62 (esc1 x) = false.
Proof.
  unfold esc1. destruct (x =? 38); [reflexivity|].
  destruct (x =? 62) eqn:E62; [reflexivity|]. destruct (x =? 60); [reflexivity|].
  unfold mem; cbn [existsb]. rewrite N.eqb_sym, E62. reflexivity.
Qed.
Lemma esc1_cr x : mem 13 (esc1 x) = (13 =? x).
Proof.
  unfold esc1. destruct (x =? 38) eqn:E1; [apply N.eqb_eq in E1; subst; reflexivity|].
  destruct (x =? 62) eqn:E2; [apply N.eqb_eq in E2; subst; reflexivity|].
  destruct (x =? 60) eqn:E3; [apply N.eqb_eq in E3; subst; reflexivity|].
  unfold mem; cbn [existsb]. apply orb_false_r.
Qed.
Lemma esc2_no_cr x : mem 13 (esc2 x) = false.
Proof.
  unfold esc2. destruct (x =? 38); [reflexivity|]. destruct (x =? 62); [reflexivity|].
  destruct (x =? 60); [reflexivity|]. destruct (x =? 10); [reflexivity|].
  destruct (x =? 13) eqn:E13; [reflexivity|]. destruct (x =? 9); [reflexivity|].
  unfold mem; cbn [existsb]. rewrite N.eqb_sym, E13. reflexivity.
Qed.
Lemma esc3_no_cr x : mem 13 (esc3 x) = false.
Proof. unfold esc3. destruct (x =? 34); [reflexivity|apply esc2_no_cr]. Qed.
Lemma esc3_no_quot x : mem 34 (esc3 x) = false.
Proof.
  unfold esc3. destruct (x =? 34) eqn:E; [reflexivity|].
  unfold esc2. destruct (x =? 38); [reflexivity|]. destruct (x =? 62); [reflexivity|].
  destruct (x =? 60); [reflexivity|]. destruct (x =? 10); [reflexivity|].
  destruct (x =? 13); [reflexivity|]. destruct (x =? 9); [reflexivity|].
  unfold mem; cbn [existsb]. rewrite N.eqb_sym, E. reflexivity.
Qed.

Lemma norm_eol_no_cr s : mem 13 s = false -> norm_eol s = s.
Proof.
  induction s as [|c s IH]; intros H; [reflexivity|].
  unfold mem in H. cbn [existsb] in H. apply orb_false_iff in H as [Hc Hs].
  cbn [norm_eol]. rewrite N.eqb_sym in Hc. rewrite Hc. f_equal. apply IH. exact Hs.
Qed.

Lemma has_cdata_end_needs_gt s : mem 62 s = false -> has_cdata_end s = false.
Proof.
  induction s as [|a s IH]; intros H; [reflexivity|].
  unfold mem in H. cbn [existsb] in H. apply orb_false_iff in H as [Ha Hs].
  cbn [has_cdata_end]. rewrite (IH Hs), orb_false_r.
  destruct s as [|b [|c r]]; try reflexivity.
  unfold mem in Hs. cbn [existsb] in Hs. apply orb_false_iff in Hs as [_ Hs].
  apply orb_false_iff in Hs as [Hc _].
  unfold c_gt. rewrite N.eqb_sym in Hc. rewrite Hc, andb_false_r. reflexivity.
Qed.

(* ------------------------------------------------------------------ the theorems *)
(* character data as XmlEventWriter writes it: escape, then CR as a character reference *)
Definition esc1t (c : N) : str :=
  if c =? 38 then e_amp else if c =? 62 then e_gt else if c =? 60 then e_lt else if c =? 13 then e_cr else [c].

Lemma sax_escape_text_cons c s : sax_escape_text (c :: s) = esc1t c ++ sax_escape_text s.
Proof.
  unfold sax_escape_text. rewrite sax_escape_cons, replace_chr_app. f_equal.
  unfold esc1, esc1t.
  destruct (c =? 38) eqn:E38; [reflexivity|].
  destruct (c =? 62) eqn:E62; [reflexivity|].
  destruct (c =? 60) eqn:E60; [reflexivity|].
  cbn [replace_chr flat_map app]. destruct (c =? 13); reflexivity.
Qed.
Lemma sax_escape_text_flat s : sax_escape_text s = flat_map esc1t s.
Proof. induction s as [|c s IH]; [reflexivity|]. rewrite sax_escape_text_cons, IH. reflexivity. Qed.

Lemma esc1t_no_gt x : mem 62 (esc1t x) = false.
Proof.
  unfold esc1t. destruct (x =? 38); [reflexivity|].
  destruct (x =? 62) eqn:E62; [reflexivity|]. destruct (x =? 60); [reflexivity|]. destruct (x =? 13); [reflexivity|].
  unfold mem; cbn [existsb]. rewrite N.eqb_sym, E62. reflexivity.
Qed.
Lemma esc1t_no_cr x : mem 13 (esc1t x) = false.
Proof.
  unfold esc1t. destruct (x =? 38); [reflexivity|]. destruct (x =? 62); [reflexivity|].
  destruct (x =? 60); [reflexivity|]. destruct (x =? 13) eqn:E13; [reflexivity|].
  unfold mem; cbn [existsb]. rewrite N.eqb_sym, E13. reflexivity.
Qed.
Lemma expand_esc1t s :
  forallb is_xml_char s = true -> expand (fun c => c) None (flat_map esc1t s) = Some s.
Proof.
  induction s as [|c s IH]; intros H; [reflexivity|].
  cbn [forallb] in H. apply andb_true_iff in H as [Hc Hs].
  change (flat_map esc1t (c :: s)) with (esc1t c ++ flat_map esc1t s). unfold esc1t at 1.
  destruct (c =? 38) eqn:E38.
  { apply N.eqb_eq in E38. subst. rewrite expand_amp, IH by exact Hs. reflexivity. }
  destruct (c =? 62) eqn:E62.
  { apply N.eqb_eq in E62. subst. rewrite expand_gt, IH by exact Hs. reflexivity. }
  destruct (c =? 60) eqn:E60.
  { apply N.eqb_eq in E60. subst. rewrite expand_lt, IH by exact Hs. reflexivity. }
  destruct (c =? 13) eqn:E13.
  { apply N.eqb_eq in E13. subst. rewrite expand_cr, IH by exact Hs. reflexivity. }
  cbn [app]. rewrite expand_plain by assumption. rewrite IH by exact Hs. reflexivity.
Qed.

(* character data: no guard beyond XML Char (the CR guard went away with the repair of
   XmlEventWriter) *)
Theorem hostile_text_safe_data s :
  forallb is_xml_char s = true -> text_value (sax_escape_text s) = Some s.
Proof.
  intros Hx. unfold text_value. rewrite sax_escape_text_flat.
  rewrite has_cdata_end_needs_gt by (apply mem_flat_map_false, esc1t_no_gt).
  rewrite norm_eol_no_cr by (apply mem_flat_map_false, esc1t_no_cr).
  apply expand_esc1t, Hx.
Qed.

Lemma attr_value_wrap q inner :
  (q =? c_quot) || (q =? c_apos) = true ->
  attr_value (q :: inner ++ [q]) = attr_inner_value q inner.
Proof.
  intros Hq. unfold attr_value. rewrite Hq.
  rewrite rev_app_distr. cbn [rev app]. rewrite N.eqb_refl, rev_involutive. reflexivity.
Qed.

(* attribute values: no guard beyond XML Char *)
Theorem hostile_text_safe_attr s :
  forallb is_xml_char s = true -> attr_value (sax_quoteattr s) = Some s.
Proof.
  intros Hx. unfold sax_quoteattr. fold (qa_data s). rewrite qa_data_flat.
  destruct (mem c_quot (flat_map esc2 s)) eqn:Hq.
  - destruct (mem c_apos (flat_map esc2 s)) eqn:Ha.
    + rewrite replace_quot_flat.
      change ([c_quot] ++ flat_map esc3 s ++ [c_quot]) with (c_quot :: flat_map esc3 s ++ [c_quot]).
      rewrite attr_value_wrap by reflexivity.
      unfold attr_inner_value.
      rewrite (mem_flat_map_false c_quot esc3 s esc3_no_quot).
      rewrite norm_eol_no_cr by (apply mem_flat_map_false, esc3_no_cr).
      apply expand_esc3, Hx.
    + change ([c_apos] ++ flat_map esc2 s ++ [c_apos]) with (c_apos :: flat_map esc2 s ++ [c_apos]).
      rewrite attr_value_wrap by reflexivity.
      unfold attr_inner_value. rewrite Ha.
      rewrite norm_eol_no_cr by (apply mem_flat_map_false, esc2_no_cr).
      apply expand_esc2, Hx.
  - change ([c_quot] ++ flat_map esc2 s ++ [c_quot]) with (c_quot :: flat_map esc2 s ++ [c_quot]).
    rewrite attr_value_wrap by reflexivity.
    unfold attr_inner_value. rewrite Hq.
    rewrite norm_eol_no_cr by (apply mem_flat_map_false, esc2_no_cr).
    apply expand_esc2, Hx.
Qed.

(* what the repair removed: XMLGenerator's own escape() loses a carriage return *)
Lemma stdlib_escape_loses_cr :
  exists s, forallb is_xml_char s = true /\ text_value (sax_escape s) <> Some s.
Proof. exists [97; 13; 98]. split; [reflexivity|]. vm_compute. discriminate. Qed.

(* a namespace URI as the repaired native writer puts it between the double quotes of a
   namespace declaration *)
Lemma sax_escape_uri_flat u : sax_escape_uri u = flat_map esc3 u.
Proof. unfold sax_escape_uri. fold (qa_data u). rewrite qa_data_flat. apply replace_quot_flat. Qed.

Theorem uri_escape_value u :
  forallb is_xml_char u = true -> attr_inner_value c_quot (sax_escape_uri u) = Some u.
Proof.
  intros Hx. rewrite sax_escape_uri_flat. unfold attr_inner_value.
  rewrite (mem_flat_map_false c_quot esc3 u esc3_no_quot).
  rewrite norm_eol_no_cr by (apply mem_flat_map_false, esc3_no_cr).
  apply expand_esc3, Hx.
Qed.
