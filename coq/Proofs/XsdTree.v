(* Proofs/XsdTree.v — from pairs to documents.
   The harness proposes which generated class binds which schema type; Model/XsdCorr.v checks every pair
   (content_check: the word-level validator) and that the pairing is CLOSED (decl_closed: the class a child
   element is routed to is paired with the child's declared type).  This file shows what that gives:
     tree_accepted   closed, checked pairs  ->  every schema-valid element tree whose root type is paired with
                     the root class is accepted by the binding abstract at every node, recursively
   Element trees carry names and types only: attributes and text are covered by check_attrs_sound /
   type_compat per node; children matched by wildcards are generic (AnyElement) and not descended into, so
   the statement is about trees all of whose children are declared (no wildcard-matched child). *)
From Coq Require Import NArith List Bool Arith Lia.
From XV Require Import Base.Str Base.Eqb Spec.Cm Spec.XsdVal Spec.XsdCm Model.XsdCorr Proofs.Cm Proofs.XsdCm.
Import ListNotations.
Local Close Scope N_scope.
Local Open Scope nat_scope.

Inductive stree := ST (q : name) (t : nat) (kids : list stree).
Definition st_name (s : stree) : name := match s with ST q _ _ => q end.
Definition st_type (s : stree) : nat := match s with ST _ t _ => t end.

(* schema validity of the element structure: the children word is in the language of the type's content model,
   every child is declared and has its declared type *)
Inductive tvalid (S : schema) : stree -> Prop :=
| TV q t kids :
    xlang (tdef_cm (get_type S t)) (map st_name kids) ->
    Forall (fun k => exists x, find_decl (get_type S t) (st_name k) = Some x /\ st_type k = xd_type x /\ tvalid S k) kids ->
    tvalid S (ST q t kids).

(* the binding abstract on trees: the slot assignment accepts the children word, and every child is accepted
   by every class a field for its name may hold *)
Inductive baccepts (p : program) : nat -> stree -> Prop :=
| BA c q t kids :
    xaccepts_word (xk_meta (get_class p c)) (map st_name kids) = true ->
    Forall (fun k => forall c', In (TClass c') (targets_of (get_class p c) (st_name k)) -> baccepts p c' k) kids ->
    baccepts p c (ST q t kids).

(* what the per-program evaluation of pair_flags establishes (flags 0 and 4 of every pair) *)
Definition pairs_checked (p : program) : Prop :=
  forall t c, pair_mem p t c = true ->
    content_check (get_type (p_schema p) t) (get_class p c) = true
    /\ forallb (decl_closed p (get_class p c)) (td_decls (get_type (p_schema p) t)) = true.

Lemma xlang_seq_nil w : xlang (XSeq []) w -> w = [].
Proof. intros H. inversion H. reflexivity. Qed.

Lemma xaccepts_nil m : xno_required m = true -> xaccepts_word m [] = true.
Proof.
  unfold xaccepts_word, xno_required, xrequired_ok, xinit_slots. cbn [xrun_slots]. intros H.
  induction (xm_fields m) as [|f r IH]; [reflexivity|]. cbn [map forallb fst snd] in *.
  apply andb_true_iff in H as [H1 H2]. rewrite IH by exact H2. rewrite orb_false_r. rewrite H1. reflexivity.
Qed.

Lemma content_check_accepts d k w :
  content_check d k = true -> xlang (tdef_cm d) w -> xaccepts_word (xk_meta k) w = true.
Proof.
  unfold content_check, tdef_cm. destruct (td_content d) as [|st|c|c]; intros H HL.
  - apply xlang_seq_nil in HL. subst. apply xaccepts_nil. exact H.
  - apply xlang_seq_nil in HL. subst. apply andb_true_iff in H as [_ H]. apply xaccepts_nil. exact H.
  - eapply xcheck_sound; eauto.
  - apply andb_true_iff in H as [H _]. eapply xcheck_sound; eauto.
Qed.

Lemma find_decl_in d q x : find_decl d q = Some x -> In x (td_decls d) /\ xd_name x = q.
Proof.
  unfold find_decl. intros H. apply find_some in H as [Hin E]. apply name_eqb_eq in E. auto.
Qed.

(* a closed declaration: every class a child of that name may be routed to is paired with the declared type *)
Lemma decl_closed_pairs p k x c' :
  decl_closed p k x = true -> In (TClass c') (targets_of k (xd_name x)) -> pair_mem p (xd_type x) c' = true.
Proof.
  unfold decl_closed. intros H Hin. apply andb_true_iff in H as [_ H]. rewrite forallb_forall in H.
  specialize (H _ Hin). cbn beta iota in H.
  destruct (is_simple_type (get_type (p_schema p) (xd_type x))); [exact H|].
  apply andb_true_iff in H as [H _]. exact H.
Qed.

Theorem tree_accepted p :
  pairs_checked p ->
  forall tr, tvalid (p_schema p) tr -> forall c, pair_mem p (st_type tr) c = true -> baccepts p c tr.
Proof.
  intros HP. fix IH 2. intros tr Hv. destruct Hv as [q t kids HL HF]. intros c Hc. cbn [st_type] in Hc.
  destruct (HP t c Hc) as [Hcont Hclosed]. constructor.
  - eapply content_check_accepts; eauto.
  - clear HL. induction HF as [|k ks Hk _ IHF]; constructor; [|exact IHF].
    destruct Hk as [x [Hfd [Hty Hvk]]]. intros c' Hin.
    destruct (find_decl_in _ _ _ Hfd) as [Hinx Hname].
    rewrite forallb_forall in Hclosed. specialize (Hclosed x Hinx).
    apply IH; [exact Hvk|]. rewrite Hty. eapply decl_closed_pairs; [exact Hclosed|]. rewrite Hname. exact Hin.
Qed.
