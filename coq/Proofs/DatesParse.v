(* Proofs/DatesParse.v — the DateTimeParser model on XSD-valid spellings. *)
From Coq Require Import NArith ZArith List Bool Lia ZifyBool.
From XV Require Import Base.Str Base.Dec Base.PyInt Gen.DatesTables Model.Dates Spec.XsdDates Proofs.DatesCal.
Import ListNotations.
Open Scope Z_scope.
Ltac Zify.zify_post_hook ::= Z.to_euclidean_division_equations.

(* ---- small facts about the interpreter tables ----------------------- *)
Lemma xml_ws_py_space c : xml_ws c = true -> py_isspace c = true.
Proof.
  unfold xml_ws. intros H.
  repeat (apply orb_true_iff in H as [H|H]); apply N.eqb_eq in H; subst; vm_compute; reflexivity.
Qed.

Lemma forallb_xml_ws_py a : forallb xml_ws a = true -> forallb py_isspace a = true.
Proof.
  induction a as [|c a IH]; cbn [forallb]; [reflexivity|]. intros H.
  apply andb_true_iff in H as [Hc Ha]. rewrite (xml_ws_py_space c Hc). auto.
Qed.

Lemma not_isdigit_45 : py_isdigit 45 = false. Proof. vm_compute; reflexivity. Qed.
Lemma not_isdigit_43 : py_isdigit 43 = false. Proof. vm_compute; reflexivity. Qed.
Lemma not_isdigit_90 : py_isdigit 90 = false. Proof. vm_compute; reflexivity. Qed.
Lemma not_isdigit_84 : py_isdigit 84 = false. Proof. vm_compute; reflexivity. Qed.
Lemma not_space_45 : py_isspace 45 = false. Proof. vm_compute; reflexivity. Qed.
Lemma not_space_90 : py_isspace 90 = false. Proof. vm_compute; reflexivity. Qed.

(* ---- two-digit fields ------------------------------------------------ *)
Lemma d2_digits n : 0 <= n <= 99 -> all_digits (d2 n) = true.
Proof.
  intros H. unfold d2, all_digits. cbn [forallb]. rewrite !andb_true_iff. repeat split;
    apply is_ascii_digit_range; lia.
Qed.

Lemma d2_val n : 0 <= n <= 99 -> Z.of_N (str_val (d2 n)) = n.
Proof.
  intros H. unfold d2, str_val. cbn [str_val_acc]. unfold digit_of. lia.
Qed.

Lemma parse_digits_2 a b rest :
  is_ascii_digit a = true -> is_ascii_digit b = true ->
  parse_digits 2 (a :: b :: rest) = Some (Z.of_N (str_val [a; b]), rest).
Proof.
  intros Ha Hb. unfold parse_digits. cbn [length Nat.ltb Nat.leb firstn skipn].
  rewrite py_int_digits; [reflexivity| cbn; rewrite Ha, Hb; reflexivity | discriminate | cbn; unfold py_max_str_digits; lia].
Qed.

Lemma parse_digits_d2 n rest :
  0 <= n <= 99 -> parse_digits 2 (d2 n ++ rest) = Some (n, rest).
Proof.
  intros H. pose proof (d2_digits n H) as D. pose proof (d2_val n H) as V.
  unfold d2 in *. cbn [app]. cbn in D. apply andb_true_iff in D as [Da D].
  apply andb_true_iff in D as [Db _]. rewrite parse_digits_2 by assumption. rewrite V. reflexivity.
Qed.

(* ---- the year -------------------------------------------------------- *)
Lemma count_leading_le c s : (count_leading c s <= length s)%nat.
Proof. induction s as [|x s IH]; cbn; [lia|]. destruct (N.eqb x c); cbn; lia. Qed.

Lemma count_leading_split s :
  s = repeat_chr 48 (count_leading 48 s) ++ skipn (count_leading 48 s) s.
Proof.
  induction s as [|x s IH]; cbn; [reflexivity|].
  destruct (N.eqb_spec x 48) as [->|]; cbn; [f_equal; exact IH|reflexivity].
Qed.

Lemma all_digits_skipn k s : all_digits s = true -> all_digits (skipn k s) = true.
Proof.
  revert s; induction k as [|k IH]; intros [|c s] H; cbn; auto.
  cbn in H. apply andb_true_iff in H as [_ H]. auto.
Qed.

Lemma all_digits_firstn k s : all_digits s = true -> all_digits (firstn k s) = true.
Proof.
  revert s; induction k as [|k IH]; intros [|c s] H; cbn; auto.
  cbn in H. apply andb_true_iff in H as [Hc H]. rewrite Hc. cbn. auto.
Qed.

Lemma str_val_lt_pow_lz s :
  all_digits s = true ->
  (str_val s < 10 ^ N.of_nat (length s - count_leading 48 s))%N.
Proof.
  intros H. rewrite (count_leading_split s) at 1. rewrite str_val_zeros_app.
  pose proof (str_val_lt_pow _ (all_digits_skipn (count_leading 48 s) s H)) as L.
  rewrite skipn_length in L. exact L.
Qed.

Lemma forallb_isdigit_of_digits s : all_digits s = true -> forallb py_isdigit s = true.
Proof.
  induction s as [|c s IH]; cbn [forallb all_digits]; [reflexivity|]. intros H.
  apply andb_true_iff in H as [Hc Hs]. rewrite (py_isdigit_ascii c Hc). auto.
Qed.

Definition year_len_ok (y : year_sp) : Prop := (N.of_nat (length (y_digits y)) <= py_max_str_digits)%N.

Lemma year_lz_ok ds :
  all_digits ds = true ->
  ((length ds =? 4)%nat || ((4 <? length ds)%nat && negb (N.eqb (hd 48%N ds) 48))) = true ->
  year_lz_bad (count_leading 48 ds) (Z.of_N (str_val ds)) = false.
Proof.
  intros D W. pose proof (str_val_lt_pow_lz ds D) as L. pose proof (count_leading_le 48 ds) as K.
  apply orb_true_iff in W as [W|W].
  - apply Nat.eqb_eq in W. rewrite W in *.
    unfold year_lz_bad.
    destruct (count_leading 48 ds) as [|[|[|[|[|k]]]]]; cbn [Nat.eqb Nat.ltb Nat.leb andb orb] in *;
      try reflexivity; try lia.
    + cbn in L. rewrite !orb_false_r. destruct (999 <? Z.of_N (str_val ds)) eqn:E; [lia|reflexivity].
    + cbn in L. destruct (99 <? Z.of_N (str_val ds)) eqn:E; [lia|reflexivity].
    + cbn in L. destruct (9 <? Z.of_N (str_val ds)) eqn:E; [lia|reflexivity].
    + cbn in L. destruct (0 <? Z.of_N (str_val ds)) eqn:E; [lia|reflexivity].
  - apply andb_true_iff in W as [W1 W2]. destruct ds as [|c r]; [cbn in W1; discriminate|].
    cbn in W2. cbn [count_leading]. apply negb_true_iff in W2. rewrite W2. reflexivity.
Qed.

Definition rest_nondigit (rest : str) : Prop :=
  match rest with [] => True | c :: _ => py_isdigit c = false end.

Lemma span_digits_rest ds rest :
  all_digits ds = true -> rest_nondigit rest -> span py_isdigit (ds ++ rest) = (ds, rest).
Proof.
  intros D R. destruct rest as [|c r].
  - rewrite app_nil_r. apply span_all. apply forallb_isdigit_of_digits; exact D.
  - apply span_app_stop; [apply forallb_isdigit_of_digits; exact D|exact R].
Qed.

Lemma parse_year_lex_gen y rest :
  wf_year y = true -> year_len_ok y -> rest_nondigit rest ->
  parse_year (lex_year y ++ rest) = Some (val_year y, rest).
Proof.
  intros W Hlen HR. unfold wf_year in W. apply andb_true_iff in W as [D W].
  destruct y as [neg ds]. unfold year_len_ok in Hlen. cbn [y_neg y_digits] in *.
  assert (L4 : (4 <= length ds)%nat).
  { apply orb_true_iff in W as [W|W]; [apply Nat.eqb_eq in W; lia|].
    apply andb_true_iff in W as [W _]. apply Nat.ltb_lt in W. lia. }
  assert (Hraw : forall tl0, (length (ds ++ tl0) <? 4)%nat = false).
  { intros tl0. rewrite app_length. apply Nat.ltb_ge. lia. }
  assert (Hspan : span py_isdigit (skipn 4 (ds ++ rest)) = (skipn 4 ds, rest)).
  { rewrite skipn_app. replace (4 - length ds)%nat with 0%nat by lia. rewrite skipn_O.
    apply span_digits_rest; [apply all_digits_skipn, D | exact HR]. }
  assert (Hfirst : firstn 4 (ds ++ rest) = firstn 4 ds).
  { rewrite firstn_app. replace (4 - length ds)%nat with 0%nat by lia. rewrite firstn_O. apply app_nil_r. }
  assert (Hne : ds <> []) by (destruct ds; [cbn in L4; lia|discriminate]).
  unfold parse_year, lex_year, val_year. cbn [y_neg y_digits].
  destruct neg.
  - cbn [app]. rewrite N.eqb_refl. rewrite Hraw, Hspan, Hfirst, firstn_skipn.
    rewrite py_int_digits by assumption. rewrite year_lz_ok by assumption. reflexivity.
  - cbn [app]. destruct ds as [|c r] eqn:E; [congruence|]. rewrite <- E in *.
    assert (Hc : N.eqb c 45 = false).
    { rewrite E in D. cbn in D. apply andb_true_iff in D as [Dc _]. apply is_ascii_digit_range in Dc.
      apply N.eqb_neq. lia. }
    replace (ds ++ rest) with (c :: (r ++ rest)) by (rewrite E; reflexivity).
    rewrite Hc. replace (c :: (r ++ rest)) with (ds ++ rest) by (rewrite E; reflexivity).
    rewrite Hraw, Hspan, Hfirst, firstn_skipn.
    rewrite py_int_digits by assumption. rewrite year_lz_ok by assumption. reflexivity.
Qed.

Lemma parse_year_lex y rest :
  wf_year y = true -> year_len_ok y ->
  parse_year (lex_year y ++ 45%N :: rest) = Some (val_year y, 45%N :: rest).
Proof. intros W L. apply parse_year_lex_gen; [exact W|exact L|exact not_isdigit_45]. Qed.

(* ---- fractional seconds ---------------------------------------------- *)
Definition rest_ok (rest : str) : Prop :=
  match rest with [] => True | c :: _ => py_isdigit c = false /\ c <> 46%N end.

Lemma span_max_digits n fs rest :
  all_digits fs = true -> (length fs <= n)%nat -> rest_ok rest ->
  span_max n py_isdigit (fs ++ rest) = (fs, rest).
Proof.
  revert n; induction fs as [|c fs IH]; intros n D L R.
  - cbn [app]. destruct n; [reflexivity|]. destruct rest as [|x r]; [reflexivity|].
    cbn in R. destruct R as [R _]. cbn [span_max]. rewrite R. reflexivity.
  - destruct n; [cbn in L; lia|]. cbn in D. apply andb_true_iff in D as [Dc D].
    cbn [app span_max]. rewrite (py_isdigit_ascii c Dc). rewrite IH; [reflexivity|exact D|cbn in L; lia|exact R].
Qed.

Lemma str_val_app_zeros s k : str_val (s ++ repeat_chr 48 k) = (str_val s * 10 ^ N.of_nat k)%N.
Proof.
  unfold str_val. rewrite str_val_acc_app.
  generalize (str_val_acc 0 s) as a. induction k as [|k IH]; intros a.
  - cbn. lia.
  - cbn [repeat_chr str_val_acc]. rewrite IH. rewrite Nat2N.inj_succ, N.pow_succ_r'.
    unfold digit_of. lia.
Qed.

Lemma ljust_digits w s : all_digits s = true -> all_digits (ljust w 48 s) = true.
Proof.
  intros H. unfold ljust, all_digits in *. rewrite forallb_app, H.
  apply (repeat_chr_forallb is_ascii_digit 48 _ eq_refl).
Qed.

Lemma parse_fractional_lex fs rest :
  wf_frac fs = true -> rest_ok rest ->
  parse_fractional_second (lex_frac fs ++ rest) = Some (val_frac fs, rest).
Proof.
  intros W R. unfold wf_frac in W. apply andb_true_iff in W as [D L]. apply Nat.leb_le in L.
  destruct fs as [|c fs'] eqn:E.
  - cbn [lex_frac app]. unfold val_frac. cbn [length str_val str_val_acc].
    unfold parse_fractional_second. destruct rest as [|x r]; [reflexivity|].
    cbn in R. destruct R as [_ R]. destruct x as [|p]; [reflexivity|].
    destruct (N.eqb_spec (N.pos p) 46) as [E46|_]; [congruence|].
    (* the match on a non-'.' character *)
    do 6 (destruct p as [p|p|]; try reflexivity). congruence.
  - rewrite <- E in *. assert (Hne : fs <> []) by (rewrite E; discriminate).
    unfold lex_frac. rewrite E. rewrite <- E. cbn [app].
    unfold parse_fractional_second.
    rewrite span_max_digits by assumption.
    rewrite py_int_digits.
    + unfold ljust, val_frac. rewrite str_val_app_zeros.
      f_equal. f_equal. rewrite N2Z.inj_mul, N2Z.inj_pow. f_equal. f_equal. lia.
    + apply ljust_digits; exact D.
    + unfold ljust. destruct fs; [congruence|discriminate].
    + unfold ljust. rewrite app_length, repeat_chr_length. unfold py_max_str_digits. lia.
Qed.

(* ---- time zone --------------------------------------------------------- *)
Lemma parse_offset_lex t :
  wf_tz t = true -> parse_offset (lex_tz t) = Some (val_tz t, []).
Proof.
  intros W. destruct t as [| |neg hh mm]; [reflexivity|reflexivity|].
  cbn [wf_tz] in W.
  assert (Hh : 0 <= hh <= 99) by lia. assert (Hm : 0 <= mm <= 99) by lia.
  unfold lex_tz, val_tz. cbn [app].
  unfold parse_offset.
  assert (Hsign : (N.eqb (if neg then 45%N else 43%N) 90 = false) /\
                  (N.eqb (if neg then 45%N else 43%N) 45 || N.eqb (if neg then 45%N else 43%N) 43 = true)).
  { destruct neg; split; reflexivity. }
  destruct Hsign as [S1 S2]. rewrite S1, S2.
  rewrite (parse_digits_d2 hh (58%N :: d2 mm) Hh). cbn [skip]. rewrite N.eqb_refl.
  pose proof (parse_digits_d2 mm [] Hm) as X. rewrite app_nil_r in X. rewrite X.
  destruct neg; cbn; f_equal; f_equal; f_equal; lia.
Qed.

Lemma rest_ok_tz t tail : (tail = []) -> rest_ok (lex_tz t ++ tail).
Proof.
  intros ->. rewrite app_nil_r. destruct t as [| |neg hh mm]; cbn; auto.
  - split; [exact not_isdigit_90|discriminate].
  - destruct neg; split; try discriminate; [exact not_isdigit_45|exact not_isdigit_43].
Qed.

(* ---- parse_var on the format letters actually used (checked against the
        regenerated SIMPLE_TWO_DIGITS_FORMATS table by conversion) ---------- *)
Lemma parse_var_two v s :
  mem v simple_two_digits_formats = true ->
  parse_var v s = match parse_digits 2 s with Some (z, r) => Some ([Some z], r) | None => None end.
Proof. intros H. unfold parse_var. rewrite H. reflexivity. Qed.

Lemma parse_var_Y s :
  parse_var 89 s = match parse_year s with Some (z, r) => Some ([Some z], r) | None => None end.
Proof. reflexivity. Qed.

Lemma parse_var_S s :
  parse_var 83 s =
  match parse_digits 2 s with
  | Some (z, r) => match parse_fractional_second r with
                   | Some (f, r') => Some ([Some z; Some f], r')
                   | None => None end
  | None => None
  end.
Proof. reflexivity. Qed.

Lemma parse_var_z s :
  parse_var 122 s = match parse_offset s with Some (o, r) => Some ([o], r) | None => None end.
Proof. reflexivity. Qed.

Lemma two_m : mem 109 simple_two_digits_formats = true. Proof. reflexivity. Qed.
Lemma two_d : mem 100 simple_two_digits_formats = true. Proof. reflexivity. Qed.
Lemma two_H : mem 72 simple_two_digits_formats = true. Proof. reflexivity. Qed.
Lemma two_M : mem 77 simple_two_digits_formats = true. Proof. reflexivity. Qed.

(* ---- stripping the surrounding whitespace ----------------------------- *)
Definition nonspace_ends (s : str) : Prop :=
  (exists c r, s = c :: r /\ py_isspace c = false) /\
  (exists p c, s = p ++ [c] /\ py_isspace c = false).

Lemma py_strip_wrap a core b :
  forallb xml_ws a = true -> forallb xml_ws b = true -> nonspace_ends core ->
  py_strip (a ++ core ++ b) = core.
Proof.
  intros Ha Hb [[c [r [E Hc]]] [p [d [E' Hd]]]].
  unfold py_strip. apply strip_by_wrap; try (apply forallb_xml_ws_py; assumption).
  - intros c0 r0 E0. rewrite E in E0. inversion E0; subst; exact Hc.
  - intros c0 r0 E0. rewrite E' in E0. rewrite rev_app_distr in E0. cbn in E0.
    inversion E0; subst; exact Hd.
Qed.

Lemma ends_app x y : (exists p c, y = p ++ [c] /\ py_isspace c = false) ->
  exists p c, x ++ y = p ++ [c] /\ py_isspace c = false.
Proof. intros [p [c [-> H]]]. exists (x ++ p), c. rewrite app_assoc. auto. Qed.

Lemma d2_ends n : 0 <= n <= 99 -> exists p c, d2 n = p ++ [c] /\ py_isspace c = false.
Proof.
  intros H. unfold d2. exists [Z.to_N (48 + n / 10)], (Z.to_N (48 + n mod 10)). split; [reflexivity|].
  apply ascii_digit_not_space. apply is_ascii_digit_range. lia.
Qed.

Lemma d2_tz_ends n t : 0 <= n <= 99 -> wf_tz t = true ->
  exists p c, d2 n ++ lex_tz t = p ++ [c] /\ py_isspace c = false.
Proof.
  intros H W. destruct t as [| |neg hh mm].
  - cbn [lex_tz]. rewrite app_nil_r. apply d2_ends; exact H.
  - apply ends_app. exists [], 90%N. split; [reflexivity|exact not_space_90].
  - apply ends_app. unfold lex_tz. apply ends_app. apply ends_app. apply ends_app.
    apply d2_ends. cbn [wf_tz] in W. lia.
Qed.

Lemma lex_year_starts y tl : wf_year y = true ->
  exists c r, lex_year y ++ tl = c :: r /\ py_isspace c = false.
Proof.
  intros W. unfold lex_year. destruct (y_neg y).
  - exists 45%N. eexists. split; [reflexivity|exact not_space_45].
  - unfold wf_year in W. apply andb_true_iff in W as [D W].
    destruct (y_digits y) as [|c r] eqn:E.
    + cbn in W. discriminate.
    + exists c, (r ++ tl). split; [reflexivity|]. cbn in D. apply andb_true_iff in D as [Dc _].
      apply ascii_digit_not_space; exact Dc.
Qed.

Lemma d2_starts n tl : 0 <= n <= 99 -> exists c r, d2 n ++ tl = c :: r /\ py_isspace c = false.
Proof.
  intros H. unfold d2. eexists. eexists. split; [reflexivity|].
  apply ascii_digit_not_space. apply is_ascii_digit_range. lia.
Qed.

Lemma real_date_bounds y m d : real_date y m d = true -> 0 <= m <= 99 /\ 0 <= d <= 99.
Proof.
  unfold real_date. intros H.
  assert (spec_month_days y m <= 31).
  { unfold spec_month_days.
    repeat match goal with |- context [match ?x with _ => _ end] => destruct x end; lia. }
  lia.
Qed.

Lemma real_time_bounds h mi s f : real_time h mi s f = true -> 0 <= h <= 99 /\ 0 <= mi <= 99 /\ 0 <= s <= 99.
Proof. unfold real_time. lia. Qed.

(* ---- the three acceptance theorems -------------------------------------- *)
Theorem date_accepts sp a b :
  wf_date sp = true -> year_len_ok (ds_year sp) ->
  forallb xml_ws a = true -> forallb xml_ws b = true ->
  date_from_string (a ++ lex_date sp ++ b)
  = Some (mk_xdate (val_year (ds_year sp)) (ds_month sp) (ds_day sp) (val_tz (ds_tz sp))).
Proof.
  intros W Hy Ha Hb. destruct sp as [y m d t]. cbn [ds_year ds_month ds_day ds_tz] in *.
  unfold wf_date in W. cbn [ds_year ds_month ds_day ds_tz] in W.
  apply andb_true_iff in W as [W Wt]. apply andb_true_iff in W as [Wy Wd].
  destruct (real_date_bounds _ _ _ Wd) as [Bm Bd].
  unfold date_from_string, parse_date_args.
  rewrite py_strip_wrap; [|exact Ha|exact Hb|].
  2:{ split.
      - unfold lex_date. cbn [ds_year]. apply lex_year_starts; exact Wy.
      - unfold lex_date. cbn [ds_year ds_month ds_day ds_tz]. do 4 apply ends_app.
        apply d2_tz_ends; assumption. }
  unfold lex_date. cbn [ds_year ds_month ds_day ds_tz]. cbn [app].
  unfold fmt_DATE. cbn [run_fmt].
  rewrite parse_var_Y, parse_year_lex by assumption.
  cbn [N.eqb Pos.eqb skip]. rewrite (parse_var_two _ _ two_m).
  rewrite (parse_digits_d2 m _ Bm). cbn [N.eqb Pos.eqb skip].
  rewrite (parse_var_two _ _ two_d). rewrite (parse_digits_d2 d _ Bd).
  rewrite parse_var_z, parse_offset_lex by exact Wt. cbn [app].
  rewrite DatesCal.validate_date_real, Wd. reflexivity.
Qed.

Lemma frac_tz_ends s fs t : 0 <= s <= 99 -> wf_frac fs = true -> wf_tz t = true ->
  exists p c, d2 s ++ lex_frac fs ++ lex_tz t = p ++ [c] /\ py_isspace c = false.
Proof.
  intros H Wf W. destruct fs as [|c0 fs'].
  - cbn [lex_frac app]. apply d2_tz_ends; assumption.
  - destruct t as [| |neg hh mm].
    + cbn [lex_tz]. rewrite app_nil_r. apply ends_app. unfold lex_frac.
      unfold wf_frac in Wf. apply andb_true_iff in Wf as [D _].
      assert (Hl : exists p c, c0 :: fs' = p ++ [c] /\ is_ascii_digit c = true).
      { destruct (@exists_last _ (c0 :: fs') ltac:(discriminate)) as [p [c E]].
        exists p, c. split; [exact E|]. unfold all_digits in D. rewrite E, forallb_app in D.
        apply andb_true_iff in D as [_ D]. cbn in D. rewrite andb_true_r in D. exact D. }
      destruct Hl as [p [c [E Dc]]]. exists (46%N :: p), c. rewrite E. split; [reflexivity|].
      apply ascii_digit_not_space; exact Dc.
    + do 2 apply ends_app. exists [], 90%N. split; [reflexivity|exact not_space_90].
    + do 2 apply ends_app. unfold lex_tz. do 3 apply ends_app. apply d2_ends. cbn [wf_tz] in W. lia.
Qed.

Theorem time_accepts sp a b :
  wf_time sp = true -> forallb xml_ws a = true -> forallb xml_ws b = true ->
  time_from_string (a ++ lex_time sp ++ b)
  = Some (mk_xtime (ts_hour sp) (ts_minute sp) (ts_second sp) (val_frac (ts_frac sp)) (val_tz (ts_tz sp))).
Proof.
  intros W Ha Hb. destruct sp as [h mi s fs t]. cbn [ts_hour ts_minute ts_second ts_frac ts_tz] in *.
  unfold wf_time in W. cbn [ts_hour ts_minute ts_second ts_frac ts_tz] in W.
  apply andb_true_iff in W as [W Wt]. apply andb_true_iff in W as [Wf Wr].
  destruct (real_time_bounds _ _ _ _ Wr) as [Bh [Bm Bs]].
  unfold time_from_string, parse_date_args.
  rewrite py_strip_wrap; [|exact Ha|exact Hb|].
  2:{ split.
      - unfold lex_time, lex_hmsf. cbn [ts_hour]. rewrite <- !app_assoc. apply d2_starts; exact Bh.
      - unfold lex_time, lex_hmsf. cbn [ts_hour ts_minute ts_second ts_frac ts_tz]. rewrite <- !app_assoc.
        do 4 apply ends_app. apply frac_tz_ends; assumption. }
  unfold lex_time, lex_hmsf. cbn [ts_hour ts_minute ts_second ts_frac ts_tz]. rewrite <- !app_assoc. cbn [app].
  unfold fmt_TIME. cbn [run_fmt].
  rewrite (parse_var_two _ _ two_H). rewrite (parse_digits_d2 h _ Bh). cbn [N.eqb Pos.eqb skip].
  rewrite (parse_var_two _ _ two_M). rewrite (parse_digits_d2 mi _ Bm). cbn [N.eqb Pos.eqb skip].
  rewrite parse_var_S. rewrite (parse_digits_d2 s _ Bs).
  rewrite parse_fractional_lex; [|exact Wf|].
  2:{ replace (lex_tz t) with (lex_tz t ++ []) by apply app_nil_r. apply rest_ok_tz. reflexivity. }
  rewrite parse_var_z, parse_offset_lex by exact Wt. cbn [app].
  rewrite DatesCal.validate_time_real, Wr. reflexivity.
Qed.

Theorem datetime_accepts sp a b :
  wf_datetime sp = true -> year_len_ok (dts_year sp) ->
  forallb xml_ws a = true -> forallb xml_ws b = true ->
  datetime_from_string (a ++ lex_datetime sp ++ b)
  = Some (mk_xdatetime (val_year (dts_year sp)) (dts_month sp) (dts_day sp)
            (dts_hour sp) (dts_minute sp) (dts_second sp) (val_frac (dts_frac sp)) (val_tz (dts_tz sp))).
Proof.
  intros W Hy Ha Hb. destruct sp as [y m d h mi s fs t].
  cbn [dts_year dts_month dts_day dts_hour dts_minute dts_second dts_frac dts_tz] in *.
  unfold wf_datetime in W. cbn [dts_year dts_month dts_day dts_hour dts_minute dts_second dts_frac dts_tz] in W.
  apply andb_true_iff in W as [W Wt]. apply andb_true_iff in W as [W Wr].
  apply andb_true_iff in W as [W Wf]. apply andb_true_iff in W as [Wy Wd].
  destruct (real_date_bounds _ _ _ Wd) as [Bm Bd].
  destruct (real_time_bounds _ _ _ _ Wr) as [Bh [Bmi Bs]].
  unfold datetime_from_string, parse_date_args.
  rewrite py_strip_wrap; [|exact Ha|exact Hb|].
  2:{ split.
      - unfold lex_datetime. cbn [dts_year]. apply lex_year_starts; exact Wy.
      - unfold lex_datetime, lex_hmsf.
        cbn [dts_year dts_month dts_day dts_hour dts_minute dts_second dts_frac dts_tz].
        rewrite <- !app_assoc. do 10 apply ends_app. apply frac_tz_ends; assumption. }
  unfold lex_datetime, lex_hmsf.
  cbn [dts_year dts_month dts_day dts_hour dts_minute dts_second dts_frac dts_tz].
  rewrite <- !app_assoc. cbn [app].
  unfold fmt_DATE_TIME. cbn [run_fmt].
  rewrite parse_var_Y, parse_year_lex by assumption. cbn [N.eqb Pos.eqb skip].
  rewrite (parse_var_two _ _ two_m). rewrite (parse_digits_d2 m _ Bm). cbn [N.eqb Pos.eqb skip].
  rewrite (parse_var_two _ _ two_d). rewrite (parse_digits_d2 d _ Bd). cbn [N.eqb Pos.eqb skip].
  rewrite (parse_var_two _ _ two_H). rewrite (parse_digits_d2 h _ Bh). cbn [N.eqb Pos.eqb skip].
  rewrite (parse_var_two _ _ two_M). rewrite (parse_digits_d2 mi _ Bmi). cbn [N.eqb Pos.eqb skip].
  rewrite parse_var_S. rewrite (parse_digits_d2 s _ Bs).
  rewrite parse_fractional_lex; [|exact Wf|].
  2:{ replace (lex_tz t) with (lex_tz t ++ []) by apply app_nil_r. apply rest_ok_tz. reflexivity. }
  rewrite parse_var_z, parse_offset_lex by exact Wt. cbn [app].
  rewrite DatesCal.validate_date_real, Wd, DatesCal.validate_time_real, Wr. reflexivity.
Qed.

(* accepted => real calendar date / time of day *)
Theorem date_rejects_unreal s v :
  date_from_string s = Some v -> real_date (d_year v) (d_month v) (d_day v) = true.
Proof.
  unfold date_from_string. destruct (parse_date_args s fmt_DATE) as [l|]; [|discriminate].
  destruct l as [|[y|] [|[m|] [|[d|] [|o [|? ?]]]]]; try discriminate.
  destruct (validate_date y m d) eqn:E; [|discriminate].
  intros H. inversion H; subst. cbn. rewrite <- DatesCal.validate_date_real. exact E.
Qed.

Theorem time_rejects_unreal s v :
  time_from_string s = Some v -> real_time (t_hour v) (t_minute v) (t_second v) (t_frac v) = true.
Proof.
  unfold time_from_string. destruct (parse_date_args s fmt_TIME) as [l|]; [|discriminate].
  destruct l as [|[h|] [|[mi|] [|[se|] [|[f|] [|o [|? ?]]]]]]; try discriminate.
  destruct (validate_time h mi se f) eqn:E; [|discriminate].
  intros H. inversion H; subst. cbn. rewrite <- DatesCal.validate_time_real. exact E.
Qed.

Theorem datetime_rejects_unreal s v :
  datetime_from_string s = Some v ->
  real_date (dt_year v) (dt_month v) (dt_day v) = true /\
  real_time (dt_hour v) (dt_minute v) (dt_second v) (dt_frac v) = true.
Proof.
  unfold datetime_from_string. destruct (parse_date_args s fmt_DATE_TIME) as [l|]; [|discriminate].
  destruct l as [|[y|] [|[m|] [|[d|] [|[h|] [|[mi|] [|[se|] [|[f|] [|o [|? ?]]]]]]]]]; try discriminate.
  destruct (validate_date y m d) eqn:E1; [|discriminate].
  destruct (validate_time h mi se f) eqn:E2; [|discriminate]. cbn [andb].
  intros H. inversion H; subst. cbn.
  rewrite <- DatesCal.validate_date_real, <- DatesCal.validate_time_real. auto.
Qed.
