(* Proofs/RoundtripMain.v — the round trip at the infoset level (C01): composition of the
   serializer half (Proofs/RoundtripGen.v), the meaning of the events (Proofs/RoundtripTree.v)
   and the parser half (Proofs/RoundtripParse.v). *)
From Coq Require Import NArith ZArith List Bool Lia Arith.
From XV Require Import Base.Str Base.Eqb Base.PyInt Spec.XmlNs Model.Bind Model.WriterBridge Spec.Fits Model.RoundtripCorr
  Proofs.RoundtripBase Proofs.RoundtripGen Proofs.RoundtripTree Proofs.RoundtripParse Proofs.RoundtripPump.
From XV Require Model.EventGen Model.Parser.
Import ListNotations.
Open Scope N_scope.

Section Main.
  Variable cfg : Parser.pconfig.
  Variable c : conv.
  Variable u : universe.
  Variable ok : prim -> bool.
  Variable ign : bool.
  Hypothesis conv_law : conv_roundtrips c u ok.
  Hypothesis Hnodef : nodefault_free cfg = true.

  Notation fits := (fits c u ok py_isspace).
  Notation eobj := (eobj c u ign).

  Lemma wf_model_wfr cl : wf_model u cl = true -> wfr u cl.
  Proof.
    unfold wf_model. intros H. apply andb_true_iff in H as [Hin Hc].
    exists (reach u (reach_fuel u) [cl] []). split; [exact Hc|apply existsb_N_in; exact Hin].
  Qed.

  (* ---------------------------------------------------------------- parser half, closed *)
  (* ord: the reading keeps the attribute order (needed when a class has an attribute map) *)
  Theorem parse_reads : forall ord n k cl o pevs,
    ord = true \/ nomaps_u u = true ->
    wf_model u cl = true -> fits n cl o = true ->
    reads_o ord (etop c u ign n o) pevs ->
    Parser.parse_n k cfg c u (Some cl) pevs = Parser.Ok o [].
  Proof.
    intros ord n k cl o pevs Hmu Hwf Hfit Hr.
    pose proof (wf_model_wfr cl Hwf) as Hw.
    assert (Hr0 : reads_o ord (add_nil_e (nil_kept u (cnil u o) o) (add_xsi_e None (eobj n None o))) pevs)
      by (rewrite add_xsi_e_none; exact Hr).
    assert (Hxq : forall q, xsi_val None = Some q -> ok (PQName q) = true /\ qname_ok q = true)
      by (intros q Hq; discriminate Hq).
    destruct (all_parse cfg c u ok ign (Parser.replay_n k c u) (Some cl) ord conv_law Hnodef Hmu n cl o None None
               (nil_kept u (cnil u o) o) Hw Hfit Hxq
               ltac:(intros Hx0; exfalso; apply Hx0; reflexivity) (nil_ok_top c u ok cl o n Hfit) pevs Hr0)
      as [attrs [ns [inner [-> [Hxt [Hxn Hrun]]]]]].
    destruct (wfr_inv u cl Hw) as [m [Hm _]].
    assert (Ho : exists fs, o = VObj cl fs).
    { destruct n; [discriminate|]. destruct (fits_inv c u ok py_isspace n cl o Hfit) as [fs [_ [-> _]]]. eauto. }
    destruct Ho as [fs ->].
    assert (E : Parser.parse_n k cfg c u (Some cl) (PStart (elem_name u None cl) attrs ns :: inner)
                = Parser.finish (Parser.run cfg c u (Parser.replay_n k c u) (Some cl) Parser.init_state
                                   (PStart (elem_name u None cl) attrs ns :: inner))).
    { destruct k; reflexivity. }
    rewrite E. clear E.
    rewrite run_cons.
    assert (Hs : Parser.step cfg c u (Parser.replay_n k c u) (Some cl) Parser.init_state (PStart (elem_name u None cl) attrs ns)
                 = Parser.ROk (Parser.mk_pstate [Parser.NElement (Parser.mk_enode m attrs ns 0 false None
                                                                    (xn_of (nil_kept u (cnil u (VObj cl fs)) (VObj cl fs))) [] [])] [] [])).
    { cbn [Parser.step Parser.start Parser.init_state Parser.st_queue Parser.st_objects Parser.st_warn].
      unfold Parser.root_node. rewrite Hxt. rewrite Hxn.
      cbn [Parser.truthy_str Parser.rbind]. unfold Parser.fetch, Parser.get_meta. rewrite Hm. cbn [Parser.rbind Parser.truthy_str].
      reflexivity. }
    rewrite Hs. cbn [Parser.rbind].
    rewrite <- (app_nil_r inner).
    pose proof (Hrun m Hm None [] [] [] []) as Hr2. cbn [length app] in Hr2. rewrite Hr2.
    cbn [Parser.run Parser.finish app Parser.st_objects Parser.st_warn last_error].
    reflexivity.
  Qed.

  (* ---------------------------------------------------------------- the round trip *)
  Theorem roundtrip_reads : forall ord n cl o,
    ord = true \/ nomaps_u u = true ->
    wf_model u cl = true -> fits n cl o = true ->
    exists evs e,
      EventGen.generate ign c u o = EventGen.Ok evs
      /\ itree_of_events (map (of_wevent c) evs) = Some e
      /\ forall k pevs, reads_o ord e pevs -> Parser.parse_n k cfg c u (Some cl) pevs = Parser.Ok o [].
  Proof.
    intros ord n cl o Hmu Hwf Hfit. pose proof (wf_model_wfr cl Hwf) as Hw.
    exists (bflat (add_nil_g (cnil u o) (gobj c u ign n None o))), (etop c u ign n o).
    split; [|split].
    - assert (Ho : exists fs, o = VObj cl fs).
      { destruct n; [discriminate|]. destruct (fits_inv c u ok py_isspace n cl o Hfit) as [fs [_ [-> _]]]. eauto. }
      destruct Ho as [fs ->]. unfold EventGen.generate, EventGen.generate_with.
      rewrite <- (add_xsi_g_none (gobj c u ign n None (VObj cl fs))).
      apply (run_obj c u ok py_isspace ign n cl _ None None Hw Hfit).
      unfold EventGen.gen_fuel. pose proof (odepth_le_vdepth (VObj cl fs)). lia.
    - apply (events_mean c u ok py_isspace ign n cl o Hw Hfit).
    - intros k pevs Hr. apply (parse_reads ord n k cl o pevs Hmu Hwf Hfit Hr).
  Qed.

  Lemma generate_ok : forall n cl o,
    wf_model u cl = true -> fits n cl o = true ->
    EventGen.generate ign c u o = EventGen.Ok (bflat (add_nil_g (cnil u o) (gobj c u ign n None o))).
  Proof.
    intros n cl o Hwf Hfit. pose proof (wf_model_wfr cl Hwf) as Hw.
    assert (Ho : exists fs, o = VObj cl fs).
    { destruct n; [discriminate|]. destruct (fits_inv c u ok py_isspace n cl o Hfit) as [fs [_ [-> _]]]. eauto. }
    destruct Ho as [fs ->]. unfold EventGen.generate, EventGen.generate_with.
    rewrite <- (add_xsi_g_none (gobj c u ign n None (VObj cl fs))).
    apply (run_obj c u ok py_isspace ign n cl _ None None Hw Hfit).
    unfold EventGen.gen_fuel. pose proof (odepth_le_vdepth (VObj cl fs)). lia.
  Qed.

  (* the same with the canonical reader stream: the statement in the form
     parse (pump (itree_of_events (generate ...))) = Ok o [] *)
  Theorem roundtrip_pump : forall n cl o,
    wf_model u cl = true -> fits n cl o = true -> noq o = true -> exact_classes u n cl o = true ->
    exists evs,
      EventGen.generate ign c u o = EventGen.Ok evs
      /\ Parser.parse cfg c u (Some cl) (pump (itree_of_events (map (of_wevent c) evs))) = Parser.Ok o [].
  Proof.
    intros n cl o Hwf Hfit Hnq Hex. pose proof (wf_model_wfr cl Hwf) as Hw.
    exists (bflat (add_nil_g (cnil u o) (gobj c u ign n None o))). split; [apply (generate_ok n cl o Hwf Hfit)|].
    rewrite (events_mean c u ok py_isspace ign n cl o Hw Hfit). cbn [pump]. unfold Parser.parse.
    apply (parse_reads true n _ cl o _ (or_introl eq_refl) Hwf Hfit). apply reads_pump.
    apply (plain_obj c u ok ign n cl o None _ Hw Hfit Hnq Hex (nil_ok_top c u ok cl o n Hfit)).
  Qed.
End Main.
