(* Proofs/PycodeRefuted.v — concrete witnesses: the unguarded statements are false of
   the faithful model, one witness per guard clause, and a non-trivial instance inside
   the guard.  The same classes and instances are built on the real code by
   harness/c18.py (witness_batch) and compared with these terms on every run. *)
From Coq Require Import NArith ZArith List Bool String.
From XV Require Import Base.Str Base.Eqb Spec.PyEval Model.Pycode.
Import ListNotations.
Open Scope Z_scope.

Definition wm1 : str := lit "c18wit.m1".
Definition wm2 : str := lit "c18wit.m2".
Definition fd (n : string) (i : bool) (d : fdefault) : fdesc := {| f_name := lit n; f_init := i; f_default := d |}.

Definition W_wit : world :=
  [ {| c_ref := (wm1, [lit "Color"]); c_kind := KEnum [lit "RED"] None |};
    {| c_ref := (wm1, [lit "Perm"]); c_kind := KEnum [lit "R"; lit "W"] (Some [4096; 8192]) |};
    {| c_ref := (wm1, [lit "X"]); c_kind := KData false [fd "a" true (DValue (VInt 0))] |};
    {| c_ref := (wm1, [lit "Outer"]);
       c_kind := KData false [fd "a" true (DValue VNone); fd "inner" true (DValue VNone); fd "e" true (DValue VNone);
                              fd "fx" false (DValue (VStr (lit "fixed"))); fd "any" true (DValue VNone);
                              fd "x" true (DValue VNone)] |};
    {| c_ref := (wm1, [lit "Outer"; lit "Kind"]); c_kind := KEnum [lit "A"] None |};
    {| c_ref := (wm1, [lit "Outer"; lit "Inner"]); c_kind := KData false [fd "v" true (DValue (VFloat 0))] |};
    {| c_ref := (wm1, [lit "Fz"]); c_kind := KData true [fd "t" true (DFactory (VTuple []))] |};
    {| c_ref := (wm2, [lit "X"]);
       c_kind := KData false [fd "a" true (DValue (VInt 0)); fd "b" true (DValue (VStr (lit "q")))] |} ].

Definition outer (a inner e fx any x : value) : value :=
  VObj (wm1, [lit "Outer"])
    [(lit "a", a); (lit "inner", inner); (lit "e", e); (lit "fx", fx); (lit "any", any); (lit "x", x)].
Definition fixed : value := VStr (lit "fixed").

(* Fz(t=(1, 2)), frozen *)
Definition wit_tuple : value := VObj (wm1, [lit "Fz"]) [(lit "t", VTuple [VInt 1; VInt 2])].
(* Outer(e=Outer.Kind.A) *)
Definition wit_enum : value := outer VNone VNone (VEnum (wm1, [lit "Outer"; lit "Kind"]) (lit "A")) fixed VNone VNone.
(* Outer(any=m2.X(a=2), x=m1.X(a=1)) *)
Definition wit_collision : value :=
  outer VNone VNone VNone fixed
    (VObj (wm2, [lit "X"]) [(lit "a", VInt 2); (lit "b", VStr (lit "q"))])
    (VObj (wm1, [lit "X"]) [(lit "a", VInt 1)]).
(* Outer(any=QName(t)) where t = a, double quote, b *)
Definition wit_qname : value := outer VNone VNone VNone fixed (VQName (lit "a""b")) VNone.
(* o = Outer(); o.fx = 'changed' *)
Definition wit_init : value := outer VNone VNone VNone (VStr (lit "changed")) VNone VNone.
(* a non-trivial instance inside the guard: nested inner class, NaN, enum, Decimal NaN,
   QName, a string with both quotes, backslash and newline, -inf, empty tuple, dict with
   an XmlHexBinary value *)
Definition wit_ok : value :=
  outer (VInt 1)
    (VObj (wm1, [lit "Outer"; lit "Inner"]) [(lit "v", VFloat fl_nan)])
    (VEnum (wm1, [lit "Color"]) (lit "RED")) fixed
    (VList [VDecimal (lit "NaN"); VQName (lit "{u}l"); VStr (lit "a'b""c\" ++ [10%N]); VFloat fl_neg_inf;
            VTuple []; VTuple [VInt 1; VStr (lit "x")]; VSet true [VInt 3]; VDuration (lit "P1Y");
            VStd SDateTime [2020; 1; 2; 3; 4; 5; 0]; VDict [(VStr (lit "k"), VBytes BHex [0%N; 39%N])]])
    VNone.

(* Outer(any=datetime.date(2020, 1, 2)) *)
Definition wit_std : value := outer VNone VNone VNone fixed (VStd SDate [2020; 1; 2]) VNone.

(* Outer(any=[Perm.R | Perm.W, Perm(0), Perm.W]) with class Perm(IntFlag): R = 4096; W = 8192 *)
Definition wit_flag : value :=
  outer VNone VNone VNone fixed
    (VList [VFlag (wm1, [lit "Perm"]) 12288; VFlag (wm1, [lit "Perm"]) 0; VEnum (wm1, [lit "Perm"]) (lit "W")]) VNone.

Definition witnesses : list value :=
  [wit_tuple; wit_enum; wit_collision; wit_qname; wit_init; wit_std; wit_flag; wit_ok].

(* the other clauses of the guard hold: each witness isolates one clause *)
Definition only_imports W v := negb (g_imports W v) && g_init W v.
Definition only_init W v := g_imports W v && negb (g_init W v).

(* non-empty tuples written as lists: repaired in /repo a2ce0be; kept as a regression witness *)
Lemma array_fixed : wf W_wit wit_tuple = true /\ guard W_wit wit_tuple = true /\ roundtrip W_wit wit_tuple = true.
Proof. vm_compute. auto 10. Qed.
(* members of inner Enums: repaired in /repo fc8f170; kept as a regression witness *)
Lemma inner_enum_fixed : wf W_wit wit_enum = true /\ guard W_wit wit_enum = true /\ roundtrip W_wit wit_enum = true.
Proof. vm_compute. auto 10. Qed.
Lemma import_collision_refuted :
  wf W_wit wit_collision = true /\ only_imports W_wit wit_collision = true /\ roundtrip W_wit wit_collision = false.
Proof. vm_compute. auto 10. Qed.
(* QName text pasted unescaped: repaired in /repo 06e145c; kept as a regression witness *)
Lemma qname_fixed : wf W_wit wit_qname = true /\ guard W_wit wit_qname = true /\ roundtrip W_wit wit_qname = true.
Proof. vm_compute. auto 10. Qed.
Lemma init_false_refuted : wf W_wit wit_init = true /\ only_init W_wit wit_init = true /\ roundtrip W_wit wit_init = false.
Proof. vm_compute. auto 10. Qed.

(* stdlib datetime values without `import datetime`: repaired in /repo db048b1; kept as a regression witness *)
Lemma std_fixed : wf W_wit wit_std = true /\ guard W_wit wit_std = true /\ roundtrip W_wit wit_std = true.
Proof. vm_compute. auto 10. Qed.

(* unnamed flag combinations written P.R|W / P.None: repaired in /repo e7d55af; regression witness *)
Lemma flag_fixed : wf W_wit wit_flag = true /\ guard W_wit wit_flag = true /\ roundtrip W_wit wit_flag = true.
Proof. vm_compute. auto 10. Qed.

Lemma guard_nonvacuous : wf W_wit wit_ok = true /\ guard W_wit wit_ok = true /\ roundtrip W_wit wit_ok = true.
Proof. vm_compute. auto 10. Qed.
