(* Proofs/RenameUnique.v — ClassUtils.unique_name always finds a fresh name, and
   rename_duplicate_attributes leaves pairwise distinct slugs provided every by-preference
   rename happened to pick a free slug (the handler never checks that). *)
From Coq Require Import NArith PeanoNat List Bool Lia String FinFun.
From XV Require Import Base.Str Base.Dec Gen.SafeTables Model.Safe Model.Rename Proofs.SafeText.
Import ListNotations.
Open Scope N_scope.

Lemma str_in_In s l : str_in s l = true <-> In s l.
Proof.
  unfold str_in. rewrite existsb_exists. split.
  - intros [x [Hin He]]. apply str_eqb_eq in He. subst. exact Hin.
  - intros H. exists s. split; [exact H|apply str_eqb_refl].
Qed.

Lemma str_in_false s l : str_in s l = false <-> ~ In s l.
Proof. rewrite <- str_in_In. destruct (str_in s l); split; congruence. Qed.

(* ------------------------------------------------------------------ unique_name *)
Definition cand (name : str) (i : N) : str := alnum (name ++ us ++ to_dec i).

Lemma alnum_digits s : all_digits s = true -> alnum s = s.
Proof.
  unfold alnum, all_digits. induction s as [|c s IH]; [reflexivity|]. cbn. intros H.
  apply andb_true_iff in H as [Hc Hs].
  assert (Ha : is_ascii_alnum c = true) by (unfold is_ascii_alnum; rewrite Hc; reflexivity).
  rewrite Ha. cbn [map]. rewrite IH by exact Hs. f_equal.
  unfold ascii_lower. assert (Hu : is_ascii_upper c = false) by (revert Hc; char_solve). rewrite Hu. reflexivity.
Qed.

Lemma cand_eq name i : cand name i = alnum name ++ to_dec i.
Proof. unfold cand. rewrite !alnum_app, alnum_us. cbn [app]. rewrite (alnum_digits (to_dec i)) by apply to_dec_digits. reflexivity. Qed.

Lemma cand_inj name i j : cand name i = cand name j -> i = j.
Proof.
  rewrite !cand_eq. intros H. apply app_inv_head in H.
  rewrite <- (str_val_to_dec i), <- (str_val_to_dec j), H. reflexivity.
Qed.

Lemma unique_index_sound fuel name res : forall i j,
  unique_index fuel name res i = Some j -> str_in (cand name j) res = false.
Proof.
  induction fuel as [|fuel IH]; intros i j H; [discriminate|]. cbn [unique_index] in H.
  fold (cand name i) in H. destruct (str_in (cand name i) res) eqn:E.
  - apply (IH _ _ H).
  - injection H as <-. exact E.
Qed.

Lemma unique_index_none fuel name res : forall i,
  unique_index fuel name res i = None ->
  forall d, (d < fuel)%nat -> str_in (cand name (i + N.of_nat d)) res = true.
Proof.
  induction fuel as [|fuel IH]; intros i H d Hd; [lia|]. cbn [unique_index] in H.
  fold (cand name i) in H. destruct (str_in (cand name i) res) eqn:E; [|discriminate].
  destruct d as [|d].
  - replace (i + N.of_nat 0) with i by lia. exact E.
  - replace (i + N.of_nat (S d)) with ((i + 1) + N.of_nat d) by lia. apply IH; [exact H|lia].
Qed.

Lemma unique_index_total name res : exists j, unique_index (S (List.length res)) name res 1 = Some j.
Proof.
  destruct (unique_index (S (List.length res)) name res 1) as [j|] eqn:E; [eexists; reflexivity|]. exfalso.
  pose proof (unique_index_none _ _ _ _ E) as H.
  set (f := fun d : nat => cand name (1 + N.of_nat d)).
  assert (Hinj : Injective f).
  { intros a b Hab. unfold f in Hab. apply cand_inj in Hab. lia. }
  assert (Hnd : NoDup (map f (seq 0 (S (List.length res))))) by (apply Injective_map_NoDup; [exact Hinj|apply seq_NoDup]).
  assert (Hincl : incl (map f (seq 0 (S (List.length res)))) res).
  { intros x Hx. apply in_map_iff in Hx as [d [<- Hd]]. apply in_seq in Hd.
    apply str_in_In. apply H. lia. }
  pose proof (NoDup_incl_length Hnd Hincl) as L. rewrite map_length, seq_length in L. lia.
Qed.

Theorem unique_name_fresh name res : str_in (alnum (unique_name name res)) res = false.
Proof.
  unfold unique_name. destruct (str_in (alnum name) res) eqn:E; [|exact E].
  destruct (unique_index_total name res) as [j Hj]. rewrite Hj.
  apply (unique_index_sound _ _ _ _ _ Hj).
Qed.

(* ------------------------------------------------------------------ positions *)
Lemma set_name_length p n l : List.length (set_name p n l) = List.length l.
Proof. revert p; induction l as [|a l IH]; intros [|p]; cbn; auto. Qed.

Lemma get_set_other p n l i : i <> p -> get (set_name p n l) i = get l i.
Proof.
  unfold get. revert p i; induction l as [|a l IH]; intros [|p] [|i] H; cbn; try reflexivity; try congruence.
  apply IH. congruence.
Qed.

Lemma get_set_same p n l : (p < List.length l)%nat -> a_name (get (set_name p n l) p) = n.
Proof.
  unfold get. revert p; induction l as [|a l IH]; intros [|p] H; cbn in *; try lia; [reflexivity|].
  apply IH. lia.
Qed.

Lemma In_slugs l s : In s (map a_slug l) <-> exists j, (j < List.length l)%nat /\ a_slug (get l j) = s.
Proof.
  split.
  - intros H. apply in_map_iff in H as [a [<- Ha]]. apply (In_nth _ _ dummy_attr) in Ha as [j [Hj E]].
    exists j. unfold get. rewrite E. auto.
  - intros [j [Hj <-]]. apply in_map. apply nth_In. exact Hj.
Qed.

Lemma In_slugs_except l : forall p s,
  In s (slugs_except p l) <-> exists j, (j < List.length l)%nat /\ j <> p /\ a_slug (get l j) = s.
Proof.
  induction l as [|a l IH]; intros p s.
  - destruct p; cbn; (split; [tauto|]); intros [j [Hj _]]; cbn in Hj; lia.
  - destruct p as [|p]; cbn [slugs_except].
    + rewrite In_slugs. split.
      * intros [j [Hj E]]. exists (S j). cbn. split; [lia|]. split; [discriminate|exact E].
      * intros [j [Hj [Hn E]]]. destruct j as [|j]; [congruence|]. exists j. cbn in Hj. split; [lia|exact E].
    + cbn [In]. rewrite IH. split.
      * intros [<-|[j [Hj [Hn E]]]].
        -- exists 0%nat. cbn. split; [lia|]. split; [discriminate|reflexivity].
        -- exists (S j). cbn. split; [lia|]. split; [congruence|exact E].
      * intros [j [Hj [Hn E]]]. destruct j as [|j]; [left; exact E|].
        right. exists j. cbn in Hj. split; [lia|]. split; [congruence|exact E].
Qed.

Definition distinct_from (l : list attr) (i : nat) : Prop :=
  forall j, (j < List.length l)%nat -> j <> i -> a_slug (get l j) <> a_slug (get l i).

Lemma fresh_set p n l :
  (p < List.length l)%nat -> ~ In (alnum n) (slugs_except p l) ->
  distinct_from (set_name p n l) p /\
  (forall i, (i < List.length l)%nat -> i <> p -> distinct_from l i -> distinct_from (set_name p n l) i).
Proof.
  intros Hp Hf.
  assert (Sp : a_slug (get (set_name p n l) p) = alnum n) by (unfold a_slug; rewrite get_set_same by exact Hp; reflexivity).
  split.
  - intros j Hj Hn E. rewrite set_name_length in Hj. rewrite get_set_other in E by exact Hn.
    apply Hf. apply In_slugs_except. exists j. rewrite <- Sp. auto.
  - intros i Li Hi Hd j Hj Hn E. rewrite set_name_length in Hj.
    rewrite (get_set_other p n l i Hi) in E.
    destruct (Nat.eq_dec j p) as [->|Hjp].
    + rewrite Sp in E. apply Hf. apply In_slugs_except. exists i.
      split; [exact Li|split; [exact Hi|symmetry; exact E]].
    + rewrite get_set_other in E by exact Hjp. exact (Hd j Hj Hn E).
Qed.
