(* Proofs/SampleBuild.v — ElementMapper.build_class on one node: the attrs of the class are obtained by
   add_attribute from exactly the parts of the node (attributes except xsi:nil, named children, text), so they
   have distinct keys, cover every part, and a child name that occurs twice gets max_occurs = sys.maxsize.
   ClassUtils.flatten: the class of every class node of the tree is in the flattened list. *)
From Coq Require Import NArith ZArith List Bool Lia Permutation.
From XV Require Import Base.Str Base.Eqb Gen.SampleTables Model.Sample Model.SampleCorr Proofs.SampleBase.
Import ListNotations.
Open Scope N_scope.

Notation K3 := (str * str * option str)%type.
Definition cnt (k : K3) (ks : list K3) : nat := count_occ key_eq_dec ks k.

(* ------------------------------------------------------------------ add_attribute *)
Lemma add_attribute_new l a : ~ In (key a) (keys l) -> add_attribute l a = l ++ [a].
Proof.
  induction l as [|e r IH]; cbn; [reflexivity|]. intros H.
  destruct (attr_eqb e a) eqn:E.
  - apply attr_eqb_key in E. exfalso. apply H. left. exact E.
  - rewrite IH; [reflexivity|]. intros Hin. apply H. right. exact Hin.
Qed.

Lemma add_attribute_old l a : In (key a) (keys l) ->
  exists pre e e' post, l = pre ++ e :: post /\ add_attribute l a = pre ++ e' :: post
                        /\ key e = key a /\ key e' = key a /\ a_max e' = sys_maxsize /\ a_min e' = a_min e.
Proof.
  induction l as [|x r IH]; cbn; [contradiction|]. intros H.
  destruct (attr_eqb x a) eqn:E.
  - apply attr_eqb_key in E. eexists [], x, _, r. cbn. repeat split; auto.
  - apply attr_eqb_false_key in E. destruct H as [H|H]; [contradiction|].
    destruct (IH H) as [pre [e [e' [post [E1 [E2 [K1 [K2 [M1 M2]]]]]]]]].
    exists (x :: pre), e, e', post. cbn. rewrite E1 at 1. rewrite E2. repeat split; auto.
Qed.

Lemma add_attribute_keys l a :
  keys (add_attribute l a) = if in_dec key_eq_dec (key a) (keys l) then keys l else keys l ++ [key a].
Proof.
  destruct (in_dec key_eq_dec (key a) (keys l)) as [H|H].
  - destruct (add_attribute_old l a H) as [pre [e [e' [post [E1 [E2 [K1 [K2 _]]]]]]]].
    rewrite E2, E1. unfold keys. rewrite !map_app. cbn. rewrite K1, K2. reflexivity.
  - rewrite add_attribute_new by exact H. unfold keys. rewrite map_app. reflexivity.
Qed.

Lemma add_attribute_nodup l a : NoDup (keys l) -> NoDup (keys (add_attribute l a)).
Proof.
  intros ND. rewrite add_attribute_keys. destruct (in_dec key_eq_dec (key a) (keys l)) as [H|H]; [exact ND|].
  apply NoDup_keys_app with (l2 := [a]) in ND.
  - unfold keys in *. rewrite map_app in ND. exact ND.
  - cbn. constructor; [intros []|constructor].
  - intros k Hk [E|[]]. apply H. rewrite E. exact Hk.
Qed.

Lemma add_attribute_in_keys l a k : In k (keys (add_attribute l a)) <-> In k (keys l) \/ k = key a.
Proof.
  rewrite add_attribute_keys. destruct (in_dec key_eq_dec (key a) (keys l)) as [H|H].
  - split; [auto|]. intros [H1 | ->]; auto.
  - rewrite in_app_iff. cbn. split.
    + intros [H1|[H1|[]]]; auto.
    + intros [H1|H1]; auto.
Qed.

(* an attr with max = maxsize and a given key stays one *)
Lemma add_attribute_keeps_max l a y : In y l -> a_max y = sys_maxsize ->
  exists y', In y' (add_attribute l a) /\ key y' = key y /\ a_max y' = sys_maxsize.
Proof.
  intros Hy My. destruct (in_dec key_eq_dec (key a) (keys l)) as [H|H].
  - destruct (add_attribute_old l a H) as [pre [e [e' [post [E1 [E2 [K1 [K2 [M1 _]]]]]]]]].
    rewrite E1 in Hy. apply in_app_iff in Hy as [Hy|[<-|Hy]].
    + exists y. rewrite E2. split; [apply in_or_app; left; exact Hy|auto].
    + exists e'. rewrite E2. split; [apply in_or_app; right; left; reflexivity|]. split; [congruence|exact M1].
    + exists y. rewrite E2. split; [apply in_or_app; right; right; exact Hy|auto].
  - exists y. rewrite add_attribute_new by exact H. split; [apply in_or_app; left; exact Hy|auto].
Qed.

(* ------------------------------------------------------------------ sequences of additions *)
Inductive added : list attr -> list K3 -> list attr -> Prop :=
| added_nil l : added l [] l
| added_cons l a ks l' : added (add_attribute l a) ks l' -> added l (key a :: ks) l'.

Lemma added_app a ks1 b ks2 c : added a ks1 b -> added b ks2 c -> added a (ks1 ++ ks2) c.
Proof. induction 1; cbn; intros H2; [exact H2|]. constructor. apply IHadded. exact H2. Qed.

Lemma added_one l a : added l [key a] (add_attribute l a).
Proof. constructor. constructor. Qed.

Lemma added_nodup l ks l' : added l ks l' -> NoDup (keys l) -> NoDup (keys l').
Proof. induction 1; intros ND; [exact ND|]. apply IHadded. apply add_attribute_nodup. exact ND. Qed.

Lemma added_keys l ks l' : added l ks l' -> forall k, In k (keys l') <-> In k (keys l) \/ In k ks.
Proof.
  induction 1; intros k; cbn; [tauto|]. rewrite IHadded, add_attribute_in_keys. split.
  - intros [[H1|H1]|H1]; auto.
  - intros [H1|[H1|H1]]; auto.
Qed.

Lemma added_max l ks l' : added l ks l' -> NoDup (keys l) ->
  forall x, In x l' ->
    (2 <= cnt (key x) ks)%nat \/ (In (key x) (keys l) /\ (1 <= cnt (key x) ks)%nat)
    \/ (exists y, In y l /\ key y = key x /\ a_max y = sys_maxsize) ->
    a_max x = sys_maxsize.
Proof.
  induction 1 as [l|l a ks l' H IH]; intros ND x Hx Hyp.
  - destruct Hyp as [Hc|[[_ Hc]|[y [Hy [Ky My]]]]]; try (cbn in Hc; lia).
    assert (y = x) by (eapply NoDup_keys_inj; eauto). subst. exact My.
  - apply (IH (add_attribute_nodup _ _ ND) x Hx). unfold cnt in *. cbn [count_occ] in Hyp.
    destruct (key_eq_dec (key a) (key x)) as [E|E].
    + destruct Hyp as [Hc|[[Hin Hc]|[y [Hy [Ky My]]]]].
      * right. left. split; [apply add_attribute_in_keys; right; symmetry; exact E|lia].
      * right. right. rewrite <- E in Hin. destruct (add_attribute_old l a Hin) as [pre [e [e' [post [E1 [E2 [K1 [K2 [M1 _]]]]]]]]].
        exists e'. rewrite E2. split; [apply in_or_app; right; left; reflexivity|]. split; [congruence|exact M1].
      * right. right. destruct (add_attribute_keeps_max l a y Hy My) as [y' [H1 [H2 H3]]]. exists y'. split; [exact H1|]. split; [congruence|exact H3].
    + destruct Hyp as [Hc|[[Hin Hc]|[y [Hy [Ky My]]]]].
      * left. exact Hc.
      * right. left. split; [apply add_attribute_in_keys; left; exact Hin|exact Hc].
      * right. right. destruct (add_attribute_keeps_max l a y Hy My) as [y' [H1 [H2 H3]]]. exists y'. split; [exact H1|]. split; [congruence|exact H3].
Qed.

(* build_attr is one addition with the key part_key gives *)
Lemma build_attr_added attrs q ty ns tag seq none :
  exists a, build_attr attrs q ty ns tag seq none = add_attribute attrs a /\ key a = key (part_key tag ns q).
Proof.
  unfold build_attr, part_key. destruct (split_qname q) as [n0 name]. eexists. split; reflexivity.
Qed.

(* ------------------------------------------------------------------ the three phases of build_class *)
Definition attr_parts (atts : list (str * str)) := filter (fun kv => negb (str_eqb (fst kv) qn_xsi_nil)) atts.

Lemma build_attributes_added cv ns atts : forall nilb attrs,
  exists nilb', added attrs (map (fun kv => key (part_key tag_ATTRIBUTE ns (fst kv))) (attr_parts atts))
                      (snd (build_attributes cv atts ns (nilb, attrs)))
                /\ fst (build_attributes cv atts ns (nilb, attrs)) = nilb'.
Proof.
  induction atts as [|[k v] r IH]; intros nilb attrs; cbn.
  - exists nilb. split; [constructor|reflexivity].
  - destruct (str_eqb k qn_xsi_nil) eqn:E; cbn.
    + apply IH.
    + destruct (build_attr_added attrs k (build_attr_type_str cv k (Some v)) ns tag_ATTRIBUTE 0 false) as [a [Ea Ka]].
      destruct (IH nilb (build_attr attrs k (build_attr_type_str cv k (Some v)) ns tag_ATTRIBUTE 0 false)) as [n' [Had En]].
      exists n'. split; [|exact En]. rewrite <- Ka. constructor. rewrite <- Ea. exact Had.
Qed.

Lemma find_app_last {A} (f : A -> bool) l x :
  find f (l ++ [x]) = match find f l with Some y => Some y | None => if f x then Some x else None end.
Proof. induction l as [|y l IH]; cbn; [reflexivity|]. destruct (f y); [reflexivity|exact IH]. Qed.

Definition nil_flag (atts : list (str * str)) (dflt : bool) : bool :=
  match find (fun kv => str_eqb (fst kv) qn_xsi_nil) (rev atts) with
  | Some (_, v) => is_nil_true v
  | None => dflt
  end.

Lemma build_attributes_nil cv ns atts : forall nilb attrs,
  fst (build_attributes cv atts ns (nilb, attrs)) = nil_flag atts nilb.
Proof.
  unfold nil_flag. induction atts as [|[k v] r IH]; intros nilb attrs; cbn [build_attributes rev]; [reflexivity|].
  rewrite find_app_last. cbn [fst].
  destruct (str_eqb k qn_xsi_nil) eqn:E.
  - rewrite IH. destruct (find _ (rev r)) as [[k' v']|]; reflexivity.
  - rewrite IH. destruct (find _ (rev r)) as [[k' v']|]; reflexivity.
Qed.

Section Loop.
  Variables (cv : sconv) (ns : option str) (groups : list (nat * nat)) (rec : tree -> klass).
  Fixpoint elements_loop (i : nat) (ks : list tree) (acc : list attr * list klass * bool) {struct ks}
    : list attr * list klass * bool :=
    match ks with
    | [] => acc
    | k :: r =>
        match t_qn k with
        | [] => elements_loop (S i) r acc
        | _ =>
            let '(attrs, inner, mixed) := acc in
            let mixed' := mixed || truthy (t_tail k) in
            let '(ty, inner') :=
              if has_content k then
                let c := rec k in (mk_atype (k_qname c) false true, inner ++ [c])
              else (build_attr_type_str cv (t_qn k) (t_text k), inner) in
            elements_loop (S i) r (build_attr attrs (t_qn k) ty ns tag_ELEMENT (sequence_of groups i 1) false, inner', mixed')
        end
    end.

  Lemma elements_loop_spec ks : forall i attrs inner mixed,
    let out := elements_loop i ks (attrs, inner, mixed) in
    added attrs (map (fun k => key (part_key tag_ELEMENT ns (t_qn k))) (filter named ks)) (fst (fst out))
    /\ snd (fst out) = inner ++ map rec (filter (fun k => named k && has_content k) ks)
    /\ snd out = mixed || existsb (fun k => named k && truthy (t_tail k)) ks.
  Proof.
    induction ks as [|k r IH]; intros i attrs inner mixed; cbn [elements_loop].
    - cbn. rewrite app_nil_r, orb_false_r. repeat split. constructor.
    - cbn [filter existsb]. unfold named. destruct (t_qn k) as [|c0 q0] eqn:Q; cbv beta iota zeta.
      + cbn [andb orb]. apply (IH (S i) attrs inner mixed).
      + cbn [andb]. destruct (has_content k) eqn:HC; cbv beta iota zeta.
        * specialize (IH (S i) (build_attr attrs (c0 :: q0) (mk_atype (k_qname (rec k)) false true) ns tag_ELEMENT (sequence_of groups i 1) false)
                         (inner ++ [rec k]) (mixed || truthy (t_tail k))).
          cbv zeta in IH. destruct IH as [I1 [I2 I3]]. split; [|split].
          -- cbn [map]. destruct (build_attr_added attrs (c0 :: q0) (mk_atype (k_qname (rec k)) false true) ns tag_ELEMENT (sequence_of groups i 1) false) as [a [Ea Ka]].
             rewrite Q, <- Ka. constructor. rewrite <- Ea. exact I1.
          -- rewrite I2. cbn [map]. rewrite <- app_assoc. reflexivity.
          -- rewrite I3. rewrite orb_assoc. reflexivity.
        * specialize (IH (S i) (build_attr attrs (c0 :: q0) (build_attr_type_str cv (c0 :: q0) (t_text k)) ns tag_ELEMENT (sequence_of groups i 1) false)
                         inner (mixed || truthy (t_tail k))).
          cbv zeta in IH. destruct IH as [I1 [I2 I3]]. split; [|split].
          -- cbn [map]. destruct (build_attr_added attrs (c0 :: q0) (build_attr_type_str cv (c0 :: q0) (t_text k)) ns tag_ELEMENT (sequence_of groups i 1) false) as [a [Ea Ka]].
             rewrite Q, <- Ka. constructor. rewrite <- Ea. exact I1.
          -- exact I2.
          -- rewrite I3. rewrite orb_assoc. reflexivity.
  Qed.
End Loop.

Lemma build_class_unfold cv qn atts text tail kids p :
  build_class cv (T qn atts text tail kids) p =
  let '(ns0, name) := split_qname qn in
  let ns := select_namespace ns0 p tag_ELEMENT in
  let '(nilb, attrs1) := build_attributes cv atts ns (false, []) in
  let groups := sequential_groups (map t_qn kids) in
  let '(attrs2, inner, mixed1) := elements_loop cv ns groups (fun k => build_class cv k ns) O kids (attrs1, [], false) in
  let '(attrs3, mixed2) :=
    if truthy text then
      let a := build_attr attrs2 text_attr_name (build_attr_type_str cv text_attr_name text) None tag_SIMPLE_TYPE 0 false in
      (a, mixed1 || existsb (fun x => str_eqb (a_tag x) tag_ELEMENT) a)
    else (attrs2, mixed1) in
  K (build_qname ns name) ns mixed2 nilb attrs3 inner.
Proof. reflexivity. Qed.

(* ------------------------------------------------------------------ one node *)
Lemma keys_app l1 l2 : keys (l1 ++ l2) = keys l1 ++ keys l2.
Proof. unfold keys. apply map_app. Qed.

Lemma keys_map_key {A} (f : A -> attr) l : keys (map f l) = map (fun x => key (f x)) l.
Proof. unfold keys. apply map_map. Qed.

Theorem build_class_spec cv n p :
  exists mixed nilb attrs,
    build_class cv n p =
      K (class_qname p n) (class_ns p n) mixed nilb attrs
        (map (fun k => build_class cv k (class_ns p n)) (filter (fun k => named k && has_content k) (t_kids n)))
    /\ added [] (keys (node_part_keys (class_ns p n) n)) attrs
    /\ (node_mixed n = true -> mixed = true)
    /\ nilb = nil_flag (t_atts n) false.
Proof.
  destruct n as [qn atts text tail kids]. rewrite build_class_unfold.
  unfold class_qname, class_ns, node_part_keys. cbn [t_qn t_atts t_kids t_text fst snd].
  destruct (split_qname qn) as [ns0 name]. cbn [fst snd]. set (ns := select_namespace ns0 p tag_ELEMENT).
  destruct (build_attributes_added cv ns atts false []) as [nilb [A1 En]].
  pose proof (build_attributes_nil cv ns atts false []) as Enil.
  destruct (build_attributes cv atts ns (false, [])) as [nilb0 attrs1]. cbn [fst snd] in A1, En, Enil. subst nilb0.
  pose proof (elements_loop_spec cv ns (sequential_groups (map t_qn kids)) (fun k => build_class cv k ns) kids O attrs1 [] false) as L.
  cbv zeta in L. destruct (elements_loop cv ns (sequential_groups (map t_qn kids)) (fun k => build_class cv k ns) O kids (attrs1, [], false))
    as [[attrs2 inner] mixed1]. cbn [fst snd] in L. destruct L as [A2 [Ei Em]]. cbn [app orb] in Ei, Em.
  rewrite !keys_app, !keys_map_key. fold (attr_parts atts).
  destruct (truthy text) eqn:TT.
  - destruct (build_attr_added attrs2 text_attr_name (build_attr_type_str cv text_attr_name text) None tag_SIMPLE_TYPE 0 false) as [a [Ea Ka]].
    eexists _, nilb, _. split; [rewrite Ei; reflexivity|]. split; [|split].
    + eapply added_app; [exact A1|]. eapply added_app; [exact A2|]. rewrite Ea. cbn [keys map].
      replace (key (key_attr tag_SIMPLE_TYPE text_attr_name None)) with (key a). apply added_one.
    + unfold node_mixed. cbn [t_kids t_text]. rewrite TT, Em. cbn [andb].
      intros H. apply orb_true_iff in H as [H|H]; [rewrite H; reflexivity|]. apply orb_true_iff. right.
      apply existsb_exists in H as [k [Hk Nk]].
      (* the element attr of k is among the attrs *)
      assert (Hin : In (key (part_key tag_ELEMENT ns (t_qn k))) (keys (build_attr attrs2 text_attr_name (build_attr_type_str cv text_attr_name text) None tag_SIMPLE_TYPE 0 false))).
      { rewrite Ea. apply add_attribute_in_keys. left. apply (added_keys _ _ _ A2). right.
        apply in_map_iff. exists k. split; [reflexivity|]. apply filter_In. auto. }
      apply in_map_iff in Hin as [x [Kx Hx]]. apply existsb_exists. exists x. split; [exact Hx|].
      unfold key in Kx. inversion Kx as [[T1 T2 T3]]. rewrite T1. unfold part_key. destruct (split_qname (t_qn k)). cbn. first [reflexivity | apply str_eqb_refl].
    + exact Enil.
  - eexists _, nilb, _. split; [rewrite Ei; reflexivity|]. split; [|split].
    + cbn [keys map]. rewrite app_nil_r. eapply added_app; [exact A1|exact A2].
    + unfold node_mixed. cbn [t_kids t_text]. rewrite TT, Em. cbn [andb]. rewrite orb_false_r. auto.
    + exact Enil.
Qed.

Definition node_class (cv : sconv) (p : option str) (n : tree) : fclass :=
  match build_class cv n p with
  | K q ns mixed nilb attrs _ => mk_fclass q ns mixed nilb (map flatten_attr attrs)
  end.

Lemma flatten_attr_key a : key (flatten_attr a) = key a.
Proof. reflexivity. Qed.

Lemma keys_flatten l : keys (map flatten_attr l) = keys l.
Proof. unfold keys. rewrite map_map. reflexivity. Qed.

(* ------------------------------------------------------------------ flatten *)
Fixpoint flatten_rev (l : list klass) : list fclass :=
  match l with
  | [] => []
  | c :: r => flatten_rev r ++ flatten c
  end.

Lemma flatten_unfold q ns mixed nilb attrs inner :
  flatten (K q ns mixed nilb attrs inner) = flatten_rev inner ++ [mk_fclass q ns mixed nilb (map flatten_attr attrs)].
Proof. reflexivity. Qed.

Lemma flatten_rev_incl l c x : In c l -> In x (flatten c) -> In x (flatten_rev l).
Proof.
  induction l as [|d r IH]; cbn; [contradiction|]. intros [->|H] Hx; apply in_or_app; [right; exact Hx|left; auto].
Qed.

Lemma flatten_rev_from l x : In x (flatten_rev l) -> exists c, In c l /\ In x (flatten c).
Proof.
  induction l as [|d r IH]; cbn; [contradiction|]. intros H. apply in_app_iff in H as [H|H].
  - destruct (IH H) as [c [H1 H2]]. exists c. auto.
  - exists d. auto.
Qed.

(* the nodes that get a class *)
Fixpoint Forall_nodes (P : option str -> tree -> Prop) (p : option str) (n : tree) {struct n} : Prop :=
  P p n /\
  (fix go (ks : list tree) : Prop :=
     match ks with
     | [] => True
     | k :: r => (if named k && has_content k then Forall_nodes P (class_ns p n) k else True) /\ go r
     end) (t_kids n).

Section TreeInd.
  Variable P : tree -> Prop.
  Hypothesis H : forall qn atts text tail kids, Forall P kids -> P (T qn atts text tail kids).
  Fixpoint tree_ind' (t : tree) : P t :=
    match t with
    | T qn atts text tail kids =>
        H qn atts text tail kids
          ((fix go (ks : list tree) : Forall P ks :=
              match ks with
              | [] => Forall_nil P
              | k :: r => Forall_cons k (tree_ind' k) (go r)
              end) kids)
    end.
End TreeInd.

Lemma tree_all_Forall_nodes f : forall n p, Forall_nodes (fun p' m => f p' m = true) p n -> tree_all f p n = true.
Proof.
  induction n as [qn atts text tail kids IH] using tree_ind'. intros p [H0 Hk]. cbn [tree_all]. rewrite H0. cbn [andb].
  cbn [t_kids] in *. set (cns := class_ns p (T qn atts text tail kids)) in *. clearbody cns. clear H0.
  induction kids as [|k r IHr]; [reflexivity|]. inversion IH; subst. destruct Hk as [Hk1 Hk2].
  destruct (named k && has_content k).
  - rewrite (H1 cns Hk1). cbn [andb]. apply IHr; assumption.
  - cbn [andb]. apply IHr; assumption.
Qed.

Lemma flatten_nodes cv : forall n p (L : list fclass),
  (forall x, In x (flatten (build_class cv n p)) -> In x L) ->
  Forall_nodes (fun p' m => In (node_class cv p' m) L) p n.
Proof.
  induction n as [qn atts text tail kids IH] using tree_ind'. intros p L HL.
  set (n := T qn atts text tail kids) in *.
  destruct (build_class_spec cv n p) as [mixed [nilb [attrs [E _]]]].
  cbn [Forall_nodes]. split.
  - apply HL. unfold node_class. fold n. rewrite E, flatten_unfold. apply in_or_app. right. left. reflexivity.
  - fold n. set (cns := class_ns p n) in *. rewrite E, flatten_unfold in HL. cbn [t_kids] in *.
    assert (HL' : forall k, In k kids -> named k && has_content k = true ->
                  forall x, In x (flatten (build_class cv k cns)) -> In x L).
    { intros k Hk Hc x Hx. apply HL. apply in_or_app. left.
      eapply flatten_rev_incl; [|exact Hx]. apply in_map_iff. exists k. split; [reflexivity|]. apply filter_In. auto. }
    clear HL E. clearbody cns. induction kids as [|k r IHr]; [exact I|]. inversion IH; subst. split.
    + destruct (named k && has_content k) eqn:Hc; [|exact I]. apply H1. apply HL'; [left; reflexivity|exact Hc].
    + apply IHr; [assumption|]. intros k0 Hk0. apply HL'. right. exact Hk0.
Qed.

Lemma flatten_from cv : forall n p x, In x (flatten (build_class cv n p)) -> exists p' m, x = node_class cv p' m.
Proof.
  induction n as [qn atts text tail kids IH] using tree_ind'. intros p x Hx.
  set (n := T qn atts text tail kids) in *.
  destruct (build_class_spec cv n p) as [mixed [nilb [attrs [E _]]]].
  rewrite E, flatten_unfold in Hx. apply in_app_iff in Hx as [Hx|[<-|[]]].
  - apply flatten_rev_from in Hx as [c [Hc Hxc]]. apply in_map_iff in Hc as [k [<- Hk]].
    apply filter_In in Hk as [Hk _]. cbn [t_kids] in Hk. rewrite Forall_forall in IH. eapply IH; eauto.
  - exists p, n. unfold node_class. rewrite E. reflexivity.
Qed.

Lemma node_class_nodup cv p n : NoDup (keys (c_attrs (node_class cv p n))).
Proof.
  unfold node_class. destruct (build_class_spec cv n p) as [mixed [nilb [attrs [E [A _]]]]]. rewrite E. cbn [c_attrs].
  rewrite keys_flatten. eapply added_nodup; [exact A|constructor].
Qed.
