(* Proofs/DatesStd.v — conversions to and from the standard-library date/time objects preserve the
   instant (C06, last clause but one).  A stdlib object is the tuple of its fields (Model/DatesStd.v);
   its instant is `instant_us` of Spec/XsdDates.v (the check ties that formula to CPython's own
   `obj - epoch` arithmetic on every generated case). *)
From Coq Require Import NArith ZArith List Bool Lia ZifyBool.
From XV Require Import Base.Str Gen.DatesTables Model.Dates Model.DatesStd Model.DatesCorr Spec.XsdDates Proofs.DatesCal.
Import ListNotations.
Open Scope Z_scope.
Ltac Zify.zify_post_hook ::= Z.to_euclidean_division_equations.

Definition pydt_instant_us (p : pydatetime) : Z :=
  instant_us (sd_year p) (sd_month p) (sd_day p) (sd_hour p) (sd_minute p) (sd_second p) (sd_us p) (sd_off p).
Definition pyt_instant_us (q : pytime) : Z :=
  time_us (q_hour q) (q_minute q) (q_second q) (q_us q) (q_off q).
Definition t_instant' (x : xtime) : Z := time_ns (t_hour x) (t_minute x) (t_second x) (t_frac x) (t_offset x).

(* which values the stdlib types can hold *)
Definition dt_std_range (v : xdatetime) : bool :=
  (1 <=? dt_year v) && (dt_year v <=? 9999) && (dt_hour v <? 24).
Definition t_std_range (v : xtime) : bool := t_hour v <? 24.
Definition d_std_range (v : xdate) : bool := (1 <=? d_year v) && (d_year v <=? 9999).

Lemma split_andb (a b : bool) : a && b = true -> a = true /\ b = true.
Proof. apply andb_prop. Qed.

Ltac andbs H := repeat (apply andb_prop in H; let H2 := fresh "H" in destruct H as [H H2]).

Lemma real_offset_tz_ok o : real_offset o = true -> py_tz_ok o = true.
Proof. destruct o as [z|]; cbn; [|reflexivity]. intros H. lia. Qed.

Lemma real_date_py_ok y m d : real_date y m d = true -> 1 <= y <= 9999 -> py_date_ok y m d = true.
Proof.
  intros H Hy. rewrite <- validate_date_real in H. unfold validate_date in H. unfold py_date_ok.
  destruct ((1 <=? m) && (m <=? 12)) eqn:Hm; cbn [negb] in H; [|discriminate].
  andbs H. andbs Hm. lia.
Qed.

Lemma real_time_py_ok h mi s f : real_time h mi s f = true -> h < 24 -> py_time_ok h mi s (microsecond f) = true.
Proof.
  unfold real_time, py_time_ok, microsecond. intros H Hh.
  apply orb_prop in H. destruct H as [H|H]; andbs H; lia.
Qed.

(* 1. every valid value in the stdlib range converts (no exception) *)
Theorem datetime_to_std_total v :
  valid_datetime_value v = true -> dt_std_range v = true -> exists p, datetime_to_std v = Some p.
Proof.
  unfold valid_datetime_value, dt_std_range, datetime_to_std. intros V R.
  apply andb_prop in V. destruct V as [V Vo]. apply andb_prop in V. destruct V as [Vd Vt]. andbs R.
  rewrite real_offset_tz_ok, real_date_py_ok, real_time_py_ok by (assumption || lia). eexists; reflexivity.
Qed.

(* 2. the stdlib object denotes the same instant, truncated to its microsecond precision *)
Theorem datetime_to_std_instant v p :
  datetime_to_std v = Some p -> pydt_instant_us p = dt_instant v / 1000.
Proof.
  unfold datetime_to_std. destruct (_ && _ && _); [|discriminate]. intros E. injection E as <-.
  unfold pydt_instant_us, dt_instant, instant_us, instant_ns, microsecond. cbn [sd_year sd_month sd_day sd_hour sd_minute sd_second sd_us sd_off].
  set (X := days_from_civil _ _ _ * 86400 + _ * 3600 + _ * 60 + _ - off0 _ * 60). lia.
Qed.

Corollary datetime_to_std_instant_exact v p :
  datetime_to_std v = Some p -> dt_frac v mod 1000 = 0 -> pydt_instant_us p * 1000 = dt_instant v.
Proof.
  intros E F. rewrite (datetime_to_std_instant v p E).
  unfold dt_instant, instant_ns. set (X := days_from_civil _ _ _ * 86400 + _ * 3600 + _ * 60 + _ - off0 _ * 60). lia.
Qed.

(* 3. ... and converts back to the same value when the value has microsecond precision *)
Theorem datetime_std_roundtrip v p :
  datetime_to_std v = Some p -> dt_frac v mod 1000 = 0 -> datetime_from_std p = v.
Proof.
  unfold datetime_to_std. destruct (_ && _ && _); [|discriminate]. intros E F. injection E as <-.
  unfold datetime_from_std, microsecond. cbn [sd_year sd_month sd_day sd_hour sd_minute sd_second sd_us sd_off].
  destruct v as [y m d h mi s f o]. cbn in *. f_equal. lia.
Qed.

(* 4. the other direction: every stdlib datetime (whole-minute offset) survives datetime -> XmlDateTime -> datetime,
      and the XmlDateTime denotes the same instant *)
Definition pydt_ok (p : pydatetime) : bool :=
  py_tz_ok (sd_off p) && py_date_ok (sd_year p) (sd_month p) (sd_day p)
  && py_time_ok (sd_hour p) (sd_minute p) (sd_second p) (sd_us p).

Theorem datetime_from_std_roundtrip p :
  pydt_ok p = true -> datetime_to_std (datetime_from_std p) = Some p /\ dt_instant (datetime_from_std p) = pydt_instant_us p * 1000.
Proof.
  unfold pydt_ok, datetime_to_std, datetime_from_std, microsecond. intros H.
  cbn [dt_year dt_month dt_day dt_hour dt_minute dt_second dt_frac dt_offset].
  replace (sd_us p * 1000 / 1000) with (sd_us p) by lia. rewrite H. split.
  - destruct p; reflexivity.
  - unfold dt_instant, pydt_instant_us, instant_ns, instant_us.
    cbn [dt_year dt_month dt_day dt_hour dt_minute dt_second dt_frac dt_offset]. lia.
Qed.

(* ---- xs:time ---- *)
Theorem time_to_std_total v :
  valid_time_value v = true -> t_std_range v = true -> exists q, time_to_std v = Some q.
Proof.
  unfold valid_time_value, t_std_range, time_to_std. intros V R.
  apply andb_prop in V. destruct V as [Vt Vo].
  rewrite real_offset_tz_ok, real_time_py_ok by (assumption || lia). eexists; reflexivity.
Qed.

Theorem time_to_std_instant v q : time_to_std v = Some q -> pyt_instant_us q = t_instant' v / 1000.
Proof.
  unfold time_to_std. destruct (_ && _); [|discriminate]. intros E. injection E as <-.
  unfold pyt_instant_us, t_instant', time_us, time_ns, microsecond. cbn [q_hour q_minute q_second q_us q_off].
  set (X := _ * 3600 + _ * 60 + _ - off0 _ * 60). lia.
Qed.

Theorem time_std_roundtrip v q :
  time_to_std v = Some q -> t_frac v mod 1000 = 0 -> time_from_std q = v.
Proof.
  unfold time_to_std. destruct (_ && _); [|discriminate]. intros E F. injection E as <-.
  unfold time_from_std, microsecond. cbn [q_hour q_minute q_second q_us q_off].
  destruct v as [h mi s f o]. cbn in *. f_equal. lia.
Qed.

Definition pyt_ok (q : pytime) : bool := py_tz_ok (q_off q) && py_time_ok (q_hour q) (q_minute q) (q_second q) (q_us q).
Theorem time_from_std_roundtrip q :
  pyt_ok q = true -> time_to_std (time_from_std q) = Some q /\ t_instant' (time_from_std q) = pyt_instant_us q * 1000.
Proof.
  unfold pyt_ok, time_to_std, time_from_std, microsecond. intros H.
  cbn [t_hour t_minute t_second t_frac t_offset].
  replace (q_us q * 1000 / 1000) with (q_us q) by lia. rewrite H. split.
  - destruct q; reflexivity.
  - unfold t_instant', pyt_instant_us, time_ns, time_us. cbn [t_hour t_minute t_second t_frac t_offset]. lia.
Qed.

(* XmlTime.now(tz) / utcnow(): the time of day of `datetime.now(tz)` WITH its offset, so that it denotes the
   time-of-day instant of that datetime (before a863c7f the offset was dropped: off by the zone) *)
Theorem time_now_keeps_zone p :
  t_offset (time_now_from p) = sd_off p
  /\ t_instant' (time_now_from p) = time_us (sd_hour p) (sd_minute p) (sd_second p) (sd_us p) (sd_off p) * 1000.
Proof.
  unfold time_now_from, time_from_std, pydatetime_timetz, t_instant', time_ns, time_us. cbn. split; [reflexivity | lia].
Qed.

(* ---- xs:date ---- *)
Theorem date_std_roundtrip v :
  valid_date_value v = true -> d_std_range v = true ->
  exists r p, date_to_date v = Some r /\ date_to_datetime v = Some p
              /\ date_from_datetime p = v
              /\ date_from_date r = mk_xdate (d_year v) (d_month v) (d_day v) None
              /\ pydt_instant_us p = instant_us (d_year v) (d_month v) (d_day v) 0 0 0 0 (d_offset v).
Proof.
  unfold valid_date_value, d_std_range, date_to_date, date_to_datetime. intros V R.
  apply andb_prop in V. destruct V as [Vd Vo]. andbs R.
  rewrite real_offset_tz_ok, real_date_py_ok by (assumption || lia). cbn [andb].
  eexists; eexists; repeat split. destruct v; reflexivity.
Qed.

(* the statements of Properties/C06.v, assembled *)
Theorem datetime_to_std_all v :
  valid_datetime_value v = true -> dt_std_range v = true ->
  exists p, datetime_to_std v = Some p
            /\ pydt_instant_us p = dt_instant v / 1000
            /\ (dt_frac v mod 1000 = 0 -> pydt_instant_us p * 1000 = dt_instant v /\ datetime_from_std p = v).
Proof.
  intros V R. destruct (datetime_to_std_total v V R) as [p E]. exists p. split; [exact E|]. split.
  - exact (datetime_to_std_instant v p E).
  - intros F. split; [exact (datetime_to_std_instant_exact v p E F) | exact (datetime_std_roundtrip v p E F)].
Qed.

Theorem time_to_std_all v :
  valid_time_value v = true -> t_std_range v = true ->
  exists q, time_to_std v = Some q
            /\ pyt_instant_us q = t_instant' v / 1000
            /\ (t_frac v mod 1000 = 0 -> time_from_std q = v).
Proof.
  intros V R. destruct (time_to_std_total v V R) as [q E]. exists q. split; [exact E|]. split.
  - exact (time_to_std_instant v q E).
  - exact (time_std_roundtrip v q E).
Qed.
