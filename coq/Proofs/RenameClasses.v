(* Proofs/RenameClasses.v — class-name analogue: RenameDuplicateClasses + Filters.class_name
   do not keep the class names of a module apart (witnesses); the positive statement is the
   generic core of Proofs/RenameFields.v applied to class names whose slugs are distinct. *)
From Coq Require Import NArith PeanoNat List Bool Lia String.
From XV Require Import Base.Str Base.Dec Gen.SafeTables Model.Safe Model.Rename
  Proofs.SafeText Proofs.SafeCase Proofs.SafeTerm Proofs.RenameUnique Proofs.RenameFields.
Import ListNotations.
Open Scope N_scope.

Definition cl (nm : string) (abstract : bool) : cls := mk_cls [] (Safe.lit nm) false abstract.
Definition class_names_of (l : list cls) : list sres :=
  map (fun c => class_name default_conventions (c_name c)) (rename_duplicate_classes true l).

(* the reserved-word suffix lands on an existing class: None -> NoneType, NoneType -> NoneType *)
Theorem classes_distinct_reserved_suffix_refuted :
  ~ NoDup (class_names_of [cl "None" false; cl "NoneType" false]).
Proof.
  assert (E : class_names_of [cl "None" false; cl "NoneType" false] = [SOk (Safe.lit "NoneType"); SOk (Safe.lit "NoneType")])
    by (vm_compute; reflexivity).
  rewrite E. intros H. inversion H as [|? ? H3 _]. apply H3. left. reflexivity.
Qed.

(* positive part: whenever the renamed class slugs are distinct and no adjusted name lands on
   another class's slug, the final class names are distinct (any convention, any valid prefix) *)
Theorem classes_distinct_after_rename p k (names : list str) :
  prefix_ok p = true -> NoDup (map alnum names) -> adjust_fresh p k names = true ->
  NoDup (map (final_name p k) names).
Proof.
  intros Hp Hs Hf.
  exact (generic_distinct (final_name p k) (adjust_of p k) (apply_case k) (final_adjust p k Hp)
           (fun a r => case_alnum k a r) names Hs Hf).
Qed.

(* ------------------------------------------------------------------ numeric suffixes are fresh *)
(* RenameDuplicateClasses.next_qname: the candidate that is compared with the reserved set *)
Definition ccand (u : bool) (ns name : str) (i : N) : str :=
  alnum (if u then name ++ us ++ to_dec i else build_qname ns (name ++ us ++ to_dec i)).

Lemma alnum_build_qname ns x : alnum (build_qname ns x) = alnum ns ++ alnum x.
Proof.
  unfold build_qname. destruct ns as [|c ns]; [reflexivity|].
  rewrite !alnum_app. change (alnum [123]) with (@nil N). change (alnum [125]) with (@nil N). reflexivity.
Qed.

Lemma ccand_eq u ns name i :
  ccand u ns name i = (if u then alnum name else alnum ns ++ alnum name) ++ to_dec i.
Proof.
  unfold ccand. destruct u.
  - rewrite !alnum_app, alnum_us. cbn [app]. rewrite (alnum_digits (to_dec i)) by apply to_dec_digits. reflexivity.
  - rewrite alnum_build_qname, !alnum_app, alnum_us. cbn [app].
    rewrite (alnum_digits (to_dec i)) by apply to_dec_digits. rewrite app_assoc. reflexivity.
Qed.

Lemma ccand_inj u ns name i j : ccand u ns name i = ccand u ns name j -> i = j.
Proof.
  rewrite !ccand_eq. intros H. apply app_inv_head in H.
  rewrite <- (str_val_to_dec i), <- (str_val_to_dec j), H. reflexivity.
Qed.

Lemma next_index_sound fuel u ns name res : forall i j,
  next_index fuel u ns name res i = Some j -> str_in (ccand u ns name j) res = false.
Proof.
  induction fuel as [|fuel IH]; intros i j H; [discriminate|]. cbn [next_index] in H.
  fold (ccand u ns name i) in H. destruct (str_in (ccand u ns name i) res) eqn:E.
  - apply (IH _ _ H).
  - injection H as <-. exact E.
Qed.

Lemma next_index_none fuel u ns name res : forall i,
  next_index fuel u ns name res i = None ->
  forall d, (d < fuel)%nat -> str_in (ccand u ns name (i + N.of_nat d)) res = true.
Proof.
  induction fuel as [|fuel IH]; intros i H d Hd; [lia|]. cbn [next_index] in H.
  fold (ccand u ns name i) in H. destruct (str_in (ccand u ns name i) res) eqn:E; [|discriminate].
  destruct d as [|d].
  - replace (i + N.of_nat 0) with i by lia. exact E.
  - replace (i + N.of_nat (S d)) with ((i + 1) + N.of_nat d) by lia. apply IH; [exact H|lia].
Qed.

Lemma next_index_total u ns name res :
  exists j, next_index (S (List.length res)) u ns name res 1 = Some j.
Proof.
  destruct (next_index (S (List.length res)) u ns name res 1) as [j|] eqn:E; [eexists; reflexivity|]. exfalso.
  pose proof (next_index_none _ _ _ _ _ _ E) as H.
  set (f := fun d : nat => ccand u ns name (1 + N.of_nat d)).
  assert (Hinj : FinFun.Injective f).
  { intros a b Hab. unfold f in Hab. apply ccand_inj in Hab. lia. }
  assert (Hnd : NoDup (map f (seq 0 (S (List.length res)))))
    by (apply FinFun.Injective_map_NoDup; [exact Hinj|apply seq_NoDup]).
  assert (Hincl : incl (map f (seq 0 (S (List.length res)))) res).
  { intros x Hx. apply in_map_iff in Hx as [d [<- Hd]]. apply in_seq in Hd.
    apply str_in_In. apply H. lia. }
  pose proof (NoDup_incl_length Hnd Hincl) as L. rewrite map_length, seq_length in L. lia.
Qed.

Lemma cget_cset_same p n l : (p < List.length l)%nat ->
  c_name (cget (cset_name p n l) p) = n /\ c_ns (cget (cset_name p n l) p) = c_ns (cget l p).
Proof.
  unfold cget. revert p; induction l as [|a l IH]; intros [|p] H; cbn in *; try lia; [split; reflexivity|].
  apply IH. lia.
Qed.

Lemma cget_cset_other p n l i : i <> p -> cget (cset_name p n l) i = cget l i.
Proof.
  unfold cget. revert p i; induction l as [|a l IH]; intros [|p] [|i] H; cbn; try reflexivity; try congruence.
  apply IH. congruence.
Qed.

Lemma cset_name_length p n l : List.length (cset_name p n l) = List.length l.
Proof. revert p; induction l as [|a l IH]; intros [|p]; cbn; auto. Qed.

(* the reserved set, once built, covers the comparison keys of every class *)
Definition res_ok (u : bool) (l : list cls) (res : option (list str)) : Prop :=
  match res with
  | Some (x :: r) => incl (map (c_cmp u) l) (x :: r)
  | _ => True
  end.

(* add_numeric_suffix: the renamed class gets a comparison key that NO class had before (in the
   mode the handler runs in: names, or qualified names), and the reserved set stays a cover *)
Theorem numeric_suffix_fresh u l res p :
  (p < List.length l)%nat -> res_ok u l res ->
  let st' := add_numeric_suffix u (l, res) p in
  ~ In (c_cmp u (cget (fst st') p)) (map (c_cmp u) l) /\
  (forall i, i <> p -> cget (fst st') i = cget l i) /\
  res_ok u (fst st') (snd st').
Proof.
  intros Hp Hok. unfold add_numeric_suffix.
  set (reserved := match res with Some [] | None => map (c_cmp u) l | Some r => r end).
  assert (Hcover : incl (map (c_cmp u) l) reserved).
  { unfold reserved. destruct res as [[|x r]|]; try apply incl_refl. exact Hok. }
  destruct (next_index_total u (c_ns (cget l p)) (c_name (cget l p)) reserved) as [j Hj].
  rewrite Hj. cbn zeta. cbn [fst snd].
  pose proof (next_index_sound _ _ _ _ _ _ _ Hj) as Hs. apply str_in_false in Hs.
  set (new_name := c_name (cget l p) ++ us ++ to_dec j) in *.
  destruct (cget_cset_same p new_name l Hp) as [En Ens].
  assert (Ecmp : c_cmp u (cget (cset_name p new_name l) p) = ccand u (c_ns (cget l p)) (c_name (cget l p)) j).
  { unfold c_cmp, c_qname, ccand. rewrite En, Ens. reflexivity. }
  split; [|split].
  - rewrite Ecmp. intros Hin. apply Hs. apply Hcover. exact Hin.
  - intros i Hi. apply cget_cset_other. exact Hi.
  - cbn [res_ok]. intros x Hx. apply in_map_iff in Hx as [c [<- Hc]].
    apply (In_nth _ _ dummy_cls) in Hc as [i [Hi Ei]]. rewrite cset_name_length in Hi.
    destruct (Nat.eq_dec i p) as [->|Hne].
    + left. fold (cget (cset_name p new_name l) p) in Ei. rewrite <- Ei. symmetry. exact Ecmp.
    + right. fold (cget (cset_name p new_name l) i) in Ei. rewrite cget_cset_other in Ei by exact Hne.
      apply Hcover. rewrite <- Ei. apply in_map. apply nth_In. exact Hi.
Qed.

(* add_abstract_suffix (fix 5e6ea57): same statement *)
Theorem abstract_suffix_fresh u l res p :
  (p < List.length l)%nat -> res_ok u l res ->
  let st' := add_abstract_suffix u (l, res) p in
  ~ In (c_cmp u (cget (fst st') p)) (map (c_cmp u) l) /\
  (forall i, i <> p -> cget (fst st') i = cget l i) /\
  res_ok u (fst st') (snd st').
Proof.
  intros Hp Hok. unfold add_abstract_suffix.
  set (reserved := match res with Some [] | None => map (c_cmp u) l | Some r => r end).
  assert (Hcover : incl (map (c_cmp u) l) reserved).
  { unfold reserved. destruct res as [[|x r]|]; try apply incl_refl. exact Hok. }
  set (base := c_name (cget l p) ++ Safe.lit "_abstract").
  assert (Fin : forall nn, ~ In (alnum (if u then nn else build_qname (c_ns (cget l p)) nn)) reserved ->
     let st' := (cset_name p nn l, Some (alnum (if u then nn else build_qname (c_ns (cget l p)) nn) :: reserved)) in
     ~ In (c_cmp u (cget (fst st') p)) (map (c_cmp u) l) /\
     (forall i, i <> p -> cget (fst st') i = cget l i) /\ res_ok u (fst st') (snd st')).
  { intros nn Hfresh. cbn zeta. cbn [fst snd].
    destruct (cget_cset_same p nn l Hp) as [En Ens].
    assert (Ecmp : c_cmp u (cget (cset_name p nn l) p) = alnum (if u then nn else build_qname (c_ns (cget l p)) nn)).
    { unfold c_cmp, c_qname. rewrite En, Ens. reflexivity. }
    split; [|split].
    - rewrite Ecmp. intros Hin. apply Hfresh. apply Hcover. exact Hin.
    - intros i Hi. apply cget_cset_other. exact Hi.
    - cbn [res_ok]. intros x Hx. apply in_map_iff in Hx as [c [<- Hc]].
      apply (In_nth _ _ dummy_cls) in Hc as [i [Hi Ei]]. rewrite cset_name_length in Hi.
      destruct (Nat.eq_dec i p) as [->|Hne].
      + left. fold (cget (cset_name p nn l) p) in Ei. rewrite <- Ei. symmetry. exact Ecmp.
      + right. fold (cget (cset_name p nn l) i) in Ei. rewrite cget_cset_other in Ei by exact Hne.
        apply Hcover. rewrite <- Ei. apply in_map. apply nth_In. exact Hi. }
  destruct (str_in (alnum (if u then base else build_qname (c_ns (cget l p)) base)) reserved) eqn:Etaken.
  - destruct (next_index_total u (c_ns (cget l p)) base reserved) as [j Hj]. rewrite Hj.
    apply Fin. pose proof (next_index_sound _ _ _ _ _ _ _ Hj) as Hs. apply str_in_false in Hs. exact Hs.
  - apply Fin. apply str_in_false. exact Etaken.
Qed.

Example abstract_witness_now_distinct :
  map c_name (rename_duplicate_classes true [cl "A" true; cl "a" false; cl "A_abstract" false])
  = [Safe.lit "A_abstract_1"; Safe.lit "a"; Safe.lit "A_abstract"].
Proof. vm_compute. reflexivity. Qed.
