(* Proofs/RenameClasses.v — class-name analogue: RenameDuplicateClasses + Filters.class_name
   do not keep the class names of a module apart (witnesses); the positive statement is the
   generic core of Proofs/RenameFields.v applied to class names whose slugs are distinct. *)
From Coq Require Import NArith PeanoNat List Bool Lia String.
From XV Require Import Base.Str Base.Dec Gen.SafeTables Model.Safe Model.Rename
  Proofs.SafeText Proofs.SafeCase Proofs.SafeTerm Proofs.RenameUnique Proofs.RenameFields.
Import ListNotations.
Open Scope N_scope.

Definition cl (nm : string) (abstract : bool) : cls := mk_cls [] (Safe.lit nm) false abstract.
Definition class_names_of (l : list cls) : list sres :=
  map (fun c => class_name default_conventions (c_name c)) (rename_duplicate_classes true l).

(* the reserved-word suffix lands on an existing class: None -> NoneType, NoneType -> NoneType *)
Theorem classes_distinct_reserved_suffix_refuted :
  ~ NoDup (class_names_of [cl "None" false; cl "NoneType" false]).
Proof.
  assert (E : class_names_of [cl "None" false; cl "NoneType" false] = [SOk (Safe.lit "NoneType"); SOk (Safe.lit "NoneType")])
    by (vm_compute; reflexivity).
  rewrite E. intros H. inversion H as [|? ? H3 _]. apply H3. left. reflexivity.
Qed.

(* add_abstract_suffix never checks that "<name>_abstract" is free *)
Theorem classes_distinct_abstract_suffix_refuted :
  ~ NoDup (map (fun c => alnum (c_name c)) (rename_duplicate_classes true [cl "A" true; cl "a" false; cl "A_abstract" false])).
Proof.
  assert (E : map (fun c => alnum (c_name c)) (rename_duplicate_classes true [cl "A" true; cl "a" false; cl "A_abstract" false])
              = [Safe.lit "aabstract"; Safe.lit "a"; Safe.lit "aabstract"]) by (vm_compute; reflexivity).
  rewrite E. intros H. inversion H as [|? ? H3 _]. apply H3. right. left. reflexivity.
Qed.

(* positive part: whenever the renamed class slugs are distinct and no adjusted name lands on
   another class's slug, the final class names are distinct (any convention, any valid prefix) *)
Theorem classes_distinct_after_rename p k (names : list str) :
  prefix_ok p = true -> NoDup (map alnum names) -> adjust_fresh p k names = true ->
  NoDup (map (final_name p k) names).
Proof.
  intros Hp Hs Hf.
  exact (generic_distinct (final_name p k) (adjust_of p k) (apply_case k) (final_adjust p k Hp)
           (fun a r => case_alnum k a r) names Hs Hf).
Qed.
