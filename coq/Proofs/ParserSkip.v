(* Proofs/ParserSkip.v — C10, unknown ELEMENTS: a SkipNode swallows any balanced subtree
   and leaves `objects`, the warnings and the rest of the queue untouched
   (skip_transparent); with the strict default the first unknown element is a ParserError
   (strict_rejects). *)
From Coq Require Import NArith ZArith List Bool Arith Lia.
From XV Require Import Base.Str Base.Eqb Base.PyInt Model.Bind Model.Parser Model.ParserCorr Spec.Inject.
Import ListNotations.

Lemma rbind_ok {A B} (r : res A) (f : A -> res B) a : r = ROk a -> rbind r f = f a.
Proof. intros ->; reflexivity. Qed.

Lemma pstate_eta st : mk_pstate (st_queue st) (st_objects st) (st_warn st) = st.
Proof. destruct st; reflexivity. Qed.

Lemma skipn_add {A} (l : list A) i k : skipn k (skipn i l) = skipn (i + k) l.
Proof.
  revert l. induction i as [|i IH]; intros l; [reflexivity|].
  destruct l; cbn [skipn Nat.add]; [destruct k; reflexivity|apply IH].
Qed.

Lemma split3 {A} (l : list A) i k : (i + k <= length l)%nat ->
  l = firstn i l ++ firstn k (skipn i l) ++ skipn (i + k) l.
Proof.
  intros H.
  rewrite <- (firstn_skipn i l) at 1. f_equal.
  rewrite <- (firstn_skipn k (skipn i l)) at 1. f_equal.
  apply skipn_add.
Qed.

Section Skip.
  Variable cfg : pconfig.
  Variable c : conv.
  Variable u : universe.
  Variable replay : pconfig -> option cls -> list pevent -> outcome.
  Variable root : option cls.

  Local Notation run' := (run cfg c u replay root).
  Local Notation step' := (step cfg c u replay root).

  Lemma run_app st a b : run' st (a ++ b) = rbind (run' st a) (fun st' => run' st' b).
  Proof.
    revert st. induction a as [|ev a IH]; intros st; cbn [app run]; [reflexivity|].
    destruct (step' st ev); cbn [rbind]; [apply IH|reflexivity].
  Qed.

  Lemma run_cons st ev r : run' st (ev :: r) = rbind (step' st ev) (fun st' => run' st' r).
  Proof. reflexivity. Qed.

  (* ---------------------------------------------------------------- SkipNode swallows *)
  Lemma start_on_skip st q attrs ns Q :
    st_queue st = NSkip :: Q -> start cfg c u root st q attrs ns = ROk (push NSkip st).
  Proof. intros H. unfold start. rewrite H. reflexivity. Qed.

  Lemma pend_on_skip st q t tl Q :
    st_queue st = NSkip :: Q -> pend cfg c replay st q t tl = ROk (mk_pstate Q (st_objects st) (st_warn st)).
  Proof. intros H. unfold pend. rewrite H. reflexivity. Qed.

  Lemma skip_swallow : forall evs d st Q,
    tree_rest (S d) evs = true ->
    st_queue st = repeat NSkip (S d) ++ Q ->
    run' st evs = ROk (mk_pstate Q (st_objects st) (st_warn st)).
  Proof.
    induction evs as [|ev r IH]; intros d st Q Ht Hq; [discriminate|].
    rewrite run_cons. destruct ev as [q a ns | q t tl | p uri]; cbn [step].
    - (* start: one more NSkip *)
      cbn [tree_rest] in Ht.
      rewrite (start_on_skip st q a ns (repeat NSkip d ++ Q)) by exact Hq. cbn [rbind].
      rewrite (IH (S d) (push NSkip st) Q Ht); [reflexivity|].
      cbn [push st_queue]. rewrite Hq. reflexivity.
    - (* end: pop one NSkip *)
      rewrite (pend_on_skip st q t tl (repeat NSkip d ++ Q)) by exact Hq. cbn [rbind].
      cbn [tree_rest] in Ht. destruct d as [|d'].
      + destruct r; [reflexivity|discriminate].
      + rewrite (IH d' _ Q Ht); reflexivity.
    - cbn [tree_rest] in Ht. cbn [rbind]. exact (IH d st Q Ht Hq).
  Qed.

  (* ---------------------------------------------------------------- an unknown child becomes a SkipNode *)
  Lemma child_loop_all_mismatch en q attrs ns pos w vars :
    forallb (wrapper_mismatch w) vars = true ->
    child_loop c u en q attrs ns pos w vars = ROk None.
  Proof.
    induction vars as [|v r IH]; intros H; cbn [child_loop]; [reflexivity|].
    cbn [forallb] in H. apply andb_true_iff in H as [H1 H2]. rewrite H1. exact (IH H2).
  Qed.

  Lemma unknown_child_loop en q attrs ns pos w :
    unknown_child (en_meta en) w q = true ->
    child_loop c u en q attrs ns pos w (find_children (en_meta en) q) = ROk None.
  Proof.
    intros H. unfold unknown_child in H.
    destruct w as [[|x w]|].
    - destruct (assoc q (m_wrappers (en_meta en))); [discriminate|].
      destruct (find_children (en_meta en) q); [reflexivity|discriminate].
    - apply child_loop_all_mismatch. unfold wrapper_mismatch. cbn [truthy_str]. exact H.
    - destruct (assoc q (m_wrappers (en_meta en))); [discriminate|].
      destruct (find_children (en_meta en) q); [reflexivity|discriminate].
  Qed.

  Lemma unknown_not_wrapper m q : unknown_child m None q = true -> assoc q (m_wrappers m) = None.
  Proof. unfold unknown_child. destruct (assoc q (m_wrappers m)); [discriminate|reflexivity]. Qed.

  Lemma start_skips st q attrs ns :
    fail_unknown_props cfg = false ->
    skips_child st q = true ->
    start cfg c u root st q attrs ns = ROk (push NSkip st).
  Proof.
    intros Hf Hs. unfold skips_child in Hs.
    destruct (st_queue st) as [|n Q] eqn:Hq; [discriminate|].
    destruct n as [en| | | |wq| |]; try discriminate.
    - unfold start. rewrite Hq. rewrite (unknown_not_wrapper _ _ Hs). cbn [is_some].
      unfold element_child. rewrite (unknown_child_loop en q attrs ns _ None Hs). cbn [rbind].
      rewrite Hf. cbn [fst snd]. unfold push. rewrite Hq. reflexivity.
    - destruct Q as [|n2 Q2]; [discriminate|]. destruct n2 as [en| | | | | |]; try discriminate.
      unfold start. rewrite Hq.
      unfold element_child. rewrite (unknown_child_loop en q attrs ns _ (Some wq) Hs). cbn [rbind].
      rewrite Hf. cbn [fst snd]. unfold push. rewrite Hq. reflexivity.
    - exact (start_on_skip st q attrs ns Q Hq).
  Qed.

  (* the whole injected subtree leaves the state as it was *)
  Lemma inject_sub st sub q post :
    fail_unknown_props cfg = false ->
    is_tree sub = true -> tree_root sub = Some q ->
    skips_child st q = true ->
    run' st (sub ++ post) = run' st post.
  Proof.
    intros Hf Ht Hr Hs.
    destruct sub as [|ev r]; [discriminate|]. destruct ev as [q' a ns| |]; try discriminate.
    cbn [tree_root] in Hr. injection Hr as ->. cbn [is_tree] in Ht.
    rewrite <- app_comm_cons, run_cons. cbn [step].
    rewrite (start_skips st q a ns Hf Hs). cbn [rbind].
    rewrite run_app.
    rewrite (skip_swallow r 0 (push NSkip st) (st_queue st) Ht) by reflexivity.
    cbn [rbind push st_objects st_warn]. rewrite pstate_eta. reflexivity.
  Qed.

  (* ---------------------------------------------------------------- strict: the unknown element is a ParserError *)
  Definition class_bound_unknown (st : pstate) (q : qname) : bool :=
    match st_queue st with
    | NElement en :: _ => unknown_child (en_meta en) None q
    | NWrapper wq :: NElement en :: _ => unknown_child (en_meta en) (Some wq) q
    | _ => false
    end.

  Lemma start_strict st q attrs ns :
    fail_unknown_props cfg = true ->
    class_bound_unknown st q = true ->
    start cfg c u root st q attrs ns = RErr ParserError.
  Proof.
    intros Hf Hs. unfold class_bound_unknown in Hs.
    destruct (st_queue st) as [|n Q] eqn:Hq; [discriminate|].
    destruct n as [en| | | |wq| |]; try discriminate.
    - unfold start. rewrite Hq. rewrite (unknown_not_wrapper _ _ Hs). cbn [is_some].
      unfold element_child. rewrite (unknown_child_loop en q attrs ns _ None Hs). cbn [rbind].
      rewrite Hf. reflexivity.
    - destruct Q as [|n2 Q2]; [discriminate|]. destruct n2 as [en| | | | | |]; try discriminate.
      unfold start. rewrite Hq.
      unfold element_child. rewrite (unknown_child_loop en q attrs ns _ (Some wq) Hs). cbn [rbind].
      rewrite Hf. reflexivity.
  Qed.

  Lemma inject_strict st sub q post :
    fail_unknown_props cfg = true ->
    tree_root sub = Some q ->
    class_bound_unknown st q = true ->
    run' st (sub ++ post) = RErr ParserError.
  Proof.
    intros Hf Hr Hs.
    destruct sub as [|ev r]; [discriminate|]. destruct ev as [q' a ns| |]; try discriminate.
    cbn [tree_root] in Hr. injection Hr as ->.
    rewrite <- app_comm_cons, run_cons. cbn [step].
    rewrite (start_strict st q a ns Hf Hs). reflexivity.
  Qed.
End Skip.

(* ---------------------------------------------------------------- parse level *)
Lemma parse_n_unfold n cfg c u root evs :
  parse_n n cfg c u root evs = finish (run cfg c u (replay_n n c u) root init_state evs).
Proof. destruct n; reflexivity. Qed.

Theorem skip_transparent_sub : forall n cfg c u root pre sub post st q,
  fail_unknown_props cfg = false ->
  is_tree sub = true -> tree_root sub = Some q ->
  run_n n cfg c u root pre = ROk st ->
  skips_child st q = true ->
  parse_n n cfg c u root (pre ++ sub ++ post) = parse_n n cfg c u root (pre ++ post).
Proof.
  intros n cfg c u root pre sub post st q Hf Ht Hr Hrun Hs.
  rewrite !parse_n_unfold. unfold run_n in Hrun.
  rewrite !run_app, Hrun. cbn [rbind].
  rewrite (inject_sub cfg c u _ root st sub q post Hf Ht Hr Hs). reflexivity.
Qed.

Theorem strict_rejects_sub : forall n cfg c u root pre sub post st q,
  fail_unknown_props cfg = true ->
  tree_root sub = Some q ->
  run_n n cfg c u root pre = ROk st ->
  class_bound_unknown st q = true ->
  parse_n n cfg c u root (pre ++ sub ++ post) = Err ParserError.
Proof.
  intros n cfg c u root pre sub post st q Hf Hr Hrun Hs.
  rewrite parse_n_unfold. unfold run_n in Hrun.
  rewrite run_app, Hrun. cbn [rbind].
  rewrite (inject_strict cfg c u _ root st sub q post Hf Hr Hs). reflexivity.
Qed.

(* in the vocabulary of the oracle (Model/ParserCorr.v): one admissible UndoSub step *)
Theorem undo_sub_transparent : forall n cfg c u root d' i k d,
  admissible_step n cfg c u root d' (UndoSub i k) = true ->
  undo_step d' (UndoSub i k) = Some d ->
  parse_n n cfg c u root d' = parse_n n cfg c u root d.
Proof.
  intros n cfg c u root d' i k d Ha Hu.
  cbn [admissible_step] in Ha. cbn [undo_step] in Hu.
  apply andb_true_iff in Ha as [Ha Hst]. apply andb_true_iff in Ha as [Ha Hlen].
  apply andb_true_iff in Ha as [Hf Ht]. apply negb_true_iff in Hf.
  rewrite Hlen in Hu. injection Hu as <-.
  apply Nat.leb_le in Hlen.
  destruct (tree_root (injected_block d' i k)) as [q|] eqn:Hr; [|discriminate].
  destruct (run_n n cfg c u root (firstn i d')) as [st|] eqn:Hrun; [|discriminate].
  rewrite (split3 d' i k Hlen) at 1.
  exact (skip_transparent_sub n cfg c u root _ _ _ st q Hf Ht Hr Hrun Hst).
Qed.

Theorem strict_position_rejects : forall n cfg c u root d' i k,
  (i + k <= length d')%nat ->
  strict_position n cfg c u root d' i k = true ->
  parse_n n cfg c u root d' = Err ParserError.
Proof.
  intros n cfg c u root d' i k Hlen Hs. unfold strict_position in Hs.
  apply andb_true_iff in Hs as [Hs Hst]. apply andb_true_iff in Hs as [Hf Ht].
  destruct (tree_root (injected_block d' i k)) as [q|] eqn:Hr; [|discriminate].
  destruct (run_n n cfg c u root (firstn i d')) as [st|] eqn:Hrun; [|discriminate].
  rewrite (split3 d' i k Hlen).
  apply (strict_rejects_sub n cfg c u root _ _ _ st q Hf Hr Hrun).
  unfold class_bound_unknown. exact Hst.
Qed.
