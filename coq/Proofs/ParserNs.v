(* Proofs/ParserNs.v — the parser reads prefix maps only through lookups.

   `parse` (Model/Parser.v) is invariant under replacing the prefix map of every start event
   by a related one, for ANY relation R on prefix maps that preserves (1) the lookup of every
   non-empty prefix (`ns_lookup`, the only read ParserUtils.parse_any_attribute makes) and
   (2) every call of the primitive converter (`c_deser`: QNameConverter.resolve for xsi:type
   and QName-typed values).  Proof: a simulation between parser states that differ only in the
   stored prefix maps (ElementNode / PrimitiveNode / StandardNode / WildcardNode / UnionNode
   .ns_map and the start events a UnionNode has recorded), by induction over the event list
   and over the fuel of the union replays. *)
From Coq Require Import NArith ZArith List Bool Arith Lia.
From XV Require Import Base.Str Base.Eqb Base.PyInt Model.Bind Model.Parser.
Import ListNotations.

Definition res_rel {A} (P : A -> A -> Prop) (r r' : res A) : Prop :=
  match r, r' with
  | ROk a, ROk b => P a b
  | RErr k, RErr k' => k = k'
  | _, _ => False
  end.

Definition opt_rel {A} (P : A -> A -> Prop) (r r' : option A) : Prop :=
  match r, r' with
  | Some a, Some b => P a b
  | None, None => True
  | _, _ => False
  end.

Lemma res_rel_eq {A} (r r' : res A) : r = r' -> res_rel eq r r'.
Proof. intros ->. destruct r'; reflexivity. Qed.

Lemma res_rel_eq_inv {A} (r r' : res A) : res_rel eq r r' -> r = r'.
Proof. destruct r, r'; cbn; intros H; try contradiction; congruence. Qed.

Lemma map_res_ext {A B} (f g : A -> res B) l : (forall x, f x = g x) -> map_res f l = map_res g l.
Proof.
  intros H. induction l as [|x l IH]; cbn [map_res]; [reflexivity|]. rewrite H, IH. reflexivity.
Qed.

Lemma fold_left_ext_in {A B} (f g : A -> B -> A) l a :
  (forall x y, In y l -> f x y = g x y) -> fold_left f l a = fold_left g l a.
Proof.
  revert a. induction l as [|y l IH]; intros a H; cbn [fold_left]; [reflexivity|].
  rewrite H by (left; reflexivity). apply IH. intros x z Hz. apply H. right. exact Hz.
Qed.

Lemma Forall2_len {A B} (P : A -> B -> Prop) l l' : Forall2 P l l' -> length l = length l'.
Proof. induction 1; cbn [length]; congruence. Qed.

Definition with_ns (e : enode) (ns : nsmap) : enode :=
  mk_enode (en_meta e) (en_attrs e) ns (en_position e) (en_derived e) (en_xsi_type e)
           (en_xsi_nil e) (en_assigned e) (en_wrappers e).

Lemma with_ns_same e : with_ns e (en_ns e) = e.
Proof. destruct e; reflexivity. Qed.

Section Sim.
  Variable c : conv.
  Variable u : universe.
  Variable R : nsmap -> nsmap -> Prop.
  Hypothesis R_lookup : forall a b p, R a b -> ns_lookup p a = ns_lookup p b.
  Hypothesis R_deser : forall a b tys fmt s, R a b -> c_deser c tys fmt a s = c_deser c tys fmt b s.

  (* ---------------------------------------------------------------- relations *)
  Definition ev_rel (x y : pevent) : Prop :=
    match x, y with
    | PStart q a ns, PStart q' a' ns' => q = q' /\ a = a' /\ R ns ns'
    | PEnd q t tl, PEnd q' t' tl' => q = q' /\ t = t' /\ tl = tl'
    | PStartNs _ _, PStartNs _ _ => True
    | _, _ => False
    end.

  Definition en_rel (e e' : enode) : Prop := exists ns', R (en_ns e) ns' /\ e' = with_ns e ns'.

  Definition un_rel (a b : unode) : Prop :=
    exists ns' evs', R (un_ns a) ns' /\ Forall2 ev_rel (un_events a) evs'
      /\ b = mk_unode (un_meta a) (un_var a) (un_attrs a) ns' (un_position a) (un_level a) (un_candidates a) evs'.

  Definition node_rel (n n' : node) : Prop :=
    match n, n' with
    | NElement e, NElement e' => en_rel e e'
    | NPrimitive m v ns, NPrimitive m' v' ns' => m = m' /\ v = v' /\ R ns ns'
    | NStandard m v ty fmt wr ns nl dv, NStandard m' v' ty' fmt' wr' ns' nl' dv' =>
        m = m' /\ v = v' /\ ty = ty' /\ fmt = fmt' /\ wr = wr' /\ R ns ns' /\ nl = nl' /\ dv = dv'
    | NWildcard v a ns pos, NWildcard v' a' ns' pos' => v = v' /\ a = a' /\ R ns ns' /\ pos = pos'
    | NWrapper q, NWrapper q' => q = q'
    | NSkip, NSkip => True
    | NUnion a, NUnion b => un_rel a b
    | _, _ => False
    end.

  Definition st_rel (s s' : pstate) : Prop :=
    Forall2 node_rel (st_queue s) (st_queue s') /\ st_objects s = st_objects s' /\ st_warn s = st_warn s'.

  (* ---------------------------------------------------------------- reads through the converter *)
  Lemma xsi_type_R attrs a b : R a b -> xsi_type_of c attrs a = xsi_type_of c attrs b.
  Proof.
    intros H. unfold xsi_type_of. destruct (truthy_str (assoc XSI_TYPE attrs)); [|reflexivity].
    rewrite (R_deser a b _ _ _ H). reflexivity.
  Qed.

  Lemma deser_R tys fmt a b s : R a b -> deser c tys fmt a s = deser c tys fmt b s.
  Proof. intros H. unfold deser. rewrite (R_deser a b _ _ _ H). reflexivity. Qed.

  Lemma parse_value_R txt tys d a b tf fmt : R a b ->
    parse_value c txt tys d a tf fmt = parse_value c txt tys d b tf fmt.
  Proof.
    intros H. unfold parse_value. destruct txt as [s|]; [|reflexivity].
    destruct tf as [f|].
    - rewrite (map_res_ext (deser c tys fmt a) (deser c tys fmt b)); [reflexivity|].
      intros x. apply deser_R. exact H.
    - apply deser_R. exact H.
  Qed.

  Lemma parse_var_R failc m var txt a b tys fmt : R a b ->
    parse_var c failc m var txt a tys fmt = parse_var c failc m var txt b tys fmt.
  Proof. intros H. unfold parse_var. rewrite (parse_value_R _ _ _ a b _ _ H). reflexivity. Qed.

  Lemma parse_any_attribute_R v a b : R a b -> parse_any_attribute v a = parse_any_attribute v b.
  Proof.
    intros H. unfold parse_any_attribute. destruct (text_split 58 v) as [[[|x p]|] sfx]; try reflexivity.
    rewrite (R_lookup a b _ H). reflexivity.
  Qed.

  Lemma parse_any_attributes_R attrs a b : R a b -> parse_any_attributes attrs a = parse_any_attributes attrs b.
  Proof.
    intros H. unfold parse_any_attributes. apply map_ext. intros kv.
    rewrite (parse_any_attribute_R _ a b H). reflexivity.
  Qed.

  (* ---------------------------------------------------------------- building nodes *)
  Lemma build_element_node_R p p' cl d nl attrs a b pos df xt xn : R a b ->
    res_rel (opt_rel node_rel) (build_element_node c u p cl d nl attrs a pos df xt xn)
                               (build_element_node c u p' cl d nl attrs b pos df xt xn).
  Proof.
    intros H. unfold build_element_node. destruct (fetch c u cl xt) as [meta|k]; cbn [rbind res_rel]; [|reflexivity].
    match goal with |- context [if ?x then _ else _] => destruct x end; cbn [res_rel opt_rel]; [exact I|].
    cbn [node_rel]. eexists. split; [exact H|reflexivity].
  Qed.

  Lemma build_node_R p p' q var attrs a b pos : R a b -> en_meta p = en_meta p' ->
    res_rel (opt_rel node_rel) (build_node c u p q var attrs a pos) (build_node c u p' q var attrs b pos).
  Proof.
    intros H Hm. unfold build_node. destruct (v_is_clazz_union var).
    - destruct (filter_candidates c u attrs (v_types var)) as [cands|k]; cbn [rbind res_rel]; [|reflexivity].
      cbn [opt_rel node_rel]. rewrite Hm. exists b, []. split; [exact H|]. split; [constructor|reflexivity].
    - rewrite (xsi_type_R attrs a b H).
      destruct (xsi_type_of c attrs b) as [xt|k]; cbn [rbind res_rel]; [|reflexivity].
      destruct (v_clazz var) as [cl|].
      + apply build_element_node_R. exact H.
      + destruct (negb (v_any_type var) && negb (v_is KWildcard var)).
        * cbn [res_rel opt_rel node_rel]. rewrite Hm. auto.
        * destruct (match xt with Some x => c_from_qname c x | None => None end) as [[[ty fmt] wr]|].
          { cbn [res_rel opt_rel node_rel]. rewrite Hm. repeat split; try reflexivity. exact H. }
          set (cl1 := match xt with Some x => ctx_find_type c u x | None => None end).
          assert (H1 : res_rel (opt_rel node_rel)
                         (match cl1 with
                          | Some cl => build_element_node c u p cl (v_is KWildcard var) (v_nillable var) attrs a pos true xt (xsi_nil_of attrs)
                          | None => ROk None end)
                         (match cl1 with
                          | Some cl => build_element_node c u p' cl (v_is KWildcard var) (v_nillable var) attrs b pos true xt (xsi_nil_of attrs)
                          | None => ROk None end)).
          { destruct cl1; [apply build_element_node_R; exact H|exact I]. }
          destruct (match cl1 with Some cl => build_element_node c u p cl _ _ attrs a pos true xt _ | None => ROk None end) as [[n1|]|k1],
                   (match cl1 with Some cl => build_element_node c u p' cl _ _ attrs b pos true xt _ | None => ROk None end) as [[n1'|]|k1'];
            cbn [res_rel opt_rel] in H1; try contradiction; cbn [rbind].
          { exact H1. }
          { set (cl2 := if negb (str_eqb (v_process_contents var) s_skip) then ctx_find_type c u q else cl1).
            assert (H2 : res_rel (opt_rel node_rel)
                         (match cl2 with
                          | Some cl => build_element_node c u p cl false (v_nillable var) attrs a pos false xt (xsi_nil_of attrs)
                          | None => ROk None end)
                         (match cl2 with
                          | Some cl => build_element_node c u p' cl false (v_nillable var) attrs b pos false xt (xsi_nil_of attrs)
                          | None => ROk None end)).
            { destruct cl2; [apply build_element_node_R; exact H|exact I]. }
            destruct (match cl2 with Some cl => build_element_node c u p cl _ _ attrs a pos false xt _ | None => ROk None end) as [[n2|]|k2],
                     (match cl2 with Some cl => build_element_node c u p' cl _ _ attrs b pos false xt _ | None => ROk None end) as [[n2'|]|k2'];
              cbn [res_rel opt_rel] in H2; try contradiction; cbn [rbind].
            - exact H2.
            - cbn [res_rel opt_rel node_rel]. repeat split; try reflexivity. exact H.
            - exact H2. }
          { exact H1. }
  Qed.

  Definition pair_rel (x y : node * enode) : Prop := node_rel (fst x) (fst y) /\ en_rel (snd x) (snd y).

  Lemma en_rel_assigned e e' l : en_rel e e' -> en_rel (set_assigned e l) (set_assigned e' l).
  Proof. intros (ns' & H & ->). exists ns'. split; [exact H|reflexivity]. Qed.
  Lemma en_rel_wrappers e e' l : en_rel e e' -> en_rel (set_wrappers e l) (set_wrappers e' l).
  Proof. intros (ns' & H & ->). exists ns'. split; [exact H|reflexivity]. Qed.
  Lemma en_rel_meta e e' : en_rel e e' -> en_meta e = en_meta e'.
  Proof. intros (ns' & _ & ->). reflexivity. Qed.
  Lemma en_rel_assigned_eq e e' : en_rel e e' -> en_assigned e = en_assigned e'.
  Proof. intros (ns' & _ & ->). reflexivity. Qed.
  Lemma en_rel_wrappers_eq e e' : en_rel e e' -> en_wrappers e = en_wrappers e'.
  Proof. intros (ns' & _ & ->). reflexivity. Qed.

  Lemma child_loop_R e e' q attrs a b pos w vars : R a b -> en_rel e e' ->
    res_rel (opt_rel pair_rel) (child_loop c u e q attrs a pos w vars) (child_loop c u e' q attrs b pos w vars).
  Proof.
    intros H He. induction vars as [|var rest IH]; cbn [child_loop]; [exact I|].
    destruct (wrapper_mismatch w var); [exact IH|].
    rewrite <- (en_rel_assigned_eq e e' He).
    match goal with |- context [if ?x then _ else _] => destruct x eqn:Hc end; [|exact IH].
    pose proof (build_node_R e e' q var attrs a b pos H (en_rel_meta _ _ He)) as Hb.
    destruct (build_node c u e q var attrs a pos) as [[n|]|k], (build_node c u e' q var attrs b pos) as [[n'|]|k'];
      cbn [res_rel opt_rel] in Hb; try contradiction; cbn [rbind].
    - cbn [res_rel opt_rel]. split; cbn [fst snd]; [exact Hb|].
      set (uq := (if v_is KElement var && negb (v_list_element var) then v_index var else 0%N)).
      assert (H1 : en_rel (if (uq =? 0)%N then e else set_assigned e (en_assigned e ++ [uq]))
                          (if (uq =? 0)%N then e' else set_assigned e' (en_assigned e ++ [uq]))).
      { destruct (uq =? 0)%N; [exact He|apply en_rel_assigned; exact He]. }
      destruct (truthy_str w) as [ww|]; [|exact H1].
      rewrite <- (en_rel_wrappers_eq _ _ H1). apply en_rel_wrappers. exact H1.
    - exact IH.
    - exact Hb.
  Qed.

  Variable cfg : pconfig.

  Lemma element_child_R e e' q attrs a b pos w : R a b -> en_rel e e' ->
    res_rel pair_rel (element_child cfg c u e q attrs a pos w) (element_child cfg c u e' q attrs b pos w).
  Proof.
    intros H He. unfold element_child. rewrite <- (en_rel_meta _ _ He).
    pose proof (child_loop_R e e' q attrs a b pos w (find_children (en_meta e) q) H He) as Hc.
    destruct (child_loop c u e q attrs a pos w _) as [[x|]|k], (child_loop c u e' q attrs b pos w _) as [[x'|]|k'];
      cbn [res_rel opt_rel] in Hc; try contradiction; cbn [rbind res_rel].
    - exact Hc.
    - destruct (fail_unknown_props cfg); cbn [res_rel]; [reflexivity|]. split; [exact I|exact He].
    - exact Hc.
  Qed.

  (* ---------------------------------------------------------------- binding: equal results *)
  Lemma bind_attr_R e ns' var sval p : R (en_ns e) ns' ->
    bind_attr cfg c (with_ns e ns') var sval p = bind_attr cfg c e var sval p.
  Proof.
    intros H. unfold bind_attr. cbn [with_ns en_meta en_ns].
    rewrite (parse_var_R _ _ _ _ (en_ns e) ns' _ _ H). reflexivity.
  Qed.

  Lemma bind_any_attr_R e ns' var q sval p : R (en_ns e) ns' ->
    bind_any_attr (with_ns e ns') var q sval p = bind_any_attr e var q sval p.
  Proof.
    intros H. unfold bind_any_attr. cbn [with_ns en_ns].
    rewrite (parse_any_attribute_R sval (en_ns e) ns' H). reflexivity.
  Qed.

  Lemma bind_attrs_loop_R e ns' attrs : R (en_ns e) ns' -> forall p ws,
    bind_attrs_loop cfg c (with_ns e ns') attrs p ws = bind_attrs_loop cfg c e attrs p ws.
  Proof.
    intros H. induction attrs as [|[q sval] rest IH]; intros p ws; cbn [bind_attrs_loop]; [reflexivity|].
    change (en_meta (with_ns e ns')) with (en_meta e).
    assert (Ho : match find_any_attributes (en_meta e) q with
                 | Some var => rbind (bind_any_attr (with_ns e ns') var q sval p)
                                 (fun p' => bind_attrs_loop cfg c (with_ns e ns') rest p' ws)
                 | None => if fail_unknown_attrs cfg && negb (ostr_eqb (target_uri q) (Some XSI_NS))
                           then RErr ParserError else bind_attrs_loop cfg c (with_ns e ns') rest p ws
                 end
                 = match find_any_attributes (en_meta e) q with
                   | Some var => rbind (bind_any_attr e var q sval p) (fun p' => bind_attrs_loop cfg c e rest p' ws)
                   | None => if fail_unknown_attrs cfg && negb (ostr_eqb (target_uri q) (Some XSI_NS))
                             then RErr ParserError else bind_attrs_loop cfg c e rest p ws
                   end).
    { destruct (find_any_attributes (en_meta e) q) as [var|].
      - rewrite (bind_any_attr_R e ns' var q sval p H).
        destruct (bind_any_attr e var q sval p); cbn [rbind]; [apply IH|reflexivity].
      - destruct (fail_unknown_attrs cfg && negb (ostr_eqb (target_uri q) (Some XSI_NS))); [reflexivity|apply IH]. }
    destruct (find_attribute (en_meta e) q) as [var|]; [|exact Ho].
    destruct (pmem (v_name var) p); [exact Ho|].
    rewrite (bind_attr_R e ns' var sval p H).
    destruct (bind_attr cfg c e var sval p); cbn [rbind]; [apply IH|reflexivity].
  Qed.

  Lemma bind_attrs_R e ns' : R (en_ns e) ns' -> bind_attrs cfg c (with_ns e ns') = bind_attrs cfg c e.
  Proof. intros H. unfold bind_attrs. change (en_attrs (with_ns e ns')) with (en_attrs e). apply bind_attrs_loop_R. exact H. Qed.

  Lemma bind_text_R e ns' p text : R (en_ns e) ns' ->
    bind_text cfg c (with_ns e ns') p text = bind_text cfg c e p text.
  Proof.
    intros H. unfold bind_text, xsi_nil_true. cbn [with_ns en_meta en_ns en_xsi_nil].
    destruct (m_text (en_meta e)) as [var|]; [|reflexivity].
    rewrite (parse_var_R _ _ _ _ (en_ns e) ns' _ _ H). reflexivity.
  Qed.

  Lemma bind_wild_text_R e ns' var p text tail : R (en_ns e) ns' ->
    bind_wild_text (with_ns e ns') var p text tail = bind_wild_text e var p text tail.
  Proof.
    intros H. unfold bind_wild_text. cbn [with_ns en_attrs en_ns].
    rewrite (parse_any_attributes_R (en_attrs e) (en_ns e) ns' H). reflexivity.
  Qed.

  Lemma bind_content_R e ns' p text tail objs : R (en_ns e) ns' ->
    bind_content cfg c (with_ns e ns') p text tail objs = bind_content cfg c e p text tail objs.
  Proof.
    intros H. unfold bind_content.
    change (en_meta (with_ns e ns')) with (en_meta e).
    change (en_position (with_ns e ns')) with (en_position e).
    change (en_wrappers (with_ns e ns')) with (en_wrappers e).
    destruct (find_any_wildcard (en_meta e)) as [wv|].
    - destruct (v_mixed wv).
      + cbn [rbind]. rewrite (bind_wild_text_R e ns' wv _ text tail H). reflexivity.
      + destruct (bind_objects_loop c (en_meta e) (skipn (en_position e) objs) p (en_wrappers e) []) as [r|k]; cbn [rbind]; [|reflexivity].
        rewrite (bind_text_R e ns' (fst r) text H).
        destruct (bind_text cfg c e (fst r) text) as [[[bt p'] ws']|k]; cbn [rbind]; [|reflexivity].
        destruct bt; [reflexivity|]. rewrite (bind_wild_text_R e ns' wv p' text tail H). reflexivity.
    - destruct (bind_objects_loop c (en_meta e) (skipn (en_position e) objs) p (en_wrappers e) []) as [r|k]; cbn [rbind]; [|reflexivity].
      rewrite (bind_text_R e ns' (fst r) text H). reflexivity.
  Qed.

  Lemma element_bind_R e ns' q text tail objs : R (en_ns e) ns' ->
    element_bind cfg c (with_ns e ns') q text tail objs = element_bind cfg c e q text tail objs.
  Proof.
    intros H. unfold element_bind, xsi_nil_true.
    change (en_meta (with_ns e ns')) with (en_meta e).
    change (en_xsi_nil (with_ns e ns')) with (en_xsi_nil e).
    change (en_derived (with_ns e ns')) with (en_derived e).
    change (en_xsi_type (with_ns e ns')) with (en_xsi_type e).
    rewrite (bind_attrs_R e ns' H).
    destruct (negb match en_xsi_nil e with Some true => true | _ => false end || m_nillable (en_meta e)); [|reflexivity].
    destruct (bind_attrs cfg c e) as [pa|k]; cbn [rbind]; [|reflexivity].
    rewrite (bind_content_R e ns' (fst pa) text tail objs H). reflexivity.
  Qed.

  Lemma primitive_bind_R m var a b q text tail objs : R a b ->
    primitive_bind cfg c m var a q text tail objs = primitive_bind cfg c m var b q text tail objs.
  Proof. intros H. unfold primitive_bind. rewrite (parse_var_R _ _ _ _ a b _ _ H). reflexivity. Qed.

  Lemma standard_bind_R m var ty fmt wr a b nl dv q text objs : R a b ->
    standard_bind cfg c m var ty fmt wr a nl dv q text objs = standard_bind cfg c m var ty fmt wr b nl dv q text objs.
  Proof. intros H. unfold standard_bind. rewrite (parse_var_R _ _ _ _ a b _ _ H). reflexivity. Qed.

  Lemma wildcard_bind_R var attrs a b pos q text tail objs : R a b ->
    wildcard_bind var attrs a pos q text tail objs = wildcard_bind var attrs b pos q text tail objs.
  Proof. intros H. unfold wildcard_bind. rewrite (parse_any_attributes_R attrs a b H). reflexivity. Qed.

  (* ---------------------------------------------------------------- the union replay *)
  Variables replay replay' : pconfig -> option cls -> list pevent -> outcome.
  Hypothesis replay_R : forall cfg0 root0 evs evs', Forall2 ev_rel evs evs' -> replay cfg0 root0 evs = replay' cfg0 root0 evs'.

  Lemma Forall2_app_one {A} (P : A -> A -> Prop) l l' x x' : Forall2 P l l' -> P x x' -> Forall2 P (l ++ [x]) (l' ++ [x']).
  Proof. intros H Hx. apply Forall2_app; [exact H|constructor; [exact Hx|constructor]]. Qed.

  Lemma union_bind_R un un' q text tail objs : un_rel un un' ->
    union_bind cfg c replay un q text tail objs = union_bind cfg c replay' un' q text tail objs.
  Proof.
    intros (ns' & evs' & Hns & Hev & ->). unfold union_bind.
    cbn [un_attrs un_ns un_events un_candidates un_meta un_var].
    assert (Hevs : Forall2 ev_rel (PStart q (un_attrs un) (un_ns un) :: un_events un ++ [PEnd q text tail])
                                  (PStart q (un_attrs un) ns' :: evs' ++ [PEnd q text tail])).
    { constructor; [cbn; auto|]. apply Forall2_app_one; [exact Hev|cbn; auto]. }
    match goal with
    | |- (if truthy (fst ?X) then _ else _) = (if truthy (fst ?Y) then _ else _) => assert (HXY : X = Y)
    end.
    { apply fold_left_ext_in. intros acc cand _. destruct cand; try (rewrite (parse_var_R _ _ _ _ (un_ns un) ns' _ _ Hns); reflexivity).
      rewrite (replay_R _ _ _ _ Hevs). reflexivity. }
    rewrite HXY. reflexivity.
  Qed.

  (* ---------------------------------------------------------------- NodeParser.start / end *)
  Variable root : option cls.

  Lemma root_node_R q attrs a b : R a b ->
    res_rel node_rel (root_node c u root q attrs a) (root_node c u root q attrs b).
  Proof.
    intros H. unfold root_node. rewrite (xsi_type_R attrs a b H).
    destruct (xsi_type_of c attrs b) as [xt|k]; cbn [rbind res_rel]; [|reflexivity].
    match goal with |- context [match ?X with Some cl => _ | None => RErr ParserError end] => destruct X as [cl|] end;
      cbn [res_rel]; [|reflexivity].
    destruct (fetch c u cl xt) as [meta|k]; cbn [rbind res_rel]; [|reflexivity].
    cbn [node_rel]. eexists. split; [exact H|reflexivity].
  Qed.

  Lemma st_rel_push n n' s s' : node_rel n n' -> st_rel s s' -> st_rel (push n s) (push n' s').
  Proof.
    intros Hn (Hq & Ho & Hw). unfold push. repeat split; cbn [st_queue st_objects st_warn]; try assumption.
    constructor; assumption.
  Qed.

  Lemma en_rel_wrapper_lookup e e' q : en_rel e e' -> assoc q (m_wrappers (en_meta e)) = assoc q (m_wrappers (en_meta e')).
  Proof. intros H. rewrite (en_rel_meta _ _ H). reflexivity. Qed.

  Lemma start_R s s' q attrs a b : st_rel s s' -> R a b ->
    res_rel st_rel (start cfg c u root s q attrs a) (start cfg c u root s' q attrs b).
  Proof.
    intros Hs H. pose proof Hs as (Hq & Ho & Hw). unfold start. rewrite <- Ho.
    destruct (st_queue s) as [|n Q] eqn:E, (st_queue s') as [|n' Q'] eqn:E'; inversion Hq as [|? ? ? ? Hn HQ]; subst.
    - pose proof (root_node_R q attrs a b H) as Hr.
      destruct (root_node c u root q attrs a) as [x|k], (root_node c u root q attrs b) as [x'|k'];
        cbn [res_rel] in Hr; try contradiction; cbn [rbind res_rel]; [|exact Hr].
      apply st_rel_push; assumption.
    - destruct n as [e| | | |wq| |un], n' as [e'| | | |wq'| |un']; cbn [node_rel] in Hn; try contradiction.
      + (* ElementNode *)
        rewrite <- (en_rel_wrapper_lookup e e' q Hn).
        destruct (is_some (assoc q (m_wrappers (en_meta e)))).
        * cbn [res_rel]. apply st_rel_push; [reflexivity|exact Hs].
        * pose proof (element_child_R e e' q attrs a b (length (st_objects s)) None H Hn) as Hc.
          destruct (element_child cfg c u e q attrs a _ None) as [x|k], (element_child cfg c u e' q attrs b _ None) as [x'|k'];
            cbn [res_rel] in Hc; try contradiction; cbn [rbind res_rel]; [|exact Hc].
          destruct Hc as [Hc1 Hc2]. repeat split; cbn [st_queue st_objects st_warn]; try assumption.
          constructor; [exact Hc1|]. constructor; [exact Hc2|exact HQ].
      + destruct Hn as (-> & -> & _). reflexivity.
      + destruct Hn as (-> & -> & -> & -> & -> & _ & -> & ->). reflexivity.
      + destruct Hn as (-> & _ & _ & _). cbn [res_rel]. apply st_rel_push; [|exact Hs]. cbn [node_rel]. auto.
      + (* WrapperNode *)
        subst wq'. destruct Q as [|n2 Q2], Q' as [|n2' Q2']; inversion HQ as [|? ? ? ? Hn2 HQ2]; subst; [reflexivity|].
        destruct n2 as [e| | | | | |], n2' as [e'| | | | | |]; cbn [node_rel] in Hn2; try contradiction; try reflexivity.
        pose proof (element_child_R e e' q attrs a b (length (st_objects s)) (Some wq) H Hn2) as Hc.
        destruct (element_child cfg c u e q attrs a _ (Some wq)) as [x|k], (element_child cfg c u e' q attrs b _ (Some wq)) as [x'|k'];
          cbn [res_rel] in Hc; try contradiction; cbn [rbind res_rel]; [|exact Hc].
        destruct Hc as [Hc1 Hc2]. repeat split; cbn [st_queue st_objects st_warn]; try assumption.
        constructor; [exact Hc1|]. constructor; [reflexivity|]. constructor; [exact Hc2|exact HQ2].
      + cbn [res_rel]. apply st_rel_push; [exact I|exact Hs].
      + (* UnionNode: the start event is recorded *)
        destruct Hn as (ns' & evs' & Hns & Hev & ->). cbn [res_rel].
        cbn [un_meta un_var un_attrs un_ns un_position un_level un_candidates un_events].
        repeat split; cbn [st_queue st_objects st_warn]; try assumption.
        constructor; [|exact HQ]. cbn [node_rel]. exists ns', (evs' ++ [PStart q attrs b]).
        split; [exact Hns|]. split; [|reflexivity].
        apply Forall2_app_one; [exact Hev|]. cbn. auto.
  Qed.

  Lemma pend_R s s' q text tail : st_rel s s' ->
    res_rel st_rel (pend cfg c replay s q text tail) (pend cfg c replay' s' q text tail).
  Proof.
    intros Hs. pose proof Hs as (Hq & Ho & Hw). unfold pend.
    destruct (st_queue s) as [|n Q] eqn:E, (st_queue s') as [|n' Q'] eqn:E'; inversion Hq as [|? ? ? ? Hn HQ]; subst;
      [reflexivity|].
    rewrite <- Ho, <- Hw.
    destruct n as [e|m v ns|m v ty fmt wr ns nl dv|v at_ ns pos|wq| |un],
             n' as [e'|m' v' ns'|m' v' ty' fmt' wr' ns' nl' dv'|v' at' ns' pos'|wq'| |un']; cbn [node_rel] in Hn; try contradiction.
    - destruct Hn as (ns' & Hns & ->). rewrite (element_bind_R e ns' q text tail (st_objects s) Hns).
      unfold finish_end. rewrite <- Hw.
      destruct (element_bind cfg c e q text tail (st_objects s)) as [x|k]; cbn [rbind res_rel]; [|reflexivity].
      repeat split; cbn [st_queue st_objects st_warn]; assumption || reflexivity.
    - destruct Hn as (-> & -> & Hns). rewrite (primitive_bind_R m' v' ns ns' q text tail (st_objects s) Hns).
      unfold finish_end. rewrite <- Hw.
      destruct (primitive_bind cfg c m' v' ns' q text tail (st_objects s)) as [x|k]; cbn [rbind res_rel]; [|reflexivity].
      repeat split; cbn [st_queue st_objects st_warn]; assumption || reflexivity.
    - destruct Hn as (-> & -> & -> & -> & -> & Hns & -> & ->).
      rewrite (standard_bind_R m' v' ty' fmt' wr' ns ns' nl' dv' q text (st_objects s) Hns).
      unfold finish_end. rewrite <- Hw.
      destruct (standard_bind cfg c m' v' ty' fmt' wr' ns' nl' dv' q text (st_objects s)) as [x|k]; cbn [rbind res_rel]; [|reflexivity].
      repeat split; cbn [st_queue st_objects st_warn]; assumption || reflexivity.
    - destruct Hn as (-> & -> & Hns & ->). rewrite (wildcard_bind_R v' at' ns ns' pos' q text tail (st_objects s) Hns).
      cbn [res_rel]. repeat split; cbn [st_queue st_objects st_warn]; assumption || reflexivity.
    - cbn [res_rel]. repeat split; cbn [st_queue st_objects st_warn]; assumption || reflexivity.
    - cbn [res_rel]. repeat split; cbn [st_queue st_objects st_warn]; assumption || reflexivity.
    - pose proof Hn as (ns' & evs' & Hns & Hev & Eun). rewrite Eun.
      cbn [un_level un_meta un_var un_attrs un_ns un_position un_candidates un_events].
      destruct (un_level un) as [|l] eqn:El.
      + rewrite <- Eun. rewrite (union_bind_R un un' q text tail (st_objects s) Hn).
        destruct (union_bind cfg c replay' un' q text tail (st_objects s)) as [x|k]; cbn [rbind res_rel]; [|reflexivity].
        repeat split; cbn [st_queue st_objects st_warn]; assumption || reflexivity.
      + cbn [res_rel]. repeat split; cbn [st_queue st_objects st_warn]; try assumption.
        constructor; [|exact HQ]. cbn [node_rel]. exists ns', (evs' ++ [PEnd q text tail]).
        split; [exact Hns|]. split; [|reflexivity]. apply Forall2_app_one; [exact Hev|]. cbn. auto.
  Qed.

  Lemma step_R s s' ev ev' : st_rel s s' -> ev_rel ev ev' ->
    res_rel st_rel (step cfg c u replay root s ev) (step cfg c u replay' root s' ev').
  Proof.
    intros Hs He. destruct ev as [q a ns|q t tl|p v], ev' as [q' a' ns'|q' t' tl'|p' v']; cbn [ev_rel] in He; try contradiction; cbn [step].
    - destruct He as (-> & -> & H). apply start_R; assumption.
    - destruct He as (-> & -> & ->). apply pend_R; assumption.
    - exact Hs.
  Qed.

  Lemma run_R evs evs' : Forall2 ev_rel evs evs' -> forall s s', st_rel s s' ->
    res_rel st_rel (run cfg c u replay root s evs) (run cfg c u replay' root s' evs').
  Proof.
    induction 1 as [|ev ev' r r' He Hr IH]; intros s s' Hs; cbn [run]; [exact Hs|].
    pose proof (step_R s s' ev ev' Hs He) as H1.
    destruct (step cfg c u replay root s ev) as [x|k], (step cfg c u replay' root s' ev') as [x'|k'];
      cbn [res_rel] in H1; try contradiction; cbn [rbind]; [apply IH; exact H1|exact H1].
  Qed.

  Lemma finish_R r r' : res_rel st_rel r r' -> finish r = finish r'.
  Proof.
    destruct r as [s|k], r' as [s'|k']; cbn [res_rel]; try contradiction.
    - intros (_ & Ho & Hw). unfold finish. rewrite Ho, Hw. reflexivity.
    - intros ->. reflexivity.
  Qed.
End Sim.

(* ---------------------------------------------------------------- parse level *)
Section Parse.
  Variable c : conv.
  Variable u : universe.
  Variable R : nsmap -> nsmap -> Prop.
  Hypothesis R_lookup : forall a b p, R a b -> ns_lookup p a = ns_lookup p b.
  Hypothesis R_deser : forall a b tys fmt s, R a b -> c_deser c tys fmt a s = c_deser c tys fmt b s.

  Lemma st_rel_init : st_rel R init_state init_state.
  Proof. repeat split. constructor. Qed.

  Lemma parse_n_R n : forall cfg root evs evs', Forall2 (ev_rel R) evs evs' ->
    parse_n n cfg c u root evs = parse_n n cfg c u root evs'.
  Proof.
    induction n as [|n IH]; intros cfg root evs evs' H; cbn [parse_n].
    - apply (finish_R R). apply (run_R c u R R_lookup R_deser cfg); [|exact H|exact st_rel_init]. reflexivity.
    - apply (finish_R R). apply (run_R c u R R_lookup R_deser cfg); [|exact H|exact st_rel_init].
      intros cfg0 root0 e e' He. apply IH. exact He.
  Qed.

  Theorem parse_R cfg root evs evs' : Forall2 (ev_rel R) evs evs' ->
    parse cfg c u root evs = parse cfg c u root evs'.
  Proof.
    intros H. unfold parse. rewrite <- (Forall2_len _ _ _ H). apply parse_n_R. exact H.
  Qed.

  Lemma replay_n_R n cfg root evs evs' : Forall2 (ev_rel R) evs evs' ->
    replay_n n c u cfg root evs = replay_n n c u cfg root evs'.
  Proof. destruct n; [reflexivity|]. cbn [replay_n]. apply parse_n_R. Qed.
End Parse.
