(* Proofs/EventGenSpec.v — EventGenerator's events are the events the description prescribes
   (slice F1 without sequence groups), for any universe that realises the description. *)
From Coq Require Import NArith ZArith List Bool Lia.
From XV Require Import Base.Str Base.Eqb Model.Bind Model.EventGen Spec.MetaSpec Model.Builder
  Proofs.DictCodecBase Proofs.EventGenNil Proofs.EventGenNames Proofs.EventGenFields.
Import ListNotations.
Open Scope N_scope.

(* ---------------------------------------------------------------- wf_class, unfolded *)
Record wf_class_facts (D : mdesc) (c : cdesc) : Prop := {
  wfc_name : plain_name (cd_name c) = true;
  wfc_gen : plain_name (derived_class_name c) = true;
  wfc_meta_name : oplain_name (cd_meta_name c) = true;
  wfc_meta_ns : oplain_ns (cd_meta_ns c) = true;
  wfc_base : cd_base c = None;
  wfc_fields : forall f, In f (cd_fields c) -> wf_field D f = true;
  wfc_names : distinct (map fd_name (cd_fields c)) = true;
  wfc_elem_names : distinct (map field_local (filter (is_kind KElement) (cd_fields c))) = true;
  wfc_one_text : (length (filter (is_kind KText) (cd_fields c)) <=? 1)%nat = true;
  wfc_attr_names : distinct (map (fun f => field_qname f None) (filter (is_kind KAttribute) (cd_fields c))) = true;
  wfc_reserved : forall f, In f (cd_fields c) -> is_kind KAttribute f = true -> reserved_attr (field_qname f None) = false
}.

Lemma wf_class_inv D c : wf_class D c = true -> wf_class_facts D c.
Proof.
  unfold wf_class. intros H.
  repeat (apply andb_true_iff in H; destruct H as [H ?]).
  constructor; try assumption.
  - destruct (cd_base c); [discriminate|reflexivity].
  - apply forallb_forall. assumption.
  - intros f Hin Hk.
    match goal with Hx : forallb (fun f0 => negb (reserved_attr _)) _ = true |- _ =>
      rewrite forallb_forall in Hx; apply negb_true_iff; apply (Hx f); apply filter_In; split; assumption end.
Qed.

Lemma find_cdesc_in D c cd : find_cdesc D c = Some cd -> In cd (md_classes D) /\ cd_id cd = c.
Proof.
  unfold find_cdesc. intros H. apply find_some in H as [Hin He]. apply N.eqb_eq in He. auto.
Qed.

Lemma all_fields_own fuel D cd : cd_base cd = None -> all_fields fuel D cd = map (fun f => (cd, f)) (cd_fields cd).
Proof. intros H. destruct fuel; cbn; rewrite ?H; reflexivity. Qed.

Lemma spec_walk_noseq plain rounds l :
  (forall cf, In cf l -> fd_sequence (snd cf) = None) ->
  forall fuel, (length l < fuel)%nat -> spec_walk plain rounds fuel l = flat_map plain l.
Proof.
  induction l as [|cf l IH]; intros H fuel Hf; [destruct fuel; reflexivity|].
  destruct fuel as [|fuel]; [cbn in Hf; lia|]. cbn [spec_walk flat_map].
  rewrite (H cf (or_introl eq_refl)). rewrite IH; [reflexivity| |cbn in Hf; lia].
  intros cf' Hin. apply H. right. exact Hin.
Qed.

Section TA.
  Variables (cv : conv) (D : mdesc) (pns : cls -> option str) (ign : bool) (u : universe).
  Hypothesis Hwf : wf_desc D = true.
  Hypothesis Hnoseq : no_sequences D = true.

  Definition class_P (cd : cdesc) : option str := class_namespace cd (pns (cd_id cd)).
  Definition fields_of (cd : cdesc) : list (cdesc * fdesc) := map (fun f => (cd, f)) (cd_fields cd).
  Definition class_vars (cd : cdesc) : list xvar := build_vars 0 (class_P cd) (fields_of cd).

  (* what the proof needs of the universe: the metadata of every class of D is what
     XmlMetaBuilder.build makes of its description (Proofs/BuilderRealises.v shows that
     Builder.universe_of D pns is such a universe) *)
  Record realises_class (cd : cdesc) (meta : xmeta) : Prop := {
    rc_qname : m_qname meta = build_qname (class_P cd) (meta_local_name cd);
    rc_nillable : m_nillable meta = cd_nillable cd;
    rc_attrs : get_attribute_vars meta = filter (v_is KAttribute) (class_vars cd);
    rc_content : get_element_vars meta = filter (fun v => negb (v_is KAttribute v)) (class_vars cd)
  }.
  Hypothesis Hreal : forall cd, In cd (md_classes D) ->
                     match class_P cd with Some n => plain_ns n = true | None => True end ->
                     exists meta, u_meta u (cd_id cd) = Some meta /\ realises_class cd meta.
  Hypothesis Henums : u_enums u = md_enums D.

  Lemma wf_class_of cd : In cd (md_classes D) -> wf_class_facts D cd.
  Proof.
    intros Hin. unfold wf_desc in Hwf. apply andb_true_iff in Hwf as [H _]. apply andb_true_iff in H as [H _].
    rewrite forallb_forall in H. apply wf_class_inv. apply H. exact Hin.
  Qed.

  Lemma noseq_of cd f : In cd (md_classes D) -> In f (cd_fields cd) -> fd_sequence f = None.
  Proof.
    intros Hc Hf. unfold no_sequences in Hnoseq. rewrite forallb_forall in Hnoseq.
    specialize (Hnoseq cd Hc). rewrite forallb_forall in Hnoseq. specialize (Hnoseq f Hf).
    destruct (fd_sequence f); [discriminate|reflexivity].
  Qed.

  (* ---------------------------------------------------------------- the vars of a class *)
  Definition var_of (cd : cdesc) (f : fdesc) (var : xvar) : Prop := exists i, var = build_var i (class_P cd) f.

  Lemma class_P_decl cd : match cd_meta_ns cd with Some n => Some n | None => class_P cd end = class_P cd.
  Proof. unfold class_P, class_namespace. destruct (cd_meta_ns cd); reflexivity. Qed.

  Lemma build_vars_rel cd fs i :
    (forall f, In f fs -> fd_kind f <> KElements) ->
    Forall2 (var_of cd) fs (build_vars i (class_P cd) (map (fun f => (cd, f)) fs)).
  Proof.
    revert i. induction fs as [|f fs IH]; intros i Hk; cbn [map build_vars]; [constructor|].
    rewrite class_P_decl. constructor.
    - exists (i + 1). reflexivity.
    - assert (E : fd_kind f <> KElements) by (apply Hk; left; reflexivity).
      destruct (fd_kind f); try contradiction; apply IH; intros g Hg; apply Hk; right; exact Hg.
  Qed.

  Lemma class_vars_rel cd : In cd (md_classes D) -> Forall2 (var_of cd) (cd_fields cd) (class_vars cd).
  Proof.
    intros Hin. apply build_vars_rel. intros f Hf.
    pose proof (wfc_fields D cd (wf_class_of cd Hin) f Hf) as Hff.
    destruct (wff_kind D f (wf_field_inv D f Hff)) as [E|[E|E]]; rewrite E; discriminate.
  Qed.

  (* ---------------------------------------------------------------- typed instances, unfolded *)
  Definition typed_item (k : nat) (f : fdesc) (x : value) : bool :=
    match fd_type f, x with
    | TClass c', VObj c'' _ => N.eqb c' c'' && typed_value D k x
    | TClass _, _ => false
    | t, VP p => prim_has_type D t p
    | _, _ => false
    end.
  Definition typed_tokens (k : nat) (f : fdesc) (x : value) : bool :=
    match x with VList _ l => forallb (typed_item k f) l | _ => false end.
  Definition typed_field (k : nat) (f : fdesc) (x : value) : bool :=
    match x with
    | VNone => negb (fd_tokens f || fd_list f)
    | VList _ l =>
        if fd_tokens f then (if fd_list f then forallb (typed_tokens k f) l else forallb (typed_item k f) l)
        else fd_list f && forallb (typed_item k f) l
    | x => negb (fd_tokens f || fd_list f) && typed_item k f x
    end.

  Lemma typed_value_inv k c fs :
    typed_value D (S k) (VObj c fs) = true ->
    exists cd, find_cdesc D c = Some cd
               /\ map fst fs = map fd_name (cd_fields cd)
               /\ forall f, In f (cd_fields cd) -> typed_field k f (lookup fs (fd_name f)) = true.
  Proof.
    intros H. cbn [typed_value] in H. destruct (find_cdesc D c) as [cd|]; [|discriminate].
    exists cd. apply andb_true_iff in H as [H1 H2]. split; [reflexivity|]. split.
    - eapply (proj1 (list_eqb_spec str_eqb str_eqb_eq _ _)). exact H1.
    - intros f Hin. rewrite forallb_forall in H2. specialize (H2 f Hin).
      unfold typed_field, typed_tokens, typed_item.
      destruct (lookup fs (fd_name f)); try exact H2.
      all: destruct (fd_type f); exact H2.
  Qed.

  (* spec `lookup` and the model's getattr *)
  Lemma lookup_assoc fs n : lookup fs n = match assoc n fs with Some v => v | None => VNone end.
  Proof.
    unfold lookup. induction fs as [|[k v] fs IHf]; [reflexivity|]. cbn [find assoc fst snd].
    rewrite (str_eqb_sym k n). destruct (str_eqb n k); [reflexivity|exact IHf].
  Qed.

  Lemma assoc_in_names fs n : In n (map fst fs) -> assoc n fs = Some (lookup fs n).
  Proof.
    intros Hin. rewrite lookup_assoc. induction fs as [|[k v] fs IHf]; [contradiction|]. cbn [assoc].
    destruct (str_eqb_spec n k) as [->|Hn]; [reflexivity|].
    destruct Hin as [E|Hin]; [cbn in E; congruence|]. apply IHf. exact Hin.
  Qed.

  Lemma getattr_field c fs cd f :
    map fst fs = map fd_name (cd_fields cd) -> In f (cd_fields cd) ->
    getattr (VObj c fs) (fd_name f) = Ok (lookup fs (fd_name f)).
  Proof.
    intros Hn Hin. cbn [getattr]. rewrite assoc_in_names; [reflexivity|].
    rewrite Hn. apply in_map. exact Hin.
  Qed.

  (* ---------------------------------------------------------------- text of values *)
  Lemma enum_value_spec e m : enum_value u e m = spec_enum_value D e m.
  Proof. unfold enum_value, spec_enum_value. rewrite Henums. reflexivity. Qed.

  Lemma enc_text_prim t fmt p :
    prim_has_type D t p = true -> encode_primitive cv u fmt (VP p) = Ok (text_of cv D fmt (VP p)).
  Proof.
    intros Ht. destruct p; try reflexivity.
    cbn [encode_primitive text_of text_of_prim]. rewrite enum_value_spec.
    destruct t; try discriminate Ht. cbn in Ht. apply andb_true_iff in Ht as [He Ht].
    apply N.eqb_eq in He. subst.
    destruct (spec_enum_value D e member); [reflexivity|discriminate].
  Qed.

  Lemma encode_primitive_list fmt t l :
    encode_primitive cv u fmt (VList t l) = (ws <- mapM (encode_primitive cv u fmt) l ;; Ok (WL ws)).
  Proof.
    cbn [encode_primitive]. f_equal. induction l as [|x l IH]; [reflexivity|].
    cbn [mapM]. rewrite <- IH. reflexivity.
  Qed.

  Lemma prim_item k f x : typed_item k f x = true -> (forall c', fd_type f <> TClass c') ->
                          exists p, x = VP p /\ prim_has_type D (fd_type f) p = true.
  Proof.
    unfold typed_item. intros H Hn. destruct (fd_type f) eqn:E, x; try discriminate H; try (eexists; split; [reflexivity|exact H]).
    all: exfalso; eapply Hn; reflexivity.
  Qed.

  Lemma enc_text_tokens k f fmt t l :
    forallb (typed_item k f) l = true -> (forall c', fd_type f <> TClass c') ->
    encode_primitive cv u fmt (VList t l) = Ok (text_of cv D fmt (VList t l)).
  Proof.
    intros Hl Hn. rewrite encode_primitive_list.
    rewrite (mapM_ok _ (fun x => match x with VP p => text_of_prim cv D fmt p | _ => WNone end) l); [reflexivity|].
    intros x Hin. rewrite forallb_forall in Hl. destruct (prim_item k f x (Hl x Hin) Hn) as [p [-> Hp]].
    apply (enc_text_prim _ fmt p Hp).
  Qed.

  (* ---------------------------------------------------------------- attributes *)
  Lemma attr_optional k f i P X :
    wf_field D f = true -> oplain P -> fd_kind f = KAttribute ->
    typed_field k f X = true -> X <> VNone -> (forall t, X <> VList t []) ->
    var_is_optional (build_var i P f) X
    = Ok (negb (fd_required f) && match fd_default f with Some d => spec_default_eq d X | None => false end).
  Proof.
    intros Hf HP Hk Ht Hn Hl. pose proof (wf_field_inv D f Hf) as W.
    pose proof (build_var_facts D i P f Hf HP) as VF.
    unfold var_is_optional. rewrite (vf_required f _ _ VF Hk), (vf_default f _ _ VF).
    assert (Hlist : fd_list f = false).
    { destruct (fd_list f) eqn:E; [|reflexivity]. rewrite (wff_list D f W E) in Hk. discriminate. }
    unfold default_of. rewrite Hk, Hlist, orb_false_r.
    destruct (fd_tokens f) eqn:Etok.
    - (* tokens: the default is the list factory *)
      assert (Ed : fd_default f = None).
      { destruct (fd_default f) as [d|] eqn:E; [|reflexivity]. destruct (wff_default_scalar D f W d E) as [T _]. congruence. }
      rewrite Ed. destruct (fd_required f); [reflexivity|]. cbn [negb andb].
      unfold typed_field in Ht. rewrite Etok, Hlist in Ht.
      destruct X as [| |t l| | | |]; try discriminate Ht; try contradiction.
      destruct l as [|x l]; [exfalso; apply (Hl t); reflexivity|].
      cbn [py_eq]. destruct (Bool.eqb false t); reflexivity.
    - destruct (fd_default f) as [d|] eqn:Ed.
      + destruct (fd_required f); [reflexivity|]. cbn [negb andb].
        assert (Hncl : forall c', fd_type f <> TClass c').
        { intros c' E. pose proof (wff_type D f W) as Hty. unfold ftype_ok in Hty. rewrite E in Hty.
          unfold is_kind in Hty. rewrite Hk in Hty. discriminate. }
        assert (Hp : exists p, X = VP p /\ prim_has_type D (fd_type f) p = true).
        { unfold typed_field in Ht. rewrite Etok, Hlist in Ht.
          destruct X; try contradiction; try discriminate Ht;
            apply (prim_item k f); try exact Hncl; cbn in Ht; exact Ht. }
        destruct Hp as [p [-> Htp]].
        pose proof (wff_default D f W) as Hdo. unfold default_ok in Hdo. rewrite Ed in Hdo.
        cbn [py_eq spec_default_eq].
        destruct d, (fd_type f); try discriminate Hdo; destruct p; try discriminate Htp; reflexivity.
      + (* no default: Optional *)
        pose proof (wff_shape D f W) as Hs. rewrite Etok, Hlist, Ed in Hs. cbn in Hs. rewrite orb_false_r in Hs.
        rewrite Hs. cbn [negb andb]. rewrite andb_false_r.
        destruct X; try contradiction; reflexivity.
  Qed.

  Lemma attr_step_ok k c fs cd f var :
    In cd (md_classes D) -> In f (cd_fields cd) -> fd_kind f = KAttribute -> var_of cd f var ->
    oplain (class_P cd) -> map fst fs = map fd_name (cd_fields cd) ->
    typed_field k f (lookup fs (fd_name f)) = true ->
    attr_step cv u (VObj c fs) ign var = Ok (spec_attribute cv D ign f (some_ns (class_P cd)) (lookup fs (fd_name f))).
  Proof.
    intros Hcd Hf Hk [i ->] HP Hn Ht.
    pose proof (wfc_fields D cd (wf_class_of cd Hcd) f Hf) as Hwff.
    pose proof (wf_field_inv D f Hwff) as W.
    pose proof (build_var_facts D i (class_P cd) f Hwff HP) as VF.
    unfold attr_step. unfold v_is. rewrite (vf_kind f _ _ VF), Hk.
    rewrite (vf_name f _ _ VF), (getattr_field c fs cd f Hn Hf). cbn [gbind].
    set (X := lookup fs (fd_name f)) in *.
    assert (Hlist : fd_list f = false).
    { destruct (fd_list f) eqn:E; [|reflexivity]. rewrite (wff_list D f W E) in Hk. discriminate. }
    assert (Hncl : forall c', fd_type f <> TClass c').
    { intros c' E. pose proof (wff_type D f W) as Hty. unfold ftype_ok in Hty. rewrite E in Hty.
      unfold is_kind in Hty. rewrite Hk in Hty. discriminate. }
    assert (Hq : v_qname (build_var i (class_P cd) f) = field_qname f (some_ns (class_P cd))).
    { apply (vf_qname f _ _ VF). rewrite Hk. discriminate. }
    destruct X as [|p|t l| | | |] eqn:EX.
    - reflexivity.
    - (* a scalar *)
      cbn [is_array andb].
      assert (Htp : prim_has_type D (fd_type f) p = true).
      { unfold typed_field in Ht. apply andb_true_iff in Ht as [_ Ht]. unfold typed_item in Ht.
        destruct (fd_type f); try exact Ht. exfalso. eapply Hncl. reflexivity. }
      rewrite (attr_optional k f i (class_P cd) (VP p) Hwff HP Hk Ht) by (intros; discriminate).
      unfold spec_attribute.
      destruct ign; cbn [gbind andb].
      + destruct (negb (fd_required f) && match fd_default f with Some d => spec_default_eq d (VP p) | None => false end); [reflexivity|].
        rewrite (enc_text_prim _ _ p Htp), (vf_format f _ _ VF), Hq. reflexivity.
      + rewrite (enc_text_prim _ _ p Htp), (vf_format f _ _ VF), Hq. reflexivity.
    - (* tokens *)
      unfold typed_field in Ht. rewrite Hlist in Ht. destruct (fd_tokens f) eqn:Etok; [|discriminate Ht].
      destruct l as [|x l]; [reflexivity|].
      cbn [is_array py_truthy nonempty negb andb].
      rewrite (attr_optional k f i (class_P cd) (VList t (x :: l)) Hwff HP Hk) by
          (try (intros; discriminate); unfold typed_field; rewrite Etok, Hlist; exact Ht).
      unfold spec_attribute.
      destruct ign; cbn [gbind andb].
      + destruct (negb (fd_required f) && match fd_default f with Some d => spec_default_eq d (VList t (x :: l)) | None => false end); [reflexivity|].
        rewrite (enc_text_tokens k f _ t (x :: l) Ht Hncl), (vf_format f _ _ VF), Hq. reflexivity.
      + rewrite (enc_text_tokens k f _ t (x :: l) Ht Hncl), (vf_format f _ _ VF), Hq. reflexivity.
    - exfalso. unfold typed_field in Ht. apply andb_true_iff in Ht as [_ Ht]. unfold typed_item in Ht.
      destruct (fd_type f) eqn:E; try discriminate Ht. eapply Hncl. reflexivity.
    - unfold typed_field, typed_item in Ht. apply andb_true_iff in Ht as [_ Ht]. destruct (fd_type f); discriminate Ht.
    - unfold typed_field, typed_item in Ht. apply andb_true_iff in Ht as [_ Ht]. destruct (fd_type f); discriminate Ht.
    - unfold typed_field, typed_item in Ht. apply andb_true_iff in Ht as [_ Ht]. destruct (fd_type f); discriminate Ht.
  Qed.

  (* ---------------------------------------------------------------- one element *)
  Notation run' := (run cv u ign).

  Lemma ev_nil_is_nil : is_nil_attr ev_nil = true.
  Proof. vm_compute. reflexivity. Qed.
  Lemma ev_nil_marker : ev_nil = nil_marker.
  Proof. vm_compute. reflexivity. Qed.

  (* convert_element on an absent value, a primitive or a token list *)
  Lemma convert_element_ok f cns var X :
    var_facts f cns var -> fd_kind f = KElement ->
    encode_primitive cv u (fd_format f) X = Ok (text_of cv D (fd_format f) X) ->
    (X = VNone \/ (exists p, X = VP p /\ exists w, text_of cv D (fd_format f) X = WP w) \/ exists t l, X = VList t l) ->
    exists evs, convert_element cv u X var = Ok evs
                /\ norm_nil evs = spec_simple_element cv D f (field_qname f cns) X
                /\ closed evs = true /\ starts_content evs = true /\ evs <> [].
  Proof.
    intros VF Hk He Hx.
    assert (Hq : v_qname var = field_qname f cns) by (apply (vf_qname f _ _ VF); rewrite Hk; discriminate).
    unfold convert_element. rewrite (vf_format f _ _ VF), He, (vf_any f _ _ VF), (vf_nillable f _ _ VF), Hq. cbn [gbind].
    set (q := field_qname f cns).
    assert (Hty : (match X with
                   | VNone => []
                   | _ => if negb (is_empty_str X) && false then
                            let '(dt, is_string) := datatype_of cv X in if is_string then [] else [ev_type dt]
                          else []
                   end) = (@nil wevent)).
    { destruct X; try reflexivity; rewrite andb_false_r; reflexivity. }
    rewrite Hty. cbn [app].
    destruct Hx as [->|[[p [-> [w Hw]]]|[t [l ->]]]].
    - (* None *)
      eexists. split; [reflexivity|]. cbn [py_truthy negb andb text_of]. unfold spec_simple_element.
      destruct (fd_nillable f); cbn [andb app]; (split; [|split; [reflexivity|split; [reflexivity|discriminate]]]).
      + cbn [norm_nil]. rewrite ev_nil_is_nil. cbn [stays_empty negb andb norm_nil is_nil_attr spec_simple_element app].
        rewrite ev_nil_marker. reflexivity.
      + reflexivity.
    - (* a primitive: a pending xsi:nil is dropped, the element has text *)
      eexists. split; [reflexivity|]. unfold spec_simple_element. rewrite Hw.
      destruct (fd_nillable f && negb (py_truthy (VP p))); cbn [app]; (split; [|split; [reflexivity|split; [reflexivity|discriminate]]]).
      + cbn [norm_nil]. rewrite ev_nil_is_nil. reflexivity.
      + reflexivity.
    - (* a token list *)
      eexists. split; [reflexivity|]. unfold spec_simple_element. cbn [text_of py_truthy].
      destruct l as [|x l]; cbn [nonempty negb map].
      + destruct (fd_nillable f); cbn [andb app]; (split; [|split; [reflexivity|split; [reflexivity|discriminate]]]).
        * cbn [norm_nil]. rewrite ev_nil_is_nil. cbn [stays_empty negb andb norm_nil is_nil_attr spec_simple_element app].
          rewrite ev_nil_marker. reflexivity.
        * reflexivity.
      + rewrite andb_false_r. cbn [app]. split; [|split; [reflexivity|split; [reflexivity|discriminate]]]. reflexivity.
  Qed.

  (* ---------------------------------------------------------------- one level of nesting *)
  Definition good (k : nat) (ctx : option str) (x : value) : bool :=
    typed_value D k x && cache_consistent D pns k ctx x.

  Definition renders (fuel k : nat) (ctx : option str) (over : option qname) (fnil : bool) (x : value) : Prop :=
    exists evs, run' fuel (CDataclass x over fnil None) = Ok evs
                /\ norm_nil evs = spec_object cv D ign k ctx over fnil x
                /\ closed evs = true /\ starts_content evs = true /\ evs <> [].

  Section Level.
    Variables (k : nat) (cns : option str).
    Hypothesis IHobj : forall fuel c' fs' fq fnil,
        (5 * k <= fuel)%nat -> fq <> [] -> good k cns (VObj c' fs') = true ->
        renders fuel k cns (Some fq) fnil (VObj c' fs').

    (* an item of an Element field: a primitive or a nested object *)
    Lemma item_ok cd f var x fuel :
      wf_field D f = true -> fd_kind f = KElement -> var_facts f cns var -> decl_ns cns (cd, f) = cns ->
      typed_item k f x = true ->
      (forall c' fs', x = VObj c' fs' -> good k cns x = true) ->
      (5 * k + 2 <= fuel)%nat ->
      exists evs, run' fuel (CAnyType x var) = Ok evs
                  /\ norm_nil evs = spec_item cv D (spec_object cv D ign k cns) cns (cd, f) x
                  /\ closed evs = true /\ starts_content evs = true /\ evs <> [].
    Proof.
      intros Hwff Hk VF Hdecl Hti Hgood HF.
      assert (Hq : v_qname var = field_qname f cns) by (apply (vf_qname f _ _ VF); rewrite Hk; discriminate).
      assert (Hke : v_is KElement var = true) by (unfold v_is; rewrite (vf_kind f _ _ VF), Hk; reflexivity).
      assert (Hkw : v_is KWildcard var = false) by (unfold v_is; rewrite (vf_kind f _ _ VF), Hk; reflexivity).
      unfold spec_item. cbn [snd]. rewrite Hk, Hdecl.
      destruct fuel as [|F]; [lia|]. cbn [run].
      unfold typed_item in Hti.
      destruct x as [|p| |c' fs'| | |].
      - destruct (fd_type f); discriminate Hti.
      - (* a primitive *)
        assert (Htp : prim_has_type D (fd_type f) p = true) by (destruct (fd_type f); try exact Hti; discriminate Hti).
        rewrite Hke.
        assert (Hw : exists w, text_of cv D (fd_format f) (VP p) = WP w).
        { cbn [text_of]. unfold text_of_prim. destruct p; try (eexists; reflexivity).
          destruct (fd_type f); try discriminate Htp. cbn in Htp. apply andb_true_iff in Htp as [He Htp].
          apply N.eqb_eq in He. subst. destruct (spec_enum_value D e member) as [v|]; [|discriminate].
          destruct v; eexists; reflexivity. }
        apply (convert_element_ok f cns var (VP p) VF Hk (enc_text_prim _ _ p Htp)).
        right. left. exists p. split; [reflexivity|exact Hw].
      - destruct (fd_type f); discriminate Hti.
      - (* a nested object *)
        destruct (fd_type f) as [| | | | | | | | | | | | | |c0] eqn:Ety; try discriminate Hti.
        apply andb_true_iff in Hti as [Hc _]. apply N.eqb_eq in Hc. subst c0.
        destruct F as [|F]; [lia|]. cbn [run]. rewrite Hkw, Hke.
        unfold xsi_type_of. rewrite (vf_types f _ _ VF), Ety. cbn [existsb ptype_eqb]. rewrite N.eqb_refl. cbn [orb gbind].
        rewrite Hq, (vf_nillable f _ _ VF).
        apply IHobj; [lia| |apply (Hgood c' fs' eq_refl)].
        unfold field_qname. intros E.
        assert (Hl : field_local f <> []) by (apply (field_local_nonempty D); exact Hwff).
        unfold clark in E. destruct (field_ns f cns) as [[|y r]|]; try (apply Hl; exact E). discriminate E.
      - destruct (fd_type f); discriminate Hti.
      - destruct (fd_type f); discriminate Hti.
      - destruct (fd_type f); discriminate Hti.
    Qed.

    (* ---- helpers *)
    Lemma concatM_exists {A} (g : A -> gres (list wevent)) (Q : A -> list wevent -> Prop) l :
      (forall x, In x l -> exists evs, g x = Ok evs /\ Q x evs) ->
      exists evss, concatM g l = Ok (concat evss) /\ Forall2 Q l evss.
    Proof.
      induction l as [|x l IH]; intros H.
      - exists []. split; [reflexivity|constructor].
      - destruct (H x (or_introl eq_refl)) as [evs [Hg HQ]].
        destruct (IH (fun y Hy => H y (or_intror Hy))) as [evss [Hc HF]].
        exists (evs :: evss). split; [|constructor; assumption].
        unfold concatM in *. cbn [mapM]. rewrite Hg. cbn [gbind].
        destruct (mapM g l) as [ys|e]; cbn [gbind] in *; [|discriminate Hc].
        injection Hc as Hc. cbn [concat]. rewrite Hc. reflexivity.
    Qed.

    Definition nice (evs : list wevent) : Prop := closed evs = true /\ starts_content evs = true.

    Lemma nice_concat evss : Forall (fun evs => nice evs /\ evs <> []) evss -> nice (concat evss).
    Proof.
      intros H. split.
      - apply closed_concat. intros l Hl. rewrite Forall_forall in H. apply (H l Hl).
      - destruct evss as [|e evss]; [reflexivity|]. inversion H as [|? ? [[_ Hs] Hne] _]; subst.
        cbn [concat]. destruct e; [contradiction|exact Hs].
    Qed.

    Lemma wrap_ok f var evs :
      var_facts f cns var -> fd_kind f = KElement ->
      wrap_events var evs = with_wrapper (wrapper_qname f cns) evs.
    Proof.
      intros VF Hk. unfold wrap_events. rewrite (vf_wrapper f _ _ VF) by (rewrite Hk; discriminate).
      unfold wrapper_qname, with_wrapper. destruct (fd_wrapper f) as [[|y r]|]; try reflexivity.
      unfold clark. destruct (field_ns f cns) as [[|z r']|]; reflexivity.
    Qed.

    Lemma norm_nil_wrapper w evs :
      closed evs = true ->
      norm_nil (with_wrapper w evs) = with_wrapper w (norm_nil evs) /\ (w <> None -> nice (with_wrapper w evs)).
    Proof.
      intros Hc. destruct w as [q|]; [|split; [reflexivity|intros E; contradiction]]. split.
      - unfold with_wrapper. cbn [app norm_nil is_nil_attr andb]. rewrite norm_nil_app by exact Hc. reflexivity.
      - intros _. split; [|reflexivity]. unfold with_wrapper.
        change ([WStart q] ++ evs ++ [WEnd q]) with ((WStart q :: evs) ++ [WEnd q]).
        apply closed_app; [reflexivity|discriminate].
    Qed.

    Definition step (fuel : nat) (vv : xvar * value) : gres (list wevent) :=
      evs <- run' fuel (CValue (snd vv) (fst vv)) ;; Ok (wrap_events (fst vv) evs).

    Lemma kind_element_facts f var :
      var_facts f cns var -> fd_kind f = KElement ->
      v_is KText var = false /\ v_is KElements var = false /\ v_is KElement var = true.
    Proof. intros VF Hk. unfold v_is. rewrite (vf_kind f _ _ VF), Hk. auto. Qed.

    (* CValue on a non-list item of an Element field goes to CAnyType *)
    Lemma cvalue_item f var x F :
      var_facts f cns var -> fd_kind f = KElement -> fd_tokens f = false -> is_array x = false ->
      run' (S F) (CValue x var) = run' F (CAnyType x var).
    Proof.
      intros VF Hk Ht Ha. destruct (kind_element_facts f var VF Hk) as [H1 [H2 _]].
      cbn [run]. rewrite (vf_mixed f _ _ VF), H1, (vf_tokens f _ _ VF), Ht, H2, Ha, andb_false_r. reflexivity.
    Qed.

    Lemma typed_item_not_array f x : typed_item k f x = true -> is_array x = false.
    Proof. unfold typed_item. destruct x; try reflexivity. destruct (fd_type f); discriminate. Qed.

    Lemma items_ok cd f var l F :
      wf_field D f = true -> fd_kind f = KElement -> fd_tokens f = false -> var_facts f cns var ->
      decl_ns cns (cd, f) = cns ->
      forallb (typed_item k f) l = true ->
      (forall c' fs', In (VObj c' fs') l -> good k cns (VObj c' fs') = true) ->
      (5 * k + 3 <= F)%nat ->
      exists evs, concatM (fun x => run' F (CValue x var)) l = Ok evs
                  /\ norm_nil evs = flat_map (spec_item cv D (spec_object cv D ign k cns) cns (cd, f)) l
                  /\ nice evs.
    Proof.
      intros Hwff Hk Htok VF Hdecl Hl Hgood HF.
      destruct (concatM_exists (fun x => run' F (CValue x var))
                  (fun x evs => norm_nil evs = spec_item cv D (spec_object cv D ign k cns) cns (cd, f) x
                                /\ nice evs /\ evs <> []) l) as [evss [Hc HQ]].
      { intros x Hin. rewrite forallb_forall in Hl. pose proof (Hl x Hin) as Hti.
        destruct F as [|F1]; [lia|]. rewrite (cvalue_item f var x F1 VF Hk Htok (typed_item_not_array f x Hti)).
        destruct (item_ok cd f var x F1 Hwff Hk VF Hdecl Hti) as [evs [H1 [H2 [H3 [H4 H5]]]]]; [|lia|].
        - intros c' fs' ->. apply Hgood. exact Hin.
        - exists evs. repeat split; assumption. }
      exists (concat evss). split; [exact Hc|].
      assert (HF2 : Forall (fun evs => nice evs /\ evs <> []) evss).
      { clear - HQ. induction HQ as [|x evs l' evss' [_ [Hn Hne]] _ IH]; constructor; auto. }
      split.
      - rewrite norm_nil_concat.
        + rewrite flat_map_concat_map. f_equal.
          clear - HQ. induction HQ as [|x evs l' evss' [Hnn _] _ IH]; [reflexivity|].
          cbn [map]. rewrite Hnn, IH. reflexivity.
        + intros e He. rewrite Forall_forall in HF2. apply (HF2 e He).
      - apply nice_concat. exact HF2.
    Qed.

    Lemma tokens_not_class f : wf_field D f = true -> fd_tokens f = true -> forall c', fd_type f <> TClass c'.
    Proof.
      intros Hwff Ht c' E. pose proof (wff_type D f (wf_field_inv D f Hwff)) as Hty.
      unfold ftype_ok in Hty. rewrite E, Ht in Hty. cbn in Hty. rewrite andb_false_r in Hty. discriminate.
    Qed.

    Lemma no_wrapper f : wf_field D f = true -> (fd_list f = false \/ fd_tokens f = true \/ fd_kind f <> KElement) ->
                         fd_wrapper f = None.
    Proof.
      intros Hwff H. destruct (fd_wrapper f) as [w|] eqn:E; [|reflexivity].
      destruct (wff_wrapper D f (wf_field_inv D f Hwff) w E) as [_ [Hk [Hl [Ht _]]]].
      destruct H as [H|[H|H]]; congruence.
    Qed.

    Lemma step_single var X F evs :
      run' F (CValue X var) = Ok evs -> concatM (step F) [(var, X)] = Ok (wrap_events var evs).
    Proof. intros H. unfold concatM, step. cbn [mapM fst snd]. rewrite H. cbn [gbind concat]. rewrite app_nil_r. reflexivity. Qed.

    Lemma nice_single e : is_attr e = false -> match e with WStart _ | WData _ => True | _ => False end -> nice [e].
    Proof. intros H1 H2. split; [cbn; rewrite H1; reflexivity|destruct e; try contradiction; reflexivity]. Qed.

    (* a field outside a sequence group *)
    Lemma field_ok cd f var fs fuel :
      wf_field D f = true -> (fd_kind f = KElement \/ fd_kind f = KText) ->
      var_facts f cns var -> decl_ns cns (cd, f) = cns ->
      typed_field k f (lookup fs (fd_name f)) = true ->
      (forall c' fs', (lookup fs (fd_name f) = VObj c' fs'
                       \/ exists t l, lookup fs (fd_name f) = VList t l /\ In (VObj c' fs') l) ->
                      good k cns (VObj c' fs') = true) ->
      (5 * k + 4 <= fuel)%nat ->
      exists evs, concatM (step fuel) (emit var (lookup fs (fd_name f))) = Ok evs
                  /\ norm_nil evs = spec_plain cv D (spec_object cv D ign k cns) cns fs (cd, f)
                  /\ nice evs.
    Proof.
      intros Hwff Hkind VF Hdecl Ht Hgood HF.
      pose proof (wf_field_inv D f Hwff) as W.
      unfold spec_plain. cbn [snd]. set (X := lookup fs (fd_name f)) in *.
      destruct fuel as [|F]; [lia|].
      destruct Hkind as [Hk|Hk].
      2:{ (* Text: the value itself *)
        assert (Hnw : v_wrapper_qname var = None).
        { apply (vf_wrapper_none f _ _ VF). apply no_wrapper; [exact Hwff|]. right. right. rewrite Hk. discriminate. }
        assert (Hkt : v_is KText var = true) by (unfold v_is; rewrite (vf_kind f _ _ VF), Hk; reflexivity).
        assert (Hlist : fd_list f = false).
        { destruct (fd_list f) eqn:E; [|reflexivity]. rewrite (wff_list D f W E) in Hk. discriminate. }
        assert (Hncl : forall c', fd_type f <> TClass c').
        { intros c' E. pose proof (wff_type D f W) as Hty. unfold ftype_ok in Hty. rewrite E in Hty.
          unfold is_kind in Hty. rewrite Hk in Hty. discriminate. }
        assert (Hcv : forall x w, encode_primitive cv u (fd_format f) x = Ok w ->
                      run' (S F) (CValue x var) = Ok [WData w]).
        { intros x w He. cbn [run]. rewrite (vf_mixed f _ _ VF), Hkt. unfold convert_data.
          rewrite (vf_format f _ _ VF), He. reflexivity. }
        rewrite Hk. unfold spec_item. cbn [snd]. rewrite Hk.
        unfold emit. rewrite (vf_nillable f _ _ VF).
        destruct X as [|p|t l| | | |] eqn:EX.
        - destruct (fd_nillable f).
          + exists [WData WNone]. split; [|split; [reflexivity|apply nice_single; [reflexivity|exact I]]].
            rewrite (step_single var VNone (S F) [WData WNone]) by (apply Hcv; reflexivity).
            unfold wrap_events. rewrite Hnw. reflexivity.
          + exists []. repeat split; reflexivity.
        - assert (Htp : prim_has_type D (fd_type f) p = true).
          { unfold typed_field in Ht. apply andb_true_iff in Ht as [_ Ht]. unfold typed_item in Ht.
            destruct (fd_type f); try exact Ht. exfalso. eapply Hncl. reflexivity. }
          exists [WData (text_of cv D (fd_format f) (VP p))].
          split; [|split; [reflexivity|apply nice_single; [reflexivity|exact I]]].
          rewrite (step_single var (VP p) (S F) [WData (text_of cv D (fd_format f) (VP p))]) by (apply Hcv; apply (enc_text_prim _ _ p Htp)).
          unfold wrap_events. rewrite Hnw. reflexivity.
        - unfold typed_field in Ht. rewrite Hlist in Ht. destruct (fd_tokens f) eqn:Etok; [|discriminate Ht].
          exists [WData (text_of cv D (fd_format f) (VList t l))].
          split; [|split; [reflexivity|apply nice_single; [reflexivity|exact I]]].
          rewrite (step_single var (VList t l) (S F) [WData (text_of cv D (fd_format f) (VList t l))])
            by (apply Hcv; apply (enc_text_tokens k f _ t l Ht Hncl)).
          unfold wrap_events. rewrite Hnw. reflexivity.
        - exfalso. unfold typed_field in Ht. apply andb_true_iff in Ht as [_ Ht]. unfold typed_item in Ht.
          destruct (fd_type f) eqn:E; try discriminate Ht. eapply Hncl. reflexivity.
        - unfold typed_field, typed_item in Ht. apply andb_true_iff in Ht as [_ Ht]. destruct (fd_type f); discriminate Ht.
        - unfold typed_field, typed_item in Ht. apply andb_true_iff in Ht as [_ Ht]. destruct (fd_type f); discriminate Ht.
        - unfold typed_field, typed_item in Ht. apply andb_true_iff in Ht as [_ Ht]. destruct (fd_type f); discriminate Ht. }
      destruct (kind_element_facts f var VF Hk) as [Hkt [Hke Hkel]].
      rewrite Hk, Hdecl.
      assert (Hwrap : forall evs, wrap_events var evs = with_wrapper (wrapper_qname f cns) evs)
        by (intros; apply (wrap_ok f var); assumption).
      assert (Hnow : fd_list f = false \/ fd_tokens f = true -> wrapper_qname f cns = None).
      { intros H. unfold wrapper_qname. rewrite (no_wrapper f Hwff); [reflexivity|]. destruct H; auto. }
      (* a scalar item: through CAnyType *)
      assert (Hscalar : forall x, typed_item k f x = true -> fd_tokens f = false -> fd_list f = false ->
                (forall c' fs', x = VObj c' fs' -> good k cns x = true) ->
                exists evs, concatM (step (S F)) [(var, x)] = Ok evs
                            /\ norm_nil evs = with_wrapper (wrapper_qname f cns)
                                  (spec_item cv D (spec_object cv D ign k cns) cns (cd, f) x ++ [])
                            /\ nice evs).
      { intros x Hti Htok Hlist Hg.
        destruct (item_ok cd f var x F Hwff Hk VF Hdecl Hti Hg) as [evs [H1 [H2 [H3 [H4 H5]]]]]; [lia|].
        exists evs. rewrite (step_single var x (S F) evs)
          by (rewrite (cvalue_item f var x F VF Hk Htok (typed_item_not_array f x Hti)); exact H1).
        rewrite Hwrap, (Hnow (or_introl Hlist)), app_nil_r. cbn [with_wrapper]. repeat split; assumption. }
      unfold emit. rewrite (vf_nillable f _ _ VF).
      destruct X as [|p|t l|c' fs'| | |] eqn:EX.
      - (* None *)
        unfold typed_field in Ht. apply negb_true_iff, orb_false_iff in Ht as [Htok Hlist].
        destruct (fd_nillable f) eqn:Enil; [|exists []; repeat split; reflexivity].
        unfold spec_item. cbn [snd]. rewrite Hk, Hdecl.
        destruct (convert_element_ok f cns var VNone VF Hk eq_refl (or_introl eq_refl)) as [evs [H1 [H2 [H3 [H4 H5]]]]].
        exists evs. rewrite (step_single var VNone (S F) evs).
        + rewrite Hwrap, (Hnow (or_introl Hlist)). cbn [with_wrapper]. repeat split; assumption.
        + rewrite (cvalue_item f var VNone F VF Hk Htok eq_refl).
          destruct F as [|F']; [lia|]. cbn [run]. rewrite Hkel. exact H1.
      - (* a primitive *)
        unfold typed_field in Ht. apply andb_true_iff in Ht as [Hfl Hti].
        apply negb_true_iff, orb_false_iff in Hfl as [Htok Hlist].
        cbn [spec_occurrences flat_map].
        apply (Hscalar (VP p) Hti Htok Hlist). intros; discriminate.
      - (* a list *)
        unfold typed_field in Ht.
        destruct (fd_tokens f) eqn:Etok.
        + (* tokens *)
          pose proof (tokens_not_class f Hwff Etok) as Hncl.
          assert (Hct : forall x, run' (S F) (CValue x var) = convert_tokens cv u x var).
          { intros x. cbn [run]. rewrite (vf_mixed f _ _ VF), Hkt, (vf_tokens f _ _ VF), Etok. reflexivity. }
          rewrite (Hnow (or_intror eq_refl)). cbn [with_wrapper].
          destruct (fd_list f) eqn:Elist.
          * (* a list of token lists *)
            cbn [spec_occurrences]. rewrite Etok, Elist.
            destruct l as [|y l'].
            { exists []. split; [|split; [reflexivity|split; reflexivity]].
              rewrite (step_single var (VList t []) (S F) []).
              - unfold wrap_events. rewrite (vf_wrapper_none f _ _ VF); [reflexivity|].
                apply no_wrapper; [exact Hwff|auto].
              - rewrite Hct. unfold convert_tokens. cbn [py_truthy nonempty orb]. rewrite (vf_list f _ _ VF), Elist.
                cbn [negb]. rewrite andb_false_r. reflexivity. }
            assert (Hall : forall x, In x (y :: l') -> exists t' l2, x = VList t' l2 /\ forallb (typed_item k f) l2 = true).
            { intros x Hin. rewrite forallb_forall in Ht. specialize (Ht x Hin). unfold typed_tokens in Ht.
              destruct x; try discriminate Ht. eauto. }
            destruct (concatM_exists (fun x => convert_element cv u x var)
                        (fun x evs => norm_nil evs = spec_item cv D (spec_object cv D ign k cns) cns (cd, f) x
                                      /\ nice evs /\ evs <> []) (y :: l')) as [evss [Hc HQ]].
            { intros x Hin. destruct (Hall x Hin) as [t' [l2 [-> Hl2]]].
              destruct (convert_element_ok f cns var (VList t' l2) VF Hk (enc_text_tokens k f _ t' l2 Hl2 Hncl))
                as [evs [H1 [H2 [H3 [H4 H5]]]]]; [right; right; eauto|].
              exists evs. split; [exact H1|]. unfold spec_item. cbn [snd]. rewrite Hk, Hdecl. repeat split; assumption. }
            assert (HF2 : Forall (fun evs => nice evs /\ evs <> []) evss).
            { clear - HQ. induction HQ as [|x evs l0 evss' [_ [Hn Hne]] _ IH]; constructor; auto. }
            exists (concat evss). split; [|split].
            { rewrite (step_single var (VList t (y :: l')) (S F) (concat evss)).
              - unfold wrap_events. rewrite (vf_wrapper_none f _ _ VF); [reflexivity|]. apply no_wrapper; [exact Hwff|auto].
              - rewrite Hct. unfold convert_tokens. cbn [py_truthy nonempty orb].
                destruct (Hall y (or_introl eq_refl)) as [t' [l2 [-> _]]]. exact Hc. }
            { rewrite norm_nil_concat by (intros e He; rewrite Forall_forall in HF2; apply (HF2 e He)).
              rewrite flat_map_concat_map. f_equal.
              clear - HQ. induction HQ as [|x evs l0 evss' [Hnn _] _ IH]; [reflexivity|]. cbn [map]. rewrite Hnn, IH. reflexivity. }
            { apply nice_concat. exact HF2. }
          * (* one token list *)
            cbn [spec_occurrences]. rewrite Etok, Elist.
            destruct (convert_element_ok f cns var (VList t l) VF Hk (enc_text_tokens k f _ t l Ht Hncl))
              as [evs [H1 [H2 [H3 [H4 H5]]]]]; [right; right; eauto|].
            assert (Hnw : forall e, wrap_events var e = e).
            { intros e. unfold wrap_events. rewrite (vf_wrapper_none f _ _ VF); [reflexivity|]. apply no_wrapper; [exact Hwff|auto]. }
            destruct l as [|x l'].
            { destruct (fd_nillable f) eqn:Enil.
              - exists evs. rewrite (step_single var (VList t []) (S F) evs).
                + rewrite Hnw. cbn [flat_map]. rewrite app_nil_r. unfold spec_item. cbn [snd]. rewrite Hk, Hdecl. repeat split; assumption.
                + rewrite Hct. unfold convert_tokens. cbn [py_truthy nonempty orb]. rewrite (vf_nillable f _ _ VF), Enil, (vf_list f _ _ VF), Elist. exact H1.
              - exists []. split; [|split; [reflexivity|split; reflexivity]].
                rewrite (step_single var (VList t []) (S F) []); [rewrite Hnw; reflexivity|].
                rewrite Hct. unfold convert_tokens. cbn [py_truthy nonempty orb]. rewrite (vf_nillable f _ _ VF), Enil. reflexivity. }
            exists evs. rewrite (step_single var (VList t (x :: l')) (S F) evs).
            { rewrite Hnw. cbn [flat_map]. rewrite app_nil_r. unfold spec_item. cbn [snd]. rewrite Hk, Hdecl. repeat split; assumption. }
            rewrite Hct. unfold convert_tokens. cbn [py_truthy nonempty orb].
            cbn in Ht. apply andb_true_iff in Ht as [Hx _].
            destruct (prim_item k f x Hx Hncl) as [p [-> _]]. exact H1.
        + (* a repeated element *)
          apply andb_true_iff in Ht as [Elist Hl]. cbn [spec_occurrences]. rewrite Etok.
          destruct (items_ok cd f var l F Hwff Hk Etok VF Hdecl Hl) as [evs [H1 [H2 H3]]]; [|lia|].
          { intros c' fs' Hin. apply Hgood. right. eauto. }
          exists (with_wrapper (wrapper_qname f cns) evs).
          rewrite (step_single var (VList t l) (S F) evs).
          2:{ cbn [run]. rewrite (vf_mixed f _ _ VF), Hkt, (vf_tokens f _ _ VF), Etok, Hke, (vf_list f _ _ VF), Elist. cbn [is_array andb]. exact H1. }
          destruct H3 as [H3 H4].
          destruct (norm_nil_wrapper (wrapper_qname f cns) evs H3) as [N1 N2].
          rewrite Hwrap, N1, H2. split; [reflexivity|]. split; [reflexivity|].
          destruct (wrapper_qname f cns) as [wq|]; [apply N2; discriminate|]. split; assumption.
      - (* an object *)
        unfold typed_field in Ht. apply andb_true_iff in Ht as [Hfl Hti].
        apply negb_true_iff, orb_false_iff in Hfl as [Htok Hlist].
        cbn [spec_occurrences flat_map].
        apply (Hscalar (VObj c' fs') Hti Htok Hlist). intros c2 fs2 E. apply (Hgood c' fs'). left. reflexivity.
      - unfold typed_field, typed_item in Ht. apply andb_true_iff in Ht as [_ Ht]. destruct (fd_type f); discriminate Ht.
      - unfold typed_field, typed_item in Ht. apply andb_true_iff in Ht as [_ Ht]. destruct (fd_type f); discriminate Ht.
      - unfold typed_field, typed_item in Ht. apply andb_true_iff in Ht as [_ Ht]. destruct (fd_type f); discriminate Ht.
    Qed.

  End Level.

  (* ---------------------------------------------------------------- the guard clauses, unfolded *)
  Definition sub_all (P : value -> bool) (X : value) : bool :=
    match X with VList _ l => forallb P l | x => P x end.
  Definition on_obj (P : value -> bool) (x : value) : bool := match x with VObj _ _ => P x | _ => true end.

  Lemma cache_inv k c fs cd ctx :
    find_cdesc D c = Some cd ->
    cache_consistent D pns (S k) ctx (VObj c fs) = true ->
    (match cd_meta_ns cd with Some _ => true | None => ostr_eqb (some_ns (pns c)) ctx end) = true
    /\ forall f, In f (cd_fields cd) ->
          sub_all (on_obj (cache_consistent D pns k (class_ns cd ctx))) (lookup fs (fd_name f)) = true.
  Proof.
    intros Hc H. cbn [cache_consistent] in H. rewrite Hc in H. apply andb_true_iff in H as [H1 H2].
    split; [exact H1|]. intros f Hin. rewrite forallb_forall in H2. specialize (H2 f Hin).
    unfold sub_all, on_obj. destruct (lookup fs (fd_name f)); exact H2.
  Qed.

  (* ---------------------------------------------------------------- all fields of one object *)
  Lemma concatM_app {A} (g : A -> gres (list wevent)) a b xs ys :
    concatM g a = Ok xs -> concatM g b = Ok ys -> concatM g (a ++ b) = Ok (xs ++ ys).
  Proof.
    unfold concatM. revert xs. induction a as [|x a IH]; intros xs Ha Hb; cbn [app mapM gbind] in *.
    - injection Ha as <-. exact Hb.
    - destruct (g x) as [y|e]; cbn [gbind] in *; [|discriminate Ha].
      destruct (mapM g a) as [zs|e]; cbn [gbind] in *; [|discriminate Ha].
      injection Ha as <-. specialize (IH (concat zs) eq_refl Hb).
      destruct (mapM g (a ++ b)) as [ws|e]; cbn [gbind] in *; [|discriminate IH].
      injection IH as IH. cbn [concat]. rewrite IH, app_assoc. reflexivity.
  Qed.

  Lemma nice_app a b : nice a -> nice b -> nice (a ++ b).
  Proof.
    intros [Ha1 Ha2] [Hb1 Hb2]. split; [apply closed_app_nil; assumption|].
    destruct a; [exact Hb2|exact Ha2].
  Qed.

  Lemma attrs_all k c fs cd fl vars :
    In cd (md_classes D) -> oplain (class_P cd) -> map fst fs = map fd_name (cd_fields cd) ->
    (forall f, In f fl -> In f (cd_fields cd) /\ typed_field k f (lookup fs (fd_name f)) = true) ->
    Forall2 (var_of cd) fl vars ->
    concatM (attr_step cv u (VObj c fs) ign) (filter (v_is KAttribute) vars)
    = Ok (flat_map (fun f => if is_kind KAttribute f
                             then spec_attribute cv D ign f (some_ns (class_P cd)) (lookup fs (fd_name f)) else []) fl).
  Proof.
    intros Hcd HP Hn Hf HR. induction HR as [|f var fl' vars' Hv _ IH]; [reflexivity|].
    destruct (Hf f (or_introl eq_refl)) as [Hin Ht].
    pose proof (wfc_fields D cd (wf_class_of cd Hcd) f Hin) as Hwff.
    destruct Hv as [i ->].
    pose proof (build_var_facts D i (class_P cd) f Hwff HP) as VF.
    cbn [filter flat_map]. unfold v_is at 1. rewrite (vf_kind f _ _ VF). unfold is_kind at 1.
    specialize (IH (fun g Hg => Hf g (or_intror Hg))).
    destruct (fd_kind f) eqn:Hk; try exact IH.
    change (build_var i (class_P cd) f :: filter (v_is KAttribute) vars')
      with ([build_var i (class_P cd) f] ++ filter (v_is KAttribute) vars').
    apply concatM_app; [|exact IH].
    unfold concatM. cbn [mapM].
    rewrite (attr_step_ok k c fs cd f _ Hcd Hin Hk (ex_intro _ i eq_refl) HP Hn Ht). cbn [gbind concat].
    rewrite app_nil_r. reflexivity.
  Qed.

  Lemma next_value_noseq obj vars (X : xvar -> value) :
    (forall var, In var vars -> v_sequence var = None /\ getattr obj (v_name var) = Ok (X var)) ->
    forall fuel, (length vars < fuel)%nat ->
    next_value_loop fuel obj vars = Ok (flat_map (fun var => emit var (X var)) vars).
  Proof.
    induction vars as [|var vars IH]; intros H fuel Hf; [destruct fuel; [lia|reflexivity]|].
    destruct fuel as [|fuel]; [lia|]. cbn [next_value_loop flat_map].
    destruct (H var (or_introl eq_refl)) as [Hs Hg]. rewrite Hs, Hg. cbn [gbind].
    rewrite IH; [reflexivity| |cbn in Hf; lia]. intros w Hw. apply H. right. exact Hw.
  Qed.

  Lemma content_all k cns
        (IHobj : forall fuel c' fs' fq fnil,
            (5 * k <= fuel)%nat -> fq <> [] -> good k cns (VObj c' fs') = true ->
            renders fuel k cns (Some fq) fnil (VObj c' fs'))
        fs cd fl vars F :
    In cd (md_classes D) -> oplain (class_P cd) -> some_ns (class_P cd) = cns ->
    (forall f, decl_ns cns (cd, f) = cns) ->
    (forall f, In f fl ->
       In f (cd_fields cd) /\ typed_field k f (lookup fs (fd_name f)) = true
       /\ (forall c' fs', (lookup fs (fd_name f) = VObj c' fs'
                            \/ exists t l, lookup fs (fd_name f) = VList t l /\ In (VObj c' fs') l) ->
                           good k cns (VObj c' fs') = true)) ->
    Forall2 (var_of cd) fl vars -> (5 * k + 4 <= F)%nat ->
    exists evs,
      concatM (step F) (flat_map (fun var => emit var (lookup fs (v_name var)))
                                 (filter (fun v => negb (v_is KAttribute v)) vars)) = Ok evs
      /\ norm_nil evs = flat_map (spec_plain cv D (spec_object cv D ign k cns) cns fs)
                                  (map (fun f => (cd, f)) (filter (fun f => is_content_kind (fd_kind f)) fl))
      /\ nice evs.
  Proof.
    intros Hcd HP Hcns Hdecl Hf HR HF. induction HR as [|f var fl' vars' Hv _ IH].
    - exists []. repeat split; reflexivity.
    - destruct (Hf f (or_introl eq_refl)) as [Hin [Ht Hg]].
      pose proof (wfc_fields D cd (wf_class_of cd Hcd) f Hin) as Hwff.
      destruct Hv as [i ->].
      pose proof (build_var_facts D i (class_P cd) f Hwff HP) as VF. rewrite Hcns in VF.
      destruct (IH (fun g Hg' => Hf g (or_intror Hg'))) as [evs2 [H21 [H22 H23]]].
      cbn [filter]. unfold v_is at 1. rewrite (vf_kind f _ _ VF).
      destruct (wff_kind D f (wf_field_inv D f Hwff)) as [Hk|[Hk|Hk]]; rewrite Hk; cbn [negb is_content_kind map flat_map].
      + (* Text *)
        destruct (field_ok k cns IHobj cd f _ fs F Hwff (or_intror Hk) VF (Hdecl f) Ht Hg HF) as [evs1 [H11 [H12 H13]]].
        rewrite (vf_name f _ _ VF). exists (evs1 ++ evs2). split; [apply concatM_app; assumption|]. split.
        * rewrite norm_nil_app by (apply H13). rewrite H12, H22. reflexivity.
        * apply nice_app; assumption.
      + destruct (field_ok k cns IHobj cd f _ fs F Hwff (or_introl Hk) VF (Hdecl f) Ht Hg HF) as [evs1 [H11 [H12 H13]]].
        rewrite (vf_name f _ _ VF). exists (evs1 ++ evs2). split; [apply concatM_app; assumption|]. split.
        * rewrite norm_nil_app by (apply H13). rewrite H12, H22. reflexivity.
        * apply nice_app; assumption.
      + exists evs2. repeat split; try assumption; apply H23.
  Qed.

  (* ---------------------------------------------------------------- occurrences of nested objects *)
  Definition occurs (x X : value) : Prop := X = x \/ exists t l, X = VList t l /\ In x l.

  Lemma sub_all_occ P X c' fs' :
    sub_all (on_obj P) X = true -> occurs (VObj c' fs') X -> P (VObj c' fs') = true.
  Proof.
    intros H [->|[t [l [-> Hin]]]]; [exact H|].
    cbn [sub_all] in H. rewrite forallb_forall in H. exact (H _ Hin).
  Qed.

  Lemma typed_occ k f X c' fs' :
    typed_field k f X = true -> occurs (VObj c' fs') X -> typed_value D k (VObj c' fs') = true.
  Proof.
    assert (Hi : forall x, typed_item k f x = true -> x = VObj c' fs' -> typed_value D k (VObj c' fs') = true).
    { intros x Hx ->. unfold typed_item in Hx. destruct (fd_type f); try discriminate Hx.
      apply andb_true_iff in Hx as [_ Hx]. exact Hx. }
    intros Ht [->|[t [l [-> Hin]]]].
    - unfold typed_field in Ht. apply andb_true_iff in Ht as [_ Ht]. apply (Hi _ Ht eq_refl).
    - unfold typed_field in Ht. destruct (fd_tokens f).
      + destruct (fd_list f); rewrite forallb_forall in Ht; specialize (Ht _ Hin).
        * discriminate Ht.
        * apply (Hi _ Ht eq_refl).
      + apply andb_true_iff in Ht as [_ Ht]. rewrite forallb_forall in Ht. apply (Hi _ (Ht _ Hin) eq_refl).
  Qed.

  Lemma Forall2_in_r {A B} (R : A -> B -> Prop) l1 l2 y :
    Forall2 R l1 l2 -> In y l2 -> exists x, In x l1 /\ R x y.
  Proof.
    intros H. induction H as [|a b l1' l2' Hab _ IH]; intros Hin; [contradiction|].
    destruct Hin as [->|Hin]; [exists a; split; [left; reflexivity|exact Hab]|].
    destruct (IH Hin) as [x [Hx HR]]. exists x. split; [right; exact Hx|exact HR].
  Qed.

  Lemma oplain_class_P cd c ctx :
    wf_class_facts D cd -> cd_id cd = c -> oplain ctx ->
    (match cd_meta_ns cd with Some _ => true | None => ostr_eqb (some_ns (pns c)) ctx end) = true ->
    oplain (class_P cd) /\ some_ns (class_P cd) = class_ns cd ctx.
  Proof.
    intros W Hid Hctx H1. unfold class_P, class_namespace, class_ns. rewrite Hid.
    pose proof (wfc_meta_ns D cd W) as Hm. destruct (cd_meta_ns cd) as [n|].
    - split; [exact Hm|reflexivity].
    - apply (proj1 (opt_eqb_spec str_eqb str_eqb_eq _ _)) in H1.
      split; [|exact H1]. rewrite <- H1 in Hctx.
      destruct (pns c) as [[|x r]|]; try exact I; [reflexivity|exact Hctx].
  Qed.

  (* ---------------------------------------------------------------- one object *)
  Lemma attr_events_plain (X : fdesc -> value) fl cns :
    (forall f, In f fl -> is_kind KAttribute f = true -> reserved_attr (field_qname f None) = false) ->
    plain_attrs (flat_map (fun f => if is_kind KAttribute f then spec_attribute cv D ign f cns (X f) else []) fl) = true.
  Proof.
    intros H. unfold plain_attrs. apply forallb_forall. intros e He.
    apply in_flat_map in He as [f [Hf He]].
    destruct (is_kind KAttribute f) eqn:Hk; [|contradiction].
    unfold spec_attribute in He.
    assert (Hq : field_qname f cns = field_qname f None).
    { unfold field_qname, field_ns. unfold is_kind in Hk. destruct (fd_kind f); try discriminate Hk. reflexivity. }
    assert (E : e = WAttr (field_qname f cns) (text_of cv D (fd_format f) (X f))).
    { destruct (X f) as [| |t [|x l]| | | |]; try contradiction;
        destruct (ign && negb (fd_required f) && match fd_default f with Some d => spec_default_eq d _ | None => false end);
        try contradiction; destruct He as [<-|[]]; reflexivity. }
    subst e. cbn [is_attr is_nil_attr andb]. rewrite Hq.
    pose proof (H f Hf Hk) as Hr. unfold reserved_attr in Hr. apply orb_false_iff in Hr as [Hr _]. rewrite Hr. reflexivity.
  Qed.

  Lemma run_object : forall k fuel c fs ctx over fnil,
      (5 * k <= fuel)%nat -> (forall q, over = Some q -> q <> []) -> oplain ctx ->
      good k ctx (VObj c fs) = true ->
      renders fuel k ctx over fnil (VObj c fs).
  Proof.
    induction k as [|k IH]; intros fuel c fs ctx over fnil HF Hover Hctx Hg; unfold good in Hg;
      apply andb_true_iff in Hg as [Htyp Hcache]; [discriminate Htyp|].
    destruct (typed_value_inv k c fs Htyp) as [cd [Hfind [Hnames Htyped]]].
    destruct (find_cdesc_in D c cd Hfind) as [Hcd Hid].
    pose proof (wf_class_of cd Hcd) as W.
    destruct (cache_inv k c fs cd ctx Hfind Hcache) as [Hc1 Hc2].
    destruct (oplain_class_P cd c ctx W Hid Hctx Hc1) as [HoP HP].
    set (cns := class_ns cd ctx) in *.
    assert (Hocns : oplain cns).
    { unfold cns, class_ns. pose proof (wfc_meta_ns D cd W) as Hm. destruct (cd_meta_ns cd) as [[|x r]|]; try exact I; [exact Hm|exact Hctx]. }
    assert (Hdecl : forall f, decl_ns cns (cd, f) = cns).
    { intros f. unfold decl_ns, cns, class_ns. cbn [fst]. destruct (cd_meta_ns cd); reflexivity. }
    destruct (Hreal cd Hcd HoP) as [meta [Hm RC]]. rewrite Hid in Hm.
    (* the element's name *)
    set (q := match over with Some q => q | None => clark cns (class_local cd) end).
    assert (Hlocal : class_local cd <> []).
    { unfold class_local. pose proof (wfc_meta_name D cd W) as H1. pose proof (wfc_gen D cd W) as H2.
      destruct (cd_meta_name cd) as [[|x r]|]; try discriminate; intros E; rewrite E in H2; discriminate. }
    assert (Hq : match over with Some ((_ :: _) as q0) => q0 | _ => m_qname meta end = q).
    { unfold q. destruct over as [[|x r]|].
      - exfalso. apply (Hover [] eq_refl). reflexivity.
      - reflexivity.
      - rewrite (rc_qname cd meta RC). change (meta_local_name cd) with (class_local cd).
        rewrite build_qname_clark by exact Hlocal. rewrite HP. reflexivity. }
    pose proof (class_vars_rel cd Hcd) as HR.
    (* per-field facts for content_all *)
    assert (Hfields : forall f, In f (cd_fields cd) ->
       In f (cd_fields cd) /\ typed_field k f (lookup fs (fd_name f)) = true
       /\ (forall c' fs', (lookup fs (fd_name f) = VObj c' fs'
                            \/ exists t l, lookup fs (fd_name f) = VList t l /\ In (VObj c' fs') l) ->
                           good k cns (VObj c' fs') = true)).
    { intros f Hin. split; [exact Hin|]. split; [apply Htyped; exact Hin|].
      intros c' fs' Hocc. unfold good.
      apply andb_true_iff; split.
      - apply (typed_occ k f _ c' fs' (Htyped f Hin) Hocc).
      - apply (sub_all_occ _ _ c' fs' (Hc2 f Hin) Hocc). }
    assert (IHobj : forall fuel' c' fs' fq fnil',
               (5 * k <= fuel')%nat -> fq <> [] -> good k cns (VObj c' fs') = true ->
               renders fuel' k cns (Some fq) fnil' (VObj c' fs')).
    { intros fuel' c' fs' fq fnil' HF' Hfq Hg'. apply IH; try assumption.
      intros q0 E. injection E as <-. exact Hfq. }
    destruct fuel as [|F]; [lia|].
    destruct (content_all k cns IHobj fs cd (cd_fields cd) (class_vars cd) F Hcd HoP HP Hdecl Hfields HR)
      as [body [Hb1 [Hb2 [Hb3 Hb4]]]]; [lia|].
    (* run *)
    unfold renders. cbn [run]. rewrite Hm.
    match goal with |- context [WStart ?t] => set (qq := t) end.
    assert (Hqq : qq = q) by (unfold qq; exact Hq). clearbody qq. subst qq.
    unfold next_attribute. rewrite (rc_attrs cd meta RC).
    rewrite (attrs_all k c fs cd (cd_fields cd) (class_vars cd) Hcd HoP Hnames (fun f Hin => conj Hin (Htyped f Hin)) HR).
    cbn [gbind app]. rewrite HP.
    unfold next_value. rewrite (rc_content cd meta RC).
    rewrite (next_value_noseq (VObj c fs) _ (fun var => lookup fs (v_name var))).
    2:{ intros var Hin. apply filter_In in Hin as [Hin _].
        destruct (Forall2_in_r _ _ _ var HR Hin) as [f [Hf [i ->]]].
        pose proof (wfc_fields D cd W f Hf) as Hwff.
        pose proof (build_var_facts D i (class_P cd) f Hwff HoP) as VF.
        rewrite (vf_sequence f _ _ VF), (vf_name f _ _ VF). split; [apply (noseq_of cd f Hcd Hf)|].
        apply (getattr_field c fs cd f Hnames Hf). }
    2:{ lia. }
    cbn [gbind].
    change (fun vv : xvar * value => evs <- run' F (CValue (snd vv) (fst vv));; Ok (wrap_events (fst vv) evs)) with (step F).
    rewrite Hb1. cbn [gbind].
    rewrite (rc_nillable cd meta RC).
    set (attrs := flat_map (fun f => if is_kind KAttribute f then spec_attribute cv D ign f cns (lookup fs (fd_name f)) else []) (cd_fields cd)).
    eexists. split; [reflexivity|].
    assert (Hplain : plain_attrs attrs = true).
    { apply (attr_events_plain (fun f => lookup fs (fd_name f))). intros f Hf Hk. apply (wfc_reserved D cd W f Hf Hk). }
    split; [|split; [|split; [reflexivity|discriminate]]].
    - (* the events are the prescribed ones *)
      cbn [app norm_nil is_nil_attr andb].
      rewrite <- app_assoc. rewrite norm_nil_attrs by exact Hplain.
      cbn [spec_object]. rewrite Hfind. fold cns. fold q.
      rewrite (all_fields_own _ D cd (wfc_base D cd W)).
      assert (Eattrs : flat_map (fun cf => if is_attribute_field cf
                                           then spec_attribute cv D ign (snd cf) (decl_ns cns cf) (lookup fs (fd_name (snd cf)))
                                           else []) (map (fun f => (cd, f)) (cd_fields cd)) = attrs).
      { unfold attrs. rewrite flat_map_concat_map, map_map, <- flat_map_concat_map.
        apply flat_map_ext. intros f. cbn [snd]. rewrite Hdecl. unfold is_attribute_field, is_kind. cbn [snd].
        destruct (fd_kind f); reflexivity. }
      rewrite Eattrs.
      assert (Econtent : filter (fun cf => is_content_kind (fd_kind (snd cf))) (map (fun f => (cd, f)) (cd_fields cd))
                         = map (fun f => (cd, f)) (filter (fun f => is_content_kind (fd_kind f)) (cd_fields cd))).
      { clear. induction (cd_fields cd) as [|f l IHl]; [reflexivity|]. cbn [map filter snd].
        destruct (is_content_kind (fd_kind f)); cbn [map]; rewrite IHl; reflexivity. }
      rewrite Econtent.
      rewrite spec_walk_noseq.
      2:{ intros cf Hin. apply in_map_iff in Hin as [f [<- Hin]]. apply filter_In in Hin as [Hin _]. cbn [snd].
          apply (noseq_of cd f Hcd Hin). }
      2:{ lia. }
      rewrite <- Hb2.
      f_equal. f_equal.
      destruct (fnil || cd_nillable cd) eqn:Enil; cbn [app andb].
      + cbn [norm_nil]. rewrite ev_nil_is_nil.
        rewrite (stays_empty_content body q Hb4 Hb3).
        rewrite norm_nil_app by exact Hb3. cbn [norm_nil is_nil_attr andb].
        destruct (no_content (norm_nil body)); cbn [negb andb app]; rewrite ?ev_nil_marker; reflexivity.
      + rewrite norm_nil_app by exact Hb3. reflexivity.
    - (* closed *)
      rewrite app_comm_cons, app_assoc. apply closed_app; [reflexivity|discriminate].
  Qed.

  (* ---------------------------------------------------------------- the whole document *)
  Theorem generate_matches_spec o :
    typed_value D (S (sdepth o)) o = true ->
    cache_consistent D pns (S (sdepth o)) None o = true ->
    (sdepth o <= vdepth o)%nat ->
    exists evs, generate ign cv u o = Ok evs /\ norm_nil evs = spec_events cv D ign o.
  Proof.
    intros H1 H2 Hd.
    destruct o as [| | |c fs| | |]; try discriminate H1.
    destruct (run_object (S (sdepth (VObj c fs))) (gen_fuel (VObj c fs)) c fs None None false) as [evs [E1 [E2 _]]].
    - unfold gen_fuel. lia.
    - intros q E. discriminate E.
    - exact I.
    - unfold good. apply andb_true_iff; split; assumption.
    - exists evs. split; [exact E1|exact E2].
  Qed.

End TA.

(* sdepth (the specification's depth) never exceeds the model's vdepth *)
Lemma sdepth_le_vdepth : forall v, (sdepth v <= vdepth v)%nat.
Proof.
  fix IH 1. intros [| |t l|c fs|q t tl a ch|q x ty|m]; cbn [sdepth vdepth]; try lia.
  - apply le_n_S. induction l as [|x l IHl]; [lia|]. pose proof (IH x). lia.
  - apply le_n_S. induction fs as [|[k x] fs IHl]; [lia|]. pose proof (IH x). lia.
Qed.
