(* Proofs/RoundtripBase.v — general lemmas used by the round-trip proof (C01): association
   lists, the index sort, Clark names, token splitting, white space. *)
From Coq Require Import NArith ZArith List Bool Lia Sorting.Permutation.
From XV Require Import Base.Str Base.Eqb Base.PyInt Spec.XmlNs Model.Bind Spec.Fits.
Import ListNotations.
Open Scope N_scope.

(* ---------------------------------------------------------------- booleans / lists *)
Lemma andb_split a b : a && b = true -> a = true /\ b = true.
Proof. apply andb_true_iff. Qed.

Ltac bsplit H :=
  repeat match type of H with
         | _ && _ = true => let H1 := fresh H in apply andb_true_iff in H as [H H1]
         end.

Lemma nodup_by_str l : nodup_by str_eqb l = true -> NoDup l.
Proof.
  induction l as [|x r IH]; cbn [nodup_by]; intros H; [constructor|].
  apply andb_true_iff in H as [H1 H2]. constructor; [|auto].
  intros Hin. apply negb_true_iff in H1.
  assert (E : existsb (str_eqb x) r = true).
  { apply existsb_exists. exists x. split; [exact Hin|apply str_eqb_refl]. }
  congruence.
Qed.

Lemma nodup_by_N l : nodup_by N.eqb l = true -> NoDup l.
Proof.
  induction l as [|x r IH]; cbn [nodup_by]; intros H; [constructor|].
  apply andb_true_iff in H as [H1 H2]. constructor; [|auto].
  intros Hin. apply negb_true_iff in H1.
  assert (E : existsb (N.eqb x) r = true).
  { apply existsb_exists. exists x. split; [exact Hin|apply N.eqb_refl]. }
  congruence.
Qed.

Lemma str_eqb_neq a b : a <> b -> str_eqb a b = false.
Proof. intros H. destruct (str_eqb_spec a b); [contradiction|reflexivity]. Qed.

Lemma str_eqb_true a b : str_eqb a b = true -> a = b.
Proof. apply str_eqb_eq. Qed.

(* ---------------------------------------------------------------- assoc *)
Lemma assoc_in {A} k (l : list (str * A)) v : assoc k l = Some v -> In (k, v) l.
Proof.
  induction l as [|[k' x] r IH]; cbn [assoc]; [discriminate|].
  destruct (str_eqb_spec k k') as [->|_]; intros H.
  - inversion H; subst. left; reflexivity.
  - right; auto.
Qed.

Lemma assoc_nodup {A} k (l : list (str * A)) v :
  NoDup (map fst l) -> In (k, v) l -> assoc k l = Some v.
Proof.
  induction l as [|[k' x] r IH]; cbn [assoc map fst]; intros Hn Hin; [destruct Hin|].
  inversion Hn as [|? ? Hk Hr]; subst. destruct Hin as [E|Hin].
  - inversion E; subst. rewrite str_eqb_refl. reflexivity.
  - destruct (str_eqb_spec k k') as [->|_].
    + exfalso. apply Hk. apply in_map_iff. exists (k', v). split; [reflexivity|exact Hin].
    + auto.
Qed.

Lemma assoc_none {A} k (l : list (str * A)) : ~ In k (map fst l) -> assoc k l = None.
Proof.
  induction l as [|[k' x] r IH]; cbn [assoc map fst]; intros H; [reflexivity|].
  destruct (str_eqb_spec k k') as [->|_]; [exfalso; apply H; left; reflexivity|].
  apply IH. intros Hin. apply H. right; exact Hin.
Qed.

Lemma assoc_some_in {A} k (l : list (str * A)) : In k (map fst l) -> exists v, assoc k l = Some v.
Proof.
  induction l as [|[k' x] r IH]; cbn [assoc map fst]; intros H; [destruct H|].
  destruct (str_eqb_spec k k') as [->|Hne]; [eexists; reflexivity|].
  destruct H as [E|H]; [congruence|auto].
Qed.

Lemma assocN_in {A} k (l : list (N * A)) v : assocN k l = Some v -> In (k, v) l.
Proof.
  induction l as [|[k' x] r IH]; cbn [assocN]; [discriminate|].
  destruct (N.eqb_spec k k') as [->|_]; intros H.
  - inversion H; subst. left; reflexivity.
  - right; auto.
Qed.

(* ---------------------------------------------------------------- sort_by_index *)
Lemma insert_perm v l : Permutation (insert_by_index v l) (v :: l).
Proof.
  induction l as [|x r IH]; cbn [insert_by_index]; [apply Permutation_refl|].
  destruct (v_index v <=? v_index x); [apply Permutation_refl|].
  eapply Permutation_trans; [apply perm_skip; exact IH|apply perm_swap].
Qed.

Lemma sort_perm l : Permutation (sort_by_index l) l.
Proof.
  induction l as [|x r IH]; cbn [sort_by_index fold_right]; [constructor|].
  eapply Permutation_trans; [apply insert_perm|]. apply perm_skip. exact IH.
Qed.

Lemma sort_in x l : In x (sort_by_index l) <-> In x l.
Proof.
  split; apply Permutation_in; [apply sort_perm|apply Permutation_sym, sort_perm].
Qed.

Lemma sort_nodup_map {B} (f : xvar -> B) l : NoDup (map f l) -> NoDup (map f (sort_by_index l)).
Proof.
  intros H. eapply Permutation_NoDup; [|exact H].
  apply Permutation_map. apply Permutation_sym, sort_perm.
Qed.

Lemma nodup_map_inj {A B} (f : A -> B) l x y :
  NoDup (map f l) -> In x l -> In y l -> f x = f y -> x = y.
Proof.
  induction l as [|a r IH]; cbn [map]; intros Hn Hx Hy E; [destruct Hx|].
  inversion Hn as [|? ? Ha Hr]; subst.
  destruct Hx as [->|Hx], Hy as [->|Hy]; [reflexivity| | |auto].
  - exfalso. apply Ha. rewrite E. apply in_map. exact Hy.
  - exfalso. apply Ha. rewrite <- E. apply in_map. exact Hx.
Qed.

(* ---------------------------------------------------------------- Clark names *)
Lemma split_at_spec ch s a b : split_at ch s = Some (a, b) -> s = a ++ ch :: b.
Proof.
  revert a b; induction s as [|x r IH]; cbn [split_at]; intros a b H; [discriminate|].
  destruct (N.eqb_spec x ch) as [->|_].
  - inversion H; subst. reflexivity.
  - destruct (split_at ch r) as [[a' b']|] eqn:E; [|discriminate].
    inversion H; subst. cbn [app]. f_equal. apply IH. reflexivity.
Qed.

Lemma clark_split q : clark_of (split_qname q) = q.
Proof.
  unfold split_qname.
  destruct q as [|x r]; [reflexivity|].
  destruct (N.eqb_spec x 123) as [->|Hne].
  2:{ assert (E : match x with 123 => True | _ => False end -> False).
      { intros H. apply Hne. destruct x as [|p]; [destruct H|].
        do 7 (destruct p as [p|p|]; try destruct H). reflexivity. }
      destruct x as [|p]; [reflexivity|].
      do 7 (destruct p as [p|p|]; try reflexivity). exfalso. apply Hne. reflexivity. }
  change (match 123 with 123 => _ | _ => _ end)
    with (match text_split 125 r with
          | (Some l, rgt) => match l with [] => (@None str, 123 :: r) | _ => (Some l, rgt) end
          | (None, _) => (None, 123 :: r)
          end).
  unfold text_split.
  destruct (split_at 125 r) as [[a b]|] eqn:E; [|reflexivity].
  destruct b as [|b0 b']; [reflexivity|].
  destruct a as [|a0 a']; [reflexivity|].
  apply split_at_spec in E. subst r. unfold clark_of. cbn [fst snd app]. reflexivity.
Qed.

Lemma split_qname_inj a b : split_qname a = split_qname b -> a = b.
Proof. intros H. rewrite <- (clark_split a), <- (clark_split b), H. reflexivity. Qed.

Lemma qname_eqb_true a b : qname_eqb a b = true -> a = b.
Proof.
  destruct a as [u l], b as [u' l']. unfold qname_eqb. cbn [fst snd]. intros H.
  apply andb_true_iff in H as [H1 H2]. apply str_eqb_eq in H2. subst.
  f_equal. destruct u as [x|], u' as [y|]; cbn in H1; try discriminate; [|reflexivity].
  apply str_eqb_eq in H1. subst. reflexivity.
Qed.

Lemma qname_eqb_refl' a : qname_eqb a a = true.
Proof.
  destruct a as [u l]. unfold qname_eqb. cbn [fst snd]. rewrite str_eqb_refl, andb_true_r.
  destruct u; cbn; [apply str_eqb_refl|reflexivity].
Qed.

Lemma qname_eqb_split a b : a <> b -> qname_eqb (split_qname a) (split_qname b) = false.
Proof.
  intros H. destruct (qname_eqb (split_qname a) (split_qname b)) eqn:E; [|reflexivity].
  exfalso. apply H. apply split_qname_inj. apply qname_eqb_true. exact E.
Qed.

(* ---------------------------------------------------------------- white space *)
Lemma xml_ws_py c : xml_ws c = true -> py_isspace c = true.
Proof.
  unfold xml_ws. intros H.
  repeat (apply orb_true_iff in H as [H|H]); apply N.eqb_eq in H; subst; vm_compute; reflexivity.
Qed.

Lemma blank_py s : blank s = true -> forallb py_isspace s = true.
Proof.
  unfold blank. induction s as [|x r IH]; cbn [forallb]; [reflexivity|]. intros H.
  apply andb_true_iff in H as [Hc Ha]. rewrite (xml_ws_py x Hc). auto.
Qed.

Lemma strip_all ws s : forallb ws s = true -> strip_by ws s = [].
Proof.
  intros H. unfold strip_by, rstrip_by.
  rewrite (lstrip_by_all ws s H). reflexivity.
Qed.

(* ---------------------------------------------------------------- tokens: split of joined texts *)
Section Split.
  Variable ws : N -> bool.
  Hypothesis ws_space : ws 32 = true.

  Definition clean (t : str) : Prop := t <> [] /\ existsb ws t = false.

  Lemma split_aux_word t cur s :
    existsb ws t = false ->
    split_ws_aux ws cur (t ++ s) = split_ws_aux ws (rev t ++ cur) s.
  Proof.
    revert cur; induction t as [|ch t IH]; intros cur H; cbn; [reflexivity|].
    cbn in H. apply orb_false_iff in H as [Hc Ht]. rewrite Hc.
    rewrite IH by exact Ht. rewrite <- app_assoc. reflexivity.
  Qed.

  Lemma split_join_aux texts :
    Forall clean texts ->
    forall t, clean t -> split_ws_aux ws [] (join [32] (t :: texts)) = t :: texts.
  Proof.
    induction texts as [|t2 texts IH]; intros HF t [Hne Hc].
    - cbn [join]. rewrite <- (app_nil_r t) at 1. rewrite split_aux_word by exact Hc. cbn.
      rewrite app_nil_r. destruct (rev t) eqn:E.
      + apply (f_equal (@rev N)) in E. rewrite rev_involutive in E. cbn in E. congruence.
      + rewrite <- E, rev_involutive. reflexivity.
    - inversion HF as [|? ? H2 HF']; subst.
      change (join [32] (t :: t2 :: texts)) with (t ++ [32] ++ join [32] (t2 :: texts)).
      rewrite split_aux_word by exact Hc. cbn [app]. cbn [split_ws_aux]. rewrite ws_space.
      rewrite app_nil_r. destruct (rev t) eqn:E.
      + apply (f_equal (@rev N)) in E. rewrite rev_involutive in E. cbn in E. congruence.
      + rewrite <- E, rev_involutive. f_equal. apply IH; assumption.
  Qed.

  Lemma split_join texts : Forall clean texts -> split_ws ws (join [32] texts) = texts.
  Proof.
    intros HF. destruct texts as [|t texts]; [reflexivity|].
    inversion HF; subst. apply split_join_aux; assumption.
  Qed.
End Split.

Lemma py_space_32 : py_isspace 32 = true.
Proof. vm_compute. reflexivity. Qed.

(* ---------------------------------------------------------------- map_opt *)
Lemma map_opt_map {A B} (f : A -> option B) (g : A -> B) l :
  (forall x, In x l -> f x = Some (g x)) -> map_opt f l = Some (map g l).
Proof.
  induction l as [|x r IH]; cbn [map_opt map]; intros H; [reflexivity|].
  rewrite (H x (or_introl eq_refl)), IH; [reflexivity|].
  intros y Hy. apply H. right; exact Hy.
Qed.

(* a sub-selection of a list with distinct keys has distinct keys *)
Lemma nodup_flat_opt {A B K} (k : A -> K) (kb : B -> K) (f : A -> list B) l :
  NoDup (map k l) ->
  (forall x, In x l -> f x = [] \/ exists b, f x = [b] /\ kb b = k x) ->
  NoDup (map kb (flat_map f l)).
Proof.
  induction l as [|x r IH]; intros Hn H; [constructor|].
  cbn [map] in Hn. inversion Hn as [|? ? Hx Hr]; subst.
  cbn [flat_map]. rewrite map_app.
  assert (IHr : NoDup (map kb (flat_map f r))) by (apply IH; [exact Hr|intros y Hy; apply H; right; exact Hy]).
  destruct (H x (or_introl eq_refl)) as [E|[b [E Hk]]]; rewrite E; cbn [map app]; [exact IHr|].
  constructor; [|exact IHr]. intros Hin. apply Hx. rewrite <- Hk.
  apply in_map_iff in Hin as [b' [Eb Hb']]. apply in_flat_map in Hb' as [y [Hy Hb']].
  destruct (H y (or_intror Hy)) as [E'|[b'' [E' Hk']]]; rewrite E' in Hb'; [destruct Hb'|].
  destruct Hb' as [->|[]]. rewrite <- Eb, Hk'. apply in_map. exact Hy.
Qed.

