(* Proofs/RoundtripDoc.v — from documents to reader events (C01, text level): every infoset tree
   that SAYS the expected tree (Spec/XmlNs.v `says`: C03's conclusion about the documents both
   writers produce), also after indentation white space was added to element-only content, is
   delivered by the XML reader as an event stream that READS as that tree (Spec/Fits.v). *)
From Coq Require Import NArith ZArith List Bool Lia Arith.
From XV Require Import Base.Str Base.Eqb Base.PyInt Spec.XmlNs Model.Bind Spec.Fits
  Proofs.RoundtripBase Proofs.RoundtripParse Proofs.RoundtripPump.
Import ListNotations.
Open Scope N_scope.

(* ---------------------------------------------------------------- says, unfolded *)
Fixpoint says_list (e : env) (es : list XmlNs.enode) (ts : list inode) {struct es} : bool :=
  match es with
  | [] => match ts with [] => true | _ => false end
  | EData atoms :: es' =>
      match ts with
      | IText s :: ts' =>
          existsb (fun i => atoms_match e atoms (firstn i s)
                            && says_list e es' (if Nat.eqb i (length s) then ts' else IText (skipn i s) :: ts'))
                  (seq 0 (S (length s)))
      | _ => false
      end
  | (EElem _ _ _ as x1) :: es' =>
      match ts with
      | t1 :: ts' => says e x1 t1 && says_list e es' ts'
      | [] => false
      end
  end.

Lemma existsb_ext' {A} (f g : A -> bool) l : (forall x, f x = g x) -> existsb f l = existsb g l.
Proof. intros H. induction l as [|x r IH]; [reflexivity|]. cbn [existsb]. rewrite H, IH. reflexivity. Qed.

Lemma says_elem e q eats ekids q' ds tats tkids :
  says e (EElem q eats ekids) (IElem q' ds tats tkids)
  = qname_eqb q q' && Nat.eqb (length eats) (length tats)
    && forallb (fun ea => existsb (fun ta => qname_eqb (fst ea) (fst ta)
                                             && atoms_match (rev ds ++ e) (snd ea) (snd ta)) tats) eats
    && says_list (rev ds ++ e) ekids tkids.
Proof.
  cbn [says]. f_equal. generalize (rev ds ++ e). intros e'. revert tkids.
  induction ekids as [|k r IH]; intros tkids; [reflexivity|].
  destruct k as [atoms|q1 a1 k1].
  - destruct tkids as [|[s|? ? ? ?] ts]; try reflexivity.
    cbn [says_list]. apply existsb_ext'. intros i. rewrite IH. reflexivity.
  - destruct tkids as [|t ts]; [reflexivity|]. cbn [says_list]. rewrite <- IH. reflexivity.
Qed.

(* a single data item consumes the whole text node *)
Lemma says_list_data e atoms ts :
  says_list e [EData atoms] ts = true -> exists s, ts = [IText s] /\ atoms_match e atoms s = true.
Proof.
  cbn [says_list]. destruct ts as [|[s|? ? ? ?] ts']; try discriminate. intros H.
  apply existsb_exists in H as [i [Hi H]]. apply andb_true_iff in H as [Hm Hr].
  destruct (Nat.eqb i (length s)) eqn:Ei.
  - destruct ts'; [|discriminate Hr]. apply Nat.eqb_eq in Ei. subst i. rewrite firstn_all in Hm. eauto.
  - discriminate Hr.
Qed.

Lemma says_list_elem e q a k es ts :
  says_list e (EElem q a k :: es) ts
  = match ts with t1 :: ts' => says e (EElem q a k) t1 && says_list e es ts' | [] => false end.
Proof. reflexivity. Qed.

Lemma pump_doc_elem m q ds ats ks tail :
  pump_doc m (IElem q ds ats ks) tail
  = PStart (clark_of q) (map (fun a => (clark_of (fst a), snd a)) ats) (rev ds ++ m)
    :: pump_kids (pump_doc (rev ds ++ m)) ks ++ [PEnd (clark_of q) (lead_text ks) tail].
Proof.
  cbn [pump_doc]. f_equal. f_equal. generalize (rev ds ++ m). intros m'.
  induction ks as [|k r IH]; [reflexivity|]. cbn [pump_kids]. rewrite <- IH. reflexivity.
Qed.

(* ---------------------------------------------------------------- text atoms match exactly *)
Lemma startswith_split p : forall t, startswith p t = true -> t = p ++ skipn (length p) t.
Proof.
  induction p as [|x p IH]; intros t H; [reflexivity|].
  destruct t as [|y t]; [discriminate H|]. cbn [startswith] in H. apply andb_true_iff in H as [Hx Hp].
  apply N.eqb_eq in Hx. subst y. cbn [app length skipn]. f_equal. apply IH. exact Hp.
Qed.

Lemma plain_atoms_texts l : atoms_plain l = true -> exists ts, l = map AText ts.
Proof.
  induction l as [|a r IH]; intros H; [exists []; reflexivity|].
  cbn [atoms_plain forallb] in H. apply andb_true_iff in H as [Ha Hr].
  destruct a as [t|q]; [|discriminate Ha]. destruct (IH Hr) as [ts ->]. exists (t :: ts). reflexivity.
Qed.

Lemma atoms_match_texts e ts : forall s, atoms_match e (map AText ts) s = true -> s = join [32] ts.
Proof.
  induction ts as [|t r IH]; intros s Hm.
  - cbn [map atoms_match] in Hm. destruct s; [reflexivity|discriminate].
  - destruct r as [|t2 r'].
    + cbn [map atoms_match atom_matches] in Hm. apply str_eqb_eq in Hm. subst. reflexivity.
    + cbn [map] in Hm. change (atoms_match e (AText t :: AText t2 :: map AText r') s)
        with (startswith (t ++ [c_space]) s && atoms_match e (map AText (t2 :: r')) (skipn (S (length t)) s)) in Hm.
      apply andb_true_iff in Hm as [Hs Hm]. specialize (IH _ Hm). apply startswith_split in Hs.
      rewrite app_length in Hs. cbn [length] in Hs. rewrite Nat.add_1_r in Hs.
      change (join [32] (t :: t2 :: r')) with (t ++ [32] ++ join [32] (t2 :: r')).
      rewrite <- IH. rewrite Hs at 1. rewrite <- app_assoc. reflexivity.
Qed.

Lemma atoms_match_plain e l s :
  atoms_plain l = true -> atoms_match e l s = true -> atoms_text l = Some s.
Proof.
  intros Hp Hm. destruct (plain_atoms_texts l Hp) as [ts ->].
  rewrite (atoms_match_texts e ts s Hm).
  replace (map AText ts) with (map (fun y => AText ((fun x : str => x) y)) ts) by reflexivity.
  rewrite (RoundtripParse.atoms_text_map (fun x : str => x) ts). rewrite map_id. reflexivity.
Qed.

(* ---------------------------------------------------------------- the bridge *)
Definition nonblank_node (k : inode) : bool := match k with IText s => negb (blank s) | IElem _ _ _ _ => true end.
Definition all_elems (es : list XmlNs.enode) : Prop := forall e, In e es -> exists q a k, e = EElem q a k.

Lemma strip_indent_elem q ds ats ks :
  strip_indent (IElem q ds ats ks)
  = IElem q ds ats (if existsb is_elem ks then filter nonblank_node (map strip_indent ks) else map strip_indent ks).
Proof. reflexivity. Qed.

Lemma says_elem_inv e q a k t : says e (EElem q a k) t = true -> exists q' ds ats ks, t = IElem q' ds ats ks.
Proof. destruct t; [discriminate|]. eauto. Qed.

Lemma strip_is_elem k : is_elem (strip_indent k) = is_elem k.
Proof. destruct k; reflexivity. Qed.

(* the element children, with white space between them *)
Lemma kids_read (m : nsmap) (P : XmlNs.enode -> Prop) :
  forall tks es env,
    all_elems es ->
    (forall e1 k tl, In e1 es -> In k tks -> says env e1 (strip_indent k) = true -> blank_o tl = true ->
                     wf_doc k = true -> reads e1 (pump_doc m k tl)) ->
    forallb wf_doc tks = true ->
    says_list env es (filter nonblank_node (map strip_indent tks)) = true ->
    reads_kids es (pump_kids (pump_doc m) tks) /\ blank_o (lead_text tks) = true.
Proof.
  induction tks as [|k r IH]; intros es env Hel Hrd Hwf Hs.
  - cbn [map filter] in Hs. destruct es as [|e1 es']; [split; reflexivity|].
    destruct (Hel e1 (or_introl eq_refl)) as [q1 [a1 [k1 ->]]]. discriminate Hs.
  - cbn [forallb] in Hwf. apply andb_true_iff in Hwf as [Hwk Hwr].
    destruct k as [s|q' ds ats ks].
    + (* a text node: white space, or the tree would not say es *)
      cbn [map strip_indent filter nonblank_node] in Hs.
      destruct (blank s) eqn:Eb; cbn [negb] in Hs.
      * destruct (IH es env Hel) as [H1 _]; [|exact Hwr|exact Hs|].
        { intros e1 k tl He Hk. apply Hrd; [exact He|right; exact Hk]. }
        split; [|cbn [lead_text blank_o]; exact Eb].
        cbn [pump_kids pump_doc app]. exact H1.
      * exfalso. destruct es as [|e1 es']; [discriminate Hs|].
        destruct (Hel e1 (or_introl eq_refl)) as [q1 [a1 [k1 ->]]]. rewrite says_list_elem in Hs.
        apply andb_true_iff in Hs as [Hs _]. discriminate Hs.
    + cbn [map filter nonblank_node] in Hs. rewrite strip_indent_elem in Hs. cbn [nonblank_node] in Hs.
      rewrite <- strip_indent_elem in Hs.
      destruct es as [|e1 es']; [discriminate Hs|].
      destruct (Hel e1 (or_introl eq_refl)) as [q1 [a1 [k1 Ee1]]]. subst e1.
      rewrite says_list_elem in Hs. apply andb_true_iff in Hs as [Hs1 Hs2].
      destruct (IH es' env) as [H1 H2]; [intros e He; apply Hel; right; exact He| |exact Hwr|exact Hs2|].
      { intros e2 k tl He Hk. apply Hrd; [right; exact He|right; exact Hk]. }
      split; [|reflexivity].
      cbn [pump_kids reads_kids_o]. exists (pump_doc m (IElem q' ds ats ks) (tail_of r)), (pump_kids (pump_doc m) r).
      split; [reflexivity|]. split; [|exact H1].
      apply Hrd; [left; reflexivity|left; reflexivity|exact Hs1|exact H2|exact Hwk].
Qed.

Lemma filter_no_elem ks : existsb is_elem ks = false -> forall k, In k ks -> exists s, k = IText s.
Proof.
  intros H k Hk. destruct k as [s|q ds ats kk]; [eauto|]. exfalso.
  assert (E : existsb is_elem ks = true) by (apply existsb_exists; eexists; split; [exact Hk|reflexivity]). congruence.
Qed.

Theorem doc_reads : forall e, plain_tree e = true ->
  forall env m t' tail,
    wf_doc t' = true -> blank_o tail = true -> says env e (strip_indent t') = true ->
    reads e (pump_doc m t' tail).
Proof.
  induction e as [atoms|q eats ekids IH] using enode_ind'; intros Hp env m t' tail Hwf Htl Hs; [discriminate Hp|].
  destruct t' as [s|q' ds tats tks]; [discriminate Hs|].
  rewrite strip_indent_elem, says_elem in Hs.
  apply andb_true_iff in Hs as [Hs Hkids]. apply andb_true_iff in Hs as [Hs Hats]. apply andb_true_iff in Hs as [Hq Hlen].
  apply qname_eqb_true in Hq. subst q'.
  cbn [plain_tree] in Hp. apply andb_true_iff in Hp as [Hp Hpk]. apply andb_true_iff in Hp as [Hpa Hnd].
  cbn [wf_doc] in Hwf. apply andb_true_iff in Hwf as [Hwa Hwk].
  rewrite pump_doc_elem. cbn [reads_o].
  exists (map (fun a => (clark_of (fst a), snd a)) tats), (rev ds ++ m), (lead_text tks), tail,
         (pump_kids (pump_doc (rev ds ++ m)) tks).
  split; [reflexivity|]. split; [|split; [exact Htl|]].
  - (* attributes *)
    split; [|split; [|split]].
    4:{ discriminate. }
    + rewrite map_map. cbn [fst]. apply nodup_by_str. exact Hwa.
    + rewrite map_length. apply Nat.eqb_eq in Hlen. symmetry. exact Hlen.
    + intros ea Hea. rewrite forallb_forall in Hats. specialize (Hats ea Hea).
      apply existsb_exists in Hats as [ta [Hta Hm]]. apply andb_true_iff in Hm as [Hn Hm].
      apply qname_eqb_true in Hn. exists (snd ta). split.
      * apply (RoundtripParse.atoms_plain_read _ _ _ (proj1 (forallb_forall _ _) Hpa ea Hea)).
        apply (atoms_match_plain _ _ _ (proj1 (forallb_forall _ _) Hpa ea Hea) Hm).
      * apply in_map_iff. exists ta. split; [rewrite Hn; reflexivity|exact Hta].
  - (* content *)
    destruct ekids as [|k1 r].
    + (* empty *)
      destruct (existsb is_elem tks) eqn:Ee.
      * exfalso. apply existsb_exists in Ee as [k [Hk Hke]].
        destruct (filter nonblank_node (map strip_indent tks)) eqn:Ef; [|discriminate Hkids].
        assert (Hin : In (strip_indent k) (filter nonblank_node (map strip_indent tks))).
        { apply filter_In. split; [apply in_map; exact Hk|]. destruct k; [discriminate Hke|reflexivity]. }
        rewrite Ef in Hin. destruct Hin.
      * destruct tks; [split; reflexivity|discriminate Hkids].
    + destruct k1 as [atoms|q1 a1 kk1].
      * (* text only *)
        destruct r as [|k2 r']; [|cbn [forallb plain_tree] in Hpk; discriminate Hpk].
        apply andb_true_iff in Hpk as [Hpl Hne].
        destruct (says_list_data _ _ _ Hkids) as [s [EK Hm]].
        pose proof (atoms_match_plain _ _ _ Hpl Hm) as Hat.
        assert (Hsne : s <> []).
        { intros E. subst s. rewrite (atoms_text_plain atoms Hpl) in Hat. inversion Hat as [E]. rewrite E in Hne. discriminate Hne. }
        destruct (existsb is_elem tks) eqn:Ee.
        -- exfalso. apply existsb_exists in Ee as [k [Hk Hke]].
           assert (Hin : In (strip_indent k) (filter nonblank_node (map strip_indent tks))).
           { apply filter_In. split; [apply in_map; exact Hk|]. destruct k; [discriminate Hke|reflexivity]. }
           rewrite EK in Hin. destruct Hin as [E|[]]. destruct k; [discriminate Hke|discriminate E].
        -- destruct tks as [|x [|y l]]; try discriminate EK.
           cbn [map] in EK. destruct x as [s'|]; [|discriminate EK]. cbn [strip_indent] in EK. inversion EK; subst s'.
           exists s. split; [apply (RoundtripParse.atoms_plain_read _ _ _ Hpl Hat)|]. split; [exact Hsne|split; reflexivity].
      * (* element only *)
        assert (Hel : all_elems (EElem q1 a1 kk1 :: r)).
        { intros e He. rewrite forallb_forall in Hpk. specialize (Hpk e He). destruct e; [discriminate Hpk|eauto]. }
        destruct (existsb is_elem tks) eqn:Ee.
        -- destruct (kids_read (rev ds ++ m) (fun _ => True) tks (EElem q1 a1 kk1 :: r) (rev ds ++ env) Hel) as [H1 H2];
             [|exact Hwk|exact Hkids|split; [exact H2|exact H1]].
           intros e1 k tl He Hk Hsk Hb Hwk1. rewrite Forall_forall in IH.
           assert (Hpe : plain_tree e1 = true) by (rewrite forallb_forall in Hpk; apply Hpk; exact He).
           apply (IH e1 He Hpe (rev ds ++ env) (rev ds ++ m) k tl Hwk1 Hb Hsk).
        -- exfalso. destruct tks as [|x l]; [discriminate Hkids|]. cbn [map] in Hkids. rewrite says_list_elem in Hkids.
           apply andb_true_iff in Hkids as [Hx _].
           destruct (filter_no_elem _ Ee x (or_introl eq_refl)) as [s ->]. discriminate Hx.
Qed.

(* without indentation: a tree that says a plain tree has no white space to strip *)
Lemma says_list_elems_only env : forall es ts,
  all_elems es -> says_list env es ts = true -> forall k, In k ts -> is_elem k = true.
Proof.
  induction es as [|e1 es IHes]; intros ts Hel Hsl k Hk.
  - destruct ts; [destruct Hk|discriminate Hsl].
  - destruct (Hel e1 (or_introl eq_refl)) as [q1 [a1 [k1 ->]]]. rewrite says_list_elem in Hsl.
    destruct ts as [|t1 ts']; [discriminate Hsl|]. apply andb_true_iff in Hsl as [H1 H2].
    destruct Hk as [<-|Hk]; [destruct t1; [discriminate H1|reflexivity]|].
    apply (IHes ts'); [intros e He; apply Hel; right; exact He|exact H2|exact Hk].
Qed.

Lemma says_strip : forall e, plain_tree e = true -> forall env t, says env e t = true -> says env e (strip_indent t) = true.
Proof.
  induction e as [atoms|q eats ekids IH] using enode_ind'; intros Hp env t Hs; [discriminate Hp|].
  destruct t as [s|q' ds tats tks]; [discriminate Hs|].
  rewrite strip_indent_elem. rewrite says_elem in *.
  apply andb_true_iff in Hs as [Hs Hkids]. rewrite Hs. cbn [andb].
  cbn [plain_tree] in Hp. apply andb_true_iff in Hp as [_ Hpk].
  assert (Hmap : forall es ts, all_elems es -> (forall e, In e es -> plain_tree e = true /\ In e ekids) ->
                   says_list (rev ds ++ env) es ts = true -> says_list (rev ds ++ env) es (map strip_indent ts) = true).
  { induction es as [|e1 es IHes]; intros ts Hel Hpl Hsl.
    - destruct ts; [reflexivity|discriminate Hsl].
    - destruct (Hel e1 (or_introl eq_refl)) as [q1 [a1 [k1 Ee]]]. subst e1. rewrite says_list_elem in Hsl.
      destruct ts as [|t1 ts']; [discriminate Hsl|]. apply andb_true_iff in Hsl as [H1 H2].
      cbn [map]. rewrite says_list_elem. rewrite Forall_forall in IH.
      destruct (Hpl _ (or_introl eq_refl)) as [Hp1 Hi1].
      rewrite (IH _ Hi1 Hp1 _ _ H1). cbn [andb].
      apply IHes; [intros e He; apply Hel; right; exact He|intros e He; apply Hpl; right; exact He|exact H2]. }
  destruct ekids as [|k1 r].
  - destruct tks; [reflexivity|discriminate Hkids].
  - destruct k1 as [atoms|q1 a1 kk1].
    + destruct r as [|k2 r']; [|cbn [forallb plain_tree] in Hpk; discriminate Hpk].
      destruct (says_list_data _ _ _ Hkids) as [s [-> Hm]]. cbn [existsb is_elem orb map strip_indent]. exact Hkids.
    + assert (Hel : all_elems (EElem q1 a1 kk1 :: r)).
      { intros e He. rewrite forallb_forall in Hpk. specialize (Hpk e He). destruct e; [discriminate Hpk|eauto]. }
      pose proof (says_list_elems_only _ _ _ Hel Hkids) as Hte.
      assert (Hf : filter nonblank_node (map strip_indent tks) = map strip_indent tks).
      { clear -Hte. induction tks as [|k l IHl]; [reflexivity|]. cbn [map filter].
        assert (Hk : nonblank_node (strip_indent k) = true).
        { pose proof (Hte k (or_introl eq_refl)) as H. destruct k; [discriminate H|reflexivity]. }
        rewrite Hk. f_equal. apply IHl. intros x Hx. apply Hte. right; exact Hx. }
      assert (Hpl : forall e, In e (EElem q1 a1 kk1 :: r) -> plain_tree e = true /\ In e (EElem q1 a1 kk1 :: r)).
      { intros e He. split; [rewrite forallb_forall in Hpk; apply Hpk; exact He|exact He]. }
      destruct (existsb is_elem tks); [rewrite Hf|]; apply (Hmap _ _ Hel Hpl Hkids).
Qed.
