(* Proofs/SafeTerm.v — Filters.safe_name terminates (recursion depth <= 15) whenever the
   first ASCII alphanumeric character of the safe prefix is a letter; it recurses for
   ever for some prefixes that merely *contain* a letter. *)
From Coq Require Import NArith PeanoNat List Bool Lia String.
From XV Require Import Base.Str Base.PyInt Gen.SafeTables Model.Safe Proofs.SafeText Proofs.SafeCase.
Import ListNotations.
Open Scope N_scope.

Definition prefix_ok (p : str) : bool := slug_alpha p.

Definition nonalpha (c : N) : bool := negb (is_ascii_alpha c).

Lemma span_spec (p : N -> bool) s a b : span p s = (a, b) -> s = a ++ b /\ forallb p a = true.
Proof.
  revert a b; induction s as [|c s IH]; intros a b E; cbn in E.
  - injection E as <- <-. split; reflexivity.
  - destruct (p c) eqn:Ep.
    + destruct (span p s) as [a' b'] eqn:Es. injection E as <- <-.
      destruct (IH a' b' eq_refl) as [-> Ha]. split; [reflexivity|]. cbn. rewrite Ep. exact Ha.
    + injection E as <- <-. split; reflexivity.
Qed.

Lemma decimal_not_alpha c : py_isdecimal c = true -> nonalpha c = true.
Proof.
  assert (T : forallb (fun n => let c := N.of_nat n in implb (is_ascii_alpha c) (negb (py_isdecimal c))) (seq 0 128) = true)
    by (vm_compute; reflexivity).
  intros H. unfold nonalpha. destruct (is_ascii_alpha c) eqn:Ea; [|reflexivity]. exfalso.
  assert (R : c < 128) by (revert Ea; char_solve).
  assert (Hin : In (N.to_nat c) (seq 0 128)) by (apply in_seq; lia).
  rewrite forallb_forall in T. specialize (T _ Hin). cbv beta zeta in T.
  rewrite N2Nat.id, Ea, H in T. discriminate.
Qed.

Lemma all_decimal_nonalpha s : forallb py_isdecimal s = true -> forallb nonalpha s = true.
Proof.
  rewrite !forallb_forall. intros H c Hc. apply decimal_not_alpha. apply H. exact Hc.
Qed.

Lemma minus_body_nonalpha body : minus_body_ok body = true -> forallb nonalpha body = true.
Proof.
  unfold minus_body_ok. destruct (span py_isdecimal body) as [a b] eqn:Es.
  destruct (span_spec _ _ _ _ Es) as [-> Ha]. intros H.
  rewrite forallb_app. rewrite (all_decimal_nonalpha a Ha). cbn [andb].
  destruct b as [|c f]; [reflexivity|].
  destruct (N.eqb_spec c 46) as [->|Hn].
  - apply andb_true_iff in H as [_ Hf]. cbn. apply all_decimal_nonalpha. exact Hf.
  - exfalso. destruct c as [|pc]; [discriminate|].
    repeat (destruct pc as [pc|pc|]; try discriminate). congruence.
Qed.

Lemma minus_number_nonalpha s : minus_number s = true -> forallb nonalpha s = true.
Proof.
  unfold minus_number. destruct s as [|c body]; [discriminate|].
  destruct (N.eqb_spec c 45) as [->|Hn].
  2: { intros H. exfalso. destruct c as [|pc]; [discriminate|].
       repeat (destruct pc as [pc|pc|]; try discriminate). congruence. }
  intros H. cbn [forallb]. change (nonalpha 45) with true. cbn [andb].
  apply orb_true_iff in H as [H|H]; [apply minus_body_nonalpha; exact H|].
  apply minus_body_nonalpha in H. unfold strip_final_newline in H.
  destruct (rev body) as [|d r] eqn:Er; [exact H|].
  destruct (N.eqb_spec d 10) as [->|Hd].
  - assert (Eb : body = rev r ++ [10]).
    { rewrite <- (rev_involutive body), Er. reflexivity. }
    rewrite Eb, forallb_app, H. reflexivity.
  - destruct d as [|pd]; [exact H|].
    repeat (destruct pd as [pd|pd|]; try exact H). congruence.
Qed.

Lemma slug_alpha_has_alpha s : slug_alpha s = true -> forallb nonalpha s = false.
Proof.
  induction s as [|c s IH]; [discriminate|].
  unfold slug_alpha, alnum. cbn [filter forallb].
  destruct (is_ascii_alnum c) eqn:Ea.
  - cbn [map]. rewrite lower_alpha. intros H. unfold nonalpha. rewrite H. reflexivity.
  - intros H. rewrite (IH H). apply andb_false_r.
Qed.

Lemma minus_not_slug_alpha s : slug_alpha s = true -> minus_number s = false.
Proof.
  intros H. destruct (minus_number s) eqn:E; [|reflexivity].
  apply minus_number_nonalpha in E. rewrite (slug_alpha_has_alpha s H) in E. discriminate.
Qed.

Lemma slug_alpha_app_l p x : slug_alpha p = true -> slug_alpha (p ++ x) = true.
Proof.
  unfold slug_alpha. rewrite alnum_app. destruct (alnum p); [discriminate|]. auto.
Qed.

Lemma slug_alpha_nonempty s : slug_alpha s = true -> s <> [].
Proof. intros H E. subst. discriminate. Qed.

Lemma reserved_short r : is_reserved r = true -> (List.length r <= 11)%nat.
Proof.
  assert (T : forallb (fun w => Nat.leb (List.length w) 11) stop_words = true) by (vm_compute; reflexivity).
  unfold is_reserved, str_in. rewrite existsb_exists. intros [w [Hin He]].
  apply str_eqb_eq in He. subst. rewrite forallb_forall in T. apply Nat.leb_le. apply T. exact Hin.
Qed.

Section Term.
  Variable p : str.
  Variable k : name_case.
  Hypothesis Hp : prefix_ok p = true.

  Lemma alnum_prefix_pos : (1 <= List.length (alnum p))%nat.
  Proof. unfold prefix_ok, slug_alpha in Hp. destruct (alnum p); [discriminate|cbn; lia]. Qed.

  (* once the slug starts with a letter, every further call appends the prefix and
     lengthens the slug; reserved words have at most 11 characters (XmlDateTime) *)
  Lemma term_core n : forall name,
    slug_alpha name = true -> (12 <= List.length (alnum name) + n)%nat ->
    exists r, safe_name (S n) p (apply_case k) name = SOk r.
  Proof.
    induction n as [|n IH]; intros name Ha Hl.
    - cbn [safe_name]. destruct name as [|c name']; [discriminate|].
      rewrite (minus_not_slug_alpha _ Ha), Ha. cbn [negb].
      destruct (case_some k _ Ha) as [r Er]. rewrite Er.
      destruct (is_reserved r) eqn:Eres; [|eexists; reflexivity]. exfalso.
      apply reserved_short in Eres. pose proof (alnum_length r) as L.
      rewrite (case_alnum k _ r Ha Er) in L. lia.
    - cbn [safe_name]. destruct name as [|c name']; [discriminate|].
      rewrite (minus_not_slug_alpha _ Ha), Ha. cbn [negb].
      destruct (case_some k _ Ha) as [r Er]. rewrite Er.
      destruct (is_reserved r) eqn:Eres; [|eexists; reflexivity].
      apply IH.
      + apply slug_alpha_app_l. exact Ha.
      + rewrite !alnum_app, !app_length. pose proof alnum_prefix_pos. lia.
  Qed.

  Theorem safe_name_terminates_ge n name :
    (14 <= n)%nat -> exists r, safe_name (S n) p (apply_case k) name = SOk r.
  Proof.
    intros Hn.
    destruct (slug_alpha name) eqn:Ea.
    - apply term_core; [exact Ea|lia].
    - destruct n as [|n']; [lia|]. cbn [safe_name].
      destruct name as [|c name'].
      + apply term_core; [exact Hp|lia].
      + destruct (minus_number (c :: name')) eqn:Em.
        * apply term_core; [apply slug_alpha_app_l; exact Hp|lia].
        * rewrite Ea. cbn [negb]. apply term_core; [apply slug_alpha_app_l; exact Hp|lia].
  Qed.
End Term.

(* more fuel never changes a result *)
Lemma safe_name_fuel_mono p case n : forall name r,
  safe_name n p case name = SOk r -> forall m, safe_name (n + m) p case name = SOk r.
Proof.
  induction n as [|n IH]; intros name r H m; [discriminate|].
  cbn [safe_name plus] in *.
  destruct name as [|c name']; [apply IH; exact H|].
  destruct (minus_number (c :: name')); [apply IH; exact H|].
  destruct (negb (slug_alpha (c :: name'))); [apply IH; exact H|].
  destruct (case (c :: name')) as [x|]; [|discriminate].
  destruct (is_reserved x); [apply IH; exact H|exact H].
Qed.

Theorem safe_name_terminates_15 p k name :
  prefix_ok p = true -> exists r, safe_name 15 p (apply_case k) name = SOk r.
Proof. intros Hp. apply (safe_name_terminates_ge p k Hp 14 name). lia. Qed.

Theorem safe_name_terminates p k name :
  prefix_ok p = true -> exists r, safe_name safe_fuel p (apply_case k) name = SOk r.
Proof. intros Hp. apply (safe_name_terminates_ge p k Hp 63 name). lia. Qed.

(* ---- since the fix for C07-F6 Filters.__init__ refuses the prefixes for which safe_name
   would recurse for ever: every naming filter of an accepted configuration terminates ---- *)
Lemma valid_prefix_ok p : valid_prefix p = true -> prefix_ok p = true.
Proof. intros H. exact H. Qed.

Theorem filters_terminate cv name :
  filters_init cv = true ->
  (exists r, class_name cv name = SOk r) /\ (exists r, field_name cv name = SOk r) /\
  (exists r, constant_name cv name = SOk r) /\ (exists r, module_name cv name = SOk r).
Proof.
  unfold filters_init. intros H.
  apply andb_true_iff in H as [H Hm]. apply andb_true_iff in H as [H Hp].
  apply andb_true_iff in H as [H Hc]. apply andb_true_iff in H as [Hcl Hf].
  unfold class_name, field_name, constant_name, module_name. repeat split.
  - apply safe_name_terminates; exact Hcl.
  - apply safe_name_terminates; exact Hf.
  - apply safe_name_terminates. destruct constant_name_uses_field_prefix; assumption.
  - apply safe_name_terminates; exact Hm.
Qed.

(* the raw function still recurses for ever when called with such a prefix (kept as a lemma about
   the model; no Filters object can be built with it any more) *)
Definition bad_prefix : str := lit "1a".

Lemma bad_prefix_loops : forall fuel name,
  name <> [] -> minus_number name = false -> slug_alpha name = false ->
  safe_name fuel bad_prefix (apply_case Snake) name = SFuel.
Proof.
  induction fuel as [|fuel IH]; intros name Hne Hm Hs; [reflexivity|].
  cbn [safe_name]. destruct name as [|c name']; [congruence|].
  rewrite Hm, Hs. cbn [negb]. apply IH.
  - discriminate.
  - reflexivity.
  - unfold slug_alpha. rewrite alnum_app. reflexivity.
Qed.

Lemma bad_prefix_rejected cv : class_prefix cv = bad_prefix -> filters_init cv = false.
Proof. intros H. unfold filters_init. rewrite H. reflexivity. Qed.
