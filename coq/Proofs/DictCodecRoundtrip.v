(* Proofs/DictCodecRoundtrip.v — decode (encode o) = o on the proved slice D1
   (Model/DictCodecCorr.v: d1_value), for the default dictionary factory. *)
From Coq Require Import NArith ZArith List Bool Lia.
From XV Require Import Base.Str Base.Eqb Base.PyInt Model.Bind Model.EventGen Model.DictCodec Model.DictCodecCorr
  Proofs.DictCodecBase.
Import ListNotations.
Open Scope N_scope.

Section RT.
  Variables (g : generics) (fac : dict_factory) (c : conv) (u : universe).

  (* ---------------------------------------------------------------- the encoding, as a function of the value *)
  (* entries the dictionary factory drops *)
  Definition drop (j : jvalue) : bool :=
    match fac, j with FFilterNone, JNull => true | _, _ => false end.

  Definition jleaf (var : xvar) (p : prim) : jvalue :=
    match encode_leaf c u (v_format var) p with Ok j => j | Err _ => JNull end.

  Definition var_named (vars : list xvar) (n : str) : option xvar :=
    find (fun var => str_eqb (v_name var) n) vars.

  Fixpoint jenc (ov : option xvar) (v : value) {struct v} : jvalue :=
    let fix jl (l : list value) : list jvalue :=
      match l with [] => [] | x :: r => jenc ov x :: jl r end in
    match v with
    | VNone => JNull
    | VP p => match ov with Some var => jleaf var p | None => JNull end
    | VList t l => JList t (jl l)
    | VObj cl fs =>
        match u_meta u cl with
        | Some meta =>
            let vars := get_all_vars meta in
            JDict ((fix jf (l : list (str * value)) : list (str * jvalue) :=
                      match l with
                      | [] => []
                      | (n, x) :: r =>
                          match var_named vars n with
                          | Some var => if drop (jenc (Some var) x) then jf r
                                        else (v_local_name var, jenc (Some var) x) :: jf r
                          | None => jf r
                          end
                      end) fs)
        | None => JNull
        end
    | _ => JNull
    end.

  Lemma jenc_list ov t l : jenc ov (VList t l) = JList t (map (jenc ov) l).
  Proof.
    reflexivity.
  Qed.

  Definition jfields (vars : list xvar) (fs : list (str * value)) : list (str * jvalue) :=
    flat_map (fun nx => match var_named vars (fst nx) with
                        | Some var => if drop (jenc (Some var) (snd nx)) then []
                                      else [(v_local_name var, jenc (Some var) (snd nx))]
                        | None => []
                        end) fs.

  Lemma jenc_obj cl fs meta :
    u_meta u cl = Some meta -> jenc None (VObj cl fs) = JDict (jfields (get_all_vars meta) fs).
  Proof.
    intros Hm. cbn. rewrite Hm. f_equal. unfold jfields.
    induction fs as [|[n x] fs IH]; [reflexivity|]. cbn.
    destruct (var_named (get_all_vars meta) n) as [var|]; cbn; [|exact IH].
    destruct (drop _); cbn; rewrite IH; reflexivity.
  Qed.

  Lemma jenc_obj_any ov cl fs : jenc ov (VObj cl fs) = jenc None (VObj cl fs).
  Proof. reflexivity. Qed.

  (* ---------------------------------------------------------------- names *)
  Lemma var_named_self vars var :
    distinct_keys (map v_name vars) = true -> In var vars -> var_named vars (v_name var) = Some var.
  Proof.
    induction vars as [|w vars IH]; cbn; intros Hd Hin; [contradiction|].
    apply andb_true_iff in Hd as [Hw Hd].
    destruct Hin as [->|Hin]; [rewrite str_eqb_refl; reflexivity|].
    destruct (str_eqb_spec (v_name w) (v_name var)) as [E|_]; [|apply IH; assumption].
    apply negb_true_iff in Hw.
    pose proof (existsb_str_false _ _ Hw (v_name var) (in_map v_name _ _ Hin)) as F.
    rewrite E, str_eqb_refl in F. discriminate.
  Qed.

  Definition field_of (fs : list (str * value)) (var : xvar) : value :=
    match assoc (v_name var) fs with Some x => x | None => VNone end.

  Lemma fs_by_vars fs vars :
    map fst fs = map v_name vars -> distinct_keys (map v_name vars) = true ->
    fs = map (fun var => (v_name var, field_of fs var)) vars.
  Proof.
    intros Hn Hd. rewrite <- (fields_rebuild fs) at 1 by (rewrite Hn; exact Hd).
    rewrite Hn, map_map. reflexivity.
  Qed.

  Lemma jfields_by_vars fs vars :
    map fst fs = map v_name vars -> distinct_keys (map v_name vars) = true ->
    jfields vars fs = map (fun var => (v_local_name var, jenc (Some var) (field_of fs var)))
                          (filter (fun var => negb (drop (jenc (Some var) (field_of fs var)))) vars).
  Proof.
    intros Hn Hd. rewrite (fs_by_vars fs vars Hn Hd) at 1. unfold jfields.
    assert (G : forall l, (forall var, In var l -> In var vars) ->
                flat_map (fun nx => match var_named vars (fst nx) with
                                    | Some var => if drop (jenc (Some var) (snd nx)) then []
                                                  else [(v_local_name var, jenc (Some var) (snd nx))]
                                    | None => []
                                    end) (map (fun var => (v_name var, field_of fs var)) l)
                = map (fun var => (v_local_name var, jenc (Some var) (field_of fs var)))
                      (filter (fun var => negb (drop (jenc (Some var) (field_of fs var)))) l)).
    { induction l as [|var l IH]; intros Hl; [reflexivity|]. cbn [map flat_map filter fst snd].
      rewrite var_named_self by (try assumption; apply Hl; left; reflexivity).
      rewrite IH by (intros w Hw; apply Hl; right; exact Hw).
      destruct (drop (jenc (Some var) (field_of fs var))); reflexivity. }
    apply G. auto.
  Qed.

  Lemma filter_all {A} (p : A -> bool) l : (forall x, In x l -> p x = true) -> filter p l = l.
  Proof.
    induction l as [|x l IH]; intros H; cbn; [reflexivity|].
    rewrite (H x (or_introl eq_refl)), IH by (intros y Hy; apply H; right; exact Hy). reflexivity.
  Qed.

  (* ---------------------------------------------------------------- the guard, unfolded *)
  Definition d1_item (f : nat) (var : xvar) (x : value) : bool :=
    match x with
    | VP p => existsb (ptype_eqb (prim_type p)) (v_types var) && leaf_ok c u var p
    | VObj c' _ => opt_eqb N.eqb (v_clazz var) (Some c') && d1_value g fac c u f x
    | _ => false
    end.
  Definition d1_token (var : xvar) (x : value) : bool :=
    match x with
    | VP p => existsb (ptype_eqb (prim_type p)) (v_types var) && leaf_ok c u var p && token_text_ok c u var p
    | _ => false
    end.
  Definition d1_field (f : nat) (var : xvar) (x : value) : bool :=
    match v_factory var, v_tokens_factory var with
    | None, None =>
        match x with
        | VNone => match v_default var with DNone => true | _ => false end
        | _ => d1_item f var x
        end
    | Some _, None => match x with VList false l => forallb (d1_item f var) l | _ => false end
    | None, Some _ => match x with VList false l => forallb (d1_token var) l | _ => false end
    | Some _, Some _ =>
        match x with
        | VList false l => forallb (fun y => match y with VList false l' => forallb (d1_token var) l' | _ => false end) l
        | _ => false
        end
    end.

  Record d1_obj (f : nat) (cl : cls) (fs : list (str * value)) (meta : xmeta) : Prop := {
    d1o_meta : u_meta u cl = Some meta;
    d1o_any : N.eqb cl (g_any g) = false;
    d1o_der : N.eqb cl (g_derived g) = false;
    d1o_names : map fst fs = map v_name (get_all_vars meta);
    d1o_dnames : distinct_keys (map v_name (get_all_vars meta)) = true;
    d1o_dkeys : distinct_keys (map v_local_name (get_all_vars meta)) = true;
    d1o_nder : generic_keys_ok fac (map v_local_name (get_all_vars meta)) DERIVED_KEYS = true;
    d1o_nany : generic_keys_ok fac (map v_local_name (get_all_vars meta)) ANY_KEYS = true;
    d1o_vars : forall var, In var (get_all_vars meta) -> d1_var u var = true;
    d1o_fields : forall var, In var (get_all_vars meta) ->
                 exists x, assoc (v_name var) fs = Some x /\ d1_field f var x = true
  }.

  Lemma d1_value_inv f cl fs :
    d1_value g fac c u (S f) (VObj cl fs) = true -> exists meta, d1_obj f cl fs meta.
  Proof.
    intros H. cbn [d1_value] in H. destruct (u_meta u cl) as [meta|] eqn:Hm; [|discriminate].
    exists meta.
    repeat (apply andb_true_iff in H; destruct H as [H ?]).
    apply negb_true_iff in H.
    repeat match goal with Hx : negb _ = true |- _ => apply negb_true_iff in Hx end.
    constructor; try assumption.
    - eapply (proj1 (list_eqb_spec str_eqb str_eqb_eq _ _)); eassumption.
    - apply forallb_forall. assumption.
    - intros var Hin.
      match goal with Hf : forallb _ (get_all_vars meta) = true |- _ =>
        rewrite forallb_forall in Hf; specialize (Hf var Hin) end.
      destruct (assoc (v_name var) fs) as [x|]; [|discriminate].
      exists x. split; [reflexivity|]. assumption.
  Qed.

  Record d1_var_facts (var : xvar) : Prop := {
    dv_wrapper : v_wrapper_qname var = None;
    dv_init : v_init var = true;
    dv_any : v_any_type var = false;
    dv_mixed : v_mixed var = false;
    dv_elements : v_elements var = [];
    dv_kind : v_is KText var || v_is KElement var || v_is KAttribute var = true;
    dv_factory : v_factory var = None \/ v_factory var = Some FList;
    dv_tokens : v_tokens_factory var = None \/ v_tokens_factory var = Some FList;
    dv_types : exists t, v_types var = [t] /\ t <> TObject
                 /\ (forall c', t = TClass c' -> v_clazz var = Some c' /\ v_tokens_factory var = None /\ subclasses_of u c' = [])
                 /\ ((forall c', t <> TClass c') -> v_clazz var = None)
  }.

  Lemma d1_var_inv var : d1_var u var = true -> d1_var_facts var.
  Proof.
    intros H. unfold d1_var in H.
    repeat (apply andb_true_iff in H; destruct H as [H ?]).
    repeat match goal with Hx : negb _ = true |- _ => apply negb_true_iff in Hx end.
    constructor; try assumption.
    - destruct (v_wrapper_qname var); [discriminate|reflexivity].
    - destruct (v_elements var); [reflexivity|discriminate].
    - destruct (v_factory var) as [[|]|]; try discriminate; auto.
    - destruct (v_tokens_factory var) as [[|]|]; try discriminate; auto.
    - destruct (v_types var) as [|t [|t2 r]]; try discriminate.
      2: { destruct t; discriminate. }
      exists t. split; [reflexivity|].
      destruct t; try discriminate;
        (split; [discriminate|]);
        try (split; [intros c' E; discriminate E | intros _; destruct (v_clazz var); [discriminate|reflexivity]]).
      split.
      + intros c' E. injection E as <-.
        match goal with Hx : _ && _ && _ = true |- _ =>
          apply andb_true_iff in Hx as [Hx Hs]; apply andb_true_iff in Hx as [Hc Ht] end.
        split; [|split].
        * destruct (v_clazz var) as [k|]; cbn in Hc; [|discriminate]. apply N.eqb_eq in Hc. subst. reflexivity.
        * unfold v_tokens in Ht. apply negb_true_iff in Ht. destruct (v_tokens_factory var); [discriminate|reflexivity].
        * destruct (subclasses_of u c0); [reflexivity|discriminate].
      + intros Hn. exfalso. apply (Hn c0). reflexivity.
  Qed.

  Lemma d1_var_wrapper var : d1_var u var = true -> v_wrapper var = None.
  Proof. intros H. destruct (d1_var_inv var H). unfold v_wrapper. rewrite dv_wrapper0. reflexivity. Qed.

  (* ---------------------------------------------------------------- encoder *)
  Notation erun' := (erun g fac false c u).

  Lemma filter_map {A B} (p : B -> bool) (h : A -> B) l : filter p (map h l) = map h (filter (fun x => p (h x)) l).
  Proof. induction l as [|x l IH]; cbn; [reflexivity|]. rewrite IH. destruct (p (h x)); reflexivity. Qed.

  Lemma existsb_filter_false {A} (h : A -> str) (p : A -> bool) k l :
    existsb (str_eqb k) (map h l) = false -> existsb (str_eqb k) (map h (filter p l)) = false.
  Proof.
    induction l as [|x l IH]; cbn; intros H; [reflexivity|].
    apply orb_false_iff in H as [H1 H2]. destruct (p x); cbn; [rewrite H1|]; auto.
  Qed.

  Lemma distinct_filter {A} (h : A -> str) (p : A -> bool) l :
    distinct_keys (map h l) = true -> distinct_keys (map h (filter p l)) = true.
  Proof.
    induction l as [|x l IH]; cbn; intros H; [reflexivity|].
    apply andb_true_iff in H as [H1 H2]. destruct (p x); cbn; [|auto].
    apply negb_true_iff in H1. rewrite (existsb_filter_false h p _ _ H1). cbn. auto.
  Qed.

  Lemma apply_factory_eq pairs :
    apply_factory fac pairs = JDict (dict_of (filter (fun kv => negb (drop (snd kv))) pairs)).
  Proof.
    unfold apply_factory, drop. destruct fac.
    - rewrite filter_all; [reflexivity|]. intros; reflexivity.
    - f_equal. f_equal. induction pairs as [|[k j] pairs IH]; cbn; [reflexivity|].
      rewrite IH. destruct j; reflexivity.
  Qed.

  Lemma enc_leaf var p : leaf_ok c u var p = true -> encode_leaf c u (v_format var) p = Ok (jleaf var p).
  Proof.
    unfold leaf_ok, json_text, jleaf, encode_leaf. intros H.
    destruct p; try reflexivity. destruct (enum_value u e member); [reflexivity|discriminate].
  Qed.

  Lemma enc_prim var p F :
    d1_var u var = true -> leaf_ok c u var p = true -> (1 <= F)%nat ->
    erun' F (EEncode (VP p) (Some var) false) = Ok (jenc (Some var) (VP p)).
  Proof.
    intros Hv Hl HF. destruct F as [|F]; [lia|]. cbn [erun].
    rewrite (d1_var_wrapper var Hv). cbn [is_model]. apply enc_leaf. exact Hl.
  Qed.

  Section EncStep.
    Variable f : nat.
    Hypothesis IH : forall F v, (4 * f <= F)%nat -> d1_value g fac c u f v = true ->
                                erun' F (ENextValue v) = Ok (jenc None v).

    Lemma enc_item var x F :
      d1_var u var = true -> d1_item f var x = true -> (4 * f + 1 <= F)%nat ->
      erun' F (EEncode x (Some var) false) = Ok (jenc (Some var) x).
    Proof.
      intros Hv Hi HF. destruct x; try discriminate Hi.
      - cbn in Hi. apply andb_true_iff in Hi as [_ Hl]. apply enc_prim; [assumption..|lia].
      - cbn in Hi. apply andb_true_iff in Hi as [_ Hd].
        destruct F as [|F]; [lia|]. cbn [erun]. rewrite (d1_var_wrapper var Hv). cbn [is_model].
        rewrite IH; [reflexivity|lia|exact Hd].
    Qed.

    Lemma enc_token var x F :
      d1_var u var = true -> d1_token var x = true -> (1 <= F)%nat ->
      erun' F (EEncode x (Some var) false) = Ok (jenc (Some var) x).
    Proof.
      intros Hv Hi HF. destruct x; try discriminate Hi.
      cbn in Hi. apply andb_true_iff in Hi as [Hi _]. apply andb_true_iff in Hi as [_ Hl].
      apply enc_prim; assumption.
    Qed.

    Lemma enc_list var l F (P : value -> bool) :
      d1_var u var = true -> forallb P l = true ->
      (forall x, P x = true -> erun' F (EEncode x (Some var) false) = Ok (jenc (Some var) x)) ->
      erun' (S F) (EEncode (VList false l) (Some var) false) = Ok (jenc (Some var) (VList false l)).
    Proof.
      intros Hv Hl Hx. cbn [erun]. rewrite (d1_var_wrapper var Hv). cbn [is_model].
      rewrite (mapM_ok _ (jenc (Some var)) l).
      - rewrite jenc_list. reflexivity.
      - intros x Hin. apply Hx. rewrite forallb_forall in Hl. apply Hl. exact Hin.
    Qed.

    Lemma enc_field var x F :
      d1_var u var = true -> d1_field f var x = true -> (4 * f + 3 <= F)%nat ->
      erun' F (EEncode x (Some var) false) = Ok (jenc (Some var) x).
    Proof.
      intros Hv Hf HF. unfold d1_field in Hf.
      destruct (v_factory var) as [fa|], (v_tokens_factory var) as [tf|].
      - destruct x as [| |[|] l| | | |]; try discriminate Hf.
        destruct F as [|F]; [lia|].
        apply (enc_list var l F (fun y => match y with VList false l' => forallb (d1_token var) l' | _ => false end)); [assumption..|].
        intros y Hy. destruct y as [| |[|] l'| | | |]; try discriminate Hy.
        destruct F as [|F]; [lia|].
        apply (enc_list var l' F (d1_token var)); [assumption..|].
        intros z Hz. apply enc_token; [assumption..|lia].
      - destruct x as [| |[|] l| | | |]; try discriminate Hf.
        destruct F as [|F]; [lia|].
        apply (enc_list var l F (d1_item f var)); [assumption..|].
        intros y Hy. apply enc_item; [assumption..|lia].
      - destruct x as [| |[|] l| | | |]; try discriminate Hf.
        destruct F as [|F]; [lia|].
        apply (enc_list var l F (d1_token var)); [assumption..|].
        intros y Hy. apply enc_token; [assumption..|lia].
      - destruct x; try (apply enc_item; [assumption..|lia]).
        destruct F as [|F]; [lia|]. reflexivity.
    Qed.
  End EncStep.

  Lemma enc_obj : forall n F v, (4 * n <= F)%nat -> d1_value g fac c u n v = true ->
                                erun' F (ENextValue v) = Ok (jenc None v).
  Proof.
    induction n as [|f IH]; intros F v HF Hd; [discriminate Hd|].
    destruct v as [| | |cl fs| | |]; try discriminate Hd.
    destruct (d1_value_inv f cl fs Hd) as [meta O]. destruct O.
    destruct F as [|F]; [lia|]. cbn [erun as_object]. rewrite d1o_meta0.
    rewrite (concatM_ok _ (fun var => [(v_local_name var, jenc (Some var) (field_of fs var))]) (get_all_vars meta)).
    - cbn [gbind]. rewrite concat_map_singleton, apply_factory_eq, filter_map. cbn [snd].
      rewrite dict_of_distinct by (rewrite map_map; apply (distinct_filter v_local_name); exact d1o_dkeys0).
      rewrite (jenc_obj cl fs meta d1o_meta0), jfields_by_vars by assumption. reflexivity.
    - intros var Hin. destruct (d1o_fields0 var Hin) as [x [Hx Hfx]].
      cbn [getattr]. rewrite Hx. cbn [gbind]. rewrite andb_false_r. cbn [gbind].
      rewrite (enc_field f IH var x F (d1o_vars0 var Hin) Hfx) by lia. cbn [gbind].
      rewrite (d1_var_wrapper var (d1o_vars0 var Hin)). unfold field_of. rewrite Hx. reflexivity.
  Qed.

  (* ---------------------------------------------------------------- decoder: small facts *)
  Lemma ptype_eqb_eq a b : ptype_eqb a b = true -> a = b.
  Proof. destruct a, b; cbn; try discriminate; try reflexivity; intros H; apply N.eqb_eq in H; congruence. Qed.

  Lemma prim_eqb_eq a b : prim_eqb a b = true -> a = b.
  Proof.
    destruct a, b; cbn; try discriminate; intros H;
      try (apply str_eqb_eq in H; congruence).
    - apply Z.eqb_eq in H. congruence.
    - apply Bool.eqb_prop in H. congruence.
    - apply andb_true_iff in H as [H1 H2]. apply N.eqb_eq in H1, H2. congruence.
    - apply andb_true_iff in H as [H1 H2]. apply ptype_eqb_eq in H1. apply str_eqb_eq in H2. congruence.
  Qed.

  Lemma existsb_map {A B} (f : A -> B) (p : B -> bool) l : existsb p (map f l) = existsb (fun x => p (f x)) l.
  Proof. induction l as [|x l IH]; cbn; [reflexivity|]. rewrite IH. reflexivity. Qed.

  Lemma forallb_ext' {A} (p q : A -> bool) l : (forall x, p x = q x) -> forallb p l = forallb q l.
  Proof. intros H. induction l as [|x l IH]; cbn; [reflexivity|]. rewrite H, IH. reflexivity. Qed.
  Lemma existsb_ext' {A} (p q : A -> bool) l : (forall x, p x = q x) -> existsb p l = existsb q l.
  Proof. intros H. induction l as [|x l IH]; cbn; [reflexivity|]. rewrite H, IH. reflexivity. Qed.

  Lemma keys_are_same (m : list (str * jvalue)) ks : keys_are m ks = same_keys (map fst m) ks.
  Proof.
    unfold keys_are, same_keys. f_equal. apply forallb_ext'. intros k.
    rewrite existsb_map. apply existsb_ext'. intros kv. apply str_eqb_sym.
  Qed.

  Lemma kind_facts var :
    v_is KText var || v_is KElement var || v_is KAttribute var = true ->
    v_is KAttributes var = false /\ v_is KElements var = false /\ v_is KWildcard var = false.
  Proof. unfold v_is. destruct (v_kind var); cbn; intros H; try discriminate; auto. Qed.

  Definition j_parts (ser : jvalue -> gres (option str)) : list jvalue -> gres (list str) :=
    fix parts (l : list jvalue) : gres (list str) :=
      match l with
      | [] => Ok []
      | x :: r =>
          o <- ser x ;;
          match o with
          | Some s => ps <- parts r ;; Ok (s :: ps)
          | None => Err EType
          end
      end.

  Lemma j_serialize_list js :
    j_serialize c (JList false js) = (ps <- j_parts (j_serialize c) js ;; Ok (Some (join [32] ps))).
  Proof. reflexivity. Qed.

  Lemma j_parts_ok (h : value -> str) l ov :
    (forall x, In x l -> j_serialize c (jenc ov x) = Ok (Some (h x))) ->
    j_parts (j_serialize c) (map (jenc ov) l) = Ok (map h l).
  Proof.
    induction l as [|x l IH]; intros H; cbn; [reflexivity|].
    rewrite (H x (or_introl eq_refl)). cbn. rewrite IH by (intros y Hy; apply H; right; exact Hy). reflexivity.
  Qed.

  Lemma mapM_map_ok {A B} (f : B -> gres A) (h : A -> B) (l : list A) :
    (forall x, In x l -> f (h x) = Ok x) -> mapM f (map h l) = Ok l.
  Proof.
    induction l as [|x l IH]; intros H; cbn; [reflexivity|].
    rewrite (H x (or_introl eq_refl)). cbn. rewrite IH by (intros y Hy; apply H; right; exact Hy). reflexivity.
  Qed.

  (* what the decoder reads back from an encoded leaf *)
  Definition leaf_text (var : xvar) (p : prim) : str :=
    match json_text c u (v_format var) p with Some s => s | None => [] end.

  Lemma leaf_facts var p :
    leaf_ok c u var p = true ->
    j_serialize c (jleaf var p) = Ok (Some (leaf_text var p))
    /\ c_deser c (v_types var) (v_format var) [] (leaf_text var p) = Some p
    /\ (forall t l, jleaf var p <> JList t l) /\ (forall m, jleaf var p <> JDict m).
  Proof.
    unfold leaf_ok, leaf_text. intros H.
    destruct (json_text c u (v_format var) p) as [s|] eqn:E; [|discriminate].
    assert (Hd : c_deser c (v_types var) (v_format var) [] s = Some p).
    { destruct (c_deser c (v_types var) (v_format var) [] s) as [q|]; cbn in H; [|discriminate].
      apply prim_eqb_eq in H. congruence. }
    unfold jleaf, encode_leaf. unfold json_text in E.
    destruct p; cbn in E |- *;
      try (injection E as <-; repeat split; try reflexivity; try exact Hd; intros; discriminate).
    destruct (enum_value u e member) as [x|]; [|discriminate].
    destruct x; cbn in E |- *;
      try (injection E as <-; repeat split; try reflexivity; try exact Hd; intros; discriminate).
    discriminate.
  Qed.

  Lemma find_var_hit vars var j :
    distinct_keys (map v_local_name vars) = true -> In var vars ->
    (forall w, In w vars -> v_wrapper w = None) ->
    Bool.eqb (j_is_array j) (v_list_element var || v_tokens var) = true ->
    find_var vars (v_local_name var) j = Some var.
  Proof.
    unfold find_var. induction vars as [|w vars IH]; intros Hd Hin Hw Hb; [contradiction|].
    cbn [map distinct_keys] in Hd. apply andb_true_iff in Hd as [Hw1 Hd]. cbn [find].
    rewrite (Hw w (or_introl eq_refl)).
    destruct Hin as [->|Hin].
    - rewrite str_eqb_refl, Hb. reflexivity.
    - destruct (str_eqb_spec (v_local_name w) (v_local_name var)) as [E|_].
      + apply negb_true_iff in Hw1.
        pose proof (existsb_str_false _ _ Hw1 (v_local_name var) (in_map v_local_name _ _ Hin)) as F.
        rewrite E, str_eqb_refl in F. discriminate.
      + cbn [andb]. apply IH; try assumption. intros w' Hw'. apply Hw. right. exact Hw'.
  Qed.

  Lemma assoc_vars {A} (X : xvar -> A) vars var :
    distinct_keys (map v_name vars) = true -> In var vars ->
    assoc (v_name var) (map (fun w => (v_name w, X w)) vars) = Some (X var).
  Proof.
    induction vars as [|w vars IH]; cbn; intros Hd Hin; [contradiction|].
    apply andb_true_iff in Hd as [Hw Hd].
    destruct Hin as [->|Hin]; [rewrite str_eqb_refl; reflexivity|].
    destruct (str_eqb_spec (v_name var) (v_name w)) as [E|_]; [|apply IH; assumption].
    apply negb_true_iff in Hw.
    pose proof (existsb_str_false _ _ Hw (v_name var) (in_map v_name _ _ Hin)) as F.
    rewrite E, str_eqb_refl in F. discriminate.
  Qed.

  Lemma forallb_false_mono {A} (p q : A -> bool) l :
    forallb p l = false -> (forall x, q x = true -> p x = true) -> forallb q l = false.
  Proof.
    induction l as [|x l IH]; cbn; intros H Hpq; [discriminate|].
    apply andb_false_iff in H as [H|H].
    - destruct (q x) eqn:E; [rewrite (Hpq x E) in H; discriminate|reflexivity].
    - rewrite (IH H Hpq). apply andb_false_r.
  Qed.

  Lemma existsb_filter_sub {A} (h : A -> str) (p : A -> bool) k l :
    existsb (str_eqb k) (map h (filter p l)) = true -> existsb (str_eqb k) (map h l) = true.
  Proof.
    induction l as [|x l IH]; cbn; intros H; [discriminate|].
    destruct (p x); cbn in H.
    - apply orb_true_iff in H as [H|H]; [rewrite H; reflexivity|rewrite (IH H); apply orb_true_r].
    - rewrite (IH H). apply orb_true_r.
  Qed.

  (* the keys of an encoded object are never mistaken for a generic dictionary *)
  Lemma keys_not_generic vars fs ks :
    map fst fs = map v_name vars -> distinct_keys (map v_name vars) = true ->
    generic_keys_ok fac (map v_local_name vars) ks = true ->
    same_keys (map fst (jfields vars fs)) ks = false.
  Proof.
    intros Hn Hd Hg. rewrite jfields_by_vars, map_map by assumption. cbn [fst].
    unfold generic_keys_ok in Hg. unfold drop. destruct fac.
    - rewrite filter_all by (intros; reflexivity). apply negb_true_iff in Hg. exact Hg.
    - apply negb_true_iff in Hg. unfold same_keys. apply andb_false_iff. right.
      apply (forallb_false_mono _ _ _ Hg). intros k Hk.
      exact (existsb_filter_sub (fun x : xvar => v_local_name x) _ k vars Hk).
  Qed.

  (* ---------------------------------------------------------------- decoder *)
  Variable strict : bool.
  Notation drun' := (drun g c u strict).

  Lemma py_space_32 : py_isspace 32 = true.
  Proof. reflexivity. Qed.

  (* a scalar leaf *)
  Lemma dec_text_prim meta var p F :
    d1_var u var = true -> v_tokens_factory var = None -> leaf_ok c u var p = true -> (1 <= F)%nat ->
    drun' F (DBindText meta var (jleaf var p)) = Ok (VP p).
  Proof.
    intros Hv Ht Hl HF. destruct (d1_var_inv var Hv). destruct (kind_facts var dv_kind0) as [_ [Hke Hkw]].
    destruct (leaf_facts var p Hl) as [Hs [Hd [Hnl _]]].
    destruct F as [|F]; [lia|]. cbn [drun]. rewrite Hke, dv_any0, Hkw. cbn [orb].
    assert (Hn : (match jleaf var p with
                  | JList _ l => existsb (fun x => match x with JNull => true | _ => false end) l
                  | _ => false
                  end) = false)
      by (destruct (jleaf var p) eqn:E; try reflexivity; exfalso; eapply Hnl; reflexivity).
    assert (Hid : (match jleaf var p with JList true l => JList false l | _ => jleaf var p end) = jleaf var p)
      by (destruct (jleaf var p) as [| | | | |[|] l|] eqn:E; try reflexivity; exfalso; eapply Hnl; reflexivity).
    rewrite Hn, Hid, Hs. cbn [gbind].
    unfold parse_var. rewrite Ht, Hd. reflexivity.
  Qed.

  Lemma dec_text_none meta var F :
    d1_var u var = true -> v_default var = DNone -> (1 <= F)%nat ->
    drun' F (DBindText meta var JNull) = Ok VNone.
  Proof.
    intros Hv Hdf HF. destruct (d1_var_inv var Hv). destruct (kind_facts var dv_kind0) as [_ [Hke Hkw]].
    destruct F as [|F]; [lia|]. cbn [drun]. rewrite Hke, dv_any0, Hkw. cbn [orb j_serialize gbind].
    unfold parse_var. rewrite Hdf. reflexivity.
  Qed.

  (* a token list *)
  Lemma dec_text_tokens meta var l F :
    d1_var u var = true -> v_tokens_factory var = Some FList -> forallb (d1_token var) l = true -> (1 <= F)%nat ->
    drun' F (DBindText meta var (jenc (Some var) (VList false l))) = Ok (VList false l).
  Proof.
    intros Hv Ht Hl HF. destruct (d1_var_inv var Hv). destruct (kind_facts var dv_kind0) as [_ [Hke Hkw]].
    rewrite forallb_forall in Hl.
    assert (Hp : forall x, In x l -> exists p, x = VP p /\ leaf_ok c u var p = true /\ token_text_ok c u var p = true).
    { intros x Hin. specialize (Hl x Hin). destruct x; try discriminate Hl. cbn in Hl.
      apply andb_true_iff in Hl as [Hl H3]. apply andb_true_iff in Hl as [_ H2]. eauto. }
    set (txt := fun x => match x with VP p => leaf_text var p | _ => [] end).
    destruct F as [|F]; [lia|]. cbn [drun]. rewrite Hke, dv_any0, Hkw. cbn [orb].
    rewrite jenc_list.
    assert (Hnn : existsb (fun x => match x with JNull => true | _ => false end) (map (jenc (Some var)) l) = false).
    { clear - Hp. induction l as [|x l IHl]; [reflexivity|]. cbn [map existsb].
      destruct (Hp x (or_introl eq_refl)) as [p [-> [H1 _]]]. cbn [jenc].
      destruct (leaf_facts var p H1) as [Hs _].
      destruct (jleaf var p) eqn:E; try (cbn [orb]; apply IHl; intros y Hy; apply Hp; right; exact Hy).
      cbn in Hs. discriminate Hs. }
    rewrite Hnn.
    rewrite j_serialize_list, (j_parts_ok txt l (Some var)).
    2:{ intros x Hin. destruct (Hp x Hin) as [p [-> [H1 _]]]. cbn [jenc txt]. apply (leaf_facts var p H1). }
    cbn [gbind]. unfold parse_var. rewrite Ht.
    rewrite (split_join py_isspace py_space_32).
    2:{ apply Forall_forall. intros t Hin. apply in_map_iff in Hin as [x [<- Hin]].
        destruct (Hp x Hin) as [p [-> [_ H2]]]. cbn [txt]. unfold token_text_ok, leaf_text in *.
        destruct (json_text c u (v_format var) p) as [s'|]; [|discriminate].
        apply andb_true_iff in H2 as [Hne Hc]. split; [destruct s'; [discriminate|congruence]|exact Hc]. }
    rewrite map_map.
    assert (E : map (fun x => c_deser c (v_types var) (v_format var) [] (txt x)) l = map (fun x => match x with VP p => Some p | _ => None end) l).
    { apply map_ext_in. intros x Hin. destruct (Hp x Hin) as [p [-> [H1 _]]]. cbn [txt]. apply (leaf_facts var p H1). }
    rewrite E.
    assert (Hall : forallb (fun o : option prim => match o with Some _ => true | None => false end)
                           (map (fun x => match x with VP p => Some p | _ => None end) l) = true).
    { apply forallb_forall. intros o Hin. apply in_map_iff in Hin as [x [<- Hin]].
      destruct (Hp x Hin) as [p [-> _]]. reflexivity. }
    rewrite Hall. cbn [factory_tuple]. f_equal. f_equal.
    rewrite flat_map_concat_map, map_map.
    transitivity (concat (map (fun x => [x]) l)).
    - f_equal. apply map_ext_in. intros x Hin. destruct (Hp x Hin) as [p [-> _]]. reflexivity.
    - clear. induction l as [|x l IH]; cbn; [reflexivity|]. rewrite IH. reflexivity.
  Qed.

  Section DecStep.
    Variable f : nat.
    Hypothesis IH : forall F cl fs, (4 * f <= F)%nat -> d1_value g fac c u f (VObj cl fs) = true ->
                                    drun' F (DBindDataclass (jenc None (VObj cl fs)) cl) = Ok (VObj cl fs).

    (* one item (primitive or object) under DBindValue; `r` = recursive *)
    Lemma dec_item meta var x r F :
      d1_var u var = true -> v_tokens_factory var = None -> d1_item f var x = true ->
      (r = true \/ v_factory var = None) -> (4 * f + 2 <= F)%nat ->
      drun' F (DBindValue meta var (jenc (Some var) x) r) = Ok x.
    Proof.
      intros Hv Ht Hi Hr HF. destruct (d1_var_inv var Hv). destruct (kind_facts var dv_kind0) as [Hka [Hke Hkw]].
      assert (Hcond : forall j, negb r && v_list_element var && j = false).
      { intros j. destruct Hr as [->|Hfa]; [reflexivity|]. unfold v_list_element. rewrite Hfa. destruct r; reflexivity. }
      destruct F as [|F]; [lia|]. cbn [drun]. rewrite Hka, Hcond.
      destruct x; try discriminate Hi.
      - (* primitive *)
        cbn in Hi. apply andb_true_iff in Hi as [_ Hl]. cbn [jenc].
        destruct (leaf_facts var p Hl) as [_ [_ [_ Hnd]]].
        destruct (jleaf var p) eqn:E; try (rewrite <- E; apply dec_text_prim; [assumption..|lia]).
        exfalso. apply (Hnd m). reflexivity.
      - (* object *)
        cbn in Hi. apply andb_true_iff in Hi as [Hc Hd].
        destruct (v_clazz var) as [k|] eqn:Ek; cbn in Hc; [|discriminate]. apply N.eqb_eq in Hc. subst k.
        destruct F as [|F]; [lia|].
        destruct f as [|f']; [discriminate Hd|].
        destruct (d1_value_inv f' c0 fields Hd) as [meta' O]. destruct O.
        rewrite jenc_obj_any, (jenc_obj c0 fields meta' d1o_meta0).
        rewrite !keys_are_same.
        rewrite (keys_not_generic _ _ ANY_KEYS d1o_names0 d1o_dnames0 d1o_nany0).
        rewrite (keys_not_generic _ _ DERIVED_KEYS d1o_names0 d1o_dnames0 d1o_nder0).
        cbn [drun]. unfold v_is_clazz_union. rewrite Ek.
        destruct dv_types0 as [t [Hty [_ [Hcl Hncl]]]]. rewrite Hty. cbn [length N.of_nat N.ltb N.compare Pos.compare Pos.compare_cont].
        rewrite dv_elements0. cbn [nonempty]. rewrite dv_any0, Hkw. cbn [orb].
        assert (Et : t = TClass c0).
        { destruct t; try (assert (E0 : Some c0 = None) by (apply Hncl; intros; discriminate); discriminate E0).
          match goal with |- TClass ?k = _ => destruct (Hcl k eq_refl) as [E1 _]; congruence end. }
        destruct (Hcl c0 Et) as [_ [_ Hsub]]. rewrite Hsub.
        rewrite <- (jenc_obj c0 fields meta' d1o_meta0).
        apply IH; [lia|exact Hd].
    Qed.

    Lemma dec_list meta var l F (P : value -> bool) :
      d1_var u var = true -> v_factory var = Some FList -> forallb P l = true ->
      (forall x, P x = true -> drun' F (DBindValue meta var (jenc (Some var) x) true) = Ok x) ->
      drun' (S F) (DBindValue meta var (jenc (Some var) (VList false l)) false) = Ok (VList false l).
    Proof.
      intros Hv Hfa Hl Hx. destruct (d1_var_inv var Hv). destruct (kind_facts var dv_kind0) as [Hka _].
      cbn [drun]. rewrite Hka, jenc_list. unfold v_list_element. rewrite Hfa. cbn [negb andb].
      rewrite (mapM_map_ok _ (jenc (Some var)) l).
      - reflexivity.
      - intros x Hin. apply Hx. rewrite forallb_forall in Hl. apply Hl. exact Hin.
    Qed.

    (* a token list reached through DBindValue (not a repeated element, or the recursive call) *)
    Lemma dec_tokens_value meta var l r F :
      d1_var u var = true -> v_tokens_factory var = Some FList -> forallb (d1_token var) l = true ->
      (r = true \/ v_factory var = None) -> (2 <= F)%nat ->
      drun' F (DBindValue meta var (jenc (Some var) (VList false l)) r) = Ok (VList false l).
    Proof.
      intros Hv Ht Hl Hr HF. destruct (d1_var_inv var Hv). destruct (kind_facts var dv_kind0) as [Hka _].
      destruct F as [|F]; [lia|]. cbn [drun]. rewrite Hka.
      assert (Hcond : forall j, negb r && v_list_element var && j = false).
      { intros j. destruct Hr as [->|Hfa]; [reflexivity|]. unfold v_list_element. rewrite Hfa. destruct r; reflexivity. }
      rewrite Hcond. rewrite jenc_list. rewrite <- jenc_list.
      apply dec_text_tokens; [assumption..|lia].
    Qed.

    Lemma dec_field meta var x F :
      d1_var u var = true -> d1_field f var x = true -> (4 * f + 3 <= F)%nat ->
      drun' F (DBindValue meta var (jenc (Some var) x) false) = Ok x.
    Proof.
      intros Hv Hf HF. destruct (d1_var_inv var Hv). unfold d1_field in Hf.
      destruct (v_factory var) as [fa|] eqn:Efa, (v_tokens_factory var) as [tf|] eqn:Etf.
      - (* list of token lists *)
        assert (fa = FList) by (destruct dv_factory0 as [E|E]; congruence). subst fa.
        assert (tf = FList) by (destruct dv_tokens0 as [E|E]; congruence). subst tf.
        destruct x as [| |[|] l| | | |]; try discriminate Hf.
        destruct F as [|F]; [lia|].
        apply (dec_list meta var l F (fun y => match y with VList false l' => forallb (d1_token var) l' | _ => false end)); [assumption..|].
        intros y Hy. destruct y as [| |[|] l'| | | |]; try discriminate Hy.
        apply dec_tokens_value; [assumption..|auto|lia].
      - (* repeated element *)
        assert (fa = FList) by (destruct dv_factory0 as [E|E]; congruence). subst fa.
        destruct x as [| |[|] l| | | |]; try discriminate Hf.
        destruct F as [|F]; [lia|].
        apply (dec_list meta var l F (d1_item f var)); [assumption..|].
        intros y Hy. apply dec_item; [assumption..|auto|lia].
      - (* tokens *)
        assert (tf = FList) by (destruct dv_tokens0 as [E|E]; congruence). subst tf.
        destruct x as [| |[|] l| | | |]; try discriminate Hf.
        apply dec_tokens_value; [assumption..|auto|lia].
      - (* scalar *)
        destruct x; try (apply dec_item; [assumption..|auto|lia]).
        destruct (v_default var) eqn:Ed; try discriminate Hf.
        destruct (kind_facts var dv_kind0) as [Hka _].
        destruct F as [|F]; [lia|]. cbn [drun jenc]. rewrite Hka. unfold v_list_element. rewrite Efa. cbn [negb andb].
        apply dec_text_none; [assumption..|lia].
    Qed.
  End DecStep.

  (* the `for key, value in data.items()` loop *)
  Lemma bind_params_ok (rec : dcall -> gres value) meta vars (J : xvar -> jvalue) (X : xvar -> value) :
    forall todo acc,
      (forall var, In var todo ->
         find_var vars (v_local_name var) (J var) = Some var /\ v_init var = true /\ v_wrapper var = None
         /\ rec (DBindValue meta var (J var) false) = Ok (X var)) ->
      distinct_keys (map fst acc ++ map v_name todo) = true ->
      bind_params rec meta vars (map (fun var => (v_local_name var, J var)) todo) acc
      = Ok (acc ++ map (fun var => (v_name var, X var)) todo).
  Proof.
    induction todo as [|var todo IHt]; intros acc H Hd; cbn [map bind_params]; [rewrite app_nil_r; reflexivity|].
    destruct (H var (or_introl eq_refl)) as [Hf [Hi [Hw Hr]]].
    rewrite Hf, Hi, Hw. cbn [negb gbind]. rewrite Hr. cbn [gbind].
    assert (Hk : existsb (str_eqb (v_name var)) (map fst acc) = false).
    { cbn [map] in Hd. pose proof (distinct_keys_cons_app _ _ _ Hd) as Hd'.
      apply distinct_keys_app_l in Hd'. apply distinct_keys_app_r in Hd'. tauto. }
    rewrite dict_set_fresh by exact Hk.
    rewrite IHt.
    - rewrite <- app_assoc. reflexivity.
    - intros w Hw'. apply H. right. exact Hw'.
    - rewrite map_app. cbn [map fst]. cbn [map] in Hd. rewrite <- app_assoc. exact Hd.
  Qed.

  Lemma assoc_notin {A} (X : xvar -> A) (keep : xvar -> bool) k l :
    existsb (str_eqb k) (map v_name l) = false ->
    assoc k (map (fun w => (v_name w, X w)) (filter keep l)) = None.
  Proof.
    induction l as [|w l IHl]; cbn; intros H; [reflexivity|].
    apply orb_false_iff in H as [H1 H2]. destruct (keep w); cbn; [rewrite H1|]; auto.
  Qed.

  Lemma assoc_filter_none {A} (X : xvar -> A) (keep : xvar -> bool) vars var :
    distinct_keys (map v_name vars) = true -> In var vars -> keep var = false ->
    assoc (v_name var) (map (fun w => (v_name w, X w)) (filter keep vars)) = None.
  Proof.
    induction vars as [|w vars IHv]; cbn; intros Hd Hin Hk; [contradiction|].
    apply andb_true_iff in Hd as [Hw Hd]. apply negb_true_iff in Hw.
    destruct Hin as [->|Hin].
    - rewrite Hk. apply assoc_notin. exact Hw.
    - destruct (keep w); cbn; [|auto].
      destruct (str_eqb_spec (v_name var) (v_name w)) as [E|_]; [|auto].
      pose proof (existsb_str_false _ _ Hw (v_name var) (in_map v_name _ _ Hin)) as F.
      rewrite E, str_eqb_refl in F. discriminate.
  Qed.

  Lemma jenc_nonnull f var x :
    d1_field f var x = true -> jenc (Some var) x = JNull -> x = VNone.
  Proof.
    unfold d1_field. intros Hf Hj.
    destruct (v_factory var), (v_tokens_factory var), x as [| |[|] l| | | |];
      try discriminate Hf; try discriminate Hj; try reflexivity.
    - cbn in Hf. apply andb_true_iff in Hf as [_ Hl]. destruct (leaf_facts var p Hl) as [Hs _].
      cbn [jenc] in Hj. rewrite Hj in Hs. discriminate Hs.
    - cbn in Hf. apply andb_true_iff in Hf as [_ Hd]. destruct f as [|f']; [discriminate Hd|].
      destruct (d1_value_inv f' c0 fields Hd) as [m' O']. destruct O'.
      rewrite jenc_obj_any, (jenc_obj c0 fields m') in Hj by assumption. discriminate Hj.
  Qed.

  Lemma dec_obj : forall n F cl fs, (4 * n <= F)%nat -> d1_value g fac c u n (VObj cl fs) = true ->
                                    drun' F (DBindDataclass (jenc None (VObj cl fs)) cl) = Ok (VObj cl fs).
  Proof.
    induction n as [|f IH]; intros F cl fs HF Hd; [discriminate Hd|].
    destruct (d1_value_inv f cl fs Hd) as [meta O]. destruct O.
    destruct F as [|F]; [lia|].
    rewrite (jenc_obj cl fs meta d1o_meta0). cbn [drun].
    rewrite keys_are_same, (keys_not_generic _ _ DERIVED_KEYS d1o_names0 d1o_dnames0 d1o_nder0), d1o_meta0.
    rewrite jfields_by_vars by assumption.
    set (keep := fun var => negb (drop (jenc (Some var) (field_of fs var)))).
    rewrite (bind_params_ok _ meta (get_all_vars meta) (fun var => jenc (Some var) (field_of fs var)) (field_of fs)).
    - cbn [gbind app]. unfold construct. rewrite d1o_any0, d1o_der0. f_equal. f_equal.
      etransitivity; [|symmetry; apply (fs_by_vars fs (get_all_vars meta) d1o_names0 d1o_dnames0)].
      apply map_ext_in. intros var Hin. f_equal.
      destruct (keep var) eqn:Ek.
      + rewrite (assoc_vars (field_of fs)); [reflexivity| |].
        * apply (distinct_filter v_name). exact d1o_dnames0.
        * apply filter_In. split; assumption.
      + rewrite (assoc_filter_none (field_of fs) keep) by assumption.
        destruct (d1o_fields0 var Hin) as [x [Hx Hfx]].
        assert (Efo : field_of fs var = x) by (unfold field_of; rewrite Hx; reflexivity).
        unfold keep in Ek. apply negb_false_iff in Ek. rewrite Efo in Ek. unfold drop in Ek.
        destruct fac; [discriminate Ek|].
        destruct (jenc (Some var) x) eqn:Ej; try discriminate Ek.
        pose proof (jenc_nonnull f var x Hfx Ej) as ->. rewrite Efo.
        unfold d1_field in Hfx. unfold default_value.
        destruct (v_factory var), (v_tokens_factory var); try discriminate Hfx.
        destruct (v_default var); try discriminate Hfx. reflexivity.
    - intros var Hin0. apply filter_In in Hin0 as [Hin _].
      destruct (d1o_fields0 var Hin) as [x [Hx Hfx]].
      pose proof (d1o_vars0 var Hin) as Hv. destruct (d1_var_inv var Hv).
      assert (Efo : field_of fs var = x) by (unfold field_of; rewrite Hx; reflexivity).
      split; [|split; [exact dv_init0|split; [apply d1_var_wrapper; exact Hv|]]].
      + apply find_var_hit; try assumption.
        * intros w Hw. apply d1_var_wrapper. apply d1o_vars0. exact Hw.
        * rewrite Efo. unfold d1_field in Hfx. unfold v_list_element, v_tokens.
          destruct (v_factory var), (v_tokens_factory var), x as [| |[|] l| | | |]; try discriminate Hfx; try reflexivity;
            try (cbn [jenc]; cbn in Hfx; apply andb_true_iff in Hfx as [_ Hl];
                 destruct (leaf_facts var p Hl) as [_ [_ [Hnl _]]];
                 destruct (jleaf var p) eqn:E; try reflexivity; exfalso; eapply Hnl; reflexivity).
          all: try (rewrite jenc_obj_any; cbn in Hfx; apply andb_true_iff in Hfx as [_ Hdx];
                    destruct f as [|f']; [discriminate Hdx|];
                    destruct (d1_value_inv f' c0 fields Hdx) as [m' O']; destruct O';
                    rewrite (jenc_obj c0 fields m') by assumption; reflexivity).
      + rewrite Efo. apply (dec_field f IH meta var x F Hv Hfx). lia.
    - cbn [map app]. apply (distinct_filter v_name). exact d1o_dnames0.
  Qed.

End RT.

(* ---------------------------------------------------------------- depth of the encoding (decoder fuel) *)
Lemma vdepth_list t l : vdepth (VList t l) = S (list_max (map vdepth l)).
Proof.
  cbn [vdepth]. f_equal. induction l as [|x l IH]; [reflexivity|].
  cbn [map]. unfold list_max in *. cbn [fold_right]. rewrite <- IH. reflexivity.
Qed.

Lemma vdepth_obj cl fs : vdepth (VObj cl fs) = S (list_max (map (fun kv => vdepth (snd kv)) fs)).
Proof.
  cbn [vdepth]. f_equal. induction fs as [|[k x] fs IH]; [reflexivity|].
  cbn [map snd]. unfold list_max in *. cbn [fold_right]. rewrite <- IH. reflexivity.
Qed.

Lemma jdepth_list t l : jdepth (JList t l) = S (list_max (map jdepth l)).
Proof.
  cbn [jdepth]. f_equal. induction l as [|x l IH]; [reflexivity|].
  cbn [map]. unfold list_max in *. cbn [fold_right]. rewrite <- IH. reflexivity.
Qed.

Lemma jdepth_dict m : jdepth (JDict m) = S (list_max (map (fun kv => jdepth (snd kv)) m)).
Proof.
  cbn [jdepth]. f_equal. induction m as [|[k x] m IH]; [reflexivity|].
  cbn [map snd]. unfold list_max in *. cbn [fold_right]. rewrite <- IH. reflexivity.
Qed.

Lemma list_max_mono {A} (f h : A -> nat) l :
  (forall x, In x l -> (f x <= h x)%nat) -> (list_max (map f l) <= list_max (map h l))%nat.
Proof.
  induction l as [|x l IH]; intros H; [cbn; lia|].
  cbn [map]. unfold list_max in *. cbn [fold_right].
  pose proof (H x (or_introl eq_refl)). pose proof (IH (fun y Hy => H y (or_intror Hy))). lia.
Qed.

Lemma list_max_filter {A} (f h : A -> nat) (keep : A -> bool) l :
  (forall x, In x l -> if keep x then (f x <= h x)%nat else f x = O) ->
  (list_max (map f l) <= list_max (map h (filter keep l)))%nat.
Proof.
  induction l as [|x l IH]; intros H; [cbn; lia|].
  pose proof (H x (or_introl eq_refl)) as Hx. pose proof (IH (fun y Hy => H y (or_intror Hy))) as Hl.
  cbn [map filter]. destruct (keep x); cbn [map]; unfold list_max in *; cbn [fold_right]; lia.
Qed.

Section Depth.
  Variables (g : generics) (fac : dict_factory) (c : conv) (u : universe).

  Lemma depth_item f var x :
    (forall v, d1_value g fac c u f v = true -> (vdepth v <= jdepth (jenc fac c u None v))%nat) ->
    d1_item g fac c u f var x = true -> (vdepth x <= jdepth (jenc fac c u (Some var) x))%nat.
  Proof.
    intros IH Hi. destruct x; try discriminate Hi.
    - cbn. lia.
    - cbn in Hi. apply andb_true_iff in Hi as [_ Hd]. rewrite jenc_obj_any. apply IH. exact Hd.
  Qed.

  Lemma depth_list var l (P : value -> bool) :
    forallb P l = true ->
    (forall x, P x = true -> (vdepth x <= jdepth (jenc fac c u (Some var) x))%nat) ->
    (vdepth (VList false l) <= jdepth (jenc fac c u (Some var) (VList false l)))%nat.
  Proof.
    intros Hl Hx. rewrite jenc_list, vdepth_list, jdepth_list, map_map.
    apply le_n_S. apply list_max_mono. intros x Hin. apply Hx. rewrite forallb_forall in Hl. apply Hl. exact Hin.
  Qed.

  Lemma depth_token var x : d1_token c u var x = true -> (vdepth x <= jdepth (jenc fac c u (Some var) x))%nat.
  Proof. destruct x; try discriminate. intros _. cbn. lia. Qed.

  Lemma depth_obj : forall n v, d1_value g fac c u n v = true -> (vdepth v <= jdepth (jenc fac c u None v))%nat.
  Proof.
    induction n as [|f IH]; intros v Hd; [discriminate Hd|].
    destruct v as [| | |cl fs| | |]; try discriminate Hd.
    destruct (d1_value_inv g fac c u f cl fs Hd) as [meta O]. destruct O.
    rewrite (jenc_obj fac c u cl fs meta d1o_meta0), (jfields_by_vars fac c u fs (get_all_vars meta)) by assumption.
    rewrite (fs_by_vars fs (get_all_vars meta) d1o_names0 d1o_dnames0) at 1.
    rewrite vdepth_obj, jdepth_dict, !map_map. cbn [snd].
    apply le_n_S. apply list_max_filter. intros var Hin.
    destruct (d1o_fields0 var Hin) as [x [Hx Hfx]].
    assert (Efo : field_of fs var = x) by (unfold field_of; rewrite Hx; reflexivity). rewrite Efo.
    destruct (negb (drop fac (jenc fac c u (Some var) x))) eqn:Ek.
    2:{ apply negb_false_iff in Ek. unfold drop in Ek. destruct fac; [discriminate Ek|].
        destruct (jenc FFilterNone c u (Some var) x) eqn:Ej; try discriminate Ek.
        rewrite (jenc_nonnull g FFilterNone c u f var x Hfx Ej). reflexivity. }
    unfold d1_field in Hfx.
    destruct (v_factory var), (v_tokens_factory var).
    - destruct x as [| |[|] l| | | |]; try discriminate Hfx.
      apply (depth_list var l _ Hfx). intros y Hy. destruct y as [| |[|] l'| | | |]; try discriminate Hy.
      apply (depth_list var l' _ Hy). intros z Hz. apply depth_token. exact Hz.
    - destruct x as [| |[|] l| | | |]; try discriminate Hfx.
      apply (depth_list var l _ Hfx). intros y Hy. apply (depth_item f); assumption.
    - destruct x as [| |[|] l| | | |]; try discriminate Hfx.
      apply (depth_list var l _ Hfx). intros y Hy. apply depth_token. exact Hy.
    - destruct x; try (apply (depth_item f); assumption). cbn. lia.
  Qed.
End Depth.

(* ================================================================ the theorems *)
(* both dictionary factories; inside the slice a None only sits where the default is None, so
   "absent keys decode to the field defaults" gives the instance back *)
Theorem dict_roundtrip_factory (g : generics) (fac : dict_factory) (c : conv) (u : universe) (cl : cls) (fs : list (str * value)) :
  d1_value g fac c u (S (vdepth (VObj cl fs))) (VObj cl fs) = true ->
  exists j, encode g fac false c u (VObj cl fs) = Ok j
            /\ decode g c u cl false j = Ok (VObj cl fs).
Proof.
  intros Hd. exists (jenc fac c u None (VObj cl fs)). split.
  - unfold encode, encode_fuel.
    remember (6 * S (vdepth (VObj cl fs)))%nat as F eqn:EF.
    destruct F as [|F]; [lia|]. cbn [erun].
    apply (enc_obj g fac c u (S (vdepth (VObj cl fs)))); [lia|exact Hd].
  - pose proof (depth_obj g fac c u _ _ Hd) as Hdepth.
    destruct (d1_value_inv g fac c u _ cl fs Hd) as [meta O]. destruct O.
    unfold decode. rewrite (jenc_obj fac c u cl fs meta d1o_meta0).
    rewrite <- (jenc_obj fac c u cl fs meta d1o_meta0).
    change (match jenc fac c u None (VObj cl fs) with JDict _ => _ | _ => _ end) with
        (drun g c u false (decode_fuel (jenc fac c u None (VObj cl fs))) (DBindDataclass (jenc fac c u None (VObj cl fs)) cl)).
    apply (dec_obj g fac c u false (S (vdepth (VObj cl fs)))); [|exact Hd].
    unfold decode_fuel. lia.
Qed.

Theorem dict_roundtrip (g : generics) (c : conv) (u : universe) (cl : cls) (fs : list (str * value)) :
  d1_value g FDict c u (S (vdepth (VObj cl fs))) (VObj cl fs) = true ->
  exists j, encode g FDict false c u (VObj cl fs) = Ok j /\ decode g c u cl false j = Ok (VObj cl fs).
Proof. apply dict_roundtrip_factory. Qed.

Theorem dict_roundtrip_filter_none (g : generics) (c : conv) (u : universe) (cl : cls) (fs : list (str * value)) :
  d1_value g FFilterNone c u (S (vdepth (VObj cl fs))) (VObj cl fs) = true ->
  exists j, encode g FFilterNone false c u (VObj cl fs) = Ok j /\ decode g c u cl false j = Ok (VObj cl fs).
Proof. apply dict_roundtrip_factory. Qed.

(* ---------------------------------------------------------------- list-of-models documents *)
Lemma list_max_ge {A} (f : A -> nat) l x : In x l -> (f x <= list_max (map f l))%nat.
Proof.
  induction l as [|y l IH]; intros Hin; [contradiction|]. cbn [map]. unfold list_max in *. cbn [fold_right].
  destruct Hin as [->|Hin]; [lia|]. pose proof (IH Hin). lia.
Qed.

Theorem dict_roundtrip_list (g : generics) (fac : dict_factory) (c : conv) (u : universe) (cl : cls) (l : list value) :
  (forall o, In o l -> exists fs, o = VObj cl fs /\ d1_value g fac c u (S (vdepth o)) o = true) ->
  exists j, encode g fac false c u (VList false l) = Ok j
            /\ decode g c u cl true j = Ok (VList false l).
Proof.
  intros H. exists (JList false (map (jenc fac c u None) l)). split.
  - unfold encode, encode_fuel. rewrite vdepth_list.
    remember (6 * S (S (list_max (map vdepth l))))%nat as F eqn:EF.
    destruct F as [|F]; [lia|]. cbn [erun].
    rewrite (mapM_ok _ (jenc fac c u None) l); [reflexivity|].
    intros o Hin. destruct (H o Hin) as [fs [-> Hd]].
    destruct F as [|F]; [lia|]. cbn [erun].
    apply (enc_obj g fac c u (S (vdepth (VObj cl fs)))); [|exact Hd].
    pose proof (list_max_ge vdepth l _ Hin). lia.
  - unfold decode.
    rewrite (mapM_map_ok _ (jenc fac c u None) l); [reflexivity|].
    intros o Hin. destruct (H o Hin) as [fs [-> Hd]].
    apply (dec_obj g fac c u false (S (vdepth (VObj cl fs)))); [|exact Hd].
    unfold decode_fuel. rewrite jdepth_list, map_map.
    pose proof (depth_obj g fac c u _ _ Hd).
    pose proof (list_max_ge (fun x => jdepth (jenc fac c u None x)) l _ Hin). lia.
Qed.
