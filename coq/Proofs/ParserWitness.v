(* Proofs/ParserWitness.v — concrete binding models (exported from the REAL XmlContext by
   harness/impl_parser_witness.py, EXTRA models `required`, `wildtail`, `anytype`,
   `noinitwild`, `scalarwild` of harness/impl_parser.py), the parser events the real handlers
   recorded for the witness documents, the recorded conversion tables and the outcomes
   observed on the real code.  The same documents are replayed on the implementation by
   ./check C10 / C15 on every run (WITNESS / WITNESS_EVENTS / WITNESS_C10), with the live
   metadata.

   History: the first four witnesses were refutations of C15's `outcome_documented`
   (TypeError from cls( **params), from the bytes wrapper of StandardNode, from
   match_namespace(None)); they were repaired in /repo (24a005e, 32d0281, 8cca284) and are
   kept here as REGRESSION examples: model = observation, and the outcome is documented. *)
From Coq Require Import NArith ZArith List Bool.
From XV Require Import Base.Str Base.Eqb Model.Bind Model.Parser Model.ParserCorr Spec.Inject.
Import ListNotations.
Open Scope N_scope.

Definition dt_table : list (qname * option (ptype * option str * option ptype)) := [([123;104;116;116;112;58;47;47;119;119;119;46;119;51;46;111;114;103;47;50;48;48;49;47;88;77;76;83;99;104;101;109;97;125;115;116;114;105;110;103]%N, Some (TStr, None, None)); ([123;104;116;116;112;58;47;47;119;119;119;46;119;51;46;111;114;103;47;50;48;48;49;47;88;77;76;83;99;104;101;109;97;125;98;111;111;108;101;97;110]%N, Some (TBool, None, None)); ([123;104;116;116;112;58;47;47;119;119;119;46;119;51;46;111;114;103;47;50;48;48;49;47;88;77;76;83;99;104;101;109;97;125;100;101;99;105;109;97;108]%N, Some (TDecimal, None, None)); ([123;104;116;116;112;58;47;47;119;119;119;46;119;51;46;111;114;103;47;50;48;48;49;47;88;77;76;83;99;104;101;109;97;125;102;108;111;97;116]%N, Some (TFloat, None, None)); ([123;104;116;116;112;58;47;47;119;119;119;46;119;51;46;111;114;103;47;50;48;48;49;47;88;77;76;83;99;104;101;109;97;125;100;111;117;98;108;101]%N, Some (TFloat, None, None)); ([123;104;116;116;112;58;47;47;119;119;119;46;119;51;46;111;114;103;47;50;48;48;49;47;88;77;76;83;99;104;101;109;97;125;100;117;114;97;116;105;111;110]%N, Some (TXmlDuration, None, None)); ([123;104;116;116;112;58;47;47;119;119;119;46;119;51;46;111;114;103;47;50;48;48;49;47;88;77;76;83;99;104;101;109;97;125;100;97;116;101;84;105;109;101]%N, Some (TXmlDateTime, None, None)); ([123;104;116;116;112;58;47;47;119;119;119;46;119;51;46;111;114;103;47;50;48;48;49;47;88;77;76;83;99;104;101;109;97;125;116;105;109;101]%N, Some (TXmlTime, None, None)); ([123;104;116;116;112;58;47;47;119;119;119;46;119;51;46;111;114;103;47;50;48;48;49;47;88;77;76;83;99;104;101;109;97;125;100;97;116;101]%N, Some (TXmlDate, None, None)); ([123;104;116;116;112;58;47;47;119;119;119;46;119;51;46;111;114;103;47;50;48;48;49;47;88;77;76;83;99;104;101;109;97;125;103;89;101;97;114;77;111;110;116;104]%N, Some (TXmlPeriod, None, None)); ([123;104;116;116;112;58;47;47;119;119;119;46;119;51;46;111;114;103;47;50;48;48;49;47;88;77;76;83;99;104;101;109;97;125;103;89;101;97;114]%N, Some (TXmlPeriod, None, None)); ([123;104;116;116;112;58;47;47;119;119;119;46;119;51;46;111;114;103;47;50;48;48;49;47;88;77;76;83;99;104;101;109;97;125;103;77;111;110;116;104;68;97;121]%N, Some (TXmlPeriod, None, None)); ([123;104;116;116;112;58;47;47;119;119;119;46;119;51;46;111;114;103;47;50;48;48;49;47;88;77;76;83;99;104;101;109;97;125;103;77;111;110;116;104]%N, Some (TXmlPeriod, None, None)); ([123;104;116;116;112;58;47;47;119;119;119;46;119;51;46;111;114;103;47;50;48;48;49;47;88;77;76;83;99;104;101;109;97;125;103;68;97;121]%N, Some (TXmlPeriod, None, None)); ([123;104;116;116;112;58;47;47;119;119;119;46;119;51;46;111;114;103;47;50;48;48;49;47;88;77;76;83;99;104;101;109;97;125;104;101;120;66;105;110;97;114;121]%N, Some (TBytes, (Some [98;97;115;101;49;54]%N), (Some TBytes))); ([123;104;116;116;112;58;47;47;119;119;119;46;119;51;46;111;114;103;47;50;48;48;49;47;88;77;76;83;99;104;101;109;97;125;98;97;115;101;54;52;66;105;110;97;114;121]%N, Some (TBytes, (Some [98;97;115;101;54;52]%N), (Some TBytes))); ([123;104;116;116;112;58;47;47;119;119;119;46;119;51;46;111;114;103;47;50;48;48;49;47;88;77;76;83;99;104;101;109;97;125;97;110;121;85;82;73]%N, Some (TStr, None, None)); ([123;104;116;116;112;58;47;47;119;119;119;46;119;51;46;111;114;103;47;50;48;48;49;47;88;77;76;83;99;104;101;109;97;125;81;78;97;109;101]%N, Some (TQName, None, None)); ([123;104;116;116;112;58;47;47;119;119;119;46;119;51;46;111;114;103;47;50;48;48;49;47;88;77;76;83;99;104;101;109;97;125;78;79;84;65;84;73;79;78]%N, Some (TQName, None, None)); ([123;104;116;116;112;58;47;47;119;119;119;46;119;51;46;111;114;103;47;50;48;48;49;47;88;77;76;83;99;104;101;109;97;125;110;111;114;109;97;108;105;122;101;100;83;116;114;105;110;103]%N, Some (TStr, None, None)); ([123;104;116;116;112;58;47;47;119;119;119;46;119;51;46;111;114;103;47;50;48;48;49;47;88;77;76;83;99;104;101;109;97;125;116;111;107;101;110]%N, Some (TStr, None, None)); ([123;104;116;116;112;58;47;47;119;119;119;46;119;51;46;111;114;103;47;50;48;48;49;47;88;77;76;83;99;104;101;109;97;125;108;97;110;103;117;97;103;101]%N, Some (TStr, None, None)); ([123;104;116;116;112;58;47;47;119;119;119;46;119;51;46;111;114;103;47;50;48;48;49;47;88;77;76;83;99;104;101;109;97;125;78;77;84;79;75;69;78]%N, Some (TStr, None, None)); ([123;104;116;116;112;58;47;47;119;119;119;46;119;51;46;111;114;103;47;50;48;48;49;47;88;77;76;83;99;104;101;109;97;125;78;77;84;79;75;69;78;83]%N, Some (TStr, None, None)); ([123;104;116;116;112;58;47;47;119;119;119;46;119;51;46;111;114;103;47;50;48;48;49;47;88;77;76;83;99;104;101;109;97;125;78;97;109;101]%N, Some (TStr, None, None)); ([123;104;116;116;112;58;47;47;119;119;119;46;119;51;46;111;114;103;47;50;48;48;49;47;88;77;76;83;99;104;101;109;97;125;78;67;78;97;109;101]%N, Some (TStr, None, None)); ([123;104;116;116;112;58;47;47;119;119;119;46;119;51;46;111;114;103;47;50;48;48;49;47;88;77;76;83;99;104;101;109;97;125;73;68]%N, Some (TStr, None, None)); ([123;104;116;116;112;58;47;47;119;119;119;46;119;51;46;111;114;103;47;50;48;48;49;47;88;77;76;83;99;104;101;109;97;125;73;68;82;69;70]%N, Some (TStr, None, None)); ([123;104;116;116;112;58;47;47;119;119;119;46;119;51;46;111;114;103;47;50;48;48;49;47;88;77;76;83;99;104;101;109;97;125;73;68;82;69;70;83]%N, Some (TStr, None, None)); ([123;104;116;116;112;58;47;47;119;119;119;46;119;51;46;111;114;103;47;50;48;48;49;47;88;77;76;83;99;104;101;109;97;125;69;78;84;73;84;73;69;83]%N, Some (TStr, None, None)); ([123;104;116;116;112;58;47;47;119;119;119;46;119;51;46;111;114;103;47;50;48;48;49;47;88;77;76;83;99;104;101;109;97;125;69;78;84;73;84;89]%N, Some (TStr, None, None)); ([123;104;116;116;112;58;47;47;119;119;119;46;119;51;46;111;114;103;47;50;48;48;49;47;88;77;76;83;99;104;101;109;97;125;105;110;116;101;103;101;114]%N, Some (TInt, None, None)); ([123;104;116;116;112;58;47;47;119;119;119;46;119;51;46;111;114;103;47;50;48;48;49;47;88;77;76;83;99;104;101;109;97;125;110;111;110;80;111;115;105;116;105;118;101;73;110;116;101;103;101;114]%N, Some (TInt, None, None)); ([123;104;116;116;112;58;47;47;119;119;119;46;119;51;46;111;114;103;47;50;48;48;49;47;88;77;76;83;99;104;101;109;97;125;110;101;103;97;116;105;118;101;73;110;116;101;103;101;114]%N, Some (TInt, None, None)); ([123;104;116;116;112;58;47;47;119;119;119;46;119;51;46;111;114;103;47;50;48;48;49;47;88;77;76;83;99;104;101;109;97;125;108;111;110;103]%N, Some (TInt, None, None)); ([123;104;116;116;112;58;47;47;119;119;119;46;119;51;46;111;114;103;47;50;48;48;49;47;88;77;76;83;99;104;101;109;97;125;105;110;116]%N, Some (TInt, None, None)); ([123;104;116;116;112;58;47;47;119;119;119;46;119;51;46;111;114;103;47;50;48;48;49;47;88;77;76;83;99;104;101;109;97;125;115;104;111;114;116]%N, Some (TInt, None, None)); ([123;104;116;116;112;58;47;47;119;119;119;46;119;51;46;111;114;103;47;50;48;48;49;47;88;77;76;83;99;104;101;109;97;125;98;121;116;101]%N, Some (TInt, None, None)); ([123;104;116;116;112;58;47;47;119;119;119;46;119;51;46;111;114;103;47;50;48;48;49;47;88;77;76;83;99;104;101;109;97;125;110;111;110;78;101;103;97;116;105;118;101;73;110;116;101;103;101;114]%N, Some (TInt, None, None)); ([123;104;116;116;112;58;47;47;119;119;119;46;119;51;46;111;114;103;47;50;48;48;49;47;88;77;76;83;99;104;101;109;97;125;117;110;115;105;103;110;101;100;76;111;110;103]%N, Some (TInt, None, None)); ([123;104;116;116;112;58;47;47;119;119;119;46;119;51;46;111;114;103;47;50;48;48;49;47;88;77;76;83;99;104;101;109;97;125;117;110;115;105;103;110;101;100;73;110;116]%N, Some (TInt, None, None)); ([123;104;116;116;112;58;47;47;119;119;119;46;119;51;46;111;114;103;47;50;48;48;49;47;88;77;76;83;99;104;101;109;97;125;117;110;115;105;103;110;101;100;83;104;111;114;116]%N, Some (TInt, None, None)); ([123;104;116;116;112;58;47;47;119;119;119;46;119;51;46;111;114;103;47;50;48;48;49;47;88;77;76;83;99;104;101;109;97;125;117;110;115;105;103;110;101;100;66;121;116;101]%N, Some (TInt, None, None)); ([123;104;116;116;112;58;47;47;119;119;119;46;119;51;46;111;114;103;47;50;48;48;49;47;88;77;76;83;99;104;101;109;97;125;112;111;115;105;116;105;118;101;73;110;116;101;103;101;114]%N, Some (TInt, None, None)); ([123;104;116;116;112;58;47;47;119;119;119;46;119;51;46;111;114;103;47;50;48;48;49;47;88;77;76;83;99;104;101;109;97;125;100;97;116;101;84;105;109;101;83;116;97;109;112]%N, Some (TXmlDateTime, None, None)); ([123;104;116;116;112;58;47;47;119;119;119;46;119;51;46;111;114;103;47;50;48;48;49;47;88;77;76;83;99;104;101;109;97;125;100;97;121;84;105;109;101;68;117;114;97;116;105;111;110]%N, Some (TXmlDuration, None, None)); ([123;104;116;116;112;58;47;47;119;119;119;46;119;51;46;111;114;103;47;50;48;48;49;47;88;77;76;83;99;104;101;109;97;125;121;101;97;114;77;111;110;116;104;68;117;114;97;116;105;111;110]%N, Some (TXmlDuration, None, None)); ([123;104;116;116;112;58;47;47;119;119;119;46;119;51;46;111;114;103;47;50;48;48;49;47;88;77;76;83;99;104;101;109;97;125;97;110;121;84;121;112;101]%N, Some (TObject, None, None)); ([123;104;116;116;112;58;47;47;119;119;119;46;119;51;46;111;114;103;47;50;48;48;49;47;88;77;76;83;99;104;101;109;97;125;97;110;121;65;116;111;109;105;99;84;121;112;101]%N, Some (TStr, None, None)); ([123;104;116;116;112;58;47;47;119;119;119;46;119;51;46;111;114;103;47;50;48;48;49;47;88;77;76;83;99;104;101;109;97;125;97;110;121;83;105;109;112;108;101;84;121;112;101]%N, Some (TObject, None, None)); ([123;104;116;116;112;58;47;47;119;119;119;46;119;51;46;111;114;103;47;50;48;48;49;47;88;77;76;83;99;104;101;109;97;125;101;114;114;111;114]%N, Some (TStr, None, None))].
(* ---- model `required`:

@dataclass
class Inner:
    v: int = field(metadata={"type": "Attribute"})

@dataclass
class R:
    a: int = field(metadata={"type": "Element"})
    b: Optional[str] = field(default=None, metadata={"type": "Element"})
    i: Optional[Inner] = field(default=None, metadata={"type": "Element"})
*)
Definition u_required : universe := (mk_universe [(1%N, (mk_xmeta 1%N [73;110;110;101;114]%N (Some [73;110;110;101;114]%N) false None (@nil (xvar)) (@nil (qname * list xvar)) (@nil (xvar)) [([118]%N, (mk_xvar 1%N [118]%N [118]%N [118]%N None KAttribute [TInt] None true false None None None false [115;116;114;105;99;116]%N true false None DNone (@nil (str)) (@nil (qname * xvar)) (@nil (xvar))))] (@nil (xvar)) (@nil (qname * qname)) None false)); (2%N, (mk_xmeta 2%N [82]%N (Some [82]%N) false None (@nil (xvar)) [([97]%N, [(mk_xvar 1%N [97]%N [97]%N [97]%N None KElement [TInt] None true false None None None false [115;116;114;105;99;116]%N true false None DNone (@nil (str)) (@nil (qname * xvar)) (@nil (xvar)))]); ([98]%N, [(mk_xvar 2%N [98]%N [98]%N [98]%N None KElement [TStr] None true false None None None false [115;116;114;105;99;116]%N false false None DNone (@nil (str)) (@nil (qname * xvar)) (@nil (xvar)))]); ([105]%N, [(mk_xvar 3%N [105]%N [105]%N [105]%N None KElement [(TClass 1%N)] (Some 1%N) true false None None None false [115;116;114;105;99;116]%N false false None DNone (@nil (str)) (@nil (qname * xvar)) (@nil (xvar)))])] (@nil (xvar)) (@nil (qname * xvar)) (@nil (xvar)) (@nil (qname * qname)) None false))] [(1%N, [1%N]); (2%N, [2%N])] [(1%N, (@nil (N))); (2%N, (@nil (N)))] [([73;110;110;101;114]%N, [1%N]); ([82]%N, [2%N])] (@nil (enum_def)) [(1%N, [73;110;110;101;114]%N); (2%N, [82]%N)]).
Definition nodefault_required : list (cls * list str) := [(1%N, [[118]%N]); (2%N, [[97]%N])].
Definition root_required : cls := 2%N.
(* <R/>  ->  err ParserError R.__init__() missing 1 required positional argument: 'a' *)
Definition ev_missing_required : list pevent := [PStart [82]%N (@nil (qname * str)) (@nil (option str * str)); PEnd [82]%N None None].
Definition tbl_missing_required : conv_table := (mk_conv_table (@nil (list ptype * option str * nsmap * str * option prim)) (@nil (option str * prim * str)) [] [] dt_table).
Definition obs_missing_required : outcome := (Err ParserError).
(* <R><a>1</a><i/></R>  ->  err ParserError Inner.__init__() missing 1 required positional argument: 'v' *)
Definition ev_missing_required_inner : list pevent := [PStart [82]%N (@nil (qname * str)) (@nil (option str * str)); PStart [97]%N (@nil (qname * str)) (@nil (option str * str)); PEnd [97]%N (Some [49]%N) None; PStart [105]%N (@nil (qname * str)) (@nil (option str * str)); PEnd [105]%N None None].
Definition tbl_missing_required_inner : conv_table := (mk_conv_table [([TInt], None, (@nil (option str * str)), [49]%N, (Some (PInt (1)%Z)))] (@nil (option str * prim * str)) [] [] dt_table).
Definition obs_missing_required_inner : outcome := (Err ParserError).
(* events [['end', 'R', None, None]]  ->  err IndexError pop from empty list *)
Definition ev_end_without_start : list pevent := [PEnd [82]%N None None].
Definition tbl_end_without_start : conv_table := (mk_conv_table (@nil (list ptype * option str * nsmap * str * option prim)) (@nil (option str * prim * str)) [] [] dt_table).
Definition obs_end_without_start : outcome := (Err PyIndexError).
(* events [['start', 'R', [], []], ['start', 'a', [], []], ['end', 'a', '1', None], ['end', 'R', None, None], ['end', 'R', None, None]]  ->  err IndexError pop from empty list *)
Definition ev_end_after_root : list pevent := [PStart [82]%N (@nil (qname * str)) (@nil (option str * str)); PStart [97]%N (@nil (qname * str)) (@nil (option str * str)); PEnd [97]%N (Some [49]%N) None; PEnd [82]%N None None; PEnd [82]%N None None].
Definition tbl_end_after_root : conv_table := (mk_conv_table [([TInt], None, (@nil (option str * str)), [49]%N, (Some (PInt (1)%Z)))] (@nil (option str * prim * str)) [] [] dt_table).
Definition obs_end_after_root : outcome := (Err PyIndexError).
(* ---- model `wildtail`:

@dataclass
class C:
    v: Optional[str] = field(default=None, metadata={"type": "Attribute"})

@dataclass
class W:
    c: Optional[C] = field(default=None, metadata={"type": "Element"})
    d: list[int] = field(default_factory=list, metadata={"type": "Element"})
    any: Optional[object] = field(default=None, metadata={"type": "Wildcard", "namespace": "##other"})
*)
Definition u_wildtail : universe := (mk_universe [(1%N, (mk_xmeta 1%N [67]%N (Some [67]%N) false None (@nil (xvar)) (@nil (qname * list xvar)) (@nil (xvar)) [([118]%N, (mk_xvar 1%N [118]%N [118]%N [118]%N None KAttribute [TStr] None true false None None None false [115;116;114;105;99;116]%N false false None DNone (@nil (str)) (@nil (qname * xvar)) (@nil (xvar))))] (@nil (xvar)) (@nil (qname * qname)) None false)); (2%N, (mk_xmeta 2%N [87]%N (Some [87]%N) false None (@nil (xvar)) [([99]%N, [(mk_xvar 1%N [99]%N [99]%N [99]%N None KElement [(TClass 1%N)] (Some 1%N) true false None None None false [115;116;114;105;99;116]%N false false None DNone (@nil (str)) (@nil (qname * xvar)) (@nil (xvar)))]); ([100]%N, [(mk_xvar 2%N [100]%N [100]%N [100]%N None KElement [TInt] None true false (Some FList) None None false [115;116;114;105;99;116]%N false false None DFactoryList (@nil (str)) (@nil (qname * xvar)) (@nil (xvar)))])] [(mk_xvar 3%N [97;110;121]%N [97;110;121]%N [123;33;125;97;110;121]%N None KWildcard [TObject] None true false None None None false [115;116;114;105;99;116]%N false false None DNone [[33]%N] (@nil (qname * xvar)) (@nil (xvar)))] (@nil (qname * xvar)) (@nil (xvar)) (@nil (qname * qname)) None false))] [(1%N, [1%N]); (2%N, [2%N])] [(1%N, (@nil (N))); (2%N, (@nil (N)))] [([67]%N, [1%N]); ([87]%N, [2%N])] (@nil (enum_def)) [(1%N, [67]%N); (2%N, [87]%N)]).
Definition nodefault_wildtail : list (cls * list str) := (@nil (cls * list str)).
Definition root_wildtail : cls := 2%N.
(* <W><c/>tail</W>  ->  ok None None *)
Definition ev_tail_none_qname : list pevent := [PStart [87]%N (@nil (qname * str)) (@nil (option str * str)); PStart [99]%N (@nil (qname * str)) (@nil (option str * str)); PEnd [99]%N None (Some [116;97;105;108]%N); PEnd [87]%N None None].
Definition tbl_tail_none_qname : conv_table := (mk_conv_table (@nil (list ptype * option str * nsmap * str * option prim)) (@nil (option str * prim * str)) [] [] dt_table).
Definition obs_tail_none_qname : outcome := (Ok (VObj 2%N [([99]%N, (VObj 1%N [([118]%N, VNone)])); ([100]%N, (VList false (@nil (value)))); ([97;110;121]%N, VNone)]) [WUnassigned None]).
(* ---- model `anytype`:

@dataclass
class T:
    x: Optional[object] = field(default=None, metadata={"type": "Element"})
    y: list[object] = field(default_factory=list, metadata={"type": "Element", "nillable": True})
    w: list[object] = field(default_factory=list, metadata={"type": "Wildcard"})
*)
Definition u_anytype : universe := (mk_universe [(1%N, (mk_xmeta 1%N [84]%N (Some [84]%N) false None (@nil (xvar)) [([120]%N, [(mk_xvar 1%N [120]%N [120]%N [120]%N None KElement [TObject] None true false None None None true [115;116;114;105;99;116]%N false false None DNone (@nil (str)) (@nil (qname * xvar)) (@nil (xvar)))]); ([121]%N, [(mk_xvar 2%N [121]%N [121]%N [121]%N None KElement [TObject] None true false (Some FList) None None true [115;116;114;105;99;116]%N false true None DFactoryList (@nil (str)) (@nil (qname * xvar)) (@nil (xvar)))])] [(mk_xvar 3%N [119]%N [119]%N [119]%N None KWildcard [TObject] None true false (Some FList) None None false [115;116;114;105;99;116]%N false false None DFactoryList (@nil (str)) (@nil (qname * xvar)) (@nil (xvar)))] (@nil (qname * xvar)) (@nil (xvar)) (@nil (qname * qname)) None false))] [(1%N, [1%N])] [(1%N, (@nil (N)))] [([84]%N, [1%N])] (@nil (enum_def)) [(1%N, [84]%N)]).
Definition nodefault_anytype : list (cls * list str) := (@nil (cls * list str)).
Definition root_anytype : cls := 1%N.
(* <T xmlns:xs="http://www.w3.org/2001/XMLSchema" xmlns:xsi="http://www.w3.org/2001/XMLSchema-instance"><x xsi:type="xs:hexBinary"/></T>  ->  ok None None *)
Definition ev_bytes_wrapper_empty : list pevent := [PStartNs (Some [120;115]%N) [104;116;116;112;58;47;47;119;119;119;46;119;51;46;111;114;103;47;50;48;48;49;47;88;77;76;83;99;104;101;109;97]%N; PStartNs (Some [120;115;105]%N) [104;116;116;112;58;47;47;119;119;119;46;119;51;46;111;114;103;47;50;48;48;49;47;88;77;76;83;99;104;101;109;97;45;105;110;115;116;97;110;99;101]%N; PStart [84]%N (@nil (qname * str)) [((Some [120;115]%N), [104;116;116;112;58;47;47;119;119;119;46;119;51;46;111;114;103;47;50;48;48;49;47;88;77;76;83;99;104;101;109;97]%N); ((Some [120;115;105]%N), [104;116;116;112;58;47;47;119;119;119;46;119;51;46;111;114;103;47;50;48;48;49;47;88;77;76;83;99;104;101;109;97;45;105;110;115;116;97;110;99;101]%N)]; PStart [120]%N [([123;104;116;116;112;58;47;47;119;119;119;46;119;51;46;111;114;103;47;50;48;48;49;47;88;77;76;83;99;104;101;109;97;45;105;110;115;116;97;110;99;101;125;116;121;112;101]%N, [120;115;58;104;101;120;66;105;110;97;114;121]%N)] [((Some [120;115]%N), [104;116;116;112;58;47;47;119;119;119;46;119;51;46;111;114;103;47;50;48;48;49;47;88;77;76;83;99;104;101;109;97]%N); ((Some [120;115;105]%N), [104;116;116;112;58;47;47;119;119;119;46;119;51;46;111;114;103;47;50;48;48;49;47;88;77;76;83;99;104;101;109;97;45;105;110;115;116;97;110;99;101]%N)]; PEnd [120]%N None None; PEnd [84]%N None None].
Definition tbl_bytes_wrapper_empty : conv_table := (mk_conv_table [([TQName], None, [((Some [120;115]%N), [104;116;116;112;58;47;47;119;119;119;46;119;51;46;111;114;103;47;50;48;48;49;47;88;77;76;83;99;104;101;109;97]%N); ((Some [120;115;105]%N), [104;116;116;112;58;47;47;119;119;119;46;119;51;46;111;114;103;47;50;48;48;49;47;88;77;76;83;99;104;101;109;97;45;105;110;115;116;97;110;99;101]%N)], [120;115;58;104;101;120;66;105;110;97;114;121]%N, (Some (PQName [123;104;116;116;112;58;47;47;119;119;119;46;119;51;46;111;114;103;47;50;48;48;49;47;88;77;76;83;99;104;101;109;97;125;104;101;120;66;105;110;97;114;121]%N)))] (@nil (option str * prim * str)) [] [] dt_table).
Definition obs_bytes_wrapper_empty : outcome := (Ok (VObj 1%N [([120]%N, (VP (PStr (@nil N)))); ([121]%N, (VList false (@nil (value)))); ([119]%N, (VList false (@nil (value))))]) (@nil (warning))).
(* <T xmlns:xs="http://www.w3.org/2001/XMLSchema" xmlns:xsi="http://www.w3.org/2001/XMLSchema-instance"><x xsi:type="xs:base64Binary">z</x></T>  ->  ok None None *)
Definition ev_bytes_wrapper_unconvertible : list pevent := [PStartNs (Some [120;115]%N) [104;116;116;112;58;47;47;119;119;119;46;119;51;46;111;114;103;47;50;48;48;49;47;88;77;76;83;99;104;101;109;97]%N; PStartNs (Some [120;115;105]%N) [104;116;116;112;58;47;47;119;119;119;46;119;51;46;111;114;103;47;50;48;48;49;47;88;77;76;83;99;104;101;109;97;45;105;110;115;116;97;110;99;101]%N; PStart [84]%N (@nil (qname * str)) [((Some [120;115]%N), [104;116;116;112;58;47;47;119;119;119;46;119;51;46;111;114;103;47;50;48;48;49;47;88;77;76;83;99;104;101;109;97]%N); ((Some [120;115;105]%N), [104;116;116;112;58;47;47;119;119;119;46;119;51;46;111;114;103;47;50;48;48;49;47;88;77;76;83;99;104;101;109;97;45;105;110;115;116;97;110;99;101]%N)]; PStart [120]%N [([123;104;116;116;112;58;47;47;119;119;119;46;119;51;46;111;114;103;47;50;48;48;49;47;88;77;76;83;99;104;101;109;97;45;105;110;115;116;97;110;99;101;125;116;121;112;101]%N, [120;115;58;98;97;115;101;54;52;66;105;110;97;114;121]%N)] [((Some [120;115]%N), [104;116;116;112;58;47;47;119;119;119;46;119;51;46;111;114;103;47;50;48;48;49;47;88;77;76;83;99;104;101;109;97]%N); ((Some [120;115;105]%N), [104;116;116;112;58;47;47;119;119;119;46;119;51;46;111;114;103;47;50;48;48;49;47;88;77;76;83;99;104;101;109;97;45;105;110;115;116;97;110;99;101]%N)]; PEnd [120]%N (Some [122]%N) None; PEnd [84]%N None None].
Definition tbl_bytes_wrapper_unconvertible : conv_table := (mk_conv_table [([TQName], None, [((Some [120;115]%N), [104;116;116;112;58;47;47;119;119;119;46;119;51;46;111;114;103;47;50;48;48;49;47;88;77;76;83;99;104;101;109;97]%N); ((Some [120;115;105]%N), [104;116;116;112;58;47;47;119;119;119;46;119;51;46;111;114;103;47;50;48;48;49;47;88;77;76;83;99;104;101;109;97;45;105;110;115;116;97;110;99;101]%N)], [120;115;58;98;97;115;101;54;52;66;105;110;97;114;121]%N, (Some (PQName [123;104;116;116;112;58;47;47;119;119;119;46;119;51;46;111;114;103;47;50;48;48;49;47;88;77;76;83;99;104;101;109;97;125;98;97;115;101;54;52;66;105;110;97;114;121]%N))); ([TBytes], (Some [98;97;115;101;54;52]%N), [((Some [120;115]%N), [104;116;116;112;58;47;47;119;119;119;46;119;51;46;111;114;103;47;50;48;48;49;47;88;77;76;83;99;104;101;109;97]%N); ((Some [120;115;105]%N), [104;116;116;112;58;47;47;119;119;119;46;119;51;46;111;114;103;47;50;48;48;49;47;88;77;76;83;99;104;101;109;97;45;105;110;115;116;97;110;99;101]%N)], [122]%N, None)] (@nil (option str * prim * str)) [] [] dt_table).
Definition obs_bytes_wrapper_unconvertible : outcome := (Ok (VObj 1%N [([120]%N, (VP (PStr [122]%N))); ([121]%N, (VList false (@nil (value)))); ([119]%N, (VList false (@nil (value))))]) [WConv 1%N [120]%N]).
(* ---- model `noinitwild`:

@dataclass
class NW:
    a: Optional[int] = field(default=None, metadata={"type": "Element"})
    any: Optional[object] = field(init=False, default=None, metadata={"type": "Wildcard"})
*)
Definition u_noinitwild : universe := (mk_universe [(1%N, (mk_xmeta 1%N [78;87]%N (Some [78;87]%N) false None (@nil (xvar)) [([97]%N, [(mk_xvar 1%N [97]%N [97]%N [97]%N None KElement [TInt] None true false None None None false [115;116;114;105;99;116]%N false false None DNone (@nil (str)) (@nil (qname * xvar)) (@nil (xvar)))])] [(mk_xvar 2%N [97;110;121]%N [97;110;121]%N [97;110;121]%N None KWildcard [TObject] None false false None None None false [115;116;114;105;99;116]%N false false None DNone (@nil (str)) (@nil (qname * xvar)) (@nil (xvar)))] (@nil (qname * xvar)) (@nil (xvar)) (@nil (qname * qname)) None false))] [(1%N, [1%N])] [(1%N, (@nil (N)))] [([78;87]%N, [1%N])] (@nil (enum_def)) [(1%N, [78;87]%N)]).
Definition nodefault_noinitwild : list (cls * list str) := (@nil (cls * list str)).
Definition root_noinitwild : cls := 1%N.
(* <NW><zz/></NW>  ->  err ParserError NW.__init__() got an unexpected keyword argument 'any' *)
Definition ev_unexpected_keyword : list pevent := [PStart [78;87]%N (@nil (qname * str)) (@nil (option str * str)); PStart [122;122]%N (@nil (qname * str)) (@nil (option str * str)); PEnd [122;122]%N None None; PEnd [78;87]%N None None].
Definition tbl_unexpected_keyword : conv_table := (mk_conv_table (@nil (list ptype * option str * nsmap * str * option prim)) (@nil (option str * prim * str)) [] [] dt_table).
Definition obs_unexpected_keyword : outcome := (Err ParserError).
(* ---- model `scalarwild`:

@dataclass
class SW:
    a: Optional[int] = field(default=None, metadata={"type": "Attribute"})
    any: Optional[object] = field(default=None, metadata={"type": "Wildcard"})
*)
Definition u_scalarwild : universe := (mk_universe [(1%N, (mk_xmeta 1%N [83;87]%N (Some [83;87]%N) false None (@nil (xvar)) (@nil (qname * list xvar)) [(mk_xvar 2%N [97;110;121]%N [97;110;121]%N [97;110;121]%N None KWildcard [TObject] None true false None None None false [115;116;114;105;99;116]%N false false None DNone (@nil (str)) (@nil (qname * xvar)) (@nil (xvar)))] [([97]%N, (mk_xvar 1%N [97]%N [97]%N [97]%N None KAttribute [TInt] None true false None None None false [115;116;114;105;99;116]%N false false None DNone (@nil (str)) (@nil (qname * xvar)) (@nil (xvar))))] (@nil (xvar)) (@nil (qname * qname)) None false))] [(1%N, [1%N])] [(1%N, (@nil (N)))] [([83;87]%N, [1%N])] (@nil (enum_def)) [(1%N, [83;87]%N)]).
Definition nodefault_scalarwild : list (cls * list str) := (@nil (cls * list str)).
Definition root_scalarwild : cls := 1%N.
(* <SW>some text</SW>  ->  ok None None *)
Definition ev_attr_captured_plain : list pevent := [PStart [83;87]%N (@nil (qname * str)) (@nil (option str * str)); PEnd [83;87]%N (Some [115;111;109;101;32;116;101;120;116]%N) None].
Definition tbl_attr_captured_plain : conv_table := (mk_conv_table (@nil (list ptype * option str * nsmap * str * option prim)) (@nil (option str * prim * str)) [] [] dt_table).
Definition obs_attr_captured_plain : outcome := (Ok (VObj 1%N [([97]%N, VNone); ([97;110;121]%N, (VAny None (Some [115;111;109;101;32;116;101;120;116]%N) None (@nil (qname * str)) (@nil (value))))]) (@nil (warning))).
(* <SW zzattr="1">some text</SW>  ->  ok None None *)
Definition ev_attr_captured : list pevent := [PStart [83;87]%N [([122;122;97;116;116;114]%N, [49]%N)] (@nil (option str * str)); PEnd [83;87]%N (Some [115;111;109;101;32;116;101;120;116]%N) None].
Definition tbl_attr_captured : conv_table := (mk_conv_table (@nil (list ptype * option str * nsmap * str * option prim)) (@nil (option str * prim * str)) [] [] dt_table).
Definition obs_attr_captured : outcome := (Ok (VObj 1%N [([97]%N, VNone); ([97;110;121]%N, (VAny None (Some [115;111;109;101;32;116;101;120;116]%N) None [([122;122;97;116;116;114]%N, [49]%N)] (@nil (value))))]) (@nil (warning))).

(* ---------------------------------------------------------------- the model reproduces the observations *)
Definition cfg_of (a b c : bool) (nd : list (cls * list str)) : pconfig := mk_pconfig a b c nd.

(* fixed in /repo 24a005e: a missing required field is a ParserError *)
Example w_missing_required :
  parse (cfg_of false false false nodefault_required) (conv_of_table tbl_missing_required) u_required
        (Some root_required) ev_missing_required = Err ParserError
  /\ obs_missing_required = Err ParserError.
Proof. split; vm_compute; reflexivity. Qed.

Example w_missing_required_inner :
  parse (cfg_of false false false nodefault_required) (conv_of_table tbl_missing_required_inner) u_required
        (Some root_required) ev_missing_required_inner = Err ParserError
  /\ obs_missing_required_inner = Err ParserError.
Proof. split; vm_compute; reflexivity. Qed.

(* still open (C15-F5): an `end` without an open element on a user supplied event list *)
Example w_end_without_start :
  parse (cfg_of true false false nodefault_required) (conv_of_table tbl_end_without_start) u_required
        (Some root_required) ev_end_without_start = Err PyIndexError
  /\ obs_end_without_start = Err PyIndexError.
Proof. split; vm_compute; reflexivity. Qed.

Example w_end_after_root :
  parse (cfg_of true false false nodefault_required) (conv_of_table tbl_end_after_root) u_required
        (Some root_required) ev_end_after_root = Err PyIndexError
  /\ obs_end_after_root = Err PyIndexError.
Proof. split; vm_compute; reflexivity. Qed.

(* fixed in /repo 8cca284: text after a class-typed child, class with a wildcard field *)
Example w_tail_none_qname :
  outcome_eqb (parse (cfg_of false false false nodefault_wildtail) (conv_of_table tbl_tail_none_qname) u_wildtail
                     (Some root_wildtail) ev_tail_none_qname) obs_tail_none_qname = true
  /\ outcome_documented obs_tail_none_qname = true.
Proof. split; vm_compute; reflexivity. Qed.

(* fixed in /repo 32d0281: xsi:type xs:hexBinary / xs:base64Binary, empty or unconvertible text *)
Example w_bytes_wrapper_empty :
  outcome_eqb (parse (cfg_of false false false nodefault_anytype) (conv_of_table tbl_bytes_wrapper_empty) u_anytype
                     (Some root_anytype) ev_bytes_wrapper_empty) obs_bytes_wrapper_empty = true
  /\ outcome_documented obs_bytes_wrapper_empty = true.
Proof. split; vm_compute; reflexivity. Qed.

Example w_bytes_wrapper_unconvertible :
  outcome_eqb (parse (cfg_of false false false nodefault_anytype) (conv_of_table tbl_bytes_wrapper_unconvertible) u_anytype
                     (Some root_anytype) ev_bytes_wrapper_unconvertible) obs_bytes_wrapper_unconvertible = true
  /\ outcome_documented obs_bytes_wrapper_unconvertible = true.
Proof. split; vm_compute; reflexivity. Qed.

(* fixed in /repo 24a005e: a wildcard field declared init=False *)
Example w_unexpected_keyword :
  parse (cfg_of false false false nodefault_noinitwild) (conv_of_table tbl_unexpected_keyword) u_noinitwild
        (Some root_noinitwild) ev_unexpected_keyword = Err ParserError
  /\ obs_unexpected_keyword = Err ParserError.
Proof. split; vm_compute; reflexivity. Qed.

(* C10 (open, C10-F1): an unknown attribute on an element bound to a class with a scalar
   wildcard field is NOT dropped: it lands in the AnyElement built by bind_wild_text *)
Example w_attr_captured :
  outcome_eqb (parse (cfg_of false false false nodefault_scalarwild) (conv_of_table tbl_attr_captured) u_scalarwild
                     (Some root_scalarwild) ev_attr_captured) obs_attr_captured = true
  /\ outcome_eqb (parse (cfg_of false false false nodefault_scalarwild) (conv_of_table tbl_attr_captured_plain) u_scalarwild
                     (Some root_scalarwild) ev_attr_captured_plain) obs_attr_captured_plain = true
  /\ outcome_eqb obs_attr_captured obs_attr_captured_plain = false.
Proof. repeat split; vm_compute; reflexivity. Qed.
