(* Proofs/GenericRefute.v — concrete witnesses (by computation) of where the
   round trip fails on the faithful model; one lemma per guard clause. *)
From Coq Require Import NArith ZArith List Bool.
From XV Require Import Base.Str Base.Eqb Gen.GenericTables Spec.Infoset Model.Generic.
Import ListNotations.
Open Scope N_scope.

(* the composite the property talks about *)
Definition roundtrip (o : oracle) (t : itree) : option itree :=
  match tree_parse (pump o [] [] t) with
  | Some v => itree_of_wevents (gen_any v)
  | None => None
  end.
Definition roundtrip_w (o : oracle) (t : itree) : option itree :=
  match tree_parse (pump o [] [] t) with
  | Some v => write_tree (gen_any v)
  | None => None
  end.

(* <r><a/>tu<b/></r> with only "t" of the tail visible at </a>'s end event *)
Definition w_cut : itree :=
  INode [114] [] [] [] [INode [97] [] [] [] [] [116; 117]; INode [98] [] [] [] [] []] [].
Definition o_cut : oracle := mkOracle (fun _ => None) (fun p => match p with [O] => Some 1%nat | _ => None end).

Lemma tail_cut_refuted :
  exists o t, guard_any [] t = true /\ roundtrip o t <> Some (norm_ws (canon [] t)).
Proof. exists o_cut, w_cut. split; [vm_compute; reflexivity | vm_compute; discriminate]. Qed.
