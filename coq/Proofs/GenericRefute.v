(* Proofs/GenericRefute.v — concrete witnesses (decided by computation) of where the
   round trip fails on the faithful model: one lemma per guard clause, each with all
   the other clauses satisfied, and non-vacuity examples for the guards.
   The witness terms are printed by harness/c11.py's term printer from the same
   documents the check replays on the implementation (witness_docs). *)
From Coq Require Import NArith ZArith List Bool.
From XV Require Import Base.Str Base.Eqb Gen.GenericTables Spec.Infoset Model.Generic.
Import ListNotations.
Open Scope N_scope.

(* <r><a/>tu<b/></r> *)
Definition w_cut : itree :=
  (INode [114]%N (@nil (str * str)) (@nil (option str * str)) (@nil N) [(INode [97]%N (@nil (str * str)) (@nil (option str * str)) (@nil N) (@nil itree) [116;117]%N); (INode [98]%N (@nil (str * str)) (@nil (option str * str)) (@nil N) (@nil itree) (@nil N))] (@nil N)).

(* <r>ab<a/>cd</r> *)
Definition w_pi : itree :=
  (INode [114]%N (@nil (str * str)) (@nil (option str * str)) [97;98]%N [(INode [97]%N (@nil (str * str)) (@nil (option str * str)) (@nil N) (@nil itree) [99;100]%N)] (@nil N)).

(* <r xmlns:xsi="http://www.w3.org/2001/XMLSchema-instance"><a xsi:nil="true"/></r> *)
Definition w_nil : itree :=
  (INode [114]%N (@nil (str * str)) [((Some [120;115;105]%N), [104;116;116;112;58;47;47;119;119;119;46;119;51;46;111;114;103;47;50;48;48;49;47;88;77;76;83;99;104;101;109;97;45;105;110;115;116;97;110;99;101]%N)] (@nil N) [(INode [97]%N [([123;104;116;116;112;58;47;47;119;119;119;46;119;51;46;111;114;103;47;50;48;48;49;47;88;77;76;83;99;104;101;109;97;45;105;110;115;116;97;110;99;101;125;110;105;108]%N, [116;114;117;101]%N)] (@nil (option str * str)) (@nil N) (@nil itree) (@nil N))] (@nil N)).

(* <r xmlns:p="urn:p"><a b="p:x"/></r> *)
Definition w_rewrite : itree :=
  (INode [114]%N (@nil (str * str)) [((Some [112]%N), [117;114;110;58;112]%N)] (@nil N) [(INode [97]%N [([98]%N, [112;58;120]%N)] (@nil (option str * str)) (@nil N) (@nil itree) (@nil N))] (@nil N)).

(* <r><a b="{http://www.w3.org/2001/XMLSchema}int"/></r> *)
Definition w_dtclark : itree :=
  (INode [114]%N (@nil (str * str)) (@nil (option str * str)) (@nil N) [(INode [97]%N [([98]%N, [123;104;116;116;112;58;47;47;119;119;119;46;119;51;46;111;114;103;47;50;48;48;49;47;88;77;76;83;99;104;101;109;97;125;105;110;116]%N)] (@nil (option str * str)) (@nil N) (@nil itree) (@nil N))] (@nil N)).

(* <r xmlns:xsi="http://www.w3.org/2001/XMLSchema-instance"><a xmlns="urn:b" xsi:type="foo"/></r> *)
Definition w_xsitype : itree :=
  (INode [114]%N (@nil (str * str)) [((Some [120;115;105]%N), [104;116;116;112;58;47;47;119;119;119;46;119;51;46;111;114;103;47;50;48;48;49;47;88;77;76;83;99;104;101;109;97;45;105;110;115;116;97;110;99;101]%N)] (@nil N) [(INode [123;117;114;110;58;98;125;97]%N [([123;104;116;116;112;58;47;47;119;119;119;46;119;51;46;111;114;103;47;50;48;48;49;47;88;77;76;83;99;104;101;109;97;45;105;110;115;116;97;110;99;101;125;116;121;112;101]%N, [102;111;111]%N)] [(None, [117;114;110;58;98]%N)] (@nil N) (@nil itree) (@nil N))] (@nil N)).

(* <r>&#160;<a/>&#8195;</r> *)
Definition w_space : itree :=
  (INode [114]%N (@nil (str * str)) (@nil (option str * str)) [160]%N [(INode [97]%N (@nil (str * str)) (@nil (option str * str)) (@nil N) (@nil itree) [8195]%N)] (@nil N)).

(* <R xmlns:xsi="http://www.w3.org/2001/XMLSchema-instance" xmlns:xs="http://www.w3.org/2001/XMLSchema">t<a xsi:type="xs:int" k="1"> 05 </a>u<b/></R> *)
Definition w_prim : itree :=
  (INode [82]%N (@nil (str * str)) [((Some [120;115]%N), [104;116;116;112;58;47;47;119;119;119;46;119;51;46;111;114;103;47;50;48;48;49;47;88;77;76;83;99;104;101;109;97]%N); ((Some [120;115;105]%N), [104;116;116;112;58;47;47;119;119;119;46;119;51;46;111;114;103;47;50;48;48;49;47;88;77;76;83;99;104;101;109;97;45;105;110;115;116;97;110;99;101]%N)] [116]%N [(INode [97]%N [([107]%N, [49]%N); ([123;104;116;116;112;58;47;47;119;119;119;46;119;51;46;111;114;103;47;50;48;48;49;47;88;77;76;83;99;104;101;109;97;45;105;110;115;116;97;110;99;101;125;116;121;112;101]%N, [120;115;58;105;110;116]%N)] (@nil (option str * str)) [32;48;53;32]%N (@nil itree) [117]%N); (INode [98]%N (@nil (str * str)) (@nil (option str * str)) (@nil N) (@nil itree) (@nil N))] (@nil N)).

(* <R xmlns:xsi="http://www.w3.org/2001/XMLSchema-instance" xmlns:xs="http://www.w3.org/2001/XMLSchema"><a xsi:type="xs:int"><c/></a></R> *)
Definition w_prim_child : itree :=
  (INode [82]%N (@nil (str * str)) [((Some [120;115]%N), [104;116;116;112;58;47;47;119;119;119;46;119;51;46;111;114;103;47;50;48;48;49;47;88;77;76;83;99;104;101;109;97]%N); ((Some [120;115;105]%N), [104;116;116;112;58;47;47;119;119;119;46;119;51;46;111;114;103;47;50;48;48;49;47;88;77;76;83;99;104;101;109;97;45;105;110;115;116;97;110;99;101]%N)] (@nil N) [(INode [97]%N [([123;104;116;116;112;58;47;47;119;119;119;46;119;51;46;111;114;103;47;50;48;48;49;47;88;77;76;83;99;104;101;109;97;45;105;110;115;116;97;110;99;101;125;116;121;112;101]%N, [120;115;58;105;110;116]%N)] (@nil (option str * str)) (@nil N) [(INode [99]%N (@nil (str * str)) (@nil (option str * str)) (@nil N) (@nil itree) (@nil N))] (@nil N))] (@nil N)).

(* <R xmlns:xsi="http://www.w3.org/2001/XMLSchema-instance" xmlns:xs="http://www.w3.org/2001/XMLSchema"><a xsi:type="xs:int">5</a></R> *)
Definition w_prim_one : itree :=
  (INode [82]%N (@nil (str * str)) [((Some [120;115]%N), [104;116;116;112;58;47;47;119;119;119;46;119;51;46;111;114;103;47;50;48;48;49;47;88;77;76;83;99;104;101;109;97]%N); ((Some [120;115;105]%N), [104;116;116;112;58;47;47;119;119;119;46;119;51;46;111;114;103;47;50;48;48;49;47;88;77;76;83;99;104;101;109;97;45;105;110;115;116;97;110;99;101]%N)] (@nil N) [(INode [97]%N [([123;104;116;116;112;58;47;47;119;119;119;46;119;51;46;111;114;103;47;50;48;48;49;47;88;77;76;83;99;104;101;109;97;45;105;110;115;116;97;110;99;101;125;116;121;112;101]%N, [120;115;58;105;110;116]%N)] (@nil (option str * str)) [53]%N (@nil itree) (@nil N))] (@nil N)).

(* <R xmlns:xsi="http://www.w3.org/2001/XMLSchema-instance" xmlns:xs="http://www.w3.org/2001/XMLSchema" xmlns:p="urn:a">t<p:a xsi:type="xs:int" k="q:1"> 05 <c xmlns="urn:b"> </c></p:a>u<b/> 
</R> *)
Definition w_ok : itree :=
  (INode [82]%N (@nil (str * str)) [((Some [112]%N), [117;114;110;58;97]%N); ((Some [120;115]%N), [104;116;116;112;58;47;47;119;119;119;46;119;51;46;111;114;103;47;50;48;48;49;47;88;77;76;83;99;104;101;109;97]%N); ((Some [120;115;105]%N), [104;116;116;112;58;47;47;119;119;119;46;119;51;46;111;114;103;47;50;48;48;49;47;88;77;76;83;99;104;101;109;97;45;105;110;115;116;97;110;99;101]%N)] [116]%N [(INode [123;117;114;110;58;97;125;97]%N [([107]%N, [113;58;49]%N); ([123;104;116;116;112;58;47;47;119;119;119;46;119;51;46;111;114;103;47;50;48;48;49;47;88;77;76;83;99;104;101;109;97;45;105;110;115;116;97;110;99;101;125;116;121;112;101]%N, [120;115;58;105;110;116]%N)] (@nil (option str * str)) [32;48;53;32]%N [(INode [123;117;114;110;58;98;125;99]%N (@nil (str * str)) [(None, [117;114;110;58;98]%N)] [32]%N (@nil itree) (@nil N))] [117]%N); (INode [98]%N (@nil (str * str)) (@nil (option str * str)) (@nil N) (@nil itree) [32;10]%N)] (@nil N)).

(* <R xmlns:p="urn:a">t<p:a k="q:1"> x <c xmlns="urn:b"> </c></p:a>u<b/> 
</R> *)
Definition w_ok_holder : itree :=
  (INode [82]%N (@nil (str * str)) [((Some [112]%N), [117;114;110;58;97]%N)] [116]%N [(INode [123;117;114;110;58;97;125;97]%N [([107]%N, [113;58;49]%N)] (@nil (option str * str)) [32;120;32]%N [(INode [123;117;114;110;58;98;125;99]%N (@nil (str * str)) [(None, [117;114;110;58;98]%N)] [32]%N (@nil itree) (@nil N))] [117]%N); (INode [98]%N (@nil (str * str)) (@nil (option str * str)) (@nil N) (@nil itree) [32;10]%N)] (@nil N)).

(* <R xmlns:p="urn:a"> <p:a k="q:1"> x <c xmlns="urn:b"> </c></p:a>u<b/> 
</R> *)
Definition w_ok_choice : itree :=
  (INode [82]%N (@nil (str * str)) [((Some [112]%N), [117;114;110;58;97]%N)] [32]%N [(INode [123;117;114;110;58;97;125;97]%N [([107]%N, [113;58;49]%N)] (@nil (option str * str)) [32;120;32]%N [(INode [123;117;114;110;58;98;125;99]%N (@nil (str * str)) [(None, [117;114;110;58;98]%N)] [32]%N (@nil itree) (@nil N))] [117]%N); (INode [98]%N (@nil (str * str)) (@nil (option str * str)) (@nil N) (@nil itree) [32;10]%N)] (@nil N)).

(* <R xmlns:p="urn:a"> <p:a k="1">x<c/></p:a></R> *)
Definition w_one : itree :=
  (INode [82]%N (@nil (str * str)) [((Some [112]%N), [117;114;110;58;97]%N)] [32]%N [(INode [123;117;114;110;58;97;125;97]%N [([107]%N, [49]%N)] (@nil (option str * str)) [120]%N [(INode [99]%N (@nil (str * str)) (@nil (option str * str)) (@nil N) (@nil itree) (@nil N))] (@nil N))] (@nil N)).

Definition cfg_single : wcfg := mkCfg [82]%N KSingle [any_ns_kw] [119]%N false (@nil str).
Definition cfg_list : wcfg := mkCfg [82]%N KList [any_ns_kw] [119]%N false (@nil str).
Definition cfg_mixed : wcfg := mkCfg [82]%N KMixed [any_ns_kw] [119]%N false (@nil str).
Definition cfg_choice : wcfg := mkCfg [82]%N KChoice [any_ns_kw] [97;110;121]%N false [[107]%N].
Definition cfg_list_amap : wcfg := mkCfg [82]%N KList [any_ns_kw] [119]%N true (@nil str).

Definition cls_nl : wcfg := mkCfg [110;108]%N KList [any_ns_kw] [119]%N false (@nil str).
Definition cls_nm : wcfg := mkCfg [110;109]%N KMixed [any_ns_kw] [119]%N false (@nil str).
Definition cls_ns : wcfg := mkCfg [110;115]%N KSingle [any_ns_kw] [119]%N false (@nil str).
Definition cls_na : wcfg := mkCfg [110;97]%N KList [any_ns_kw] [119]%N true (@nil str).
(* holder classes the context finds by element qname *)
Definition reg_w : list wcfg := [cls_nl; cls_nm; cls_ns; cls_na].

Definition expect (t : itree) : option itree := Some (norm_ws (canon [] t)).
Definition expect_root (t : itree) : option itree := Some (norm_ws_root (canon [] t)).

(* <r><a/>tu<b/></r> with only "t" of the tail visible at the end event of <a/> *)
Definition o_cut : oracle := mkOracle (fun _ => None) (fun p => match p with [O] => Some 1%nat | _ => None end).
Lemma tail_cut_refuted :
  exists o t, g_wf [] t && guard_any [] t && guard_write [] t = true /\ roundtrip_spec o [] [] t <> expect t.
Proof. exists o_cut, w_cut. split; [vm_compute; reflexivity | vm_compute; discriminate]. Qed.

(* <r>a<?pi?>b<a/>c<?pi?>d</r> as the lxml tree presents it: only "a" and "c" visible *)
Definition o_pi : oracle :=
  mkOracle (fun p => match p with [] => Some 1%nat | _ => None end) (fun p => match p with [O] => Some 1%nat | _ => None end).
Lemma text_cut_refuted :
  exists o t, g_wf [] t && guard_any [] t && guard_write [] t = true /\ roundtrip_spec o [] [] t <> expect t.
Proof. exists o_pi, w_pi. split; [vm_compute; reflexivity | vm_compute; discriminate]. Qed.

(* the generated events are right, the writer drops the attribute *)
Lemma xsi_nil_dropped_refuted :
  exists t, g_wf [] t && guard_any [] t && g_dtclark [] t = true /\
            roundtrip_spec full_oracle [] [] t = expect t /\ roundtrip_written full_oracle [] [] t <> expect t.
Proof. exists w_nil. split; [vm_compute; reflexivity | split; [vm_compute; reflexivity | vm_compute; discriminate]]. Qed.

Lemma attr_value_rewritten_refuted :
  exists t, g_wf [] t && g_xsitype [] t && g_space [] t && guard_write [] t = true /\
            roundtrip_spec full_oracle [] [] t <> expect t.
Proof. exists w_rewrite. split; [vm_compute; reflexivity | vm_compute; discriminate]. Qed.

Lemma attr_datatype_clark_refuted :
  exists t, g_wf [] t && guard_any [] t && g_nil [] t = true /\
            roundtrip_spec full_oracle [] [] t = expect t /\ roundtrip_written full_oracle [] [] t <> expect t.
Proof. exists w_dtclark. split; [vm_compute; reflexivity | split; [vm_compute; reflexivity | vm_compute; discriminate]]. Qed.

Lemma xsi_type_default_ns_refuted :
  exists t, g_wf [] t && g_rewrite [] t && g_space [] t && guard_write [] t = true /\
            roundtrip_spec full_oracle [] [] t <> expect t.
Proof. exists w_xsitype. split; [vm_compute; reflexivity | vm_compute; discriminate]. Qed.

Lemma python_space_refuted :
  exists t, g_wf [] t && g_rewrite [] t && g_xsitype [] t && guard_write [] t = true /\
            roundtrip_spec full_oracle [] [] t <> expect t.
Proof. exists w_space. split; [vm_compute; reflexivity | vm_compute; discriminate]. Qed.

(* holder classes: a first-level child with an XSD datatype as xsi:type *)
Lemma holder_xsi_primitive_refuted :
  exists t, g_wf [] t && guard_any [] t && guard_write [] t = true /\ g_first_level [] t = false /\
            roundtrip_spec full_oracle [] [] t = expect t /\
            holder_roundtrip reg_w cfg_single full_oracle t <> expect_root t /\
            holder_roundtrip reg_w cfg_list full_oracle t <> expect_root t /\
            holder_roundtrip reg_w cfg_mixed full_oracle t <> expect_root t.
Proof.
  exists w_prim.
  split; [vm_compute; reflexivity|]. split; [vm_compute; reflexivity|]. split; [vm_compute; reflexivity|].
  split; [vm_compute; discriminate|]. split; vm_compute; discriminate.
Qed.

Lemma holder_xsi_primitive_choice_refuted :
  exists t, g_wf [] t && guard_any [] t && guard_write [] t = true /\
            holder_roundtrip reg_w cfg_choice full_oracle t <> expect_root t.
Proof. exists w_prim_one. split; [vm_compute; reflexivity | vm_compute; discriminate]. Qed.

Lemma holder_xsi_primitive_child_refuted :
  exists t, g_wf [] t && guard_any [] t && guard_write [] t = true /\
            roundtrip_spec full_oracle [] [] t = expect t /\
            wild_parse reg_w cfg_list (pump full_oracle [] [] t) = Err EContext.
Proof. exists w_prim_child. split; [vm_compute; reflexivity | split; vm_compute; reflexivity]. Qed.

(* ... and there the TreeParser and the wildcard field do not build the same tree *)
Lemma tree_parser_ne_wildcard_refuted :
  exists rd k v w,
    tree_parse (pump full_oracle (rd ++ []) [O] k) = Some v /\
    wild_parse reg_w cfg_single (pump full_oracle [] [] (INode [82] [] rd [] [k] [])) = Ok (mkRobj [] (WOne w)) /\
    v <> w.
Proof.
  exists (i_nsd w_prim_one), (hd w_cut (i_kids w_prim_one)).
  eexists. eexists. split; [vm_compute; reflexivity | split; [vm_compute; reflexivity | discriminate]].
Qed.

(* ---- the guards are satisfiable by non-trivial documents ------------------------------------ *)
Example guards_nonvacuous :
  g_wf [] w_ok && guard_any [] w_ok && guard_write [] w_ok = true /\
  roundtrip_written full_oracle [] [] w_ok = expect w_ok.
Proof. split; vm_compute; reflexivity. Qed.

(* ---- holder classes found by qname below another holder -------------------------------------- *)
(* <R>see <nl>cf. <c/></nl> for details</R> *)
Definition w_typed_tail : itree :=
  (INode [82]%N (@nil (str * str)) (@nil (option str * str)) [115;101;101;32]%N [(INode [110;108]%N (@nil (str * str)) (@nil (option str * str)) [99;102;46;32]%N [(INode [99]%N (@nil (str * str)) (@nil (option str * str)) (@nil N) (@nil itree) (@nil N))] [32;102;111;114;32;100;101;116;97;105;108;115]%N)] (@nil N)).

(* <R><ns>t<a/>v</ns>u</R> *)
Definition w_single_tail : itree :=
  (INode [82]%N (@nil (str * str)) (@nil (option str * str)) (@nil N) [(INode [110;115]%N (@nil (str * str)) (@nil (option str * str)) [116]%N [(INode [97]%N (@nil (str * str)) (@nil (option str * str)) (@nil N) (@nil itree) [118]%N)] [117]%N)] (@nil N)).

(* <R>see <nl>cf. <c/></nl> for details<nm>x<nl/><na k="1"><b/>w</na></nm>z<ns>t<a/>v</ns> </R> *)
Definition w_nested_ok : itree :=
  (INode [82]%N (@nil (str * str)) (@nil (option str * str)) [115;101;101;32]%N [(INode [110;108]%N (@nil (str * str)) (@nil (option str * str)) [99;102;46;32]%N [(INode [99]%N (@nil (str * str)) (@nil (option str * str)) (@nil N) (@nil itree) (@nil N))] [32;102;111;114;32;100;101;116;97;105;108;115]%N); (INode [110;109]%N (@nil (str * str)) (@nil (option str * str)) [120]%N [(INode [110;108]%N (@nil (str * str)) (@nil (option str * str)) (@nil N) (@nil itree) (@nil N)); (INode [110;97]%N [([107]%N, [49]%N)] (@nil (option str * str)) (@nil N) [(INode [98]%N (@nil (str * str)) (@nil (option str * str)) (@nil N) (@nil itree) [119]%N)] (@nil N))] [122]%N); (INode [110;115]%N (@nil (str * str)) (@nil (option str * str)) [116]%N [(INode [97]%N (@nil (str * str)) (@nil (option str * str)) (@nil N) (@nil itree) [118]%N)] [32]%N)] (@nil N)).

(* a typed child followed by text inside a non-mixed holder: the tail entry finds no
   field ("Unassigned parsed object None") and the text is lost; a mixed holder keeps it *)
Lemma typed_child_tail_refuted :
  exists t, g_wf [] t && guard_any [] t && guard_write [] t = true /\
            holder_written reg_w cfg_mixed full_oracle t = Some (canon [] t) /\
            holder_written reg_w cfg_list full_oracle t <> Some (canon [] t) /\
            holder_written reg_w cfg_single full_oracle t <> Some (canon [] t).
Proof.
  exists w_typed_tail. split; [vm_compute; reflexivity|]. split; [vm_compute; reflexivity|].
  split; vm_compute; discriminate.
Qed.

(* the tail of a single-wildcard holder is stored in its qname-less wrapper and
   generated before the holder's end event: it is written inside the element *)
Lemma single_holder_tail_refuted :
  exists t, g_wf [] t && guard_any [] t && guard_write [] t = true /\
            holder_roundtrip reg_w cfg_mixed full_oracle t <> Some (canon [] t) /\
            holder_written reg_w cfg_mixed full_oracle t <> Some (canon [] t).
Proof.
  exists w_single_tail. split; [vm_compute; reflexivity|]. split; vm_compute; discriminate.
Qed.

(* three nested holder classes: list, mixed with a nested list and an Attributes-map
   class, single with text and a child tail (its own tail blank) *)
Example nested_holders_computed :
  holder_written reg_w cfg_mixed full_oracle w_nested_ok = Some (norm_ws (canon [] w_nested_ok)) /\
  holder_roundtrip reg_w cfg_mixed full_oracle w_nested_ok = Some (norm_ws (canon [] w_nested_ok)).
Proof. split; vm_compute; reflexivity. Qed.
