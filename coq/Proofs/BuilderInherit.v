(* Proofs/BuilderInherit.v — which parent namespace XmlMetaBuilder.build_vars (Model/Builder.v) hands
   XmlVarBuilder.build for every field of a class, own or inherited over any number of levels: the
   Meta.namespace of the class that DECLARES the field when that class states one, otherwise the
   namespace of the class being built — never the Meta of a further ancestor. *)
From Coq Require Import NArith ZArith List Bool.
From XV Require Import Base.Str Base.Eqb Model.Bind Spec.MetaSpec Model.Builder.
Import ListNotations.
Open Scope N_scope.

Definition field_parent_ns (cns : option str) (decl : cdesc) : option str :=
  match cd_meta_ns decl with Some n => Some n | None => cns end.

Theorem build_vars_parent_namespace cns fields :
  forall i, Forall2 (fun (cf : cdesc * fdesc) v => exists j, v = build_var j (field_parent_ns cns (fst cf)) (snd cf))
                    fields (build_vars i cns fields).
Proof.
  induction fields as [|[decl f] fields IH]; intros i; cbn [build_vars]; constructor.
  - exists (i + 1). reflexivity.
  - apply IH.
Qed.

(* the namespaces a var carries are resolved against that parent namespace *)
Corollary inherited_field_namespaces cns fields i cf v :
  In (cf, v) (combine fields (build_vars i cns fields)) ->
  v_namespaces v = resolve_namespaces (fd_kind (snd cf)) (fd_namespace (snd cf)) (field_parent_ns cns (fst cf)).
Proof.
  pose proof (build_vars_parent_namespace cns fields i) as H. revert H.
  generalize (build_vars i cns fields). intros vs H. induction H as [|x y l1 l2 [j ->] _ IH]; intros Hin; [contradiction|].
  destruct Hin as [E|Hin]; [injection E as <- <-; reflexivity|apply IH; exact Hin].
Qed.

(* ---------------------------------------------------------------- explicit names and name generators *)
(* XmlVarBuilder.build / build_class_meta: an explicit metadata name (field "name", Meta.name) is the
   local name verbatim; only without one does the generator's rendering of the Python name apply. *)
Theorem explicit_field_name_verbatim i P f x r :
  fd_xml_name f = Some (x :: r) -> v_local_name (build_var i P f) = x :: r.
Proof. intros H. unfold build_var. cbn [v_local_name]. rewrite H. reflexivity. Qed.

Theorem derived_field_name_generated i P f :
  fd_xml_name f = None -> v_local_name (build_var i P f) = derived_field_name f.
Proof. intros H. unfold build_var. cbn [v_local_name]. rewrite H. reflexivity. Qed.

Theorem explicit_class_name_verbatim cd x r :
  cd_meta_name cd = Some (x :: r) -> meta_local_name cd = x :: r.
Proof. intros H. unfold meta_local_name. rewrite H. reflexivity. Qed.
