(* Proofs/ConvDataType.v — DataType.from_value for XmlPeriod: the datatype chosen is
   the one whose lexical space contains the written value. *)
From Coq Require Import NArith ZArith List Bool Lia.
From XV Require Import Base.Str Gen.ConvTables Model.ConvFactory Model.ConvDataType Model.ConvGuards Spec.XsdDates Spec.XsdPrims.
Import ListNotations.
Open Scope Z_scope.

Definition period_datatype_of (v : option Z * option Z * option Z * option Z) : str :=
  let '(y, m, d, _) := v in period_datatype y m d.

Lemma truthy_pos z : 1 <= z -> truthy_z (Some z) = true.
Proof. intros H. unfold truthy_z. destruct (Z.eqb_spec z 0); [lia|reflexivity]. Qed.

(* every valid g* literal — year 0000 and negative years included — gets the
   datatype of its own lexical space, from the components XSD assigns to it *)
Theorem period_datatype_sound p :
  wf_period p = true -> period_datatype_of (val_period p) = period_kind p.
Proof.
  destruct p as [d t|m t|m d t|y t|y m t]; cbn [wf_period val_period period_datatype_of period_kind period_datatype];
    intros H; repeat (apply andb_true_iff in H as [H ?]).
  - reflexivity.
  - apply Z.leb_le in H. rewrite (truthy_pos m H). reflexivity.
  - unfold real_date in H. repeat (apply andb_true_iff in H as [H ?]).
    apply Z.leb_le in H. match goal with X : (1 <=? d) = true |- _ => apply Z.leb_le in X; rewrite (truthy_pos d X) end.
    rewrite (truthy_pos m H). reflexivity.
  - reflexivity.
  - match goal with X : (1 <=? m) = true |- _ => apply Z.leb_le in X; rewrite (truthy_pos m X) end. reflexivity.
Qed.

Lemma from_value_period y m d : from_value (FvPeriod y m d) = period_datatype y m d.
Proof. reflexivity. Qed.

Lemma from_value_int z : from_value (FvInt z) = Model.ConvInt.int_datatype z.
Proof. reflexivity. Qed.

Example period_year_zero :
  period_datatype_of (val_period (GYear (mk_year_sp false [48;48;48;48]%N) TzNone)) = dt_G_YEAR
  /\ period_datatype_of (val_period (GYearMonth (mk_year_sp false [48;48;48;48]%N) 5 TzZ)) = dt_G_YEAR_MONTH.
Proof. split; vm_compute; reflexivity. Qed.
