(* Proofs/RoundtripGen.v — serializer half of the round trip (C01): inside the guards of
   Spec/Fits.v, EventGenerator (Model/EventGen.v) succeeds and emits the flattening of a
   tree `gobj` that is a plain structural function of the instance and the metadata. *)
From Coq Require Import NArith ZArith List Bool Lia Arith.
From XV Require Import Base.Str Base.Eqb Base.PyInt Spec.XmlNs Model.Bind Model.EventGen Spec.Fits
  Proofs.RoundtripBase.
Import ListNotations.
Open Scope N_scope.

(* ---------------------------------------------------------------- event trees (Bind level) *)
Inductive bitem :=
| BData (v : wval)
| BNode (q : qname) (attrs : list (qname * wval)) (kids : list bitem).

Fixpoint bflat (i : bitem) : list wevent :=
  match i with
  | BData v => [WData v]
  | BNode q ats ks =>
      WStart q :: map (fun a => WAttr (fst a) (snd a)) ats ++ flat_map bflat ks ++ [WEnd q]
  end.

(* ---------------------------------------------------------------- monad helpers *)
Lemma mapM_ok {A B} (g : A -> gres B) (h : A -> B) l :
  (forall x, In x l -> g x = Ok (h x)) -> mapM g l = Ok (map h l).
Proof.
  induction l as [|x r IH]; intros H; [reflexivity|].
  cbn [mapM map]. rewrite (H x (or_introl eq_refl)). cbn [gbind].
  rewrite IH; [reflexivity|]. intros y Hy. apply H. right; exact Hy.
Qed.

Lemma concatM_flat {A B} (g : A -> gres (list B)) (h : A -> list B) l :
  (forall x, In x l -> g x = Ok (h x)) -> concatM g l = Ok (flat_map h l).
Proof.
  intros H. unfold concatM. rewrite (mapM_ok g h l H). cbn [gbind].
  f_equal. induction l as [|x r IH]; [reflexivity|]. cbn [map concat flat_map]. f_equal.
  apply IH. intros y Hy. apply H. right; exact Hy.
Qed.

Lemma gbind_id {A} (a : gres A) : (x <- a ;; Ok x) = a.
Proof. destruct a; reflexivity. Qed.

Lemma flat_map_flat_map {A B C} (f : A -> list B) (g : B -> list C) l :
  flat_map g (flat_map f l) = flat_map (fun x => flat_map g (f x)) l.
Proof.
  induction l as [|x r IH]; [reflexivity|]. cbn [flat_map]. rewrite flat_map_app, IH. reflexivity.
Qed.

Lemma map_flat_map_l {A B C} (f : B -> C) (g : A -> list B) l :
  map f (flat_map g l) = flat_map (fun x => map f (g x)) l.
Proof. induction l as [|x r IH]; [reflexivity|]. cbn [flat_map]. rewrite map_app, IH. reflexivity. Qed.

Lemma flat_map_map {A B C} (f : A -> B) (g : B -> list C) l :
  flat_map g (map f l) = flat_map (fun x => g (f x)) l.
Proof. induction l as [|x r IH]; [reflexivity|]. cbn [map flat_map]. rewrite IH. reflexivity. Qed.

(* ---------------------------------------------------------------- depth *)
Lemma odepth_field c fs k v : In (k, v) fs -> (odepth v < odepth (VObj c fs))%nat.
Proof.
  cbn [odepth]. intros H. apply Nat.lt_succ_r.
  induction fs as [|[k' x] fs IH]; [destruct H|].
  destruct H as [E|H]; [inversion E; subst; lia|]. specialize (IH H). lia.
Qed.

Lemma odepth_item t l x : In x l -> (odepth x <= odepth (VList t l))%nat.
Proof.
  cbn [odepth]. intros H. induction l as [|y l IH]; [destruct H|].
  destruct H as [->|H]; [lia|]. specialize (IH H). lia.
Qed.

Lemma odepth_le_vdepth : forall v, (odepth v <= vdepth v)%nat.
Proof.
  fix IH 1. intros [| |t l|c fs|q t tl a ch|q x ty|m]; cbn [odepth vdepth]; try lia.
  - apply Nat.le_le_succ_r. induction l as [|x l IHl]; [lia|]. pose proof (IH x). lia.
  - apply le_n_S. induction fs as [|[k x] fs IHl]; [lia|]. pose proof (IH x). lia.
Qed.

Section Gen.
  Variable c : conv.
  Variable u : universe.
  Variable ok : prim -> bool.
  Variable pyspace : N -> bool.
  Variable ign : bool.

  Notation leaf_ok := (leaf_ok c u ok).
  Notation token_ok := (token_ok c u ok pyspace).
  Notation fits := (fits c u ok pyspace).
  Notation fits_elem := (fits_elem c u ok pyspace).
  Notation fits_item := (fits_item c u ok).
  Notation fits_tokens := (fits_tokens c u ok pyspace).
  Notation fits_attr := (fits_attr c u ok pyspace).
  Notation fits_text := (fits_text c u ok pyspace).
  Notation wf_reach := (wf_reach u).

  (* ---------------------------------------------------------------- encoded values *)
  Definition enc_p (fmt : option str) (p : prim) : wval :=
    match p with
    | PEnum e m => match enum_member u e m with Some pv => encode_prim c fmt pv | None => WNone end
    | _ => encode_prim c fmt p
    end.
  Definition enc (fmt : option str) (v : value) : wval :=
    match v with
    | VP p => enc_p fmt p
    | VList _ l => WL (map (fun x => match x with VP p => enc_p fmt p | _ => WNone end) l)
    | _ => WNone
    end.

  Lemma enum_value_member e m : enum_value u e m = enum_member u e m.
  Proof. reflexivity. Qed.

  Lemma encode_leaf t fmt p : leaf_ok t fmt p = true -> encode_primitive c u fmt (VP p) = Ok (enc_p fmt p).
  Proof.
    unfold Fits.leaf_ok. intros H. apply andb_true_iff in H as [_ H].
    destruct p; try reflexivity.
    cbn [encode_primitive enc_p]. rewrite enum_value_member. cbn [ptext] in H.
    destruct (enum_member u e member); [reflexivity|discriminate].
  Qed.

  Lemma encode_primitive_list fmt t l :
    encode_primitive c u fmt (VList t l) = (ws <- mapM (encode_primitive c u fmt) l ;; Ok (WL ws)).
  Proof.
    cbn [encode_primitive]. f_equal. induction l as [|x l IH]; [reflexivity|].
    cbn [mapM]. rewrite <- IH. reflexivity.
  Qed.

  Lemma token_is_leaf t fmt x : token_ok t fmt x = true -> exists p, x = VP p /\ leaf_ok t fmt p = true.
  Proof.
    unfold Fits.token_ok. destruct x; try discriminate. intros H.
    apply andb_true_iff in H as [H _]. apply andb_true_iff in H as [H _]. eexists; split; [reflexivity|exact H].
  Qed.

  Lemma encode_tokens t fmt tf l :
    forallb (token_ok t fmt) l = true -> encode_primitive c u fmt (VList tf l) = Ok (enc fmt (VList tf l)).
  Proof.
    intros H. rewrite encode_primitive_list.
    rewrite (mapM_ok _ (fun x => match x with VP p => enc_p fmt p | _ => WNone end) l); [reflexivity|].
    intros x Hin. rewrite forallb_forall in H. destruct (token_is_leaf _ _ _ (H x Hin)) as [p [-> Hp]].
    eapply encode_leaf; exact Hp.
  Qed.

  (* ---------------------------------------------------------------- the reference tree *)
  Definition opt_skip (var : xvar) (x : value) : bool :=
    if v_required var then false
    else match py_eq (default_value (v_default var)) x with Some b => b | None => false end.

  Definition g_attr (var : xvar) (x : value) : list (qname * wval) :=
    match x with
    | VNone => []
    | _ => if is_array x && negb (py_truthy x) then []
           else if ign && opt_skip var x then []
           else [(v_qname var, enc (v_format var) x)]
    end.

  Definition g_prim (var : xvar) (x : value) : bitem :=
    BNode (v_qname var) [] [BData (enc (v_format var) x)].
  Definition g_item (rec : option qname -> value -> bitem) (var : xvar) (x : value) : bitem :=
    match x with VObj _ _ => rec (Some (v_qname var)) x | _ => g_prim var x end.
  Definition g_wrap (var : xvar) (items : list bitem) : list bitem :=
    match v_wrapper_qname var with
    | Some ((_ :: _) as w) => [BNode w [] items]
    | _ => items
    end.

  Definition g_items (rec : option qname -> value -> bitem) (var : xvar) (x : value) : list bitem :=
    match x with
    | VNone => []
    | _ =>
        if v_is KText var then [BData (enc (v_format var) x)]
        else match v_tokens_factory var with
             | Some _ =>
                 match x with
                 | VList _ [] => []
                 | VList _ ((VList _ _ :: _) as l) => map (g_prim var) l
                 | _ => [g_prim var x]
                 end
             | None =>
                 match x with
                 | VList _ l => map (g_item rec var) l
                 | _ => [g_item rec var x]
                 end
             end
    end.
  Definition g_field (rec : option qname -> value -> bitem) (var : xvar) (x : value) : list bitem :=
    match x with VNone => [] | _ => g_wrap var (g_items rec var x) end.

  (* the child objects one yielded field value contributes (the same in both directions) *)
  Definition occ (var : xvar) (x : value) : list value :=
    match x with
    | VNone => []
    | _ => match v_tokens_factory var with
           | Some _ => match x with
                       | VList _ [] => []
                       | VList _ ((VList _ _ :: _) as l) => l
                       | _ => [x]
                       end
           | None => match x with VList _ l => l | _ => [x] end
           end
    end.

  (* the (field, value) pairs EventGenerator.next_value yields for an instance, in its order:
     whole field values, and - inside a sequence group - the items of the list fields, round robin *)
  Definition pairs (cl : cls) (fs : list (str * value)) (m : xmeta) : list (xvar * value) :=
    match next_value (VObj cl fs) m with Ok l => l | Err _ => [] end.

  Fixpoint gobj (n : nat) (qn : option qname) (o : value) {struct n} : bitem :=
    match n, o with
    | S k, VObj cl fs =>
        match u_meta u cl with
        | Some m =>
            BNode (match qn with Some ((_ :: _) as q) => q | _ => m_qname m end)
                  (flat_map (fun var => g_attr var (field_of fs var)) (get_attribute_vars m))
                  (flat_map (fun vv => g_field (gobj k) (fst vv) (snd vv)) (pairs cl fs m))
        | None => BData WNone
        end
    | _, _ => BData WNone
    end.

  (* ---------------------------------------------------------------- metadata facts *)
  Record class_facts (m : xmeta) : Prop := {
    cf_choices : m_choices m = [];
    cf_wildcards : m_wildcards m = [];
    cf_any : m_any_attributes m = [];
    cf_wrappers : forallb (fun e => negb (match assoc (fst e) (m_wrappers m) with Some _ => true | None => false end)
                         && forallb (fun v => match v_wrapper_qname v with
                                              | Some w => match assoc w (m_wrappers m) with Some _ => true | None => false end
                                              | None => true
                                              end) (snd e)) (m_elements m) = true;
    cf_nillable : m_nillable m = false;
    cf_mixed : m_mixed_content m = false;
    cf_elements : forallb (fun e => match snd e with [v] => str_eqb (v_qname v) (fst e) && wf_elem v | _ => false end) (m_elements m) = true;
    cf_elements_distinct : NoDup (map fst (m_elements m));
    cf_attributes : forallb (fun e => str_eqb (v_qname (snd e)) (fst e) && wf_attr (snd e)) (m_attributes m) = true;
    cf_attributes_distinct : NoDup (map fst (m_attributes m));
    cf_text : match m_text m with None => True | Some t => wf_text t = true /\ m_elements m = [] end;
    cf_names : NoDup (map v_name (get_all_vars m));
    cf_indices : NoDup (map v_index (get_all_vars m))
  }.

  Ltac peel H Hn := apply andb_true_iff in H as [H Hn].

  Lemma wf_class_inv m : wf_class m = true -> class_facts m.
  Proof.
    unfold wf_class. intros H.
    peel H H13. peel H H12. peel H H11. peel H H10. peel H H9. peel H H8. peel H H7. peel H H6. peel H H5.
    peel H H4. peel H H3. peel H H2.
    constructor.
    - destruct (m_choices m); [reflexivity|discriminate].
    - destruct (m_wildcards m); [reflexivity|discriminate].
    - destruct (m_any_attributes m); [reflexivity|discriminate].
    - exact H4.
    - apply negb_true_iff. exact H5.
    - apply negb_true_iff. exact H6.
    - exact H7.
    - apply nodup_by_str. exact H8.
    - exact H9.
    - apply nodup_by_str. exact H10.
    - destruct (m_text m); [|exact I]. apply andb_true_iff in H11 as [Ha Hb]. split; [exact Ha|].
      destruct (m_elements m); [reflexivity|discriminate].
    - apply nodup_by_str. exact H12.
    - apply nodup_by_N. exact H13.
  Qed.

  Lemma evars_eq m : wf_class m = true ->
    get_element_vars m = sort_by_index (flat_map snd (m_elements m) ++ match m_text m with Some t => [t] | None => [] end).
  Proof.
    intros H. destruct (wf_class_inv m H). unfold get_element_vars.
    rewrite cf_choices0, cf_wildcards0. reflexivity.
  Qed.

  Lemma avars_eq m : wf_class m = true ->
    get_attribute_vars m = sort_by_index (map snd (m_attributes m)).
  Proof.
    intros H. destruct (wf_class_inv m H). unfold get_attribute_vars. rewrite cf_any0. reflexivity.
  Qed.

  Lemma allvars_eq m : wf_class m = true ->
    get_all_vars m = sort_by_index (map snd (m_attributes m) ++ flat_map snd (m_elements m)
                                    ++ match m_text m with Some t => [t] | None => [] end).
  Proof.
    intros H. destruct (wf_class_inv m H). unfold get_all_vars.
    rewrite cf_choices0, cf_wildcards0, cf_any0. reflexivity.
  Qed.

  Lemma wf_class_avar m var : wf_class m = true -> In var (get_attribute_vars m) ->
    wf_attr var = true /\ In (v_qname var, var) (m_attributes m).
  Proof.
    intros H Hin. rewrite (avars_eq m H) in Hin. apply (proj1 (sort_in _ _)) in Hin.
    apply in_map_iff in Hin as [[q v] [E Hin]]. cbn [snd] in E. subst v.
    destruct (wf_class_inv m H). pose proof cf_attributes0 as H8.
    rewrite forallb_forall in H8. specialize (H8 _ Hin). cbn [fst snd] in H8.
    apply andb_true_iff in H8 as [Hq Hw]. apply str_eqb_eq in Hq. rewrite Hq. split; assumption.
  Qed.

  Lemma in_flat_singletons (l : list (qname * list xvar)) var :
    forallb (fun e => match snd e with [v] => str_eqb (v_qname v) (fst e) && wf_elem v | _ => false end) l = true ->
    In var (flat_map snd l) -> wf_elem var = true /\ In (v_qname var, [var]) l.
  Proof.
    intros H Hin. apply in_flat_map in Hin as [[q vs] [He Hv]]. cbn [snd] in Hv.
    rewrite forallb_forall in H. pose proof (H _ He) as Hx. cbn [fst snd] in Hx.
    destruct vs as [|v [|? ?]]; try discriminate. destruct Hv as [->|[]].
    apply andb_true_iff in Hx as [Hq Hw]. apply str_eqb_eq in Hq. subst q. split; assumption.
  Qed.

  Lemma wf_class_evar m var : wf_class m = true -> In var (get_element_vars m) ->
    (wf_elem var = true /\ In (v_qname var, [var]) (m_elements m))
    \/ (m_text m = Some var /\ wf_text var = true /\ m_elements m = []).
  Proof.
    intros H Hin. rewrite (evars_eq m H) in Hin. apply (proj1 (sort_in _ _)) in Hin.
    destruct (wf_class_inv m H).
    apply in_app_or in Hin as [Hin|Hin].
    - left. apply in_flat_singletons; assumption.
    - right. destruct (m_text m) as [t|]; [|destruct Hin]. destruct Hin as [->|[]].
      destruct cf_text0 as [Ht He]. repeat split; assumption.
  Qed.

  Lemma in_allvars m var : wf_class m = true ->
    (In var (get_attribute_vars m) \/ In var (get_element_vars m)) -> In var (get_all_vars m).
  Proof.
    intros H Hin. rewrite (allvars_eq m H). apply sort_in.
    destruct Hin as [Hin|Hin].
    - rewrite (avars_eq m H) in Hin. apply (proj1 (sort_in _ _)) in Hin. apply in_or_app. left; exact Hin.
    - rewrite (evars_eq m H) in Hin. apply (proj1 (sort_in _ _)) in Hin. apply in_or_app. right; exact Hin.
  Qed.

  (* ---------------------------------------------------------------- instance facts *)
  Lemma fits_inv n cl o : fits (S n) cl o = true ->
    exists fs m, o = VObj cl fs /\ u_meta u cl = Some m
      /\ map fst fs = map v_name (get_all_vars m)
      /\ (forall e, In e (m_attributes m) -> fits_attr (snd e) (field_of fs (snd e)) = true)
      /\ (forall e v, In e (m_elements m) -> In v (snd e) -> fits_elem (fits n) v (field_of fs v) = true)
      /\ match m_text m with Some t => fits_text t (field_of fs t) = true | None => True end.
  Proof.
    cbn [Fits.fits]. destruct o; try discriminate. intros H.
    apply andb_true_iff in H as [Hc H]. apply N.eqb_eq in Hc. subst c0.
    destruct (u_meta u cl) as [m|]; [|discriminate]. peel H H2. peel H H1. peel H H0.
    exists fields, m. repeat split.
    - apply (list_eqb_spec str_eqb str_eqb_eq). exact H.
    - intros e He. rewrite forallb_forall in H0. apply H0. exact He.
    - intros e v He Hv. rewrite forallb_forall in H1. specialize (H1 _ He). rewrite forallb_forall in H1. apply H1. exact Hv.
    - destruct (m_text m); [exact H2|exact I].
  Qed.

  Lemma getattr_field cl fs m var :
    map fst fs = map v_name (get_all_vars m) -> In var (get_all_vars m) ->
    getattr (VObj cl fs) (v_name var) = Ok (field_of fs var).
  Proof.
    intros Hn Hin. cbn [getattr]. unfold field_of.
    destruct (assoc_some_in (v_name var) fs) as [x Hx].
    { rewrite Hn. apply in_map. exact Hin. }
    rewrite Hx. reflexivity.
  Qed.

  (* ---------------------------------------------------------------- attributes *)
  Lemma wf_attr_inv var : wf_attr var = true ->
    v_is KAttribute var = true /\ var_common var = true /\ v_clazz var = None /\ v_factory var = None
    /\ reserved_name (v_qname var) = false
    /\ exists t, v_types var = [t] /\ simple_type t = true
         /\ match v_tokens_factory var with
            | None => simple_default t (v_default var) = true
            | Some f => factory_default f (v_default var) = true
            end.
  Proof.
    unfold wf_attr. intros H. peel H H4. peel H H3. peel H H2. peel H H1. peel H Hnw. peel H H0.
    destruct (v_clazz var); [discriminate|]. destruct (v_factory var); [discriminate|].
    apply negb_true_iff in H3.
    unfold var_type in H4. destruct (v_types var) as [|t [|? ?]] eqn:Et; try discriminate.
    apply andb_true_iff in H4 as [Hs Hd].
    repeat split; try assumption. exists t. split; [reflexivity|]. split; [exact Hs|].
    destruct (v_tokens_factory var); exact Hd.
  Qed.

  Lemma default_value_call d : default_value d = match d with
    | DNone => VNone | DValue v => v | DFactoryList => VList false [] | DFactoryTuple => VList true []
    | DFactoryDict => VMap [] end.
  Proof. reflexivity. Qed.

  Lemma var_is_optional_ok var x :
    (exists b, py_eq (default_value (v_default var)) x = Some b) ->
    var_is_optional var x = Ok (opt_skip var x).
  Proof.
    intros [b Hb]. unfold var_is_optional, opt_skip. destruct (v_required var); [reflexivity|].
    change (match v_default var with
            | DNone => VNone | DValue d => d | DFactoryList => VList false [] | DFactoryTuple => VList true []
            | DFactoryDict => VMap [] end) with (default_value (v_default var)).
    rewrite Hb. reflexivity.
  Qed.

  Lemma py_eq_simple t d p :
    simple_default t d = true -> ptype_eqb (prim_ptype p) t = true ->
    exists b, py_eq (default_value d) (VP p) = Some b.
  Proof.
    intros Hd Hp. destruct d as [|dv| | |]; cbn [simple_default] in Hd; try discriminate.
    - eexists; reflexivity.
    - destruct dv as [|pd| | | | |]; try discriminate.
      destruct pd; try discriminate; destruct t; try discriminate;
        destruct p; try discriminate; cbn [default_value py_eq prim_py_eq]; eexists; reflexivity.
  Qed.

  Lemma py_eq_list f d t l :
    factory_default f d = true -> exists b, py_eq (default_value d) (VList t l) = Some b.
  Proof.
    intros Hd. destruct f, d; try discriminate; cbn [default_value py_eq];
      destruct (Bool.eqb _ t); try (eexists; reflexivity); destruct l; eexists; reflexivity.
  Qed.

  Lemma attr_step_ok cl fs m var :
    map fst fs = map v_name (get_all_vars m) -> In var (get_all_vars m) ->
    wf_attr var = true -> fits_attr var (field_of fs var) = true ->
    attr_step c u (VObj cl fs) ign var
    = Ok (map (fun a => WAttr (fst a) (snd a)) (g_attr var (field_of fs var))).
  Proof.
    intros Hn Hin Hw Hf. destruct (wf_attr_inv var Hw) as [Hk [Hc [Hcl [Hfa [Hr [t [Ht [Hs Hd]]]]]]]].
    unfold attr_step. rewrite Hk. rewrite (getattr_field cl fs m var Hn Hin). cbn [gbind].
    set (x := field_of fs var) in *.
    unfold Fits.fits_attr, vtype in Hf. rewrite Ht in Hf.
    destruct (v_tokens_factory var) as [tf|] eqn:Etf.
    - destruct x as [| |tt l| | | |] eqn:Ex; try discriminate.
      apply andb_true_iff in Hf as [Hflag Htok].
      unfold g_attr. cbn [is_array py_truthy].
      destruct l as [|y l']; [reflexivity|]. cbn [nonempty negb andb].
      rewrite (var_is_optional_ok var (VList tt (y :: l')) (py_eq_list tf _ tt _ Hd)).
      destruct ign; cbn [andb gbind].
      + destruct (opt_skip var (VList tt (y :: l'))); [reflexivity|].
        rewrite (encode_tokens t (v_format var) tt (y :: l') Htok). reflexivity.
      + rewrite (encode_tokens t (v_format var) tt (y :: l') Htok). reflexivity.
    - destruct x as [|p| | | | |] eqn:Ex; try discriminate; [reflexivity|].
      unfold g_attr. cbn [is_array andb].
      assert (Hty : ptype_eqb (prim_ptype p) t = true).
      { unfold Fits.leaf_ok in Hf. peel Hf Hf1. peel Hf Hf0. exact Hf0. }
      rewrite (var_is_optional_ok var (VP p) (py_eq_simple t _ p Hd Hty)).
      destruct ign; cbn [andb gbind].
      + destruct (opt_skip var (VP p)); [reflexivity|].
        rewrite (encode_leaf t (v_format var) p Hf). reflexivity.
      + rewrite (encode_leaf t (v_format var) p Hf). reflexivity.
  Qed.

  (* ---------------------------------------------------------------- next_value without sequence groups *)
  Lemma next_value_loop_plain obj (X : xvar -> value) vars : forall fuel,
    (length vars < fuel)%nat ->
    (forall var, In var vars -> v_sequence var = None /\ v_nillable var = false
                               /\ getattr obj (v_name var) = Ok (X var)) ->
    next_value_loop fuel obj vars
    = Ok (flat_map (fun var => match X var with VNone => [] | x => [(var, x)] end) vars).
  Proof.
    induction vars as [|var rest IH]; intros fuel Hf H.
    - destruct fuel; [cbn in Hf; lia|]. reflexivity.
    - destruct fuel; [cbn in Hf; lia|]. cbn [next_value_loop].
      destruct (H var (or_introl eq_refl)) as [Hs [Hnil Hg]]. rewrite Hs, Hg. cbn [gbind].
      rewrite IH; [|cbn in Hf; lia|intros v Hv; apply H; right; exact Hv]. cbn [gbind flat_map].
      unfold emit. rewrite Hnil. destruct (X var); reflexivity.
  Qed.

  (* ---------------------------------------------------------------- what next_value yields *)
  Definition same_var (a b : xvar) : bool := N.eqb (v_index a) (v_index b).
  (* the items a field received, in document order *)
  Definition sel (var : xvar) (ps : list (xvar * value)) : list value :=
    flat_map (fun vv => if same_var (fst vv) var then occ var (snd vv) else []) ps.
  (* fields that occur in one pair at most: scalar fields and wrapped lists *)
  Definition once_b (var : xvar) : bool :=
    match v_factory var with None => true | Some _ => false end
    || match v_wrapper_qname var with Some _ => true | None => false end.
  (* a pair carries the whole value of the field, or - sequence groups - one item of its list *)
  Definition pair_whole (fs : list (str * value)) (vv : xvar * value) : Prop := snd vv = field_of fs (fst vv).
  Definition pair_part (fs : list (str * value)) (vv : xvar * value) : Prop :=
    exists f t l, v_factory (fst vv) = Some f /\ v_tokens_factory (fst vv) = None /\ v_wrapper_qname (fst vv) = None
                  /\ field_of fs (fst vv) = VList t l /\ In (snd vv) l.

  Record pairs_spec (cl : cls) (fs : list (str * value)) (m : xmeta) (ps : list (xvar * value)) : Prop := {
    ps_eq : next_value (VObj cl fs) m = Ok ps;
    ps_src : forall vv, In vv ps -> In (fst vv) (get_element_vars m) /\ snd vv <> VNone
                                     /\ (pair_whole fs vv \/ pair_part fs vv);
    ps_once : NoDup (map (fun vv => v_index (fst vv)) (filter (fun vv => once_b (fst vv)) ps));
    ps_sel : forall var, In var (get_element_vars m) -> sel var ps = occ var (field_of fs var)
  }.

  Lemma pairs_eq cl fs m ps : pairs_spec cl fs m ps -> pairs cl fs m = ps.
  Proof. intros H. unfold pairs. rewrite (ps_eq _ _ _ _ H). reflexivity. Qed.

  Lemma same_var_refl v : same_var v v = true.
  Proof. apply N.eqb_refl. Qed.

  Definition emit1 (fs : list (str * value)) (var : xvar) : list (xvar * value) :=
    match field_of fs var with VNone => [] | x => [(var, x)] end.

  Lemma sel_app var a b : sel var (a ++ b) = sel var a ++ sel var b.
  Proof. unfold sel. apply flat_map_app. Qed.

  Lemma sel_emit_other fs var v0 : v_index v0 <> v_index var -> sel var (emit1 fs v0) = [].
  Proof.
    intros H. unfold sel, emit1, same_var. destruct (field_of fs v0); try reflexivity; cbn [flat_map fst snd];
      (destruct (N.eqb_spec (v_index v0) (v_index var)); [contradiction|reflexivity]).
  Qed.

  Lemma sel_emit_others fs var r : ~ In (v_index var) (map v_index r) -> sel var (flat_map (emit1 fs) r) = [].
  Proof.
    induction r as [|v1 r IH]; intros H; [reflexivity|]. cbn [flat_map]. rewrite sel_app, IH.
    - rewrite app_nil_r. apply sel_emit_other. intros E. apply H. left. exact E.
    - intros Hi. apply H. right; exact Hi.
  Qed.

  (* without sequence groups: every field once, in declaration order *)
  Lemma pairs_spec_plain cl fs m :
    map fst fs = map v_name (get_all_vars m) ->
    (forall var, In var (get_element_vars m) -> In var (get_all_vars m)) ->
    (forall var, In var (get_element_vars m) -> v_sequence var = None /\ v_nillable var = false) ->
    NoDup (map v_index (get_element_vars m)) ->
    pairs_spec cl fs m (flat_map (emit1 fs) (get_element_vars m)).
  Proof.
    intros Hnames Hall Hseq Hnd. constructor.
    - unfold next_value. rewrite (next_value_loop_plain (VObj cl fs) (field_of fs) (get_element_vars m)); [reflexivity|lia|].
      intros var Hv. destruct (Hseq var Hv) as [Hs Hn]. repeat split; try assumption.
      apply (getattr_field cl fs m var Hnames (Hall var Hv)).
    - intros [var x] Hin. apply in_flat_map in Hin as [var' [Hv Hx]]. unfold emit1 in Hx.
      destruct (field_of fs var') eqn:E; cbn in Hx; try contradiction; destruct Hx as [Hx|[]]; inversion Hx; subst;
        (split; [exact Hv|]; split; [discriminate|]; left; unfold pair_whole; cbn [fst snd]; symmetry; exact E).
    - clear Hall Hseq. set (vars := get_element_vars m) in *. clearbody vars.
      assert (E : map (fun vv : xvar * value => v_index (fst vv)) (filter (fun vv => once_b (fst vv)) (flat_map (emit1 fs) vars))
                  = map v_index (filter (fun var => once_b var && match field_of fs var with VNone => false | _ => true end) vars)).
      { clear. induction vars as [|var r IH]; [reflexivity|]. cbn [flat_map filter]. rewrite filter_app, map_app, IH.
        unfold emit1. destruct (field_of fs var); cbn [filter fst]; destruct (once_b var); reflexivity. }
      rewrite E. clear E. induction vars as [|var r IH]; [constructor|]. cbn [map] in Hnd. inversion Hnd as [|? ? Hni Hnd']; subst.
      cbn [filter]. destruct (once_b var && _); [|apply IH; exact Hnd'].
      cbn [map]. constructor; [|apply IH; exact Hnd'].
      intros Hi. apply Hni. apply in_map_iff in Hi as [v [Ev Hv]]. apply filter_In in Hv as [Hv _]. rewrite <- Ev. apply in_map. exact Hv.
    - intros var Hv. clear Hall Hseq. set (vars := get_element_vars m) in *. clearbody vars.
      induction vars as [|v0 r IH]; [destruct Hv|]. cbn [map] in Hnd. inversion Hnd as [|? ? Hni Hnd']; subst.
      cbn [flat_map]. rewrite sel_app.
      destruct Hv as [->|Hv].
      + rewrite (sel_emit_others fs var r Hni), app_nil_r. unfold sel, emit1. destruct (field_of fs var); try reflexivity;
          cbn [flat_map fst snd]; rewrite same_var_refl, app_nil_r; reflexivity.
      + rewrite (IH Hnd' Hv). rewrite (sel_emit_other fs var v0); [reflexivity|].
        intros E. apply Hni. rewrite E. apply in_map. exact Hv.
  Qed.

  (* ---------------------------------------------------------------- element fields *)
  Lemma var_common_inv var : var_common var = true ->
    v_init var = true /\ v_mixed var = false /\ v_any_type var = false /\ v_nillable var = false
    /\ v_elements var = [] /\ v_wildcards var = [] /\ True /\ v_sequence var = None
    /\ v_index var <> 0.
  Proof.
    unfold var_common. intros H. peel H H7. peel H H6. peel H H4. peel H H3. peel H H2. peel H H1. peel H H0.
    apply negb_true_iff in H0, H1, H2, H7. apply N.eqb_neq in H7.
    destruct (v_elements var); [|discriminate]. destruct (v_wildcards var); [|discriminate].
    destruct (v_sequence var); [discriminate|].
    repeat split; assumption.
  Qed.

  Lemma wf_text_inv var : wf_text var = true ->
    v_is KText var = true /\ var_common var = true
    /\ exists t, v_types var = [t] /\ simple_type t = true
         /\ match v_tokens_factory var with
            | None => v_default var = DNone
            | Some f => factory_default f (v_default var) = true
            end.
  Proof.
    unfold wf_text. intros H. peel H H4. peel H H3. peel H H2. peel H Hnw. peel H H1.
    split; [exact H|]. split; [exact H1|].
    unfold var_type in H4. destruct (v_types var) as [|t [|? ?]]; try discriminate.
    apply andb_true_iff in H4 as [Hs Hd]. exists t. repeat split; try assumption.
    destruct (v_tokens_factory var); [exact Hd|]. destruct (v_default var); try discriminate. reflexivity.
  Qed.

  Lemma convert_element_plain var x w :
    v_nillable var = false -> v_any_type var = false ->
    encode_primitive c u (v_format var) x = Ok w ->
    convert_element c u x var = Ok [WStart (v_qname var); WData w; WEnd (v_qname var)].
  Proof.
    intros Hn Ha He. unfold convert_element. rewrite Hn, Ha, He. cbn [andb gbind].
    destruct x; try reflexivity; rewrite andb_false_r; reflexivity.
  Qed.

  Lemma bflat_prim var x :
    bflat (g_prim var x) = [WStart (v_qname var); WData (enc (v_format var) x); WEnd (v_qname var)].
  Proof. reflexivity. Qed.

  Definition kind_elem (var : xvar) : Prop := v_is KElement var = true /\ v_is KText var = false /\ v_is KElements var = false /\ v_is KWildcard var = false.
  Lemma kind_elem_of var : v_is KElement var = true -> kind_elem var.
  Proof. unfold kind_elem, v_is. destruct (v_kind var); try discriminate. repeat split. Qed.

  (* the recursive calls reached from an element field: one unit of fuel each *)
  Lemma run_anytype_prim f var x w :
    kind_elem var -> v_nillable var = false -> v_any_type var = false ->
    (match x with VP _ | VList _ _ => True | _ => False end) ->
    encode_primitive c u (v_format var) x = Ok w ->
    run c u ign (S f) (CAnyType x var) = Ok [WStart (v_qname var); WData w; WEnd (v_qname var)].
  Proof.
    intros [Hk _] Hn Ha Hx He. cbn [run]. destruct x; try destruct Hx; rewrite Hk; apply convert_element_plain; assumption.
  Qed.

  Lemma run_value_single f var x :
    v_mixed var = false -> kind_elem var -> v_tokens_factory var = None -> v_factory var = None ->
    run c u ign (S f) (CValue x var) = run c u ign f (CAnyType x var).
  Proof.
    intros Hm [Hk [Ht [Hes Hw]]] Htf Hfa. cbn [run]. rewrite Hm, Ht, Hes.
    unfold v_tokens, v_list_element. rewrite Htf, Hfa. reflexivity.
  Qed.

  Lemma run_value_item f var x :
    v_mixed var = false -> kind_elem var -> v_tokens_factory var = None -> is_array x = false ->
    run c u ign (S f) (CValue x var) = run c u ign f (CAnyType x var).
  Proof.
    intros Hm [Hk [Ht [Hes Hw]]] Htf Hx. cbn [run]. rewrite Hm, Ht, Hes.
    unfold v_tokens. rewrite Htf, Hx, andb_false_r. reflexivity.
  Qed.

  Lemma run_value_list f var t l fa :
    v_mixed var = false -> kind_elem var -> v_tokens_factory var = None -> v_factory var = Some fa ->
    run c u ign (S f) (CValue (VList t l) var) = concatM (fun x => run c u ign f (CValue x var)) l.
  Proof.
    intros Hm [Hk [Ht [Hes Hw]]] Htf Hfa. cbn [run]. rewrite Hm, Ht, Hes.
    unfold v_tokens, v_list_element. rewrite Htf, Hfa. reflexivity.
  Qed.

  Lemma run_value_tokens f var x tf :
    v_mixed var = false -> kind_elem var -> v_tokens_factory var = Some tf ->
    run c u ign (S f) (CValue x var) = convert_tokens c u x var.
  Proof.
    intros Hm [Hk [Ht [Hes Hw]]] Htf. cbn [run]. rewrite Hm, Ht.
    unfold v_tokens. rewrite Htf. reflexivity.
  Qed.

  Lemma run_value_text f var x :
    v_mixed var = false -> v_is KText var = true ->
    run c u ign (S f) (CValue x var) = convert_data c u x var.
  Proof. intros Hm Ht. cbn [run]. rewrite Hm, Ht. reflexivity. Qed.

  Lemma run_anytype_obj f var cl fs :
    run c u ign (S f) (CAnyType (VObj cl fs) var) = run c u ign f (CXsiType (VObj cl fs) var).
  Proof. reflexivity. Qed.

  Lemma run_xsitype_exact f var cl fs :
    kind_elem var -> v_types var = [TClass cl] -> v_nillable var = false ->
    run c u ign (S f) (CXsiType (VObj cl fs) var)
    = run c u ign f (CDataclass (VObj cl fs) (Some (v_qname var)) false None).
  Proof.
    intros [Hk [Ht [Hes Hw]]] Hty Hn. cbn [run]. rewrite Hw, Hk.
    unfold xsi_type_of. rewrite Hty. cbn [existsb ptype_eqb]. rewrite N.eqb_refl. cbn [orb gbind].
    rewrite Hn. reflexivity.
  Qed.

  Lemma wf_elem_inv var : wf_elem var = true ->
    kind_elem var /\ var_common var = true
    /\ ((exists k, v_types var = [TClass k] /\ v_clazz var = Some k /\ v_tokens_factory var = None)
        \/ (exists t, v_types var = [t] /\ simple_type t = true /\ v_clazz var = None)).
  Proof.
    unfold wf_elem. intros H. peel H H1. peel H Hwo. peel H Hq. peel H H0. split; [apply kind_elem_of; exact H|]. split; [exact H0|].
    unfold var_type in H1. destruct (v_types var) as [|t [|? ?]]; try discriminate.
    assert (Hsimple : simple_type t = true -> simple_type t && match v_clazz var with None => true | Some _ => false end
              && match v_factory var, v_tokens_factory var with
                 | None, None => match v_default var with DNone | DValue (VP _) => true | _ => false end
                 | Some f, _ => factory_default f (v_default var)
                 | None, Some f => factory_default f (v_default var)
                 end = true ->
              exists t0, [t] = [t0] /\ simple_type t0 = true /\ v_clazz var = None).
    { intros Hs Hx. peel Hx Hx2. peel Hx Hx1. exists t. split; [reflexivity|]. split; [exact Hs|].
      destruct (v_clazz var); [discriminate|reflexivity]. }
    destruct t as [| | | | | | | | | | | | |e|k]; try (right; apply Hsimple; [reflexivity|exact H1]); try discriminate H1.
    left. exists k. peel H1 H3. peel H1 H2. split; [reflexivity|].
    destruct (v_clazz var) as [k'|]; cbn in H1; [|discriminate]. apply N.eqb_eq in H1. subst k'.
    destruct (v_tokens_factory var); [discriminate|]. split; reflexivity.
  Qed.

  Lemma wf_elem_qname var : wf_elem var = true -> v_qname var <> [].
  Proof.
    unfold wf_elem. intros H. peel H H1. peel H Hwo. peel H Hq. intros E. rewrite E in Hq. discriminate.
  Qed.

  Lemma wf_attr_nowrap var : wf_attr var = true -> v_wrapper_qname var = None.
  Proof.
    unfold wf_attr. intros H. peel H H4. peel H H3. peel H H2. peel H H1. peel H Hnw.
    unfold no_wrapper in Hnw. destruct (v_wrapper_qname var); [discriminate|reflexivity].
  Qed.

  Lemma wf_text_nofactory var : wf_text var = true -> v_factory var = None.
  Proof.
    unfold wf_text. intros H. peel H H4. peel H H3. destruct (v_factory var); [discriminate|reflexivity].
  Qed.

  Lemma wf_text_nowrap var : wf_text var = true -> v_wrapper_qname var = None.
  Proof.
    unfold wf_text. intros H. peel H H4. peel H H3. peel H H2. peel H Hnw.
    unfold no_wrapper in Hnw. destruct (v_wrapper_qname var); [discriminate|reflexivity].
  Qed.

  (* a wrapper sits on a plain list field and has a non-empty name *)
  Lemma wf_elem_wrapper var w : wf_elem var = true -> v_wrapper_qname var = Some w ->
    w <> [] /\ (exists f, v_factory var = Some f) /\ v_tokens_factory var = None.
  Proof.
    unfold wf_elem. intros H Hw. peel H H1. peel H Hwo. unfold wrapper_ok in Hwo. rewrite Hw in Hwo.
    peel Hwo Ht. peel Hwo Hf. split; [intros E; rewrite E in Hwo; discriminate|].
    split; [destruct (v_factory var); [eauto|discriminate]|destruct (v_tokens_factory var); [discriminate|reflexivity]].
  Qed.

  (* ---------------------------------------------------------------- the induction *)
  Definition wfr (cl : cls) : Prop := exists f, wf_reach f cl = true.

  Lemma wfr_inv cl : wfr cl -> exists m, u_meta u cl = Some m /\ m_clazz m = cl /\ wf_class m = true
    /\ forall e v k, In e (m_elements m) -> In v (snd e) -> v_clazz v = Some k -> wfr k.
  Proof.
    intros [f H]. destruct f; [discriminate|]. cbn [Fits.wf_reach] in H.
    destruct (u_meta u cl) as [m|]; [|discriminate]. peel H H1. peel H H0. apply N.eqb_eq in H.
    exists m. repeat split; try assumption.
    intros e v k He Hv Hk. rewrite forallb_forall in H1. specialize (H1 _ He).
    rewrite forallb_forall in H1. specialize (H1 _ Hv). rewrite Hk in H1. exists f. exact H1.
  Qed.

  Lemma fits_elem_prim_items var t l :
    simple_type t = true -> v_types var = [t] ->
    forallb (fits_item (fits 0) var) l = true \/ True -> True.
  Proof. auto. Qed.

  Lemma fits_item_simple rec var t x :
    v_types var = [t] -> simple_type t = true -> fits_item rec var x = true ->
    exists p, x = VP p /\ leaf_ok t (v_format var) p = true.
  Proof.
    intros Ht Hs H. unfold Fits.fits_item, vtype in H. rewrite Ht in H.
    destruct t; try discriminate Hs; destruct x; try discriminate H;
      apply andb_true_iff in H as [H _]; eexists; split; try reflexivity; exact H.
  Qed.

  Lemma fits_item_class rec var k x :
    v_types var = [TClass k] -> fits_item rec var x = true ->
    exists cl fs, x = VObj cl fs /\ rec k x = true.
  Proof.
    intros Ht H. unfold Fits.fits_item, vtype in H. rewrite Ht in H.
    destruct x; try discriminate H. eexists _, _. split; [reflexivity|exact H].
  Qed.

  Lemma fits_tokens_inv var tf x t :
    v_types var = [t] -> fits_tokens var tf x = true ->
    exists tt l, x = VList tt l /\ l <> [] /\ forallb (token_ok t (v_format var)) l = true /\ tt = is_tuple tf.
  Proof.
    intros Ht H. unfold Fits.fits_tokens, vtype in H. rewrite Ht in H. destruct x as [| |tt l| | | |]; try discriminate H.
    peel H H1. peel H H0. exists tt, l. repeat split; try assumption.
    - destruct l; [discriminate|congruence].
    - destruct tt, (is_tuple tf); try reflexivity; discriminate.
  Qed.

  Lemma NoDup_app_r {A} (a b : list A) : NoDup (a ++ b) -> NoDup b.
  Proof. induction a as [|x a IHa]; [auto|]. cbn [app]. intros H. inversion H; auto. Qed.

  Lemma evars_indices_nodup m : wf_class m = true -> NoDup (map v_index (get_element_vars m)).
  Proof.
    intros Hwc. destruct (wf_class_inv m Hwc) as [F1 F2 F3 F4 F5 F6 F7 F8 F9 F10 F11 F12 F13].
    rewrite (evars_eq m Hwc). apply sort_nodup_map.
    rewrite (allvars_eq m Hwc) in F13.
    assert (H : NoDup (map v_index (map snd (m_attributes m) ++ flat_map snd (m_elements m)
                                    ++ match m_text m with Some t => [t] | None => [] end))).
    { eapply Permutation.Permutation_NoDup; [|exact F13]. apply Permutation.Permutation_map. apply sort_perm. }
    rewrite map_app in H. apply NoDup_app_r in H. exact H.
  Qed.

  Lemma evar_nonillable m var : wf_class m = true -> In var (get_element_vars m) -> v_nillable var = false.
  Proof.
    intros Hwc Hin. destruct (wf_class_evar m var Hwc Hin) as [[Hwe _]|[_ [Hwt _]]].
    - destruct (wf_elem_inv var Hwe) as [_ [Hc _]]. destruct (var_common_inv var Hc) as [_ [_ [_ [Hn _]]]]. exact Hn.
    - destruct (wf_text_inv var Hwt) as [_ [Hwt0 _]]. destruct (var_common_inv var Hwt0) as [_ [_ [_ [Hn _]]]]. exact Hn.
  Qed.

  (* without sequence groups *)
  Lemma pairs_plain cl fs m :
    wf_class m = true -> map fst fs = map v_name (get_all_vars m) ->
    (forall var, In var (get_element_vars m) -> v_sequence var = None) ->
    pairs cl fs m = flat_map (emit1 fs) (get_element_vars m).
  Proof.
    intros Hwc Hnames Hseq. apply pairs_eq.
    apply pairs_spec_plain; [exact Hnames| | |apply evars_indices_nodup; exact Hwc].
    - intros var Hv. apply (in_allvars m var Hwc). right; exact Hv.
    - intros var Hin. split; [apply Hseq; exact Hin|apply (evar_nonillable m var Hwc Hin)].
  Qed.

  (* what next_value yields for a fitting instance *)
  Lemma class_pairs cl fs m :
    wf_class m = true -> map fst fs = map v_name (get_all_vars m) -> pairs_spec cl fs m (pairs cl fs m).
  Proof.
    intros Hwc Hnames.
    assert (H : pairs_spec cl fs m (flat_map (emit1 fs) (get_element_vars m))).
    { apply pairs_spec_plain; [exact Hnames| | |apply evars_indices_nodup; exact Hwc].
      - intros var Hv. apply (in_allvars m var Hwc). right; exact Hv.
      - intros var Hin. destruct (wf_class_evar m var Hwc Hin) as [[Hwe _]|[_ [Hwt _]]].
        + destruct (wf_elem_inv var Hwe) as [_ [Hc _]]. destruct (var_common_inv var Hc) as [_ [_ [_ [Hn [_ [_ [_ [Hs _]]]]]]]].
          split; assumption.
        + destruct (wf_text_inv var Hwt) as [_ [Hwt0 _]]. destruct (var_common_inv var Hwt0) as [_ [_ [_ [Hn [_ [_ [_ [Hs _]]]]]]]].
          split; assumption. }
    rewrite (pairs_eq _ _ _ _ H). exact H.
  Qed.

  Lemma wrap_ok var (r : gres (list wevent)) items :
    r = Ok (flat_map bflat items) ->
    (evs <- r ;; Ok (wrap_events var evs)) = Ok (flat_map bflat (g_wrap var items)).
  Proof.
    intros ->. cbn [gbind]. unfold wrap_events, g_wrap.
    destruct (v_wrapper_qname var) as [[|ch w]|]; try reflexivity.
    cbn [flat_map bflat map app]. rewrite app_nil_r. reflexivity.
  Qed.

  Lemma g_field_some rec var x : x <> VNone -> g_field rec var x = g_wrap var (g_items rec var x).
  Proof. intros H. unfold g_field. destruct x; try reflexivity. congruence. Qed.

  Lemma run_obj : forall n cl o qn,
    wfr cl -> fits n cl o = true ->
    forall fuel, (5 * odepth o <= fuel)%nat ->
    run c u ign fuel (CDataclass o qn false None) = Ok (bflat (gobj n qn o)).
  Proof.
    induction n as [|n IH]; intros cl o qn Hwf Hfit fuel Hfuel; [discriminate|].
    destruct (fits_inv n cl o Hfit) as [fs [m [-> [Hm [Hnames [Hfa [Hfe Hft]]]]]]].
    destruct (wfr_inv cl Hwf) as [m' [Hm' [Hmc [Hwc Hnest]]]]. rewrite Hm in Hm'. inversion Hm'; subst m'. clear Hm'.
    assert (Hd : (1 <= odepth (VObj cl fs))%nat) by (cbn [odepth]; lia).
    destruct fuel as [|f]; [lia|].
    cbn [run gobj]. rewrite Hm.
    assert (Hnil : m_nillable m = false).
    { destruct (wf_class_inv m Hwc). assumption. }
    rewrite Hnil. cbn [orb].
    (* attributes *)
    unfold next_attribute.
    rewrite (concatM_flat _ (fun var => map (fun a => WAttr (fst a) (snd a)) (g_attr var (field_of fs var)))).
    2:{ intros var Hin. destruct (wf_class_avar m var Hwc Hin) as [Hwa Hina].
        apply (attr_step_ok cl fs m var Hnames (in_allvars m var Hwc (or_introl Hin)) Hwa).
        apply (Hfa _ Hina). }
    cbn [gbind]. rewrite !app_nil_r.
    (* the field values *)
    pose proof (class_pairs cl fs m Hwc Hnames) as Hps.
    rewrite (ps_eq _ _ _ _ Hps).
    cbn [gbind].
    (* the content *)
    rewrite (concatM_flat _ (fun vv => flat_map bflat (g_field (gobj n) (fst vv) (snd vv)))).
    2:{ intros [var x] Hin. cbn [fst snd].
        destruct (ps_src _ _ _ _ Hps _ Hin) as [Hvar [Hxn Hsrc]]. cbn [fst snd] in Hvar, Hxn.
        assert (Hfield : In (v_name var, field_of fs var) fs \/ field_of fs var = VNone).
        { unfold field_of. destruct (assoc (v_name var) fs) eqn:Ea; [left; apply assoc_in; exact Ea|right; reflexivity]. }
        assert (Hdx : (odepth x < odepth (VObj cl fs))%nat).
        { destruct Hsrc as [Hw|[f0 [t0 [l0 [_ [_ [_ [El Hil]]]]]]]]; cbn [fst snd] in *.
          - unfold pair_whole in Hw. cbn [fst snd] in Hw. destruct Hfield as [Hf|Hf]; [|congruence].
            rewrite Hw. apply (odepth_field cl fs (v_name var)). exact Hf.
          - destruct Hfield as [Hf|Hf]; [|congruence].
            pose proof (odepth_field cl fs (v_name var) _ Hf) as H1. rewrite El in H1.
            pose proof (odepth_item t0 l0 x Hil) as H2. lia. }
        clear Hfield.
        destruct (wf_class_evar m var Hwc Hvar) as [[Hwe Hine]|[Htx [Hwt Hnoe]]].
        - (* an element field *)
          destruct (wf_elem_inv var Hwe) as [Hk [Hc Hty]].
          destruct (var_common_inv var Hc) as [_ [Hmx [Hany [Hn [_ [_ [_ [_ _]]]]]]]].
          rewrite (g_field_some (gobj n) var x Hxn). apply wrap_ok.
          pose proof (Hfe _ var Hine (or_introl eq_refl)) as Hfv0.
          assert (Hkt : v_is KText var = false) by (destruct Hk as [_ [Hkt _]]; exact Hkt).
          unfold g_items. rewrite Hkt.
          destruct Hty as [[k [Htys [Hcl Htf]]]|[t [Htys [Hst Hcl]]]].
          + (* class typed *)
            rewrite Htf.
            assert (Hobj : forall y, (odepth y <= odepth x)%nat -> fits_item (fits n) var y = true ->
                     forall f', (5 * odepth y + 2 <= f')%nat ->
                     run c u ign f' (CAnyType y var) = Ok (bflat (g_item (gobj n) var y))).
            { intros y Hdy Hfy f' Hf'. destruct (fits_item_class _ var k y Htys Hfy) as [cl' [fs' [-> Hr]]].
              assert (Hcl' : cl' = k).
              { destruct n; [discriminate|]. cbn [Fits.fits] in Hr. apply andb_true_iff in Hr as [Hr _].
                apply N.eqb_eq in Hr. exact Hr. }
              subst cl'.
              destruct f' as [|f1]; [lia|]. rewrite run_anytype_obj.
              destruct f1 as [|f2]; [lia|]. rewrite (run_xsitype_exact f2 var k fs' Hk Htys Hn).
              cbn [g_item]. apply (IH k (VObj k fs') (Some (v_qname var))); [|exact Hr|lia].
              apply (Hnest _ var k Hine (or_introl eq_refl) Hcl). }
            destruct Hsrc as [Hw|[f0 [t0 [l0 [Hf0 [_ [_ [El Hil]]]]]]]]; cbn [fst snd] in *.
            2:{ (* one item of a list field inside a sequence group *)
                rewrite El in Hfv0. unfold Fits.fits_elem in Hfv0. rewrite Hf0, Htf in Hfv0.
                apply andb_true_iff in Hfv0 as [_ Hfl]. rewrite forallb_forall in Hfl. specialize (Hfl x Hil).
                destruct (fits_item_class _ var k x Htys Hfl) as [cl' [fs' [Ex _]]].
                destruct f as [|f0']; [cbn [odepth] in *; subst x; cbn [odepth] in Hdx; lia|].
                rewrite (run_value_item f0' var x Hmx Hk Htf); [|subst x; reflexivity].
                rewrite (Hobj x (le_n _) Hfl); [subst x; cbn [flat_map]; rewrite app_nil_r; reflexivity|].
                subst x. cbn [odepth] in *. lia. }
            unfold pair_whole in Hw. cbn [fst snd] in Hw. rewrite <- Hw in Hfv0. rename Hfv0 into Hfv.
            unfold Fits.fits_elem in Hfv. rewrite Htf in Hfv.
            destruct (v_factory var) as [fa|] eqn:Efa.
            * destruct x as [| |tt l| | | |]; try discriminate Hfv. apply andb_true_iff in Hfv as [_ Hfl].
              destruct f as [|f0]; [cbn [odepth] in *; lia|].
              rewrite (run_value_list f0 var tt l fa Hmx Hk Htf Efa). cbn [gbind].
              rewrite (concatM_flat _ (fun y => bflat (g_item (gobj n) var y))).
              { rewrite flat_map_map. reflexivity. }
              intros y Hy. rewrite forallb_forall in Hfl. specialize (Hfl y Hy).
              pose proof (odepth_item tt l y Hy) as Hdy.
              destruct (fits_item_class _ var k y Htys Hfl) as [cl' [fs' [Ey _]]].
              destruct f0 as [|f1]; [cbn [odepth] in *; subst y; cbn [odepth] in Hdy; lia|].
              rewrite (run_value_item f1 var y Hmx Hk Htf); [|subst y; reflexivity].
              apply Hobj; [exact Hdy|exact Hfl|]. subst y. cbn [odepth] in *. lia.
            * destruct x as [| | |cl' fs'| | |] eqn:Ex; try (unfold Fits.fits_item, vtype in Hfv; rewrite Htys in Hfv; discriminate Hfv);
                [congruence|].
              destruct f as [|f0]; [cbn [odepth] in *; lia|].
              rewrite (run_value_single f0 var _ Hmx Hk Htf Efa). cbn [gbind flat_map]. rewrite app_nil_r.
              apply Hobj; [lia|exact Hfv|cbn [odepth] in *; lia].
          + (* simple typed *)
            assert (Hprim : forall y f', fits_item (fits n) var y = true ->
                      run c u ign (S f') (CAnyType y var) = Ok (bflat (g_prim var y))).
            { intros y f' Hfy. destruct (fits_item_simple _ var t y Htys Hst Hfy) as [p [-> Hp]].
              rewrite (run_anytype_prim f' var (VP p) (enc_p (v_format var) p) Hk Hn Hany I (encode_leaf t _ p Hp)).
              reflexivity. }
            destruct Hsrc as [Hw|[f0 [t0 [l0 [Hf0 [Htf0 [_ [El Hil]]]]]]]]; cbn [fst snd] in *.
            2:{ (* one item of a list field inside a sequence group *)
                rewrite El in Hfv0. unfold Fits.fits_elem in Hfv0. rewrite Hf0, Htf0 in Hfv0.
                apply andb_true_iff in Hfv0 as [_ Hfl]. rewrite forallb_forall in Hfl. specialize (Hfl x Hil).
                destruct (fits_item_simple _ var t x Htys Hst Hfl) as [p [Ex Hp]].
                rewrite Htf0.
                destruct f as [|f0']; [cbn [odepth] in *; lia|].
                rewrite (run_value_item f0' var x Hmx Hk Htf0); [|subst x; reflexivity].
                destruct f0' as [|f1]; [cbn [odepth] in *; lia|].
                rewrite (Hprim x f1 Hfl). subst x. cbn [flat_map g_item]. rewrite app_nil_r. reflexivity. }
            unfold pair_whole in Hw. cbn [fst snd] in Hw. rewrite <- Hw in Hfv0. rename Hfv0 into Hfv.
            unfold Fits.fits_elem in Hfv.
            destruct (v_tokens_factory var) as [tf|] eqn:Etf.
            * (* tokens *)
              destruct f as [|f0]; [cbn [odepth] in *; lia|].
              rewrite (run_value_tokens f0 var x tf Hmx Hk Etf). cbn [gbind].
              destruct (v_factory var) as [fa|] eqn:Efa.
              -- destruct x as [| |tt l| | | |]; try discriminate Hfv. apply andb_true_iff in Hfv as [_ Hfl].
                 unfold convert_tokens. cbn [py_truthy].
                 destruct l as [|y l']; [rewrite Hn; reflexivity|]. cbn [nonempty orb].
                 rewrite forallb_forall in Hfl.
                 destruct (fits_tokens_inv var tf y t Htys (Hfl y (or_introl eq_refl))) as [ty [ly [-> _]]].
                 rewrite (concatM_flat _ (fun z => bflat (g_prim var z))).
                 { rewrite flat_map_map. reflexivity. }
                 intros z Hz. destruct (fits_tokens_inv var tf z t Htys (Hfl z Hz)) as [tz [lz [-> [_ [Htk _]]]]].
                 rewrite (convert_element_plain var (VList tz lz) _ Hn Hany (encode_tokens t _ tz lz Htk)). reflexivity.
              -- destruct x as [| |tt l| | | |] eqn:Ex; try (cbn in Hfv; discriminate Hfv).
                 destruct l as [|y l'].
                 { unfold convert_tokens. cbn [py_truthy nonempty orb]. rewrite Hn. reflexivity. }
                 destruct (fits_tokens_inv var tf _ t Htys Hfv) as [tt' [l'' [E [_ [Htk _]]]]]. inversion E; subst tt' l''.
                 unfold convert_tokens. cbn [py_truthy nonempty orb].
                 assert (Hy : match y with VList _ _ => False | _ => True end).
                 { cbn [forallb] in Htk. apply andb_true_iff in Htk as [Hy _].
                   destruct (token_is_leaf _ _ _ Hy) as [p [-> _]]. exact I. }
                 pose proof (convert_element_plain var (VList tt (y :: l')) _ Hn Hany (encode_tokens t _ tt (y :: l') Htk)) as Hce.
                 destruct y; try destruct Hy; cbn [flat_map]; rewrite app_nil_r; rewrite Hce; reflexivity.
            * destruct (v_factory var) as [fa|] eqn:Efa.
              -- destruct x as [| |tt l| | | |]; try discriminate Hfv. apply andb_true_iff in Hfv as [_ Hfl].
                 destruct f as [|f0]; [cbn [odepth] in *; lia|].
                 rewrite (run_value_list f0 var tt l fa Hmx Hk Etf Efa). cbn [gbind].
                 rewrite (concatM_flat _ (fun y => bflat (g_item (gobj n) var y))).
                 { rewrite flat_map_map. reflexivity. }
                 intros y Hy. rewrite forallb_forall in Hfl. specialize (Hfl y Hy).
                 destruct (fits_item_simple _ var t y Htys Hst Hfl) as [p [Ey Hp]].
                 destruct f0 as [|f1]; [cbn [odepth] in *; lia|].
                 rewrite (run_value_item f1 var y Hmx Hk Etf); [|subst y; reflexivity].
                 destruct f1 as [|f2]; [cbn [odepth] in *; lia|].
                 rewrite (Hprim y f2 Hfl). subst y. reflexivity.
              -- destruct f as [|f0]; [cbn [odepth] in *; lia|].
                 rewrite (run_value_single f0 var x Hmx Hk Etf Efa). cbn [gbind].
                 assert (Hfx : fits_item (fits n) var x = true).
                 { destruct x; try exact Hfv. congruence. }
                 destruct (fits_item_simple _ var t x Htys Hst Hfx) as [p [Ex Hp]].
                 destruct f0 as [|f1]; [cbn [odepth] in *; lia|].
                 rewrite (Hprim x f1 Hfx). rewrite Ex. cbn [flat_map g_item]. rewrite app_nil_r. reflexivity.
        - (* the Text field *)
          destruct (wf_text_inv var Hwt) as [Hwtk [Hwt0 [t [Htys Hwtd]]]]. rename Hwt into Hwt'. rename Hwtk into Hwt.
          destruct (var_common_inv var Hwt0) as [_ [Hmx [_ [_ [_ [_ [_ [_ _]]]]]]]].
          rewrite (g_field_some (gobj n) var x Hxn). apply wrap_ok.
          destruct f as [|f0]; [cbn [odepth] in *; lia|].
          rewrite (run_value_text f0 var x Hmx Hwt).
          unfold g_items. rewrite Hwt.
          assert (Hxe : x = field_of fs var).
          { destruct Hsrc as [Hw|[f1 [t1 [l1 [Hf1 _]]]]]; [exact Hw|]. cbn [fst] in Hf1.
            rewrite (wf_text_nofactory var Hwt') in Hf1. discriminate Hf1. }
          rewrite Htx in Hft. rewrite <- Hxe in Hft.
          unfold Fits.fits_text, vtype in Hft. rewrite Htys in Hft.
          unfold convert_data.
          destruct (v_tokens_factory var) as [tf|].
          + destruct x as [| |tt l| | | |]; try discriminate Hft. apply andb_true_iff in Hft as [_ Htk].
            rewrite (encode_tokens t _ tt l Htk). reflexivity.
          + destruct x as [|p| | | | |]; try discriminate Hft; [congruence|]. apply andb_true_iff in Hft as [Hp _].
            rewrite (encode_leaf t _ p Hp). reflexivity. }
    cbn [gbind bflat app]. f_equal. f_equal. f_equal.
    - symmetry. apply map_flat_map_l.
    - f_equal. rewrite flat_map_flat_map. reflexivity.
  Qed.
  (* ---------------------------------------------------------------- the expected tree *)
  (* what Spec/XmlNs.v's reading of the emitted events is (Proofs/RoundtripTree.v): the same
     structural function, with values as text atoms *)
  Definition x_text (fmt : option str) (x : value) : str :=
    match x with VP p => leaf_text c u fmt p | _ => [] end.
  Definition e_atoms (fmt : option str) (x : value) : list atom :=
    match x with
    | VP p => [AText (leaf_text c u fmt p)]
    | VList _ l => map (fun y => AText (x_text fmt y)) l
    | _ => []
    end.
  Definition e_data (fmt : option str) (x : value) : list XmlNs.enode :=
    match e_atoms fmt x with
    | [] => []
    | l => if atoms_trivial l then [] else [EData l]
    end.
  Definition e_attr (var : xvar) (x : value) : list (XmlNs.qname * list atom) :=
    match x with
    | VNone => []
    | _ => if is_array x && negb (py_truthy x) then []
           else if ign && opt_skip var x then []
           else [(Bind.split_qname (v_qname var), e_atoms (v_format var) x)]
    end.
  Definition e_prim (var : xvar) (x : value) : XmlNs.enode :=
    EElem (Bind.split_qname (v_qname var)) [] (e_data (v_format var) x).
  Definition e_item (rec : option qname -> value -> XmlNs.enode) (var : xvar) (x : value) : XmlNs.enode :=
    match x with VObj _ _ => rec (Some (v_qname var)) x | _ => e_prim var x end.
  Definition e_wrap (var : xvar) (items : list XmlNs.enode) : list XmlNs.enode :=
    match v_wrapper_qname var with
    | Some ((_ :: _) as w) => [EElem (Bind.split_qname w) [] items]
    | _ => items
    end.

  Definition e_items (rec : option qname -> value -> XmlNs.enode) (var : xvar) (x : value) : list XmlNs.enode :=
    match x with
    | VNone => []
    | _ =>
        if v_is KText var then e_data (v_format var) x
        else match v_tokens_factory var with
             | Some _ =>
                 match x with
                 | VList _ [] => []
                 | VList _ ((VList _ _ :: _) as l) => map (e_prim var) l
                 | _ => [e_prim var x]
                 end
             | None =>
                 match x with
                 | VList _ l => map (e_item rec var) l
                 | _ => [e_item rec var x]
                 end
             end
    end.
  Definition e_field (rec : option qname -> value -> XmlNs.enode) (var : xvar) (x : value) : list XmlNs.enode :=
    match x with VNone => [] | _ => e_wrap var (e_items rec var x) end.

  Fixpoint eobj (n : nat) (qn : option qname) (o : value) {struct n} : XmlNs.enode :=
    match n, o with
    | S k, VObj cl fs =>
        match u_meta u cl with
        | Some m =>
            EElem (Bind.split_qname (match qn with Some ((_ :: _) as q) => q | _ => m_qname m end))
                  (flat_map (fun var => e_attr var (field_of fs var)) (get_attribute_vars m))
                  (flat_map (fun vv => e_field (eobj k) (fst vv) (snd vv)) (pairs cl fs m))
        | None => EData []
        end
    | _, _ => EData []
    end.

  (* under the guards every encoded value is plain text *)
  Lemma enc_leaf t fmt p : leaf_ok t fmt p = true -> enc_p fmt p = WP (PStr (leaf_text c u fmt p)).
  Proof.
    unfold Fits.leaf_ok, leaf_text. intros H. apply andb_true_iff in H as [_ H].
    destruct (ptext c u fmt p) as [s|] eqn:E; [|discriminate]. clear H.
    destruct p; cbn [ptext plain_text enc_p encode_prim] in *; try (inversion E; reflexivity); try discriminate.
    destruct (enum_member u e member) as [pv|]; [|discriminate].
    destruct pv; cbn [plain_text encode_prim] in *; try (inversion E; reflexivity); discriminate.
  Qed.

  Lemma enc_tokens t fmt tf l : forallb (token_ok t fmt) l = true ->
    enc fmt (VList tf l) = WL (map (fun y => WP (PStr (x_text fmt y))) l).
  Proof.
    intros H. cbn [enc]. f_equal. apply map_ext_in. intros y Hy.
    rewrite forallb_forall in H. destruct (token_is_leaf _ _ _ (H y Hy)) as [p [-> Hp]].
    cbn [x_text]. eapply enc_leaf. exact Hp.
  Qed.
End Gen.
