(* Proofs/RoundtripGen.v — serializer half of the round trip (C01): inside the guards of
   Spec/Fits.v, EventGenerator (Model/EventGen.v) succeeds and emits the flattening of a
   tree `gobj` that is a plain structural function of the instance and the metadata. *)
From Coq Require Import NArith ZArith List Bool Lia Arith.
From XV Require Import Base.Str Base.Eqb Base.PyInt Spec.XmlNs Model.Bind Model.EventGen Spec.Fits
  Proofs.RoundtripBase.
Import ListNotations.
Open Scope N_scope.

(* ---------------------------------------------------------------- event trees (Bind level) *)
Inductive bitem :=
| BData (v : wval)
| BNode (q : qname) (attrs : list (qname * wval)) (kids : list bitem).

Fixpoint bflat (i : bitem) : list wevent :=
  match i with
  | BData v => [WData v]
  | BNode q ats ks =>
      WStart q :: map (fun a => WAttr (fst a) (snd a)) ats ++ flat_map bflat ks ++ [WEnd q]
  end.

(* ---------------------------------------------------------------- monad helpers *)
Lemma mapM_ok {A B} (g : A -> gres B) (h : A -> B) l :
  (forall x, In x l -> g x = Ok (h x)) -> mapM g l = Ok (map h l).
Proof.
  induction l as [|x r IH]; intros H; [reflexivity|].
  cbn [mapM map]. rewrite (H x (or_introl eq_refl)). cbn [gbind].
  rewrite IH; [reflexivity|]. intros y Hy. apply H. right; exact Hy.
Qed.

Lemma concatM_flat {A B} (g : A -> gres (list B)) (h : A -> list B) l :
  (forall x, In x l -> g x = Ok (h x)) -> concatM g l = Ok (flat_map h l).
Proof.
  intros H. unfold concatM. rewrite (mapM_ok g h l H). cbn [gbind].
  f_equal. induction l as [|x r IH]; [reflexivity|]. cbn [map concat flat_map]. f_equal.
  apply IH. intros y Hy. apply H. right; exact Hy.
Qed.

Lemma gbind_id {A} (a : gres A) : (x <- a ;; Ok x) = a.
Proof. destruct a; reflexivity. Qed.

Lemma flat_map_flat_map {A B C} (f : A -> list B) (g : B -> list C) l :
  flat_map g (flat_map f l) = flat_map (fun x => flat_map g (f x)) l.
Proof.
  induction l as [|x r IH]; [reflexivity|]. cbn [flat_map]. rewrite flat_map_app, IH. reflexivity.
Qed.

Lemma map_flat_map_l {A B C} (f : B -> C) (g : A -> list B) l :
  map f (flat_map g l) = flat_map (fun x => map f (g x)) l.
Proof. induction l as [|x r IH]; [reflexivity|]. cbn [flat_map]. rewrite map_app, IH. reflexivity. Qed.

Lemma flat_map_map {A B C} (f : A -> B) (g : B -> list C) l :
  flat_map g (map f l) = flat_map (fun x => g (f x)) l.
Proof. induction l as [|x r IH]; [reflexivity|]. cbn [map flat_map]. rewrite IH. reflexivity. Qed.

(* ---------------------------------------------------------------- depth *)
Lemma odepth_field c fs k v : In (k, v) fs -> (odepth v < odepth (VObj c fs))%nat.
Proof.
  cbn [odepth]. intros H. apply Nat.lt_succ_r.
  induction fs as [|[k' x] fs IH]; [destruct H|].
  destruct H as [E|H]; [inversion E; subst; lia|]. specialize (IH H). lia.
Qed.

Lemma odepth_item t l x : In x l -> (odepth x <= odepth (VList t l))%nat.
Proof.
  cbn [odepth]. intros H. induction l as [|y l IH]; [destruct H|].
  destruct H as [->|H]; [lia|]. specialize (IH H). lia.
Qed.

Lemma odepth_le_vdepth : forall v, (odepth v <= vdepth v)%nat.
Proof.
  fix IH 1. intros [| |t l|c fs|q t tl a ch|q x ty|m]; cbn [odepth vdepth]; try lia.
  - apply Nat.le_le_succ_r. induction l as [|x l IHl]; [lia|]. pose proof (IH x). lia.
  - apply le_n_S. induction fs as [|[k x] fs IHl]; [lia|]. pose proof (IH x). lia.
  - apply le_n_S. induction ch as [|x l IHl]; [lia|]. pose proof (IH x). lia.
Qed.

Lemma odepth_anychild q t tl a ch x : In x ch -> (odepth x < odepth (VAny q t tl a ch))%nat.
Proof.
  intros H. cbn [odepth]. apply Nat.lt_succ_r.
  induction ch as [|y l IHl]; [destruct H|]. destruct H as [->|H]; [lia|]. specialize (IHl H). lia.
Qed.

Section Gen.
  Variable c : conv.
  Variable u : universe.
  Variable ok : prim -> bool.
  Variable pyspace : N -> bool.
  Variable ign : bool.

  Notation leaf_ok := (leaf_ok c u ok).
  Notation token_ok := (token_ok c u ok pyspace).
  Notation fits := (fits c u ok pyspace).
  Notation fits_elem := (fits_elem c u ok pyspace).
  Notation fits_item := (fits_item c u ok).
  Notation fits_tokens := (fits_tokens c u ok pyspace).
  Notation fits_attr := (fits_attr c u ok pyspace).
  Notation fits_text := (fits_text c u ok pyspace).
  Notation derived_ok := (derived_ok c u ok).

  (* ---------------------------------------------------------------- encoded values *)
  Definition enc_p (fmt : option str) (p : prim) : wval :=
    match p with
    | PEnum e m => match enum_member u e m with Some pv => encode_prim c fmt pv | None => WNone end
    | _ => encode_prim c fmt p
    end.
  Definition enc (fmt : option str) (v : value) : wval :=
    match v with
    | VP p => enc_p fmt p
    | VList _ l => WL (map (fun x => match x with VP p => enc_p fmt p | _ => WNone end) l)
    | _ => WNone
    end.

  Lemma enum_value_member e m : enum_value u e m = enum_member u e m.
  Proof. reflexivity. Qed.

  Lemma encode_leaf t fmt p : leaf_ok t fmt p = true -> encode_primitive c u fmt (VP p) = Ok (enc_p fmt p).
  Proof.
    unfold Fits.leaf_ok. intros H. apply andb_true_iff in H as [_ H].
    destruct p; try reflexivity.
    cbn [encode_primitive enc_p]. rewrite enum_value_member. cbn [ptext] in H.
    destruct (enum_member u e member); [reflexivity|discriminate].
  Qed.

  Lemma encode_primitive_list fmt t l :
    encode_primitive c u fmt (VList t l) = (ws <- mapM (encode_primitive c u fmt) l ;; Ok (WL ws)).
  Proof.
    cbn [encode_primitive]. f_equal. induction l as [|x l IH]; [reflexivity|].
    cbn [mapM]. rewrite <- IH. reflexivity.
  Qed.

  Lemma token_is_leaf t fmt x : token_ok t fmt x = true -> exists p, x = VP p /\ leaf_ok t fmt p = true.
  Proof.
    unfold Fits.token_ok. destruct x; try discriminate. intros H.
    apply andb_true_iff in H as [H _]. apply andb_true_iff in H as [H _]. eexists; split; [reflexivity|exact H].
  Qed.

  Lemma encode_tokens t fmt tf l :
    forallb (token_ok t fmt) l = true -> encode_primitive c u fmt (VList tf l) = Ok (enc fmt (VList tf l)).
  Proof.
    intros H. rewrite encode_primitive_list.
    rewrite (mapM_ok _ (fun x => match x with VP p => enc_p fmt p | _ => WNone end) l); [reflexivity|].
    intros x Hin. rewrite forallb_forall in H. destruct (token_is_leaf _ _ _ (H x Hin)) as [p [-> Hp]].
    eapply encode_leaf; exact Hp.
  Qed.

  (* ---------------------------------------------------------------- the reference tree *)
  Definition opt_skip (var : xvar) (x : value) : bool :=
    if v_required var then false
    else match py_eq (default_value (v_default var)) x with Some b => b | None => false end.

  Definition g_attr (var : xvar) (x : value) : list (qname * wval) :=
    match x with
    | VNone => []
    | VMap mm => map (fun kv => (fst kv, WP (PStr (snd kv)))) mm     (* an attribute map: one attribute per entry *)
    | _ => if is_array x && negb (py_truthy x) then []
           else if ign && opt_skip var x then []
           else [(v_qname var, enc (v_format var) x)]
    end.

  (* convert_element adds xsi:nil="true" to a falsy value of a nillable field (the writer drops it
     again when the element has content) *)
  Definition nil_attr_g (var : xvar) (x : value) : list (qname * wval) :=
    if v_nillable var && negb (py_truthy x) then [(XSI_NIL, WP (PStr TRUE_STR))] else [].
  Lemma nil_attr_g_nonil var x : v_nillable var = false -> nil_attr_g var x = [].
  Proof. intros H. unfold nil_attr_g. rewrite H. reflexivity. Qed.
  Definition g_prim (var : xvar) (x : value) : bitem :=
    BNode (v_qname var) (nil_attr_g var x) [BData (enc (v_format var) x)].
  (* xsi:type of a model instance of class k' held by the field var (EventGenerator.xsi_type) *)
  Definition xsi_for (var : xvar) (k' : cls) : option qname :=
    if existsb (ptype_eqb (TClass k')) (v_types var) then None
    else match u_meta u k' with
         | Some mk => real_xsi_type (v_qname var) (m_target_qname mk)
         | None => None
         end.
  Definition xsi_attr_g (x : option qname) : list (qname * wval) :=
    match x with Some ((_ :: _) as q) => [(XSI_TYPE, WP (PQName q))] | _ => [] end.
  Definition add_xsi_g (x : option qname) (i : bitem) : bitem :=
    match i with BNode q ats ks => BNode q (ats ++ xsi_attr_g x) ks | BData v => BData v end.
  Lemma add_xsi_g_none i : add_xsi_g None i = i.
  Proof. destruct i; [reflexivity|]. cbn [add_xsi_g xsi_attr_g]. rewrite app_nil_r. reflexivity. Qed.

  (* convert_dataclass adds xsi:nil="true" after the attributes and xsi:type when the field or the class
     is nillable (the writer drops it again when the element has content) *)
  Definition cnil (o : value) : bool :=
    match o with VObj k _ => cls_nillable u k | _ => false end.
  Definition add_nil_g (b : bool) (i : bitem) : bitem :=
    match i with
    | BNode q ats ks => BNode q (ats ++ (if b then [(XSI_NIL, WP (PStr TRUE_STR))] else [])) ks
    | BData v => BData v
    end.
  Lemma add_nil_g_false i : add_nil_g false i = i.
  Proof. destruct i; [reflexivity|]. cbn [add_nil_g]. rewrite app_nil_r. reflexivity. Qed.

  (* a generic element (convert_any_element): the text goes before the children *)
  Fixpoint g_any (x : value) : bitem :=
    match x with
    | VAny (Some q) text _ attrs children =>
        BNode q (map (fun kv => (fst kv, WP (PStr (snd kv)))) attrs)
              (BData (match text with Some t => WP (PStr t) | None => WNone end) :: map g_any children)
    | _ => BData WNone
    end.

  Definition g_item (rec : option qname -> value -> bitem) (var : xvar) (x : value) : bitem :=
    match x with
    | VAny _ _ _ _ _ => g_any x
    | VObj k' _ => add_nil_g (v_nillable var || cnil x) (add_xsi_g (xsi_for var k') (rec (Some (v_qname var)) x))
    | _ => g_prim var x
    end.
  Definition g_wrap (var : xvar) (items : list bitem) : list bitem :=
    match v_wrapper_qname var with
    | Some ((_ :: _) as w) => [BNode w [] items]
    | _ => items
    end.

  Definition g_items (rec : option qname -> value -> bitem) (var : xvar) (x : value) : list bitem :=
    match x with
    | VNone => if v_nillable var then [g_prim var VNone] else []      (* <f xsi:nil="true"/> *)
    | _ =>
        if v_is KText var then [BData (enc (v_format var) x)]
        else match v_tokens_factory var with
             | Some _ =>
                 match x with
                 | VList _ [] => []
                 | VList _ ((VList _ _ :: _) as l) => map (g_prim var) l
                 | _ => [g_prim var x]
                 end
             | None =>
                 match x with
                 | VList _ l => map (g_item rec var) l
                 | _ => [g_item rec var x]
                 end
             end
    end.
  Definition g_field (rec : option qname -> value -> bitem) (var : xvar) (x : value) : list bitem :=
    match x with
    | VNone => if v_nillable var then g_wrap var (g_items rec var x) else []
    | _ => g_wrap var (g_items rec var x)
    end.

  (* the child objects one yielded field value contributes (the same in both directions) *)
  Definition occ (var : xvar) (x : value) : list value :=
    match x with
    | VNone => if v_nillable var then [VNone] else []
    | _ => match v_tokens_factory var with
           | Some _ => match x with
                       | VList _ [] => []
                       | VList _ ((VList _ _ :: _) as l) => l
                       | _ => [x]
                       end
           | None => match x with VList _ l => l | _ => [x] end
           end
    end.

  (* the (field, value) pairs EventGenerator.next_value yields for an instance, in its order:
     whole field values, and - inside a sequence group - the items of the list fields, round robin *)
  Definition pairs (cl : cls) (fs : list (str * value)) (m : xmeta) : list (xvar * value) :=
    match next_value (VObj cl fs) m with Ok l => l | Err _ => [] end.

  Fixpoint gobj (n : nat) (qn : option qname) (o : value) {struct n} : bitem :=
    match n, o with
    | S k, VObj cl fs =>
        match u_meta u cl with
        | Some m =>
            BNode (match qn with Some ((_ :: _) as q) => q | _ => m_qname m end)
                  (flat_map (fun var => g_attr var (field_of fs var)) (get_attribute_vars m))
                  (flat_map (fun vv => g_field (gobj k) (fst vv) (snd vv)) (pairs cl fs m))
        | None => BData WNone
        end
    | _, _ => BData WNone
    end.

  (* ---------------------------------------------------------------- metadata facts *)
  Record class_facts (m : xmeta) : Prop := {
    cf_choices : m_choices m = [];
    cf_wildcards : m_wildcards m = []
                   \/ exists wv, m_wildcards m = [wv] /\ wf_wild wv = true /\ assoc (v_qname wv) (m_elements m) = None
                                  /\ assoc (v_qname wv) (m_wrappers m) = None /\ m_text m = None;
    cf_any : m_any_attributes m = [] \/ exists av, m_any_attributes m = [av] /\ wf_anyattr av = true;
    cf_wrappers : forallb (fun e => negb (match assoc (fst e) (m_wrappers m) with Some _ => true | None => false end)
                         && forallb (fun v => match v_wrapper_qname v with
                                              | Some w => match assoc w (m_wrappers m) with Some _ => true | None => false end
                                              | None => true
                                              end) (snd e)) (m_elements m) = true;
    cf_nillable : True;
    cf_mixed : m_mixed_content m = false;
    cf_elements : forallb (fun e => match snd e with [v] => str_eqb (v_qname v) (fst e) && wf_elem v | _ => false end) (m_elements m) = true;
    cf_elements_distinct : NoDup (map fst (m_elements m));
    cf_attributes : forallb (fun e => str_eqb (v_qname (snd e)) (fst e) && wf_attr (snd e)) (m_attributes m) = true;
    cf_attributes_distinct : NoDup (map fst (m_attributes m));
    cf_text : match m_text m with None => True | Some t => wf_text t = true /\ m_elements m = [] end;
    cf_names : NoDup (map v_name (get_all_vars m));
    cf_indices : NoDup (map v_index (get_all_vars m))
  }.

  Ltac peel H Hn := apply andb_true_iff in H as [H Hn].

  Lemma wf_class_inv m : wf_class m = true -> class_facts m.
  Proof.
    unfold wf_class. intros H. peel H H14.
    peel H H13. peel H H12. peel H H11. peel H H10. peel H H9. peel H H8. peel H H7. peel H H6.
    peel H H4. peel H H3. peel H H2.
    constructor.
    - destruct (m_choices m); [reflexivity|discriminate].
    - destruct (m_wildcards m) as [|wv [|? ?]]; [left; reflexivity| |discriminate]. right. exists wv.
      peel H2 G4. peel H2 G3. peel H2 G2. split; [reflexivity|]. split; [exact H2|].
      destruct (assoc (v_qname wv) (m_elements m)); [discriminate|]. destruct (assoc (v_qname wv) (m_wrappers m)); [discriminate|].
      destruct (m_text m); [discriminate|]. repeat split.
    - destruct (m_any_attributes m) as [|av [|? ?]]; [left; reflexivity|right; exists av; split; [reflexivity|exact H3]|discriminate].
    - exact H4.
    - exact I.
    - apply negb_true_iff. exact H6.
    - exact H7.
    - apply nodup_by_str. exact H8.
    - exact H9.
    - apply nodup_by_str. exact H10.
    - destruct (m_text m); [|exact I]. apply andb_true_iff in H11 as [Ha Hb]. split; [exact Ha|].
      destruct (m_elements m); [reflexivity|discriminate].
    - apply nodup_by_str. exact H12.
    - apply nodup_by_N. exact H13.
  Qed.

  Lemma wf_class_spans m : wf_class m = true ->
    seq_spans_ok (S (length (get_element_vars m))) (get_element_vars m) = true.
  Proof. unfold wf_class. intros H. peel H H14. exact H14. Qed.

  Lemma evars_eq m : wf_class m = true ->
    get_element_vars m = sort_by_index (m_wildcards m ++ flat_map snd (m_elements m) ++ match m_text m with Some t => [t] | None => [] end).
  Proof.
    intros H. destruct (wf_class_inv m H). unfold get_element_vars.
    rewrite cf_choices0. reflexivity.
  Qed.

  Lemma avars_eq m : wf_class m = true ->
    get_attribute_vars m = sort_by_index (m_any_attributes m ++ map snd (m_attributes m)).
  Proof. reflexivity. Qed.

  Lemma allvars_eq m : wf_class m = true ->
    get_all_vars m = sort_by_index (m_wildcards m ++ m_any_attributes m ++ map snd (m_attributes m) ++ flat_map snd (m_elements m)
                                    ++ match m_text m with Some t => [t] | None => [] end).
  Proof.
    intros H. destruct (wf_class_inv m H). unfold get_all_vars.
    rewrite cf_choices0. reflexivity.
  Qed.

  (* an attribute field: declared, or the attribute map *)
  Definition is_mapvar (m : xmeta) (var : xvar) : Prop := m_any_attributes m = [var] /\ wf_anyattr var = true.
  Lemma wf_class_avar m var : wf_class m = true -> In var (get_attribute_vars m) ->
    (wf_attr var = true /\ In (v_qname var, var) (m_attributes m)) \/ is_mapvar m var.
  Proof.
    intros H Hin. rewrite (avars_eq m H) in Hin. apply (proj1 (sort_in _ _)) in Hin.
    destruct (wf_class_inv m H).
    apply in_app_or in Hin as [Hin|Hin].
    - right. destruct cf_any0 as [E|[av [E Hw]]]; rewrite E in Hin; [destruct Hin|]. destruct Hin as [<-|[]]. split; assumption.
    - left. apply in_map_iff in Hin as [[q v] [E Hin]]. cbn [snd] in E. subst v.
      pose proof cf_attributes0 as H8.
      rewrite forallb_forall in H8. specialize (H8 _ Hin). cbn [fst snd] in H8.
      apply andb_true_iff in H8 as [Hq Hw]. apply str_eqb_eq in Hq. rewrite Hq. split; assumption.
  Qed.
  Lemma mapvar_in m var : wf_class m = true -> is_mapvar m var -> In var (get_attribute_vars m).
  Proof. intros H [E _]. rewrite (avars_eq m H), E. apply sort_in. left; reflexivity. Qed.
  Lemma declared_in m q var : wf_class m = true -> In (q, var) (m_attributes m) -> In var (get_attribute_vars m).
  Proof.
    intros H Hin. rewrite (avars_eq m H). apply sort_in. apply in_or_app. right. apply in_map_iff. exists (q, var). split; [reflexivity|exact Hin].
  Qed.

  Lemma in_flat_singletons (l : list (qname * list xvar)) var :
    forallb (fun e => match snd e with [v] => str_eqb (v_qname v) (fst e) && wf_elem v | _ => false end) l = true ->
    In var (flat_map snd l) -> wf_elem var = true /\ In (v_qname var, [var]) l.
  Proof.
    intros H Hin. apply in_flat_map in Hin as [[q vs] [He Hv]]. cbn [snd] in Hv.
    rewrite forallb_forall in H. pose proof (H _ He) as Hx. cbn [fst snd] in Hx.
    destruct vs as [|v [|? ?]]; try discriminate. destruct Hv as [->|[]].
    apply andb_true_iff in Hx as [Hq Hw]. apply str_eqb_eq in Hq. subst q. split; assumption.
  Qed.

  (* the wildcard field of a class *)
  Definition is_wildvar (m : xmeta) (var : xvar) : Prop :=
    m_wildcards m = [var] /\ wf_wild var = true /\ assoc (v_qname var) (m_elements m) = None
    /\ assoc (v_qname var) (m_wrappers m) = None /\ m_text m = None.
  Lemma wf_class_evar m var : wf_class m = true -> In var (get_element_vars m) ->
    (wf_elem var = true /\ In (v_qname var, [var]) (m_elements m))
    \/ (m_text m = Some var /\ wf_text var = true /\ m_elements m = [])
    \/ is_wildvar m var.
  Proof.
    intros H Hin. rewrite (evars_eq m H) in Hin. apply (proj1 (sort_in _ _)) in Hin.
    destruct (wf_class_inv m H).
    apply in_app_or in Hin as [Hin|Hin].
    { right. right. destruct cf_wildcards0 as [E|[wv [E Hw]]]; rewrite E in Hin; [destruct Hin|].
      destruct Hin as [<-|[]]. split; [exact E|exact Hw]. }
    apply in_app_or in Hin as [Hin|Hin].
    - left. apply in_flat_singletons; assumption.
    - right. left. destruct (m_text m) as [t|]; [|destruct Hin]. destruct Hin as [->|[]].
      destruct cf_text0 as [Ht He]. repeat split; assumption.
  Qed.
  Lemma text_no_wild m tv : wf_class m = true -> m_text m = Some tv -> m_wildcards m = [].
  Proof.
    intros H Ht. destruct (wf_class_inv m H). destruct cf_wildcards0 as [E|[wv [_ [_ [_ [_ Hn]]]]]]; [exact E|congruence].
  Qed.
  Lemma wildvar_in m var : wf_class m = true -> is_wildvar m var -> In var (get_element_vars m).
  Proof. intros H [E _]. rewrite (evars_eq m H), E. apply sort_in. left; reflexivity. Qed.
  Lemma var_common_w_inv var : var_common_w var = true ->
    v_init var = true /\ v_mixed var = false /\ True /\ True
    /\ v_elements var = [] /\ v_wildcards var = [] /\ True /\ True
    /\ v_index var <> 0.
  Proof.
    unfold var_common_w. intros H. peel H H7. peel H H4. peel H H3. peel H H0.
    apply negb_true_iff in H0, H7. apply N.eqb_neq in H7.
    destruct (v_elements var); [|discriminate]. destruct (v_wildcards var); [|discriminate].
    repeat split; assumption.
  Qed.
  Lemma wf_wild_inv var : wf_wild var = true ->
    v_is KWildcard var = true /\ var_common_w var = true /\ v_nillable var = false /\ v_wrapper_qname var = None
    /\ v_clazz var = None /\ v_tokens_factory var = None /\ True /\ match_namespace var (v_qname var) = true
    /\ v_is KText var = false /\ v_is KElement var = false /\ v_is KElements var = false
    /\ match v_factory var with
       | None => v_default var = DNone
       | Some f => f = FList /\ v_default var = DFactoryList
       end.
  Proof.
    unfold wf_wild. intros H. peel H H8. peel H H7. peel H H5. peel H H4. peel H H3. peel H H2. peel H H1.
    apply negb_true_iff in H2. unfold no_wrapper in H3.
    destruct (v_wrapper_qname var); [discriminate|]. destruct (v_clazz var); [discriminate|].
    destruct (v_tokens_factory var); [discriminate|].
    repeat (split; [first [assumption|reflexivity|exact I]|]).
    split; [unfold v_is in *; destruct (v_kind var); try discriminate H; reflexivity|].
    split; [unfold v_is in *; destruct (v_kind var); try discriminate H; reflexivity|].
    split; [unfold v_is in *; destruct (v_kind var); try discriminate H; reflexivity|].
    destruct (v_factory var) as [[|]|]; try discriminate H8; destruct (v_default var); try discriminate H8; repeat split.
  Qed.

  Lemma in_allvars m var : wf_class m = true ->
    (In var (get_attribute_vars m) \/ In var (get_element_vars m)) -> In var (get_all_vars m).
  Proof.
    intros H Hin. rewrite (allvars_eq m H). apply sort_in.
    destruct Hin as [Hin|Hin].
    - rewrite (avars_eq m H) in Hin. apply (proj1 (sort_in _ _)) in Hin. apply in_or_app. right.
      apply in_app_or in Hin as [Hin|Hin]; [apply in_or_app; left; exact Hin|apply in_or_app; right; apply in_or_app; left; exact Hin].
    - rewrite (evars_eq m H) in Hin. apply (proj1 (sort_in _ _)) in Hin.
      apply in_app_or in Hin as [Hin|Hin]; [apply in_or_app; left; exact Hin|].
      apply in_or_app. right. apply in_or_app. right. apply in_or_app. right; exact Hin.
  Qed.

  (* ---------------------------------------------------------------- instance facts *)
  Lemma fits_inv n cl o : fits (S n) cl o = true ->
    exists fs m, o = VObj cl fs /\ u_meta u cl = Some m
      /\ map fst fs = map v_name (get_all_vars m)
      /\ (forall e, In e (m_attributes m) -> fits_attr (snd e) (field_of fs (snd e)) = true)
      /\ (forall e v, In e (m_elements m) -> In v (snd e) -> fits_elem (fits n) v (field_of fs v) = true)
      /\ match m_text m with Some t => fits_text t (field_of fs t) = true | None => True end.
  Proof.
    cbn [Fits.fits]. destruct o; try discriminate. intros H.
    apply andb_true_iff in H as [Hc H]. apply N.eqb_eq in Hc. subst c0.
    destruct (u_meta u cl) as [m|]; [|discriminate]. peel H Hwild. peel H Hmap. peel H H2. peel H H1. peel H H0. peel H Hcont.
    exists fields, m. repeat split.
    - apply (list_eqb_spec str_eqb str_eqb_eq). exact H.
    - intros e He. rewrite forallb_forall in H0. apply H0. exact He.
    - intros e v He Hv. rewrite forallb_forall in H1. specialize (H1 _ He). rewrite forallb_forall in H1. apply H1. exact Hv.
    - destruct (m_text m); [exact H2|exact I].
  Qed.

  (* an instance of a nillable class has content *)
  (* an instance of a nillable class has content, or is empty (and no attribute map captures xsi:nil) *)
  Lemma fits_content n cl o : fits n cl o = true -> cnil o = true ->
    has_content u o = true \/ (has_content u o = false /\ strict_empty u o = true
                               /\ exists m, u_meta u cl = Some m /\ m_nillable m = true /\ find_any_attributes m XSI_NIL = None).
  Proof.
    destruct n; [discriminate|]. cbn [Fits.fits]. destruct o; try discriminate. intros H.
    apply andb_true_iff in H as [Hc H]. apply N.eqb_eq in Hc. subst c0. cbn [cnil]. unfold cls_nillable.
    destruct (u_meta u cl) as [m|] eqn:Em; [|discriminate]. peel H Hwild. peel H Hmap. peel H H2. peel H H1. peel H H0. peel H Hcont.
    intros Hn. rewrite Hn in Hcont. cbn [negb orb] in Hcont.
    destruct (has_content u (VObj cl fields)) eqn:Ehc; [left; reflexivity|right]. cbn [orb] in Hcont.
    apply andb_true_iff in Hcont as [Hse Hnf]. split; [reflexivity|]. split; [exact Hse|].
    exists m. split; [reflexivity|]. split; [exact Hn|]. unfold nil_free in Hnf. destruct (find_any_attributes m XSI_NIL); [discriminate|reflexivity].
  Qed.

  (* the xsi:nil mark stays on an element without content *)
  Definition nil_kept (b : bool) (o : value) : bool := b && negb (has_content u o).

  (* the value of the attribute map *)
  Lemma fits_mapvar n cl fs m av : fits (S n) cl (VObj cl fs) = true -> u_meta u cl = Some m -> m_any_attributes m = [av] ->
    fits_map ok m av (field_of fs av) = true.
  Proof.
    cbn [Fits.fits]. intros H Hm Ha. apply andb_true_iff in H as [_ H]. rewrite Hm in H. peel H Hwild. peel H Hmap. rewrite Ha in Hmap. exact Hmap.
  Qed.

  (* the value of the wildcard field *)
  Lemma fits_wildvar n cl fs m wv : fits (S n) cl (VObj cl fs) = true -> u_meta u cl = Some m -> m_wildcards m = [wv] ->
    fits_wild u m wv (field_of fs wv) = true.
  Proof.
    cbn [Fits.fits]. intros H Hm Ha. apply andb_true_iff in H as [_ H]. rewrite Hm in H. peel H Hwild. rewrite Ha in Hwild. exact Hwild.
  Qed.

  Lemma getattr_field cl fs m var :
    map fst fs = map v_name (get_all_vars m) -> In var (get_all_vars m) ->
    getattr (VObj cl fs) (v_name var) = Ok (field_of fs var).
  Proof.
    intros Hn Hin. cbn [getattr]. unfold field_of.
    destruct (assoc_some_in (v_name var) fs) as [x Hx].
    { rewrite Hn. apply in_map. exact Hin. }
    rewrite Hx. reflexivity.
  Qed.

  (* ---------------------------------------------------------------- attributes *)
  Lemma wf_attr_inv var : wf_attr var = true ->
    v_is KAttribute var = true /\ var_common var = true /\ v_clazz var = None /\ v_factory var = None
    /\ reserved_name (v_qname var) = false
    /\ exists t, v_types var = [t]
         /\ ((simple_type t = true
              /\ match v_tokens_factory var with
                 | None => simple_default t (v_default var) = true
                 | Some f => factory_default f (v_default var) = true
                 end)
             \/ (t = TQName /\ v_tokens_factory var = None /\ v_default var = DNone)).
  Proof.
    unfold wf_attr. intros H. peel H H4. peel H H3. peel H H2. peel H H1. peel H Hnw. peel H Hnl. peel H H0.
    destruct (v_clazz var); [discriminate|]. destruct (v_factory var); [discriminate|].
    apply negb_true_iff in H3.
    unfold var_type in H4. destruct (v_types var) as [|t [|? ?]] eqn:Et; try discriminate.
    repeat split; try assumption. exists t. split; [reflexivity|].
    assert (Hsimple : simple_type t && match v_tokens_factory var with
                                       | None => simple_default t (v_default var)
                                       | Some f => factory_default f (v_default var)
                                       end = true ->
              simple_type t = true /\ match v_tokens_factory var with
                                      | None => simple_default t (v_default var) = true
                                      | Some f => factory_default f (v_default var) = true
                                      end).
    { intros Hx. apply andb_true_iff in Hx as [Hs Hd]. split; [exact Hs|]. destruct (v_tokens_factory var); exact Hd. }
    destruct t; try (left; apply Hsimple; exact H4).
    right. apply andb_true_iff in H4 as [Ht Hd]. split; [reflexivity|].
    destruct (v_tokens_factory var); [discriminate Ht|]. destruct (v_default var); try discriminate Hd. split; reflexivity.
  Qed.

  Lemma default_value_call d : default_value d = match d with
    | DNone => VNone | DValue v => v | DFactoryList => VList false [] | DFactoryTuple => VList true []
    | DFactoryDict => VMap [] end.
  Proof. reflexivity. Qed.

  Lemma var_is_optional_ok var x :
    (exists b, py_eq (default_value (v_default var)) x = Some b) ->
    var_is_optional var x = Ok (opt_skip var x).
  Proof.
    intros [b Hb]. unfold var_is_optional, opt_skip. destruct (v_required var); [reflexivity|].
    change (match v_default var with
            | DNone => VNone | DValue d => d | DFactoryList => VList false [] | DFactoryTuple => VList true []
            | DFactoryDict => VMap [] end) with (default_value (v_default var)).
    rewrite Hb. reflexivity.
  Qed.

  Lemma py_eq_simple t d p :
    simple_default t d = true -> ptype_eqb (prim_ptype p) t = true ->
    exists b, py_eq (default_value d) (VP p) = Some b.
  Proof.
    intros Hd Hp. destruct d as [|dv| | |]; cbn [simple_default] in Hd; try discriminate.
    - eexists; reflexivity.
    - destruct dv as [|pd| | | | |]; try discriminate.
      destruct pd; try discriminate; destruct t; try discriminate;
        destruct p; try discriminate; cbn [default_value py_eq prim_py_eq]; eexists; reflexivity.
  Qed.

  Lemma py_eq_list f d t l :
    factory_default f d = true -> exists b, py_eq (default_value d) (VList t l) = Some b.
  Proof.
    intros Hd. destruct f, d; try discriminate; cbn [default_value py_eq];
      destruct (Bool.eqb _ t); try (eexists; reflexivity); destruct l; eexists; reflexivity.
  Qed.

  Lemma simple_not_qname t : simple_type t = true -> ptype_eqb t TQName = false.
  Proof. destruct t; try reflexivity; discriminate. Qed.

  Lemma attr_step_ok cl fs m var :
    map fst fs = map v_name (get_all_vars m) -> In var (get_all_vars m) ->
    wf_attr var = true -> fits_attr var (field_of fs var) = true ->
    attr_step c u (VObj cl fs) ign var
    = Ok (map (fun a => WAttr (fst a) (snd a)) (g_attr var (field_of fs var))).
  Proof.
    intros Hn Hin Hw Hf. destruct (wf_attr_inv var Hw) as [Hk [Hc [Hcl [Hfa [Hr [t [Ht Hty0]]]]]]].
    unfold attr_step. rewrite Hk. rewrite (getattr_field cl fs m var Hn Hin). cbn [gbind].
    set (x := field_of fs var) in *.
    unfold Fits.fits_attr, vtype in Hf. rewrite Ht in Hf.
    destruct Hty0 as [[Hs Hd]|[Et [Htf0 Hd0]]].
    2:{ (* a QName attribute *)
        subst t. rewrite Htf0 in Hf. cbn [ptype_eqb] in Hf.
        destruct x as [|p| | | | |] eqn:Ex; try discriminate; [reflexivity|].
        unfold qleaf_ok in Hf. apply andb_true_iff in Hf as [_ Hq]. destruct p as [| | | | | |q| |]; try discriminate Hq.
        unfold g_attr. cbn [is_array andb].
        rewrite (var_is_optional_ok var (VP (PQName q))); [|rewrite Hd0; eexists; reflexivity].
        destruct ign; cbn [andb gbind]; [destruct (opt_skip var (VP (PQName q))); reflexivity|reflexivity]. }
    rewrite (simple_not_qname t Hs) in Hf.
    destruct (v_tokens_factory var) as [tf|] eqn:Etf.
    - destruct x as [| |tt l| | | |] eqn:Ex; try discriminate.
      apply andb_true_iff in Hf as [Hflag Htok].
      unfold g_attr. cbn [is_array py_truthy].
      destruct l as [|y l']; [reflexivity|]. cbn [nonempty negb andb].
      rewrite (var_is_optional_ok var (VList tt (y :: l')) (py_eq_list tf _ tt _ Hd)).
      destruct ign; cbn [andb gbind].
      + destruct (opt_skip var (VList tt (y :: l'))); [reflexivity|].
        rewrite (encode_tokens t (v_format var) tt (y :: l') Htok). reflexivity.
      + rewrite (encode_tokens t (v_format var) tt (y :: l') Htok). reflexivity.
    - destruct x as [|p| | | | |] eqn:Ex; try discriminate; [reflexivity|].
      unfold g_attr. cbn [is_array andb].
      assert (Hty : ptype_eqb (prim_ptype p) t = true).
      { unfold Fits.leaf_ok in Hf. peel Hf Hf1. peel Hf Hf0. exact Hf0. }
      rewrite (var_is_optional_ok var (VP p) (py_eq_simple t _ p Hd Hty)).
      destruct ign; cbn [andb gbind].
      + destruct (opt_skip var (VP p)); [reflexivity|].
        rewrite (encode_leaf t (v_format var) p Hf). reflexivity.
      + rewrite (encode_leaf t (v_format var) p Hf). reflexivity.
  Qed.

  (* the attribute map *)
  Lemma wf_anyattr_inv var : wf_anyattr var = true ->
    v_is KAttributes var = true /\ v_is KAttribute var = false /\ var_common var = true.
  Proof.
    unfold wf_anyattr. intros H. peel H H7. peel H H6. peel H H5. peel H H4. peel H H3. peel H H2. peel H H1.
    split; [exact H|]. split; [|exact H1]. unfold v_is in *. destruct (v_kind var); try discriminate H; reflexivity.
  Qed.
  Lemma fits_map_inv m var x : fits_map ok m var x = true ->
    exists mm, x = VMap mm /\ NoDup (map fst mm)
      /\ forall kv, In kv mm -> match_namespace var (fst kv) = true /\ assoc (fst kv) (m_attributes m) = None
                               /\ reserved_name (fst kv) = false /\ map_value_ok ok (snd kv) = true.
  Proof.
    unfold fits_map. destruct x as [| | | | | |mm]; try discriminate. intros H. peel H H1.
    exists mm. split; [reflexivity|]. split; [apply nodup_by_str; exact H|].
    intros kv Hkv. rewrite forallb_forall in H1. specialize (H1 kv Hkv). peel H1 G4. peel H1 G3. peel H1 G2.
    repeat split; try assumption.
    - destruct (assoc (fst kv) (m_attributes m)); [discriminate|reflexivity].
    - apply negb_true_iff. exact G3.
  Qed.
  Lemma attr_step_map cl fs m var :
    map fst fs = map v_name (get_all_vars m) -> In var (get_all_vars m) ->
    wf_anyattr var = true -> fits_map ok m var (field_of fs var) = true ->
    attr_step c u (VObj cl fs) ign var
    = Ok (map (fun a => WAttr (fst a) (snd a)) (g_attr var (field_of fs var))).
  Proof.
    intros Hn Hin Hw Hf. destruct (wf_anyattr_inv var Hw) as [_ [Hk _]].
    destruct (fits_map_inv m var _ Hf) as [mm [Ex _]].
    unfold attr_step. rewrite Hk.
    assert (Ea : assoc (v_name var) fs = Some (VMap mm)).
    { unfold field_of in Ex. destruct (assoc (v_name var) fs); [rewrite Ex; reflexivity|discriminate Ex]. }
    rewrite Ea, Ex. cbn [g_attr]. rewrite map_map. reflexivity.
  Qed.

  (* ---------------------------------------------------------------- next_value without sequence groups *)
  Lemma next_value_loop_plain obj (X : xvar -> value) vars : forall fuel,
    (length vars < fuel)%nat ->
    (forall var, In var vars -> v_sequence var = None /\ getattr obj (v_name var) = Ok (X var)) ->
    next_value_loop fuel obj vars = Ok (flat_map (fun var => emit var (X var)) vars).
  Proof.
    induction vars as [|var rest IH]; intros fuel Hf H.
    - destruct fuel; [cbn in Hf; lia|]. reflexivity.
    - destruct fuel; [cbn in Hf; lia|]. cbn [next_value_loop].
      destruct (H var (or_introl eq_refl)) as [Hs Hg]. rewrite Hs, Hg. cbn [gbind].
      rewrite IH; [|cbn in Hf; lia|intros v Hv; apply H; right; exact Hv]. reflexivity.
  Qed.

  Lemma filter_flat_map' {A B} (p : B -> bool) (f : A -> list B) l :
    filter p (flat_map f l) = flat_map (fun x => filter p (f x)) l.
  Proof. induction l as [|x r IH]; [reflexivity|]. cbn [flat_map]. rewrite filter_app, IH. reflexivity. Qed.

  (* ---------------------------------------------------------------- what next_value yields *)
  Definition same_var (a b : xvar) : bool := N.eqb (v_index a) (v_index b).
  (* the items a field received, in document order *)
  Definition sel (var : xvar) (ps : list (xvar * value)) : list value :=
    flat_map (fun vv => if same_var (fst vv) var then occ var (snd vv) else []) ps.
  (* fields that occur in one pair at most: scalar fields and wrapped lists *)
  Definition once_b (var : xvar) : bool :=
    match v_factory var with None => true | Some _ => false end
    || match v_wrapper_qname var with Some _ => true | None => false end.
  (* a pair carries the whole value of the field, or - sequence groups - one item of its list *)
  Definition pair_whole (fs : list (str * value)) (vv : xvar * value) : Prop := snd vv = field_of fs (fst vv).
  Definition pair_part (fs : list (str * value)) (vv : xvar * value) : Prop :=
    exists f t l, v_factory (fst vv) = Some f /\ v_tokens_factory (fst vv) = None /\ v_wrapper_qname (fst vv) = None
                  /\ field_of fs (fst vv) = VList t l /\ In (snd vv) l.

  (* a yielded value is not None, except in a nillable field (next_value: `value is not None or var.nillable`) *)
  Definition okval (vv : xvar * value) : Prop := snd vv <> VNone \/ v_nillable (fst vv) = true.

  Record pairs_spec (cl : cls) (fs : list (str * value)) (m : xmeta) (ps : list (xvar * value)) : Prop := {
    ps_eq : next_value (VObj cl fs) m = Ok ps;
    ps_src : forall vv, In vv ps -> In (fst vv) (get_element_vars m) /\ okval vv
                                     /\ (pair_whole fs vv \/ pair_part fs vv);
    ps_once : NoDup (map (fun vv => v_index (fst vv)) (filter (fun vv => once_b (fst vv)) ps));
    ps_sel : forall var, In var (get_element_vars m) -> sel var ps = occ var (field_of fs var)
  }.

  Lemma pairs_eq cl fs m ps : pairs_spec cl fs m ps -> pairs cl fs m = ps.
  Proof. intros H. unfold pairs. rewrite (ps_eq _ _ _ _ H). reflexivity. Qed.

  Lemma same_var_refl v : same_var v v = true.
  Proof. apply N.eqb_refl. Qed.

  Definition emit1 (fs : list (str * value)) (var : xvar) : list (xvar * value) := emit var (field_of fs var).

  Lemma sel_app var a b : sel var (a ++ b) = sel var a ++ sel var b.
  Proof. unfold sel. apply flat_map_app. Qed.

  Lemma emit_cases var x : (emit var x = [] /\ x = VNone /\ v_nillable var = false)
                           \/ (emit var x = [(var, x)] /\ (x <> VNone \/ v_nillable var = true)).
  Proof.
    unfold emit. destruct x; try (right; split; [reflexivity|left; discriminate]).
    destruct (v_nillable var); [right; split; [reflexivity|right; reflexivity]|left; repeat split].
  Qed.

  Lemma sel_emit_other fs var v0 : v_index v0 <> v_index var -> sel var (emit1 fs v0) = [].
  Proof.
    intros H. unfold emit1. destruct (emit_cases v0 (field_of fs v0)) as [[E _]|[E _]]; rewrite E; [reflexivity|].
    unfold sel, same_var. cbn [flat_map fst snd].
    destruct (N.eqb_spec (v_index v0) (v_index var)); [contradiction|reflexivity].
  Qed.

  Lemma sel_emit_others fs var r : ~ In (v_index var) (map v_index r) -> sel var (flat_map (emit1 fs) r) = [].
  Proof.
    induction r as [|v1 r IH]; intros H; [reflexivity|]. cbn [flat_map]. rewrite sel_app, IH.
    - rewrite app_nil_r. apply sel_emit_other. intros E. apply H. left. exact E.
    - intros Hi. apply H. right; exact Hi.
  Qed.

  Lemma sel_emit_own var x : sel var (emit var x) = occ var x.
  Proof.
    destruct (emit_cases var x) as [[E [-> Hn]]|[E _]]; rewrite E.
    - unfold occ. rewrite Hn. reflexivity.
    - unfold sel. cbn [flat_map fst snd]. rewrite same_var_refl, app_nil_r. reflexivity.
  Qed.

  (* without sequence groups: every field once, in declaration order *)
  Lemma pairs_spec_plain cl fs m :
    map fst fs = map v_name (get_all_vars m) ->
    (forall var, In var (get_element_vars m) -> In var (get_all_vars m)) ->
    (forall var, In var (get_element_vars m) -> v_sequence var = None) ->
    NoDup (map v_index (get_element_vars m)) ->
    pairs_spec cl fs m (flat_map (emit1 fs) (get_element_vars m)).
  Proof.
    intros Hnames Hall Hseq Hnd. constructor.
    - unfold next_value. rewrite (next_value_loop_plain (VObj cl fs) (field_of fs) (get_element_vars m)); [reflexivity|lia|].
      intros var Hv. split; [apply (Hseq var Hv)|].
      apply (getattr_field cl fs m var Hnames (Hall var Hv)).
    - intros [var x] Hin. apply in_flat_map in Hin as [var' [Hv Hx]]. unfold emit1 in Hx.
      destruct (emit_cases var' (field_of fs var')) as [[E _]|[E Hok]]; rewrite E in Hx; [destruct Hx|].
      destruct Hx as [Hx|[]]. inversion Hx; subst. split; [exact Hv|]. split; [exact Hok|].
      left. unfold pair_whole. reflexivity.
    - clear Hall Hseq. set (vars := get_element_vars m) in *. clearbody vars.
      apply (nodup_flat_opt v_index (fun vv : xvar * value => v_index (fst vv))
               (fun var => filter (fun vv => once_b (fst vv)) (emit1 fs var))) in Hnd.
      + rewrite filter_flat_map'. exact Hnd.
      + intros var _. unfold emit1. destruct (emit_cases var (field_of fs var)) as [[E _]|[E _]]; rewrite E;
          [left; reflexivity|]. cbn [filter fst]. destruct (once_b var); [right; eexists; split; reflexivity|left; reflexivity].
    - intros var Hv. clear Hall Hseq. set (vars := get_element_vars m) in *. clearbody vars.
      induction vars as [|v0 r IH]; [destruct Hv|]. cbn [map] in Hnd. inversion Hnd as [|? ? Hni Hnd']; subst.
      cbn [flat_map]. rewrite sel_app.
      destruct Hv as [->|Hv].
      + rewrite (sel_emit_others fs var r Hni), app_nil_r. apply sel_emit_own.
      + rewrite (IH Hnd' Hv). rewrite (sel_emit_other fs var v0); [reflexivity|].
        intros E. apply Hni. rewrite E. apply in_map. exact Hv.
  Qed.

  (* ---------------------------------------------------------------- element fields *)
  Lemma var_common_inv var : var_common var = true ->
    v_init var = true /\ v_mixed var = false /\ v_any_type var = is_object var /\ True
    /\ v_elements var = [] /\ v_wildcards var = [] /\ True /\ True
    /\ v_index var <> 0.
  Proof.
    unfold var_common. intros H. peel H H7. peel H H4. peel H H3. peel H H1. peel H H0.
    apply negb_true_iff in H0, H7. apply eqb_prop in H1. apply N.eqb_neq in H7.
    destruct (v_elements var); [|discriminate]. destruct (v_wildcards var); [|discriminate].
    repeat split; assumption.
  Qed.

  Lemma wf_text_inv var : wf_text var = true ->
    v_is KText var = true /\ var_common var = true
    /\ exists t, v_types var = [t] /\ (simple_type t = true \/ (t = TQName /\ v_tokens_factory var = None))
         /\ match v_tokens_factory var with
            | None => v_default var = DNone
            | Some f => factory_default f (v_default var) = true
            end.
  Proof.
    unfold wf_text. intros H. peel H Hsq. peel H H4. peel H H3. peel H H2. peel H Hnw. peel H Hnl. peel H H1.
    split; [exact H|]. split; [exact H1|].
    unfold var_type in H4. destruct (v_types var) as [|t [|? ?]]; try discriminate.
    exists t. split; [reflexivity|].
    assert (Hsimple : simple_type t && match v_tokens_factory var with
                                       | None => match v_default var with DNone => true | _ => false end
                                       | Some f => factory_default f (v_default var)
                                       end = true ->
              (simple_type t = true \/ (t = TQName /\ v_tokens_factory var = None))
              /\ match v_tokens_factory var with
                 | None => v_default var = DNone
                 | Some f => factory_default f (v_default var) = true
                 end).
    { intros Hx. apply andb_true_iff in Hx as [Hs Hd]. split; [left; exact Hs|].
      destruct (v_tokens_factory var); [exact Hd|]. destruct (v_default var); try discriminate. reflexivity. }
    destruct t; try (apply Hsimple; exact H4).
    apply andb_true_iff in H4 as [Ht Hd]. destruct (v_tokens_factory var); [discriminate Ht|].
    split; [right; split; reflexivity|]. destruct (v_default var); try discriminate. reflexivity.
  Qed.

  (* no xsi:type: not an xs:anyType field, or None / a str in one *)
  Definition no_type_attr (var : xvar) (x : value) : Prop :=
    v_any_type var = false
    \/ match x with VNone => True | VP (PStr s) => snd (c_datatype c (PStr s)) = true | _ => False end.
  Lemma convert_element_plain var x w :
    no_type_attr var x ->
    encode_primitive c u (v_format var) x = Ok w ->
    convert_element c u x var
    = Ok (WStart (v_qname var) :: map (fun a => WAttr (fst a) (snd a)) (nil_attr_g var x) ++ [WData w; WEnd (v_qname var)]).
  Proof.
    intros Ha He. unfold convert_element, nil_attr_g. rewrite He. cbn [gbind].
    assert (Ety : match x with
                  | VNone => []
                  | _ => if negb (is_empty_str x) && v_any_type var
                         then let '(dt, is_string) := datatype_of c x in if is_string then [] else [ev_type dt]
                         else []
                  end = @nil wevent).
    { destruct Ha as [Ha|Ha].
      - rewrite Ha. destruct x; try reflexivity; rewrite andb_false_r; reflexivity.
      - destruct x as [|p| | | | |]; try (exfalso; exact Ha); [reflexivity|]. destruct p as [sx| | | | | | | |]; try (exfalso; exact Ha).
        destruct (negb (is_empty_str (VP (PStr sx))) && v_any_type var); [|reflexivity].
        cbn [datatype_of]. destruct (c_datatype c (PStr sx)) as [dt b]. cbn [snd] in Ha. rewrite Ha. reflexivity. }
    rewrite Ety. destruct (v_nillable var && negb (py_truthy x)); reflexivity.
  Qed.

  Lemma bflat_prim var x :
    bflat (g_prim var x)
    = WStart (v_qname var) :: map (fun a => WAttr (fst a) (snd a)) (nil_attr_g var x)
      ++ [WData (enc (v_format var) x); WEnd (v_qname var)].
  Proof. reflexivity. Qed.

  Definition kind_elem (var : xvar) : Prop := v_is KElement var = true /\ v_is KText var = false /\ v_is KElements var = false /\ v_is KWildcard var = false.
  Lemma kind_elem_of var : v_is KElement var = true -> kind_elem var.
  Proof. unfold kind_elem, v_is. destruct (v_kind var); try discriminate. repeat split. Qed.

  (* the recursive calls reached from an element field: one unit of fuel each *)
  Lemma run_anytype_prim f var x w :
    kind_elem var -> no_type_attr var x ->
    (match x with VP _ | VList _ _ => True | _ => False end) ->
    encode_primitive c u (v_format var) x = Ok w ->
    run c u ign (S f) (CAnyType x var)
    = Ok (WStart (v_qname var) :: map (fun a => WAttr (fst a) (snd a)) (nil_attr_g var x) ++ [WData w; WEnd (v_qname var)]).
  Proof.
    intros [Hk _] Ha Hx He. cbn [run]. destruct x; try destruct Hx; rewrite Hk; apply convert_element_plain; assumption.
  Qed.

  Lemma run_value_single f var x :
    v_mixed var = false -> kind_elem var -> v_tokens_factory var = None -> v_factory var = None ->
    run c u ign (S f) (CValue x var) = run c u ign f (CAnyType x var).
  Proof.
    intros Hm [Hk [Ht [Hes Hw]]] Htf Hfa. cbn [run]. rewrite Hm, Ht, Hes.
    unfold v_tokens, v_list_element. rewrite Htf, Hfa. reflexivity.
  Qed.

  Lemma run_value_item f var x :
    v_mixed var = false -> kind_elem var -> v_tokens_factory var = None -> is_array x = false ->
    run c u ign (S f) (CValue x var) = run c u ign f (CAnyType x var).
  Proof.
    intros Hm [Hk [Ht [Hes Hw]]] Htf Hx. cbn [run]. rewrite Hm, Ht, Hes.
    unfold v_tokens. rewrite Htf, Hx, andb_false_r. reflexivity.
  Qed.

  Lemma run_value_list f var t l fa :
    v_mixed var = false -> kind_elem var -> v_tokens_factory var = None -> v_factory var = Some fa ->
    run c u ign (S f) (CValue (VList t l) var) = concatM (fun x => run c u ign f (CValue x var)) l.
  Proof.
    intros Hm [Hk [Ht [Hes Hw]]] Htf Hfa. cbn [run]. rewrite Hm, Ht, Hes.
    unfold v_tokens, v_list_element. rewrite Htf, Hfa. reflexivity.
  Qed.

  Lemma run_value_tokens f var x tf :
    v_mixed var = false -> kind_elem var -> v_tokens_factory var = Some tf ->
    run c u ign (S f) (CValue x var) = convert_tokens c u x var.
  Proof.
    intros Hm [Hk [Ht [Hes Hw]]] Htf. cbn [run]. rewrite Hm, Ht.
    unfold v_tokens. rewrite Htf. reflexivity.
  Qed.

  (* the same for a wildcard field *)
  Definition kind_wild (var : xvar) : Prop := v_is KText var = false /\ v_is KElements var = false.
  Lemma run_value_single_w f var x :
    v_mixed var = false -> kind_wild var -> v_tokens_factory var = None -> v_factory var = None ->
    run c u ign (S f) (CValue x var) = run c u ign f (CAnyType x var).
  Proof.
    intros Hm [Ht Hes] Htf Hfa. cbn [run]. rewrite Hm, Ht, Hes.
    unfold v_tokens, v_list_element. rewrite Htf, Hfa. reflexivity.
  Qed.
  Lemma run_value_item_w f var x :
    v_mixed var = false -> kind_wild var -> v_tokens_factory var = None -> is_array x = false ->
    run c u ign (S f) (CValue x var) = run c u ign f (CAnyType x var).
  Proof.
    intros Hm [Ht Hes] Htf Hx. cbn [run]. rewrite Hm, Ht, Hes.
    unfold v_tokens. rewrite Htf, Hx, andb_false_r. reflexivity.
  Qed.
  Lemma run_value_list_w f var t l fa :
    v_mixed var = false -> kind_wild var -> v_tokens_factory var = None -> v_factory var = Some fa ->
    run c u ign (S f) (CValue (VList t l) var) = concatM (fun x => run c u ign f (CValue x var)) l.
  Proof.
    intros Hm [Ht Hes] Htf Hfa. cbn [run]. rewrite Hm, Ht, Hes.
    unfold v_tokens, v_list_element. rewrite Htf, Hfa. reflexivity.
  Qed.

  (* a generic element: one unit of fuel per nesting level *)
  Lemma fits_anyel_inv x : fits_anyel x = true ->
    exists q s attrs children, x = VAny (Some q) (Some s) None attrs children /\ q <> []
      /\ NoDup (map fst attrs) /\ forallb any_attr_ok attrs = true
      /\ (children <> [] -> s = []) /\ forall y, In y children -> fits_anyel y = true.
  Proof.
    destruct x as [| | | |q t tl a ch| |]; try discriminate. cbn [fits_anyel].
    destruct q as [[|c0 q]|]; try discriminate. destruct t as [s|]; try discriminate. destruct tl; try discriminate.
    intros H. peel H H4. peel H H3. peel H H2.
    exists (c0 :: q), s, a, ch. split; [reflexivity|]. split; [discriminate|]. split; [apply nodup_by_str; exact H|]. split; [exact H2|].
    split.
    - intros Hne. destruct ch; [congruence|]. destruct s; [reflexivity|discriminate H3].
    - clear H3. induction ch as [|y r IH]; intros z Hz; [destruct Hz|]. apply andb_true_iff in H4 as [Hy Hr].
      destruct Hz as [<-|Hz]; [exact Hy|apply (IH Hr z Hz)].
  Qed.

  Lemma run_any var : forall f x, fits_anyel x = true -> (odepth x <= f)%nat ->
    run c u ign f (CAnyType x var) = Ok (bflat (g_any x)).
  Proof.
    induction f as [|f IH]; intros x Hf Hd.
    - destruct (fits_anyel_inv x Hf) as [q [s [a [ch [-> _]]]]]. cbn [odepth] in Hd. lia.
    - destruct (fits_anyel_inv x Hf) as [q [s [a [ch [-> [Hq [_ [_ [_ Hch]]]]]]]]].
      cbn [run g_any].
      rewrite (concatM_flat _ (fun y => bflat (g_any y))).
      2:{ intros y Hy. apply IH; [apply Hch; exact Hy|]. pose proof (odepth_anychild (Some q) (Some s) None a ch y Hy). lia. }
      cbn [gbind]. destruct q as [|c0 q]; [congruence|].
      cbn [bflat ostr_true]. rewrite !app_nil_r. cbn [app]. f_equal. rewrite map_map. cbn [fst snd].
      f_equal. cbn [flat_map bflat app]. f_equal. f_equal. rewrite flat_map_map. reflexivity.
  Qed.

  Lemma run_value_text f var x :
    v_mixed var = false -> v_is KText var = true ->
    run c u ign (S f) (CValue x var) = convert_data c u x var.
  Proof. intros Hm Ht. cbn [run]. rewrite Hm, Ht. reflexivity. Qed.

  Lemma run_anytype_obj f var cl fs :
    run c u ign (S f) (CAnyType (VObj cl fs) var) = run c u ign f (CXsiType (VObj cl fs) var).
  Proof. reflexivity. Qed.

  Lemma run_xsitype_exact f var cl fs :
    kind_elem var -> v_types var = [TClass cl] ->
    run c u ign (S f) (CXsiType (VObj cl fs) var)
    = run c u ign f (CDataclass (VObj cl fs) (Some (v_qname var)) (v_nillable var) None).
  Proof.
    intros [Hk [Ht [Hes Hw]]] Hty. cbn [run]. rewrite Hw, Hk.
    unfold xsi_type_of. rewrite Hty. cbn [existsb ptype_eqb]. rewrite N.eqb_refl. cbn [orb gbind].
    reflexivity.
  Qed.

  Lemma run_xsitype_derived f var kd k fs :
    kind_elem var -> v_types var = [TClass kd] -> v_clazz var = Some kd ->
    k <> kd -> is_subclass u k kd = true -> u_meta u k <> None ->
    run c u ign (S f) (CXsiType (VObj k fs) var)
    = run c u ign f (CDataclass (VObj k fs) (Some (v_qname var)) (v_nillable var) (xsi_for var k)).
  Proof.
    intros [Hk [Ht [Hes Hw]]] Hty Hcl Hne Hs Hmk. cbn [run]. rewrite Hw, Hk.
    unfold xsi_type_of, xsi_for. rewrite Hty, Hcl. cbn [existsb ptype_eqb].
    destruct (N.eqb_spec k kd) as [E|_]; [contradiction|]. cbn [orb].
    unfold is_derived. rewrite Hs. cbn [orb].
    destruct (u_meta u k) as [mk|]; [|congruence]. cbn [gbind]. reflexivity.
  Qed.

  Definition any_elem (var : xvar) : Prop :=
    v_types var = [TObject] /\ v_clazz var = None /\ v_tokens_factory var = None /\ v_factory var = None
    /\ v_nillable var = false /\ v_default var = DNone /\ v_any_type var = true.

  Lemma wf_elem_inv var : wf_elem var = true ->
    kind_elem var /\ var_common var = true
    /\ ((exists k, v_types var = [TClass k] /\ v_clazz var = Some k /\ v_tokens_factory var = None)
        \/ (exists t, v_types var = [t] /\ simple_type t = true /\ v_clazz var = None)
        \/ (v_types var = [TQName] /\ v_clazz var = None /\ v_tokens_factory var = None)
        \/ any_elem var).
  Proof.
    unfold wf_elem. intros H. peel H H1. peel H Hwo. peel H Hq. peel H H0. split; [apply kind_elem_of; exact H|]. split; [exact H0|].
    unfold var_type in H1. destruct (v_types var) as [|t [|? ?]] eqn:Ety; try discriminate.
    assert (Hsimple : forall b : bool, simple_type t = true ->
              simple_type t && match v_clazz var with None => true | Some _ => false end && b = true ->
              exists t0, [t] = [t0] /\ simple_type t0 = true /\ v_clazz var = None).
    { intros b Hs Hx. peel Hx Hx2. peel Hx Hx1. exists t. split; [reflexivity|]. split; [exact Hs|].
      destruct (v_clazz var); [discriminate|reflexivity]. }
    destruct t as [| | | | | | | | | | | | |e|k]; try (right; left; apply (Hsimple _ eq_refl H1)); try discriminate H1.
    - right. right. left. peel H1 H3. peel H1 H2. split; [reflexivity|].
      destruct (v_clazz var); [discriminate|]. destruct (v_tokens_factory var); [discriminate|]. split; reflexivity.
    - right. right. right. peel H1 G5. peel H1 G4. peel H1 G3. peel H1 G2.
      apply negb_true_iff in H1.
      destruct (var_common_inv var H0) as [_ [_ [Hany _]]]. unfold is_object in Hany. rewrite Ety in Hany.
      unfold any_elem. rewrite Ety.
      destruct (v_clazz var); [discriminate|]. destruct (v_tokens_factory var); [discriminate|].
      destruct (v_factory var); [discriminate|]. destruct (v_default var); try discriminate.
      repeat (split; [first [reflexivity|assumption]|]). exact Hany.
    - left. exists k. peel H1 H3. peel H1 H2. split; [reflexivity|].
      destruct (v_clazz var) as [k'|]; cbn in H1; [|discriminate]. apply N.eqb_eq in H1. subst k'.
      destruct (v_tokens_factory var); [discriminate|]. split; reflexivity.
  Qed.

  (* where nillable is allowed: fields of a simple type, of QName type or of a class type *)
  Lemma wf_elem_nil var : wf_elem var = true -> v_nillable var = true ->
    (exists t, v_types var = [t] /\ (simple_type t = true \/ t = TQName) /\ v_clazz var = None)
    \/ (exists k, v_types var = [TClass k] /\ v_clazz var = Some k /\ v_tokens_factory var = None).
  Proof.
    intros H Hn. destruct (wf_elem_inv var H) as [_ [_ [[k Hk]|[Hs|[[Hq [Hcl _]]|Ha]]]]]; [right; exists k; exact Hk| | |].
    3:{ exfalso. destruct Ha as [_ [_ [_ [_ [Hnn _]]]]]. congruence. }
    - left. destruct Hs as [t [Ht [Hst Hcl]]]. exists t. split; [exact Ht|]. split; [left; exact Hst|exact Hcl].
    - left. exists TQName. split; [exact Hq|]. split; [right; reflexivity|exact Hcl].
  Qed.

  Lemma wf_elem_qname var : wf_elem var = true -> v_qname var <> [].
  Proof.
    unfold wf_elem. intros H. peel H H1. peel H Hwo. peel H Hq. intros E. rewrite E in Hq. discriminate.
  Qed.

  Lemma wf_attr_nowrap var : wf_attr var = true -> v_wrapper_qname var = None.
  Proof.
    unfold wf_attr. intros H. peel H H4. peel H H3. peel H H2. peel H H1. peel H Hnw.
    unfold no_wrapper in Hnw. destruct (v_wrapper_qname var); [discriminate|reflexivity].
  Qed.

  Lemma wf_attr_nonil var : wf_attr var = true -> v_nillable var = false.
  Proof.
    unfold wf_attr. intros H. peel H H4. peel H H3. peel H H2. peel H H1. peel H Hnw. peel H Hnl.
    apply negb_true_iff in Hnl. exact Hnl.
  Qed.
  Lemma wf_text_nonil var : wf_text var = true -> v_nillable var = false.
  Proof.
    unfold wf_text. intros H. peel H Hsq. peel H H4. peel H H3. peel H H2. peel H Hnw. peel H Hnl.
    apply negb_true_iff in Hnl. exact Hnl.
  Qed.

  Lemma wf_text_nofactory var : wf_text var = true -> v_factory var = None.
  Proof.
    unfold wf_text. intros H. peel H Hsq. peel H H4. peel H H3. destruct (v_factory var); [discriminate|reflexivity].
  Qed.

  Lemma wf_text_noseq var : wf_text var = true -> v_sequence var = None.
  Proof.
    unfold wf_text. intros H. peel H Hsq. destruct (v_sequence var); [discriminate|reflexivity].
  Qed.

  Lemma wf_text_nowrap var : wf_text var = true -> v_wrapper_qname var = None.
  Proof.
    unfold wf_text. intros H. peel H Hsq. peel H H4. peel H H3. peel H H2. peel H Hnw.
    unfold no_wrapper in Hnw. destruct (v_wrapper_qname var); [discriminate|reflexivity].
  Qed.

  (* a wrapper sits on a plain list field and has a non-empty name *)
  Lemma wf_elem_wrapper var w : wf_elem var = true -> v_wrapper_qname var = Some w ->
    w <> [] /\ (exists f, v_factory var = Some f) /\ v_tokens_factory var = None.
  Proof.
    unfold wf_elem. intros H Hw. peel H H1. peel H Hwo. unfold wrapper_ok in Hwo. rewrite Hw in Hwo.
    peel Hwo Ht. peel Hwo Hf. split; [intros E; rewrite E in Hwo; discriminate|].
    split; [destruct (v_factory var); [eauto|discriminate]|destruct (v_tokens_factory var); [discriminate|reflexivity]].
  Qed.

  (* ---------------------------------------------------------------- the induction *)
  Definition wfr (cl : cls) : Prop := exists R, closed_ok u R = true /\ In cl R.

  Lemma existsb_N_in k l : existsb (N.eqb k) l = true -> In k l.
  Proof. intros H. apply existsb_exists in H as [x [Hx E]]. apply N.eqb_eq in E. subst x. exact Hx. Qed.

  Lemma wfr_inv cl : wfr cl -> exists m, u_meta u cl = Some m /\ m_clazz m = cl /\ wf_class m = true
    /\ forall e v k, In e (m_elements m) -> In v (snd e) -> v_clazz v = Some k -> wfr k.
  Proof.
    intros [R [Hc Hin]]. unfold closed_ok in Hc. pose proof Hc as Hc0. rewrite forallb_forall in Hc. specialize (Hc cl Hin).
    destruct (u_meta u cl) as [m|]; [|discriminate]. peel Hc H1. peel Hc Hfree. peel Hc H0. apply N.eqb_eq in Hc.
    exists m. repeat split; try assumption.
    intros e v k He Hv Hk. exists R. split; [exact Hc0|].
    rewrite forallb_forall in H1. apply existsb_N_in. apply H1.
    unfold class_children. apply in_flat_map. exists e. split; [exact He|].
    apply in_flat_map. exists v. split; [exact Hv|]. rewrite Hk. left; reflexivity.
  Qed.

  Lemma wfr_any cl m e v : wfr cl -> u_meta u cl = Some m -> In e (m_elements m) -> In v (snd e) ->
    v_types v = [TObject] -> find_types u (v_qname v) = [].
  Proof.
    intros [R [Hc Hin]] Hm He Hv Ht. unfold closed_ok in Hc. rewrite forallb_forall in Hc. specialize (Hc cl Hin).
    rewrite Hm in Hc. peel Hc H1. peel Hc Hfree. unfold any_names_free in Hfree.
    rewrite forallb_forall in Hfree. specialize (Hfree e He). rewrite forallb_forall in Hfree. specialize (Hfree v Hv).
    unfold is_object in Hfree. rewrite Ht in Hfree. cbn [negb orb] in Hfree.
    destruct (find_types u (v_qname v)); [reflexivity|discriminate].
  Qed.

  Lemma fits_elem_prim_items var t l :
    simple_type t = true -> v_types var = [t] ->
    forallb (fits_item (fits 0) var) l = true \/ True -> True.
  Proof. auto. Qed.

  Lemma fits_item_simple rec var t x :
    v_types var = [t] -> simple_type t = true -> fits_item rec var x = true ->
    exists p, x = VP p /\ leaf_ok t (v_format var) p = true.
  Proof.
    intros Ht Hs H. unfold Fits.fits_item, vtype in H. rewrite Ht in H.
    destruct t; try discriminate Hs; destruct x; try discriminate H;
      apply andb_true_iff in H as [H _]; eexists; split; try reflexivity; exact H.
  Qed.

  Lemma fits_item_qname rec var x :
    v_types var = [TQName] -> fits_item rec var x = true ->
    exists q, x = VP (PQName q) /\ ok (PQName q) = true /\ qname_ok q = true.
  Proof.
    intros Ht H. unfold Fits.fits_item, vtype in H. rewrite Ht in H.
    destruct x as [|p| | | | |]; try discriminate H. unfold qleaf_ok in H. apply andb_true_iff in H as [H1 H2].
    destruct p; try discriminate H2. eexists. split; [reflexivity|]. split; assumption.
  Qed.

  Lemma fits_item_any rec var x :
    v_types var = [TObject] -> fits_item rec var x = true ->
    exists sx, x = VP (PStr sx) /\ leaf_ok TStr (v_format var) (PStr sx) = true /\ snd (c_datatype c (PStr sx)) = true.
  Proof.
    intros Ht H. unfold Fits.fits_item, vtype in H. rewrite Ht in H.
    destruct x as [|p| | | | |]; try discriminate H. destruct p as [sx| | | | | | | |]; try discriminate H.
    apply andb_true_iff in H as [H1 H2]. exists sx. repeat split; assumption.
  Qed.

  Lemma fits_item_class rec var k x :
    v_types var = [TClass k] -> fits_item rec var x = true ->
    exists cl' fs, x = VObj cl' fs
      /\ ((cl' = k /\ rec k x = true) \/ (derived_ok var k cl' = true /\ rec cl' x = true)).
  Proof.
    intros Ht H. unfold Fits.fits_item, vtype in H. rewrite Ht in H.
    destruct x as [| | |cl' fs'| | |]; try discriminate H. exists cl', fs'. split; [reflexivity|].
    apply andb_true_iff in H as [_ H].
    destruct (N.eqb_spec cl' k) as [->|Hne]; [left; split; [reflexivity|exact H]|].
    right. apply andb_true_iff in H. exact H.
  Qed.
  (* an instance in a nillable field has content *)
  Lemma fits_item_content rec var k x :
    v_types var = [TClass k] -> fits_item rec var x = true -> v_nillable var = true -> has_content u x = true \/ cnil x = true.
  Proof.
    intros Ht H Hn. unfold Fits.fits_item, vtype in H. rewrite Ht in H.
    destruct x as [| | |cl' fs'| | |]; try discriminate H.
    apply andb_true_iff in H as [H _]. rewrite Hn in H. cbn [negb orb] in H. apply orb_true_iff in H. exact H.
  Qed.

  (* what derived_ok says *)
  Lemma derived_ok_inv var kd k : derived_ok var kd k = true ->
    k <> kd /\ is_subclass u k kd = true
    /\ exists mk mkd t, u_meta u k = Some mk /\ u_meta u kd = Some mkd /\ m_target_qname mk = Some t /\ t <> []
         /\ t <> v_qname var /\ m_target_qname mkd <> Some t
         /\ sub_lookup u kd t = Some k /\ c_from_qname c t = None
         /\ ok (PQName t) = true /\ qname_ok t = true.
  Proof.
    unfold derived_ok. intros H. peel H H2. peel H H1. apply negb_true_iff in H. apply N.eqb_neq in H.
    split; [exact H|]. split; [exact H1|].
    destruct (u_meta u k) as [mk|]; [|discriminate]. destruct (u_meta u kd) as [mkd|]; [|discriminate].
    destruct (m_target_qname mk) as [[|ch t']|] eqn:Et; try discriminate.
    peel H2 G6. peel H2 G5. peel H2 G4. peel H2 G3. peel H2 G2. peel H2 G1.
    exists mk, mkd, (ch :: t'). split; [reflexivity|]. split; [reflexivity|]. split; [exact Et|]. split; [discriminate|].
    split; [intros E; rewrite <- E, str_eqb_refl in G1; discriminate G1|].
    split.
    { intros E. rewrite E in G2. cbn [ostr_eqb opt_eqb] in G2. rewrite str_eqb_refl in G2. discriminate G2. }
    split.
    { destruct (sub_lookup u kd (ch :: t')) as [k'|]; [|discriminate]. apply N.eqb_eq in G3. subst k'. reflexivity. }
    split; [destruct (c_from_qname c (ch :: t')); [discriminate|reflexivity]|]. split; assumption.
  Qed.

  (* the subclass has no attribute map that would capture xsi:type *)
  Lemma derived_ok_noxsi var kd k mk : derived_ok var kd k = true -> u_meta u k = Some mk ->
    find_any_attributes mk XSI_TYPE = None.
  Proof.
    unfold derived_ok. intros H Hmk. peel H H2. rewrite Hmk in H2.
    destruct (u_meta u kd) as [mkd|]; [|discriminate].
    destruct (m_target_qname mk) as [[|ch t']|]; try discriminate.
    peel H2 G6. peel H2 G5. peel H2 G4. peel H2 G3. peel H2 G2. peel H2 G1.
    destruct (find_any_attributes mk XSI_TYPE); [discriminate|reflexivity].
  Qed.

  (* the subclasses of a class reachable from a well-formed class are well-formed *)
  Lemma wfr_sub cl m e v kd k :
    wfr cl -> u_meta u cl = Some m -> In e (m_elements m) -> In v (snd e) -> v_clazz v = Some kd ->
    u_meta u k <> None -> k <> kd -> is_subclass u k kd = true -> wfr k.
  Proof.
    intros [R [Hc Hin]] Hm He Hv Hk Hmk Hne Hs. exists R. split; [exact Hc|].
    unfold closed_ok in Hc. rewrite forallb_forall in Hc. specialize (Hc cl Hin). rewrite Hm in Hc.
    peel Hc H1. rewrite forallb_forall in H1. apply existsb_N_in. apply H1.
    unfold class_children. apply in_flat_map. exists e. split; [exact He|].
    apply in_flat_map. exists v. split; [exact Hv|]. rewrite Hk. right.
    unfold strict_subclasses. apply filter_In. split.
    - unfold u_meta in Hmk. destruct (assocN k (u_metas u)) as [mk|] eqn:Ea; [|congruence].
      apply assocN_in in Ea. apply in_map_iff. exists (k, mk). split; [reflexivity|exact Ea].
    - rewrite Hs, andb_true_r. apply negb_true_iff. apply N.eqb_neq. exact Hne.
  Qed.

  Lemma fits_tokens_inv var tf x t :
    v_types var = [t] -> fits_tokens var tf x = true ->
    exists tt l, x = VList tt l /\ l <> [] /\ forallb (token_ok t (v_format var)) l = true /\ tt = is_tuple tf.
  Proof.
    intros Ht H. unfold Fits.fits_tokens, vtype in H. rewrite Ht in H. destruct x as [| |tt l| | | |]; try discriminate H.
    peel H H1. peel H H0. exists tt, l. repeat split; try assumption.
    - destruct l; [discriminate|congruence].
    - destruct tt, (is_tuple tf); try reflexivity; discriminate.
  Qed.

  Lemma NoDup_app_r {A} (a b : list A) : NoDup (a ++ b) -> NoDup b.
  Proof. induction a as [|x a IHa]; [auto|]. cbn [app]. intros H. inversion H; auto. Qed.

  Lemma nodup_drop_mid {A} (a b c0 : list A) : NoDup (a ++ b ++ c0) -> NoDup (a ++ c0).
  Proof.
    induction a as [|x a IH]; cbn [app]; intros H; [apply (NoDup_app_r b c0 H)|].
    inversion H as [|? ? Hx Hn]; subst. constructor; [|apply IH; exact Hn].
    intros Hi. apply Hx. apply in_app_or in Hi as [Hi|Hi]; apply in_or_app; [left; exact Hi|right; apply in_or_app; right; exact Hi].
  Qed.
  Lemma evars_indices_nodup m : wf_class m = true -> NoDup (map v_index (get_element_vars m)).
  Proof.
    intros Hwc. destruct (wf_class_inv m Hwc) as [F1 F2 F3 F4 F5 F6 F7 F8 F9 F10 F11 F12 F13].
    rewrite (evars_eq m Hwc). apply sort_nodup_map.
    rewrite (allvars_eq m Hwc) in F13.
    assert (H : NoDup (map v_index (m_wildcards m ++ (m_any_attributes m ++ map snd (m_attributes m)) ++ flat_map snd (m_elements m)
                                    ++ match m_text m with Some t => [t] | None => [] end))).
    { eapply Permutation.Permutation_NoDup; [|exact F13]. apply Permutation.Permutation_map.
      rewrite <- (app_assoc (m_any_attributes m)). apply sort_perm. }
    rewrite !map_app in H. rewrite !map_app. rewrite <- !app_assoc in H.
    apply (nodup_drop_mid (map v_index (m_wildcards m)) (map v_index (m_any_attributes m) ++ map v_index (map snd (m_attributes m))) _).
    rewrite <- !app_assoc. exact H.
  Qed.

  (* ---------------------------------------------------------------- sequence groups *)
  Lemma last_same_eq s l : last_same s l = last_same_seq s l.
  Proof. induction l as [|x r IH]; [reflexivity|]. cbn [last_same last_same_seq]. rewrite IH. reflexivity. Qed.

  (* the values a field inside a sequence group may hold: a list of items, or one item / None *)
  Definition atomic (y : value) : Prop := match y with VNone | VList _ _ => False | _ => True end.
  Definition seq_shape (var : xvar) (x : value) : Prop :=
    match v_factory var with
    | Some _ => exists t l, x = VList t l /\ Forall atomic l
    | None => match x with VList _ _ => False | _ => True end
    end.

  Lemma fits_item_atomic rec var x : fits_item rec var x = true -> atomic x.
  Proof. unfold Fits.fits_item. destruct (vtype var), x; try discriminate; intros _; exact I. Qed.

  Lemma fits_elem_shape rec var x : fits_elem rec var x = true -> v_tokens_factory var = None -> seq_shape var x.
  Proof.
    unfold Fits.fits_elem, seq_shape. intros H Ht. rewrite Ht in H. destruct (v_factory var).
    - destruct x as [| |t l| | | |]; try discriminate H. apply andb_true_iff in H as [_ H]. exists t, l. split; [reflexivity|].
      apply Forall_forall. intros y Hy. rewrite forallb_forall in H. apply (fits_item_atomic rec var y (H y Hy)).
    - destruct x; try exact I. apply fits_item_atomic in H. destruct H.
  Qed.

  Lemma occ_atomic var x : v_tokens_factory var = None -> atomic x -> occ var x = [x].
  Proof. intros Ht Ha. unfold occ. rewrite Ht. destruct x; try destruct Ha; reflexivity. Qed.

  Lemma skipn_nth {A} (l : list A) : forall j x, nth_error l j = Some x -> skipn j l = x :: skipn (S j) l.
  Proof.
    induction l as [|a l IH]; intros [|j] x H; try discriminate H.
    - inversion H. reflexivity.
    - cbn [nth_error] in H. cbn [skipn]. apply (IH j x H).
  Qed.

  Lemma filter_flat_map {A B} (p : B -> bool) (f : A -> list B) l :
    filter p (flat_map f l) = flat_map (fun x => filter p (f x)) l.
  Proof. induction l as [|x r IH]; [reflexivity|]. cbn [flat_map]. rewrite filter_app, IH. reflexivity. Qed.

  Lemma nodup_app_disj {A} (a b : list A) :
    NoDup a -> NoDup b -> (forall x, In x a -> In x b -> False) -> NoDup (a ++ b).
  Proof.
    induction a as [|x a IH]; intros Ha Hb Hd; [exact Hb|]. inversion Ha as [|? ? Hx Ha']; subst.
    cbn [app]. constructor.
    - intros Hi. apply in_app_or in Hi as [Hi|Hi]; [exact (Hx Hi)|]. apply (Hd x); [left; reflexivity|exact Hi].
    - apply IH; [exact Ha'|exact Hb|]. intros y Hy1 Hy2. apply (Hd y); [right; exact Hy1|exact Hy2].
  Qed.

  Lemma nodup_app_l {A} (a b : list A) : NoDup (a ++ b) -> NoDup a.
  Proof.
    induction a as [|x a IH]; intros H; [constructor|]. cbn [app] in H. inversion H as [|? ? Hx H']; subst.
    constructor; [|apply IH; exact H']. intros Hi. apply Hx. apply in_or_app. left; exact Hi.
  Qed.

  Lemma nodup_app_apart {A B} (f : A -> B) a b x y :
    NoDup (map f (a ++ b)) -> In x a -> In y b -> f x <> f y.
  Proof.
    induction a as [|z a IH]; intros Hn Hx Hy E; [destruct Hx|]. cbn [app map] in Hn. inversion Hn as [|? ? Hz Hn']; subst.
    destruct Hx as [->|Hx]; [|exact (IH Hn' Hx Hy E)].
    apply Hz. rewrite E. apply in_map. apply in_or_app. right; exact Hy.
  Qed.

  Definition oncef (vv : xvar * value) : bool := once_b (fst vv).
  Definition idxf (vv : xvar * value) : N := v_index (fst vv).

  Lemma sel_none var out : (forall vv, In vv out -> v_index (fst vv) <> v_index var) -> sel var out = [].
  Proof.
    induction out as [|vv r IH]; intros H; [reflexivity|]. unfold sel. cbn [flat_map]. fold (sel var r).
    rewrite IH; [|intros v Hv; apply H; right; exact Hv]. rewrite app_nil_r. unfold same_var.
    destruct (N.eqb_spec (v_index (fst vv)) (v_index var)) as [E|_]; [|reflexivity].
    exfalso. apply (H vv (or_introl eq_refl) E).
  Qed.

  Section SeqGroup.
    Variable cl : cls.
    Variable fs : list (str * value).
    Let obj := VObj cl fs.
    Let X := field_of fs.

    (* what one pass of `for var in sequence` yields for one field at position j *)
    Definition cell (j : nat) (var : xvar) : list (xvar * value) :=
      match X var with
      | VList _ l => match nth_error l j with Some x => emit var x | None => [] end
      | v => match j with O => emit var v | S _ => [] end
      end.
    Definition has (j : nat) (var : xvar) : bool :=
      match X var with VList _ l => Nat.ltb j (length l) | _ => Nat.eqb j 0 end.
    Definition maxlen (g : list xvar) : nat :=
      fold_right (fun var acc => match X var with VList _ l => Nat.max (length l) acc | _ => acc end) O g.
    (* what is still to come for one field from position j on *)
    Definition tailj (j : nat) (var : xvar) : list value :=
      match X var with
      | VList _ l => skipn j l
      | v => match j with O => occ var v | S _ => [] end
      end.

    Definition member_ok (var : xvar) : Prop :=
      getattr obj (v_name var) = Ok (X var)
      /\ v_wrapper_qname var = None /\ v_tokens_factory var = None /\ seq_shape var (X var).
    Definition group_ok (g : list xvar) : Prop :=
      NoDup (map v_index g) /\ forall var, In var g -> member_ok var.

    Lemma seq_round_spec j g : (forall var, In var g -> getattr obj (v_name var) = Ok (X var)) ->
      seq_round obj g j = Ok (flat_map (cell j) g, existsb (has j) g).
    Proof.
      induction g as [|var r IH]; intros H; [reflexivity|].
      cbn [seq_round]. rewrite (H var (or_introl eq_refl)). cbn [gbind].
      rewrite IH; [|intros v Hv; apply H; right; exact Hv]. cbn [gbind flat_map existsb].
      set (ri := flat_map (cell j) r). set (rr := existsb (has j) r). unfold cell, has.
      destruct (X var) as [|p|t l|k f|? ? ? ? ?|? ? ?|?].
      all: try (destruct j; reflexivity).
      destruct (nth_error l j) eqn:En.
      - assert (Hlt : (j < length l)%nat) by (apply nth_error_Some; congruence).
        apply Nat.ltb_lt in Hlt. rewrite Hlt. reflexivity.
      - apply nth_error_None in En. assert (Hn : Nat.ltb j (length l) = false) by (apply Nat.ltb_ge; exact En).
        rewrite Hn. reflexivity.
    Qed.

    Lemma seq_fuel_eq g : (forall var, In var g -> getattr obj (v_name var) = Ok (X var)) ->
      seq_fuel obj g = S (S (maxlen g)).
    Proof.
      intros H. unfold seq_fuel, maxlen. cbn [Nat.add]. do 2 f_equal.
      induction g as [|var r IH]; [reflexivity|]. cbn [fold_right]. rewrite (H var (or_introl eq_refl)).
      rewrite IH; [reflexivity|intros v Hv; apply H; right; exact Hv].
    Qed.

    Lemma maxlen_cons v r : maxlen (v :: r) = match X v with VList _ l => Nat.max (length l) (maxlen r) | _ => maxlen r end.
    Proof. reflexivity. Qed.

    Lemma has_bound j g var : In var g -> has j var = true -> (j < maxlen g)%nat \/ j = O.
    Proof.
      induction g as [|v r IH]; intros Hin Hh; [destruct Hin|]. rewrite maxlen_cons.
      destruct Hin as [->|Hin].
      - unfold has in Hh. destruct (X var) as [| |t l| | | |]; try (right; apply Nat.eqb_eq; exact Hh). left. apply Nat.ltb_lt in Hh. lia.
      - destruct (IH Hin Hh) as [H|H]; [left|right; exact H]. destruct (X v) as [| |t l| | | |]; try exact H. lia.
    Qed.

    Lemma sel_emit_other' var v0 x : v_index v0 <> v_index var -> sel var (emit v0 x) = [].
    Proof.
      intros H. apply sel_none. intros vv Hvv. unfold emit in Hvv.
      assert (E : fst vv = v0).
      { destruct x; try (destruct (v_nillable v0)); try destruct Hvv as [<-|[]]; try destruct Hvv; reflexivity. }
      rewrite E. exact H.
    Qed.

    Lemma sel_cell_other j var v0 : v_index v0 <> v_index var -> sel var (cell j v0) = [].
    Proof.
      intros H. unfold cell. destruct (X v0) as [| |t l| | | |]; try (destruct j; [apply sel_emit_other'; exact H|reflexivity]).
      destruct (nth_error l j); [apply sel_emit_other'; exact H|reflexivity].
    Qed.

    Lemma sel_cells j var g : NoDup (map v_index g) -> In var g -> sel var (flat_map (cell j) g) = sel var (cell j var).
    Proof.
      induction g as [|v0 r IH]; intros Hnd Hin; [destruct Hin|]. cbn [map] in Hnd. inversion Hnd as [|? ? Hni Hnd']; subst.
      cbn [flat_map]. rewrite sel_app. destruct Hin as [->|Hin].
      - assert (Hr : sel var (flat_map (cell j) r) = []).
        { apply sel_none. intros vv Hvv E. apply in_flat_map in Hvv as [v1 [Hv1 Hvv]].
          assert (E1 : sel var (cell j v1) = []).
          { apply sel_cell_other. intros E2. apply Hni. rewrite <- E2. apply in_map. exact Hv1. }
          assert (E3 : fst vv = v1).
          { unfold cell, emit in Hvv. destruct (X v1); try destruct j; try destruct (nth_error _ _) as [[]|];
              try destruct (v_nillable v1); try destruct Hvv as [<-|[]]; try destruct Hvv; reflexivity. }
          apply Hni. rewrite <- E, E3. apply in_map. exact Hv1. }
        rewrite Hr, app_nil_r. reflexivity.
      - rewrite (IH Hnd' Hin). rewrite (sel_cell_other j var v0); [reflexivity|].
        intros E. apply Hni. rewrite E. apply in_map. exact Hin.
    Qed.

    Lemma sel_one var x : sel var [(var, x)] = occ var x.
    Proof. unfold sel. cbn [flat_map fst snd]. rewrite same_var_refl, app_nil_r. reflexivity. Qed.

    Lemma emit_some var x : x <> VNone -> emit var x = [(var, x)].
    Proof. intros H. unfold emit. destruct x; try reflexivity. congruence. Qed.

    (* one field, one round *)
    Lemma cell_facts j var : member_ok var ->
      sel var (cell j var) ++ tailj (S j) var = tailj j var
      /\ (has j var = false -> tailj (S j) var = [])
      /\ (forall vv, In vv (cell j var) -> fst vv = var /\ okval vv /\ (pair_whole fs vv \/ pair_part fs vv))
      /\ filter oncef (cell j var) = match j with O => if once_b var then emit var (X var) else [] | S _ => [] end.
    Proof.
      intros [_ [Hw [Ht Hs]]]. unfold cell, tailj, has, seq_shape, once_b in *. rewrite Hw.
      destruct (v_factory var) as [f|] eqn:Ef.
      - destruct Hs as [t [l [Ex Hat]]]. fold X in Ex. rewrite Ex. cbn [orb].
        destruct (nth_error l j) as [x|] eqn:En.
        + assert (Hx : atomic x) by (rewrite Forall_forall in Hat; apply Hat; apply (nth_error_In _ _ En)).
          assert (Hxn : x <> VNone) by (intros ->; exact Hx).
          rewrite (emit_some var x Hxn). rewrite sel_one, (occ_atomic var x Ht Hx). cbn [app].
          split; [symmetry; apply skipn_nth; exact En|]. split.
          { intros Hh. apply Nat.ltb_ge in Hh. assert ((j < length l)%nat) by (apply nth_error_Some; congruence). lia. }
          split.
          { intros vv [<-|[]]. cbn [fst snd]. split; [reflexivity|]. split; [left; exact Hxn|]. right.
            exists f, t, l. cbn [fst snd]. repeat split; try assumption. apply (nth_error_In _ _ En). }
          cbn [filter]. unfold oncef, once_b. cbn [fst]. rewrite Ef, Hw. cbn [orb]. destruct j; reflexivity.
        + apply nth_error_None in En. cbn [app]. rewrite (skipn_all2 l); [|lia]. rewrite (skipn_all2 l); [|lia].
          split; [reflexivity|]. split; [reflexivity|]. split; [intros vv []|]. destruct j; reflexivity.
      - cbn [orb]. fold X in Hs.
        destruct (X var) as [|p|t l|k f0|? ? ? ? ?|? ? ?|?] eqn:Ex; try destruct Hs; destruct j as [|j'].
        all: try (split; [reflexivity|split; [reflexivity|split; [intros vv []|reflexivity]]]).
        { unfold emit, occ. destruct (v_nillable var) eqn:Hn.
          - rewrite sel_one. unfold occ. rewrite Hn. split; [reflexivity|]. split; [reflexivity|]. split.
            + intros vv [<-|[]]. cbn [fst snd]. split; [reflexivity|]. split; [right; exact Hn|]. left.
              unfold pair_whole. cbn [fst snd]. symmetry. exact Ex.
            + cbn [filter]. unfold oncef, once_b. cbn [fst]. rewrite Ef. reflexivity.
          - split; [reflexivity|split; [reflexivity|split; [intros vv []|reflexivity]]]. }
        all: unfold emit; rewrite sel_one, app_nil_r; split; [reflexivity|]; split; [reflexivity|]; split;
            [intros vv [<-|[]]; cbn [fst snd]; split; [reflexivity|]; split; [left; discriminate|]; left;
             unfold pair_whole; cbn [fst snd]; symmetry; exact Ex
            |cbn [filter]; unfold oncef, once_b; cbn [fst]; rewrite Ef; reflexivity].
    Qed.

    (* one round *)
    Lemma round_facts j g : group_ok g ->
      (forall var, In var g -> sel var (flat_map (cell j) g) ++ tailj (S j) var = tailj j var)
      /\ (existsb (has j) g = false -> forall var, In var g -> tailj (S j) var = [])
      /\ (forall vv, In vv (flat_map (cell j) g) -> In (fst vv) g /\ okval vv /\ (pair_whole fs vv \/ pair_part fs vv))
      /\ filter oncef (flat_map (cell j) g)
         = match j with O => flat_map (fun var => if once_b var then emit var (X var) else []) g | S _ => [] end.
    Proof.
      intros [Hnd Hg]. split; [|split; [|split]].
      - intros var Hv. rewrite (sel_cells j var g Hnd Hv). apply (cell_facts j var (Hg var Hv)).
      - intros Hex var Hv. destruct (cell_facts j var (Hg var Hv)) as [_ [H _]]. apply H.
        destruct (has j var) eqn:Eh; [|reflexivity]. assert (Ht : existsb (has j) g = true) by (apply existsb_exists; exists var; split; assumption).
        congruence.
      - intros vv Hvv. apply in_flat_map in Hvv as [var [Hv Hvv]].
        destruct (cell_facts j var (Hg var Hv)) as [_ [_ [H _]]]. destruct (H vv Hvv) as [E [H1 H2]].
        split; [rewrite E; exact Hv|]. split; assumption.
      - rewrite filter_flat_map.
        assert (E : forall var, In var g -> filter oncef (cell j var) = match j with O => if once_b var then emit var (X var) else [] | S _ => [] end).
        { intros var Hv. apply (cell_facts j var (Hg var Hv)). }
        clear Hnd Hg. induction g as [|v r IH]; [destruct j; reflexivity|]. cbn [flat_map].
        rewrite (E v (or_introl eq_refl)), IH; [|intros var Hv; apply E; right; exact Hv]. destruct j; reflexivity.
    Qed.

    Definition seqP (g : list xvar) (j : nat) (out : list (xvar * value)) : Prop :=
      (forall vv, In vv out -> In (fst vv) g /\ okval vv /\ (pair_whole fs vv \/ pair_part fs vv))
      /\ (forall var, In var g -> sel var out = tailj j var)
      /\ filter oncef out = match j with O => flat_map (fun var => if once_b var then emit var (X var) else []) g | S _ => [] end.

    Lemma seq_rolling_S f g j :
      seq_rolling (S f) obj g j
      = (r <- seq_round obj g j ;;
         let '(items, rolling) := r in
         if rolling then rest <- seq_rolling f obj g (S j) ;; Ok (items ++ rest) else Ok items).
    Proof. reflexivity. Qed.

    Lemma seq_rolling_spec g : group_ok g -> forall f j, (maxlen g + 1 <= f + j)%nat ->
      exists out, seq_rolling (S f) obj g j = Ok out /\ seqP g j out.
    Proof.
      intros Hgok f. pose proof Hgok as [Hnd Hg].
      assert (Hga : forall var, In var g -> getattr obj (v_name var) = Ok (X var)) by (intros var Hv; apply (Hg var Hv)).
      induction f as [|f IH]; intros j Hf.
      all: rewrite seq_rolling_S, (seq_round_spec j g Hga); cbn [gbind].
      all: destruct (round_facts j g Hgok) as [Rb [Rn [Ra Rc]]].
      all: destruct (existsb (has j) g) eqn:Eroll.
      - exfalso. apply existsb_exists in Eroll as [var [Hv Hh]]. destruct (has_bound j g var Hv Hh); lia.
      - exists (flat_map (cell j) g). split; [reflexivity|]. split; [exact Ra|]. split; [|exact Rc].
        intros var Hv. rewrite <- (Rb var Hv), (Rn eq_refl var Hv), app_nil_r. reflexivity.
      - destruct (IH (S j)) as [out' [Hrun [Pa [Pb Pc]]]]; [lia|]. rewrite Hrun. cbn [gbind].
        exists (flat_map (cell j) g ++ out'). split; [reflexivity|]. split; [|split].
        + intros vv Hvv. apply in_app_or in Hvv as [Hvv|Hvv]; [apply Ra|apply Pa]; exact Hvv.
        + intros var Hv. rewrite sel_app, (Pb var Hv). apply (Rb var Hv).
        + rewrite filter_app, Pc, app_nil_r. exact Rc.
      - exists (flat_map (cell j) g). split; [reflexivity|]. split; [exact Ra|]. split; [|exact Rc].
        intros var Hv. rewrite <- (Rb var Hv), (Rn eq_refl var Hv), app_nil_r. reflexivity.
    Qed.

    (* a segment of the field list and what next_value yields for it *)
    Definition Seg (vars : list xvar) (out : list (xvar * value)) : Prop :=
      (forall vv, In vv out -> In (fst vv) vars /\ okval vv /\ (pair_whole fs vv \/ pair_part fs vv))
      /\ (forall var, In var vars -> sel var out = occ var (X var))
      /\ NoDup (map idxf (filter oncef out)).

    Lemma seg_app a b o1 o2 : NoDup (map v_index (a ++ b)) -> Seg a o1 -> Seg b o2 -> Seg (a ++ b) (o1 ++ o2).
    Proof.
      intros Hnd [A1 [A2 A3]] [B1 [B2 B3]]. split; [|split].
      - intros vv Hvv. apply in_app_or in Hvv as [Hvv|Hvv].
        + destruct (A1 vv Hvv) as [H1 H2]. split; [apply in_or_app; left; exact H1|exact H2].
        + destruct (B1 vv Hvv) as [H1 H2]. split; [apply in_or_app; right; exact H1|exact H2].
      - intros var Hv. rewrite sel_app. apply in_app_or in Hv as [Hv|Hv].
        + rewrite (A2 var Hv). rewrite (sel_none var o2); [apply app_nil_r|].
          intros vv Hvv E. destruct (B1 vv Hvv) as [Hb _]. apply (nodup_app_apart v_index a b var (fst vv) Hnd Hv Hb). symmetry; exact E.
        + rewrite (B2 var Hv). rewrite (sel_none var o1); [reflexivity|].
          intros vv Hvv E. destruct (A1 vv Hvv) as [Ha _]. apply (nodup_app_apart v_index a b (fst vv) var Hnd Ha Hv). exact E.
      - rewrite filter_app, map_app. apply nodup_app_disj; [exact A3|exact B3|].
        intros i Hi1 Hi2. apply in_map_iff in Hi1 as [v1 [E1 H1]]. apply in_map_iff in Hi2 as [v2 [E2 H2]].
        apply filter_In in H1 as [H1 _]. apply filter_In in H2 as [H2 _].
        destruct (A1 v1 H1) as [Ha _]. destruct (B1 v2 H2) as [Hb _].
        apply (nodup_app_apart v_index a b (fst v1) (fst v2) Hnd Ha Hb). unfold idxf in *. congruence.
    Qed.

    Lemma seg_plain var : getattr obj (v_name var) = Ok (X var) -> Seg [var] (emit var (X var)).
    Proof.
      intros _. split; [|split].
      - intros vv Hvv. destruct (emit_cases var (X var)) as [[E _]|[E Hok]]; rewrite E in Hvv; [destruct Hvv|].
        destruct Hvv as [<-|[]]. cbn [fst snd]. split; [left; reflexivity|]. split; [exact Hok|].
        left. unfold pair_whole. reflexivity.
      - intros v' [<-|[]]. apply sel_emit_own.
      - destruct (emit_cases var (X var)) as [[E _]|[E _]]; rewrite E; [constructor|].
        cbn [filter]. destruct (oncef _); cbn [map]; constructor; try (intros []); constructor.
    Qed.

    Lemma seg_group g out : group_ok g -> seqP g 0 out -> Seg g out.
    Proof.
      intros [Hnd Hg] [Pa [Pb Pc]]. split; [exact Pa|]. split.
      - intros var Hv. rewrite (Pb var Hv). unfold tailj. destruct (Hg var Hv) as [_ [_ [Ht _]]].
        destruct (X var) eqn:Ex; try reflexivity. unfold occ. rewrite Ht. reflexivity.
      - rewrite Pc. apply (nodup_flat_opt v_index idxf); [exact Hnd|].
        intros var Hv. destruct (once_b var); [|left; reflexivity].
        unfold emit. destruct (X var); try (left; reflexivity); try (right; eexists; split; reflexivity).
        destruct (v_nillable var); [right; eexists; split; reflexivity|left; reflexivity].
    Qed.

    Lemma seg_nil : Seg [] [].
    Proof. split; [intros vv []|]. split; [intros var []|constructor]. Qed.

    Lemma loop_spec : forall fuel sf vars,
      (length vars < fuel)%nat -> (length vars < sf)%nat ->
      NoDup (map v_index vars) ->
      (forall var, In var vars -> getattr obj (v_name var) = Ok (X var)) ->
      (forall var, In var vars -> v_tokens_factory var = None -> seq_shape var (X var)) ->
      seq_spans_ok sf vars = true ->
      exists out, next_value_loop fuel obj vars = Ok out /\ Seg vars out.
    Proof.
      induction fuel as [|fuel IH]; intros sf vars Hf Hsf Hnd Hg Hsh Hsp; [lia|].
      destruct sf as [|sf]; [lia|].
      destruct vars as [|var rest]; [exists []; split; [reflexivity|exact seg_nil]|].
      cbn [next_value_loop]. cbn [seq_spans_ok] in Hsp. cbn [length] in Hf, Hsf.
      destruct (v_sequence var) as [s|] eqn:Es.
      - rewrite <- last_same_eq. remember (last_same (Some s) rest) as n eqn:En. clear En.
        apply andb_true_iff in Hsp as [Hmem Hsp].
        remember (var :: firstn n rest) as g eqn:Eg. remember (skipn n rest) as r eqn:Er.
        assert (Evars : var :: rest = g ++ r) by (subst g r; cbn [app]; rewrite firstn_skipn; reflexivity).
        rewrite Evars in Hnd, Hg, Hsh.
        assert (Hgok : group_ok g).
        { split; [rewrite map_app in Hnd; apply (nodup_app_l _ _ Hnd)|].
          intros v Hv. rewrite forallb_forall in Hmem. specialize (Hmem v Hv). unfold seq_member, no_wrapper in Hmem.
          apply andb_true_iff in Hmem as [Hw Ht].
          destruct (v_wrapper_qname v) eqn:Ewq; [discriminate Hw|]. destruct (v_tokens_factory v) eqn:Etf; [discriminate Ht|].
          pose proof (Hg v (in_or_app _ _ _ (or_introl Hv))) as H1.
          unfold member_ok. rewrite Ewq, Etf. split; [exact H1|split; [reflexivity|split; [reflexivity|]]].
          apply Hsh; [apply in_or_app; left; exact Hv|exact Etf]. }
        rewrite (seq_fuel_eq g (fun v Hv => proj1 (proj2 Hgok v Hv))).
        destruct (seq_rolling_spec g Hgok (S (maxlen g)) 0) as [o1 [Hr1 HP1]]; [lia|]. rewrite Hr1. cbn [gbind].
        destruct (IH sf r) as [o2 [Hr2 HS2]].
        + subst r. rewrite skipn_length. lia.
        + subst r. rewrite skipn_length. lia.
        + rewrite map_app in Hnd. apply (NoDup_app_r _ _ Hnd).
        + intros v Hv. apply Hg. apply in_or_app. right; exact Hv.
        + intros v Hv. apply Hsh. apply in_or_app. right; exact Hv.
        + exact Hsp.
        + rewrite Hr2. cbn [gbind]. exists (o1 ++ o2). split; [reflexivity|].
          rewrite Evars. apply seg_app; [exact Hnd|apply seg_group; assumption|exact HS2].
      - pose proof (Hg var (or_introl eq_refl)) as Hga. rewrite Hga. cbn [gbind].
        cbn [map] in Hnd.
        destruct (IH sf rest) as [o2 [Hr2 HS2]].
        + lia.
        + lia.
        + inversion Hnd; assumption.
        + intros v Hv. apply Hg. right; exact Hv.
        + intros v Hv. apply Hsh. right; exact Hv.
        + exact Hsp.
        + rewrite Hr2. cbn [gbind]. exists (emit var (X var) ++ o2). split; [reflexivity|].
          change (var :: rest) with ([var] ++ rest). apply seg_app; [exact Hnd|apply seg_plain; assumption|exact HS2].
    Qed.
  End SeqGroup.

  (* without sequence groups *)
  Lemma pairs_plain cl fs m :
    wf_class m = true -> map fst fs = map v_name (get_all_vars m) ->
    (forall var, In var (get_element_vars m) -> v_sequence var = None) ->
    pairs cl fs m = flat_map (emit1 fs) (get_element_vars m).
  Proof.
    intros Hwc Hnames Hseq. apply pairs_eq.
    apply pairs_spec_plain; [exact Hnames| |exact Hseq|apply evars_indices_nodup; exact Hwc].
    intros var Hv. apply (in_allvars m var Hwc). right; exact Hv.
  Qed.

  (* what next_value yields for a fitting instance *)
  Lemma class_pairs cl fs m :
    wf_class m = true -> map fst fs = map v_name (get_all_vars m) ->
    (forall e v, In e (m_elements m) -> In v (snd e) -> v_tokens_factory v = None -> seq_shape v (field_of fs v)) ->
    (forall wv, is_wildvar m wv -> seq_shape wv (field_of fs wv)) ->
    pairs_spec cl fs m (pairs cl fs m).
  Proof.
    intros Hwc Hnames Hsh Hshw.
    destruct (m_text m) as [tv|] eqn:Htx.
    - (* a Text field: no sequence group *)
      assert (H : pairs_spec cl fs m (flat_map (emit1 fs) (get_element_vars m))).
      { apply pairs_spec_plain; [exact Hnames| | |apply evars_indices_nodup; exact Hwc].
        - intros var Hv. apply (in_allvars m var Hwc). right; exact Hv.
        - intros var Hin.
          destruct (wf_class_evar m var Hwc Hin) as [[_ Hi]|[[_ [Hwt _]]|[_ [_ [_ [_ Hnt]]]]]]; [|apply (wf_text_noseq var Hwt)|congruence].
          destruct (wf_class_inv m Hwc) as [F1 F2 F3 F4 F5 F6 F7 F8 F9 F10 F11 F12 F13].
          rewrite Htx in F11. destruct F11 as [_ Hnoe]. rewrite Hnoe in Hi. destruct Hi. }
      rewrite (pairs_eq _ _ _ _ H). exact H.
    - set (vars := get_element_vars m).
      destruct (loop_spec cl fs (S (length vars)) (S (length vars)) vars) as [out [Hrun [Sa [Sb Sc]]]]; try lia.
      + apply evars_indices_nodup; exact Hwc.
      + intros var Hv.
        apply (getattr_field cl fs m var Hnames). apply (in_allvars m var Hwc). right; exact Hv.
      + intros var Hv Ht. destruct (wf_class_evar m var Hwc Hv) as [[_ Hi]|[[Ht' _]|Hwv]]; [|congruence|apply (Hshw var Hwv)].
        apply (Hsh _ var Hi (or_introl eq_refl) Ht).
      + apply (wf_class_spans m Hwc).
      + assert (H : pairs_spec cl fs m out).
        { constructor; [exact Hrun|exact Sa|exact Sc|exact Sb]. }
        rewrite (pairs_eq _ _ _ _ H). exact H.
  Qed.

  Lemma class_pairs_fits rec cl fs m :
    wf_class m = true -> map fst fs = map v_name (get_all_vars m) ->
    (forall e v, In e (m_elements m) -> In v (snd e) -> fits_elem rec v (field_of fs v) = true) ->
    (forall wv, m_wildcards m = [wv] -> fits_wild u m wv (field_of fs wv) = true) ->
    pairs_spec cl fs m (pairs cl fs m).
  Proof.
    intros Hwc Hn Hfe Hfw. apply class_pairs; try assumption.
    - intros e v He Hv Ht. apply (fits_elem_shape rec v _ (Hfe e v He Hv) Ht).
    - intros wv [E [Hw _]]. pose proof (Hfw wv E) as Hf. unfold fits_wild in Hf. unfold seq_shape.
      destruct (v_factory wv).
      + destruct (field_of fs wv) as [| |t l| | | |]; try discriminate Hf. destruct t; [discriminate Hf|].
        exists false, l. split; [reflexivity|]. apply Forall_forall. intros y Hy. rewrite forallb_forall in Hf. specialize (Hf y Hy).
        unfold fits_any_top in Hf. apply andb_true_iff in Hf as [Hf _]. destruct y; try discriminate Hf; exact I.
      + destruct (field_of fs wv) as [| |t l| | | |]; try exact I.
        unfold fits_any_top in Hf. apply andb_true_iff in Hf as [Hf _]. discriminate Hf.
  Qed.

  Lemma wrap_ok var (r : gres (list wevent)) items :
    r = Ok (flat_map bflat items) ->
    (evs <- r ;; Ok (wrap_events var evs)) = Ok (flat_map bflat (g_wrap var items)).
  Proof.
    intros ->. cbn [gbind]. unfold wrap_events, g_wrap.
    destruct (v_wrapper_qname var) as [[|ch w]|]; try reflexivity.
    cbn [flat_map bflat map app]. rewrite app_nil_r. reflexivity.
  Qed.

  Lemma g_field_some rec var x : x <> VNone -> g_field rec var x = g_wrap var (g_items rec var x).
  Proof. intros H. unfold g_field. destruct x; try reflexivity. congruence. Qed.

  Lemma run_obj : forall n cl o qn xsi,
    wfr cl -> fits n cl o = true ->
    forall fuel, (5 * odepth o <= fuel)%nat ->
    forall nl, run c u ign fuel (CDataclass o qn nl xsi) = Ok (bflat (add_nil_g (nl || cnil o) (add_xsi_g xsi (gobj n qn o)))).
  Proof.
    induction n as [|n IH]; intros cl o qn xsi Hwf Hfit fuel Hfuel nl; [discriminate|].
    destruct (fits_inv n cl o Hfit) as [fs [m [-> [Hm [Hnames [Hfa [Hfe Hft]]]]]]].
    destruct (wfr_inv cl Hwf) as [m' [Hm' [Hmc [Hwc Hnest]]]]. rewrite Hm in Hm'. inversion Hm'; subst m'. clear Hm'.
    assert (Hd : (1 <= odepth (VObj cl fs))%nat) by (cbn [odepth]; lia).
    destruct fuel as [|f]; [lia|].
    cbn [run gobj cnil]. unfold cls_nillable. rewrite Hm.
    (* attributes *)
    unfold next_attribute.
    rewrite (concatM_flat _ (fun var => map (fun a => WAttr (fst a) (snd a)) (g_attr var (field_of fs var)))).
    2:{ intros var Hin. destruct (wf_class_avar m var Hwc Hin) as [[Hwa Hina]|[Hav Hwv]].
        - apply (attr_step_ok cl fs m var Hnames (in_allvars m var Hwc (or_introl Hin)) Hwa).
          apply (Hfa _ Hina).
        - apply (attr_step_map cl fs m var Hnames (in_allvars m var Hwc (or_introl Hin)) Hwv).
          apply (fits_mapvar n cl fs m var Hfit Hm Hav). }
    cbn [gbind].
    (* the field values *)
    assert (Hfw : forall wv, m_wildcards m = [wv] -> fits_wild u m wv (field_of fs wv) = true)
      by (intros wv Hwv; apply (fits_wildvar n cl fs m wv Hfit Hm Hwv)).
    pose proof (class_pairs_fits _ cl fs m Hwc Hnames Hfe Hfw) as Hps.
    rewrite (ps_eq _ _ _ _ Hps).
    cbn [gbind].
    (* the content *)
    rewrite (concatM_flat _ (fun vv => flat_map bflat (g_field (gobj n) (fst vv) (snd vv)))).
    2:{ intros [var x] Hin. cbn [fst snd].
        destruct (ps_src _ _ _ _ Hps _ Hin) as [Hvar [Hok Hsrc]]. cbn [fst snd] in Hvar. unfold okval in Hok. cbn [fst snd] in Hok.
        assert (Hcase : x <> VNone \/ (x = VNone /\ v_nillable var = true)).
        { destruct x; try (left; discriminate). destruct Hok as [H|H]; [congruence|right; split; [reflexivity|exact H]]. }
        clear Hok. destruct Hcase as [Hxn|[-> Hnl]].
        2:{ (* None in a nillable field: <f xsi:nil="true"/> *)
            cbn [g_field]. rewrite Hnl. apply wrap_ok. cbn [g_items]. rewrite Hnl.
            destruct (wf_class_evar m var Hwc Hvar) as [[Hwe Hine]|[[_ [Hwt _]]|[_ [Hww _]]]];
              [|rewrite (wf_text_nonil var Hwt) in Hnl; discriminate Hnl
               |destruct (wf_wild_inv var Hww) as [_ [_ [Hnn _]]]; congruence].
            destruct (wf_elem_inv var Hwe) as [Hk [Hc _]].
            destruct (var_common_inv var Hc) as [_ [Hmx [Hany _]]].
            assert (Htf : v_tokens_factory var = None).
            { pose proof (Hfe _ var Hine (or_introl eq_refl)) as Hfv.
              destruct Hsrc as [Hw|[f1 [t1 [l1 [_ [Htf1 _]]]]]]; cbn [fst snd] in *; [|exact Htf1].
              unfold pair_whole in Hw. cbn [fst snd] in Hw. rewrite <- Hw in Hfv. unfold Fits.fits_elem in Hfv.
              destruct (v_tokens_factory var); [|reflexivity]. destruct (v_factory var); discriminate Hfv. }
            assert (Hfa0 : v_factory var = None).
            { pose proof (Hfe _ var Hine (or_introl eq_refl)) as Hfv.
              destruct Hsrc as [Hw|[f1 [t1 [l1 [Hf1 [_ [_ [El Hil]]]]]]]]; cbn [fst snd] in *.
              - unfold pair_whole in Hw. cbn [fst snd] in Hw. rewrite <- Hw in Hfv.
                unfold Fits.fits_elem in Hfv. rewrite Htf in Hfv. destruct (v_factory var); [discriminate Hfv|reflexivity].
              - exfalso. rewrite El in Hfv. unfold Fits.fits_elem in Hfv. rewrite Hf1, Htf in Hfv.
                apply andb_true_iff in Hfv as [_ Hfl]. rewrite forallb_forall in Hfl.
                apply (fits_item_atomic _ var VNone (Hfl VNone Hil)). }
            destruct f as [|f0]; [cbn [odepth] in *; lia|].
            rewrite (run_value_single f0 var VNone Hmx Hk Htf Hfa0).
            destruct f0 as [|f1]; [cbn [odepth] in *; lia|].
            destruct Hk as [Hk0 Hk']. cbn [run]. rewrite Hk0.
            rewrite (convert_element_plain var VNone WNone (or_intror I) eq_refl). cbn [flat_map]. rewrite app_nil_r, bflat_prim. reflexivity. }
        assert (Hfield : In (v_name var, field_of fs var) fs \/ field_of fs var = VNone).
        { unfold field_of. destruct (assoc (v_name var) fs) eqn:Ea; [left; apply assoc_in; exact Ea|right; reflexivity]. }
        assert (Hdx : (odepth x < odepth (VObj cl fs))%nat).
        { destruct Hsrc as [Hw|[f0 [t0 [l0 [_ [_ [_ [El Hil]]]]]]]]; cbn [fst snd] in *.
          - unfold pair_whole in Hw. cbn [fst snd] in Hw. destruct Hfield as [Hf|Hf]; [|congruence].
            rewrite Hw. apply (odepth_field cl fs (v_name var)). exact Hf.
          - destruct Hfield as [Hf|Hf]; [|congruence].
            pose proof (odepth_field cl fs (v_name var) _ Hf) as H1. rewrite El in H1.
            pose proof (odepth_item t0 l0 x Hil) as H2. lia. }
        clear Hfield.
        destruct (wf_class_evar m var Hwc Hvar) as [[Hwe Hine]|[[Htx [Hwt Hnoe]]|Hwv]].
        3:{ (* the wildcard field: generic elements *)
            pose proof Hwv as [Ewv [Hww _]].
            destruct (wf_wild_inv var Hww) as [_ [Hc [_ [_ [_ [Htf [_ [_ [Hkt [_ [Hkes Hfd]]]]]]]]]]].
            destruct (var_common_w_inv var Hc) as [_ [Hmx _]].
            assert (Hkw : kind_wild var) by (split; assumption).
            pose proof (Hfw var Ewv) as Hfv. unfold fits_wild in Hfv.
            rewrite (g_field_some (gobj n) var x Hxn). apply wrap_ok.
            unfold g_items. rewrite Hkt, Htf.
            assert (Hany1 : forall y f', fits_any_top u m var y = true -> (odepth y <= f')%nat ->
                      run c u ign f' (CAnyType y var) = Ok (bflat (g_item (gobj n) var y))).
            { intros y f' Hy Hd'. unfold fits_any_top in Hy. apply andb_true_iff in Hy as [Hy _].
              destruct (fits_anyel_inv y Hy) as [q0 [s0 [a0 [ch0 [Ey _]]]]]. rewrite Ey. cbn [g_item]. rewrite <- Ey.
              apply run_any; assumption. }
            destruct Hsrc as [Hw|[f0 [t0 [l0 [Hf0 [_ [_ [El Hil]]]]]]]]; cbn [fst snd] in *.
            - unfold pair_whole in Hw. cbn [fst snd] in Hw. rewrite <- Hw in Hfv.
              destruct (v_factory var) as [fa|] eqn:Efa.
              + destruct x as [| |tt l| | | |]; try discriminate Hfv. destruct tt; [discriminate Hfv|].
                destruct f as [|f0]; [cbn [odepth] in *; lia|].
                rewrite (run_value_list_w f0 var false l fa Hmx Hkw Htf Efa). cbn [gbind].
                rewrite (concatM_flat _ (fun y => bflat (g_item (gobj n) var y))).
                { rewrite flat_map_map. reflexivity. }
                intros y Hy. rewrite forallb_forall in Hfv. specialize (Hfv y Hy).
                assert (Hya : is_array y = false).
                { unfold fits_any_top in Hfv. apply andb_true_iff in Hfv as [Hfv _]. destruct y; try discriminate Hfv; reflexivity. }
                destruct f0 as [|f1]; [cbn [odepth] in *; lia|].
                rewrite (run_value_item_w f1 var y Hmx Hkw Htf Hya).
                apply Hany1; [exact Hfv|]. pose proof (odepth_item false l y Hy). cbn [odepth] in *. lia.
              + destruct f as [|f0]; [cbn [odepth] in *; lia|].
                rewrite (run_value_single_w f0 var x Hmx Hkw Htf Efa).
                assert (Hfx : fits_any_top u m var x = true) by (destruct x; try exact Hfv; congruence).
                assert (Ex : match x with VList _ _ => False | _ => True end).
                { unfold fits_any_top in Hfx. apply andb_true_iff in Hfx as [Hfx _]. destruct x; try discriminate Hfx; exact I. }
                rewrite (Hany1 x f0 Hfx); [|cbn [odepth] in *; lia].
                destruct x; try congruence; try destruct Ex; cbn [flat_map]; rewrite ?app_nil_r; reflexivity.
            - rewrite El in Hfv. rewrite Hf0 in Hfv. destruct t0; [discriminate Hfv|].
              rewrite forallb_forall in Hfv. specialize (Hfv x Hil).
              assert (Hya : is_array x = false).
              { unfold fits_any_top in Hfv. apply andb_true_iff in Hfv as [Hfv _]. destruct x; try discriminate Hfv; reflexivity. }
              destruct f as [|f0']; [cbn [odepth] in *; lia|].
              rewrite (run_value_item_w f0' var x Hmx Hkw Htf Hya).
              rewrite (Hany1 x f0' Hfv); [|cbn [odepth] in *; lia].
              destruct x; try congruence; try discriminate Hya; cbn [flat_map]; rewrite ?app_nil_r; reflexivity. }
        - (* an element field *)
          destruct (wf_elem_inv var Hwe) as [Hk [Hc Hty]].
          destruct (var_common_inv var Hc) as [_ [Hmx [Hany [_ [_ [_ [_ [_ _]]]]]]]].
          rewrite (g_field_some (gobj n) var x Hxn). apply wrap_ok.
          pose proof (Hfe _ var Hine (or_introl eq_refl)) as Hfv0.
          assert (Hkt : v_is KText var = false) by (destruct Hk as [_ [Hkt _]]; exact Hkt).
          unfold g_items. rewrite Hkt.
          destruct Hty as [[k [Htys [Hcl Htf]]]|Hty2].
          + (* class typed *)
            rewrite Htf.
            assert (Hobj : forall y, (odepth y <= odepth x)%nat -> fits_item (fits n) var y = true ->
                     forall f', (5 * odepth y + 2 <= f')%nat ->
                     run c u ign f' (CAnyType y var) = Ok (bflat (g_item (gobj n) var y))).
            { intros y Hdy Hfy f' Hf'. destruct (fits_item_class _ var k y Htys Hfy) as [cl' [fs' [-> [[-> Hr]|[Hdok Hr]]]]].
              - (* an instance of the declared class *)
                destruct f' as [|f1]; [lia|]. rewrite run_anytype_obj.
                destruct f1 as [|f2]; [lia|]. rewrite (run_xsitype_exact f2 var k fs' Hk Htys).
                cbn [g_item]. unfold xsi_for. rewrite Htys. cbn [existsb ptype_eqb]. rewrite N.eqb_refl. cbn [orb].
                apply (IH k (VObj k fs') (Some (v_qname var)) None); [|exact Hr|lia].
                apply (Hnest _ var k Hine (or_introl eq_refl) Hcl).
              - (* an instance of a subclass: xsi:type *)
                destruct (derived_ok_inv var k cl' Hdok) as [Hne [Hsub [mk [mkd [t [Hmk _]]]]]].
                assert (Hmk' : u_meta u cl' <> None) by congruence.
                destruct f' as [|f1]; [lia|]. rewrite run_anytype_obj.
                destruct f1 as [|f2]; [lia|].
                rewrite (run_xsitype_derived f2 var k cl' fs' Hk Htys Hcl Hne Hsub Hmk').
                cbn [g_item]. apply (IH cl' (VObj cl' fs') (Some (v_qname var)) (xsi_for var cl')); [|exact Hr|lia].
                apply (wfr_sub cl m _ var k cl' Hwf Hm Hine (or_introl eq_refl) Hcl Hmk' Hne Hsub). }
            destruct Hsrc as [Hw|[f0 [t0 [l0 [Hf0 [_ [_ [El Hil]]]]]]]]; cbn [fst snd] in *.
            2:{ (* one item of a list field inside a sequence group *)
                rewrite El in Hfv0. unfold Fits.fits_elem in Hfv0. rewrite Hf0, Htf in Hfv0.
                apply andb_true_iff in Hfv0 as [_ Hfl]. rewrite forallb_forall in Hfl. specialize (Hfl x Hil).
                destruct (fits_item_class _ var k x Htys Hfl) as [cl' [fs' [Ex _]]].
                destruct f as [|f0']; [cbn [odepth] in *; subst x; cbn [odepth] in Hdx; lia|].
                rewrite (run_value_item f0' var x Hmx Hk Htf); [|subst x; reflexivity].
                rewrite (Hobj x (le_n _) Hfl); [subst x; cbn [flat_map]; rewrite app_nil_r; reflexivity|].
                subst x. cbn [odepth] in *. lia. }
            unfold pair_whole in Hw. cbn [fst snd] in Hw. rewrite <- Hw in Hfv0. rename Hfv0 into Hfv.
            unfold Fits.fits_elem in Hfv. rewrite Htf in Hfv.
            destruct (v_factory var) as [fa|] eqn:Efa.
            * destruct x as [| |tt l| | | |]; try discriminate Hfv. apply andb_true_iff in Hfv as [_ Hfl].
              destruct f as [|f0]; [cbn [odepth] in *; lia|].
              rewrite (run_value_list f0 var tt l fa Hmx Hk Htf Efa). cbn [gbind].
              rewrite (concatM_flat _ (fun y => bflat (g_item (gobj n) var y))).
              { rewrite flat_map_map. reflexivity. }
              intros y Hy. rewrite forallb_forall in Hfl. specialize (Hfl y Hy).
              pose proof (odepth_item tt l y Hy) as Hdy.
              destruct (fits_item_class _ var k y Htys Hfl) as [cl' [fs' [Ey _]]].
              destruct f0 as [|f1]; [cbn [odepth] in *; subst y; cbn [odepth] in Hdy; lia|].
              rewrite (run_value_item f1 var y Hmx Hk Htf); [|subst y; reflexivity].
              apply Hobj; [exact Hdy|exact Hfl|]. subst y. cbn [odepth] in *. lia.
            * destruct x as [| | |cl' fs'| | |] eqn:Ex; try (unfold Fits.fits_item, vtype in Hfv; rewrite Htys in Hfv; discriminate Hfv);
                [congruence|].
              destruct f as [|f0]; [cbn [odepth] in *; lia|].
              rewrite (run_value_single f0 var _ Hmx Hk Htf Efa). cbn [gbind flat_map]. rewrite app_nil_r.
              apply Hobj; [lia|exact Hfv|cbn [odepth] in *; lia].
          + assert (Hty3 : ((exists t, v_types var = [t] /\ simple_type t = true /\ v_clazz var = None)
                             \/ (v_types var = [TQName] /\ v_clazz var = None /\ v_tokens_factory var = None))
                            \/ any_elem var)
              by (destruct Hty2 as [H|[H|H]]; [left; left; exact H|left; right; exact H|right; exact H]).
            clear Hty2. destruct Hty3 as [Hty2|Hae].
            2:{ (* an xs:anyType field holding a str: plain text, no xsi:type *)
                destruct Hae as [Htys [Hcl [Htf [Hfac [Hnl [Hdf Hat]]]]]].
                destruct Hsrc as [Hw|[f0 [t0 [l0 [Hf0 _]]]]]; cbn [fst snd] in *; [|congruence].
                unfold pair_whole in Hw. cbn [fst snd] in Hw. rewrite <- Hw in Hfv0.
                unfold Fits.fits_elem in Hfv0. rewrite Hfac, Htf in Hfv0.
                destruct x as [|p| | | | |]; try (unfold Fits.fits_item, vtype in Hfv0; rewrite Htys in Hfv0; discriminate Hfv0); [congruence|].
                unfold Fits.fits_item, vtype in Hfv0. rewrite Htys in Hfv0. destruct p as [sx| | | | | | | |]; try discriminate Hfv0.
                apply andb_true_iff in Hfv0 as [Hlf Hds].
                rewrite Htf.
                destruct f as [|f0]; [cbn [odepth] in *; lia|].
                rewrite (run_value_single f0 var _ Hmx Hk Htf Hfac). cbn [gbind].
                destruct f0 as [|f1]; [cbn [odepth] in *; lia|].
                rewrite (run_anytype_prim f1 var (VP (PStr sx)) (enc_p (v_format var) (PStr sx)) Hk (or_intror Hds) I (encode_leaf TStr _ _ Hlf)).
                cbn [flat_map g_item]. rewrite app_nil_r. reflexivity. }
            (* simple typed, or QName typed *)
            assert (Hany0 : v_any_type var = false).
            { rewrite Hany. unfold is_object. destruct Hty2 as [[t [H1 [H2 _]]]|[H1 _]]; rewrite H1; [|reflexivity].
              destruct t; try reflexivity. discriminate H2. }
            assert (Hanyf : forall y, no_type_attr var y) by (intros y; left; exact Hany0).
            assert (Htt : exists t, v_types var = [t] /\ v_clazz var = None)
              by (destruct Hty2 as [[t [H1 [_ H2]]]|[H1 [H2 _]]]; eexists; split; eassumption).
            destruct Htt as [t [Htys Hcl]].
            assert (Hleaf : forall y, fits_item (fits n) var y = true ->
                      exists p, y = VP p /\ encode_primitive c u (v_format var) (VP p) = Ok (enc_p (v_format var) p)).
            { intros y Hfy. destruct Hty2 as [[t' [Htys' [Hst _]]]|[Htys' _]].
              - destruct (fits_item_simple _ var t' y Htys' Hst Hfy) as [p [-> Hp]]. exists p.
                split; [reflexivity|apply (encode_leaf t' _ p Hp)].
              - destruct (fits_item_qname _ var y Htys' Hfy) as [q [-> _]]. exists (PQName q). split; reflexivity. }
            assert (Hprim : forall y f', fits_item (fits n) var y = true ->
                      run c u ign (S f') (CAnyType y var) = Ok (bflat (g_prim var y))).
            { intros y f' Hfy. destruct (Hleaf y Hfy) as [p [-> He]].
              rewrite (run_anytype_prim f' var (VP p) (enc_p (v_format var) p) Hk (Hanyf _) I He).
              reflexivity. }
            destruct Hsrc as [Hw|[f0 [t0 [l0 [Hf0 [Htf0 [_ [El Hil]]]]]]]]; cbn [fst snd] in *.
            2:{ (* one item of a list field inside a sequence group *)
                rewrite El in Hfv0. unfold Fits.fits_elem in Hfv0. rewrite Hf0, Htf0 in Hfv0.
                apply andb_true_iff in Hfv0 as [_ Hfl]. rewrite forallb_forall in Hfl. specialize (Hfl x Hil).
                destruct (Hleaf x Hfl) as [p [Ex _]].
                rewrite Htf0.
                destruct f as [|f0']; [cbn [odepth] in *; lia|].
                rewrite (run_value_item f0' var x Hmx Hk Htf0); [|subst x; reflexivity].
                destruct f0' as [|f1]; [cbn [odepth] in *; lia|].
                rewrite (Hprim x f1 Hfl). subst x. cbn [flat_map g_item]. rewrite app_nil_r. reflexivity. }
            unfold pair_whole in Hw. cbn [fst snd] in Hw. rewrite <- Hw in Hfv0. rename Hfv0 into Hfv.
            unfold Fits.fits_elem in Hfv.
            destruct (v_tokens_factory var) as [tf|] eqn:Etf.
            * (* tokens *)
              destruct f as [|f0]; [cbn [odepth] in *; lia|].
              rewrite (run_value_tokens f0 var x tf Hmx Hk Etf). cbn [gbind].
              destruct (v_factory var) as [fa|] eqn:Efa.
              -- destruct x as [| |tt l| | | |]; try discriminate Hfv. apply andb_true_iff in Hfv as [_ Hfl].
                 unfold convert_tokens. cbn [py_truthy].
                 destruct l as [|y l']; [unfold v_list_element; rewrite Efa; cbn; rewrite andb_false_r; reflexivity|]. cbn [nonempty orb].
                 rewrite forallb_forall in Hfl.
                 destruct (fits_tokens_inv var tf y t Htys (Hfl y (or_introl eq_refl))) as [ty [ly [-> _]]].
                 rewrite (concatM_flat _ (fun z => bflat (g_prim var z))).
                 { rewrite flat_map_map. reflexivity. }
                 intros z Hz. destruct (fits_tokens_inv var tf z t Htys (Hfl z Hz)) as [tz [lz [-> [_ [Htk _]]]]].
                 rewrite (convert_element_plain var (VList tz lz) _ (Hanyf _) (encode_tokens t _ tz lz Htk)), bflat_prim. reflexivity.
              -- destruct x as [| |tt l| | | |] eqn:Ex; try (cbn in Hfv; discriminate Hfv).
                 destruct l as [|y l'].
                 { cbn in Hfv. apply andb_true_iff in Hfv as [_ Hn]. apply negb_true_iff in Hn.
                   unfold convert_tokens. cbn [py_truthy nonempty orb]. rewrite Hn. reflexivity. }
                 destruct (fits_tokens_inv var tf _ t Htys Hfv) as [tt' [l'' [E [_ [Htk _]]]]]. inversion E; subst tt' l''.
                 unfold convert_tokens. cbn [py_truthy nonempty orb].
                 assert (Hy : match y with VList _ _ => False | _ => True end).
                 { cbn [forallb] in Htk. apply andb_true_iff in Htk as [Hy _].
                   destruct (token_is_leaf _ _ _ Hy) as [p [-> _]]. exact I. }
                 pose proof (convert_element_plain var (VList tt (y :: l')) _ (Hanyf _) (encode_tokens t _ tt (y :: l') Htk)) as Hce.
                 destruct y; try destruct Hy; cbn [flat_map]; rewrite app_nil_r; rewrite Hce, bflat_prim; reflexivity.
            * destruct (v_factory var) as [fa|] eqn:Efa.
              -- destruct x as [| |tt l| | | |]; try discriminate Hfv. apply andb_true_iff in Hfv as [_ Hfl].
                 destruct f as [|f0]; [cbn [odepth] in *; lia|].
                 rewrite (run_value_list f0 var tt l fa Hmx Hk Etf Efa). cbn [gbind].
                 rewrite (concatM_flat _ (fun y => bflat (g_item (gobj n) var y))).
                 { rewrite flat_map_map. reflexivity. }
                 intros y Hy. rewrite forallb_forall in Hfl. specialize (Hfl y Hy).
                 destruct (Hleaf y Hfl) as [p [Ey _]].
                 destruct f0 as [|f1]; [cbn [odepth] in *; lia|].
                 rewrite (run_value_item f1 var y Hmx Hk Etf); [|subst y; reflexivity].
                 destruct f1 as [|f2]; [cbn [odepth] in *; lia|].
                 rewrite (Hprim y f2 Hfl). subst y. reflexivity.
              -- destruct f as [|f0]; [cbn [odepth] in *; lia|].
                 rewrite (run_value_single f0 var x Hmx Hk Etf Efa). cbn [gbind].
                 assert (Hfx : fits_item (fits n) var x = true).
                 { destruct x; try exact Hfv. congruence. }
                 destruct (Hleaf x Hfx) as [p [Ex _]].
                 destruct f0 as [|f1]; [cbn [odepth] in *; lia|].
                 rewrite (Hprim x f1 Hfx). rewrite Ex. cbn [flat_map g_item]. rewrite app_nil_r. reflexivity.
        - (* the Text field *)
          destruct (wf_text_inv var Hwt) as [Hwtk [Hwt0 [t [Htys Hwtd]]]]. rename Hwt into Hwt'. rename Hwtk into Hwt.
          destruct (var_common_inv var Hwt0) as [_ [Hmx [_ [_ [_ [_ [_ [_ _]]]]]]]].
          rewrite (g_field_some (gobj n) var x Hxn). apply wrap_ok.
          destruct f as [|f0]; [cbn [odepth] in *; lia|].
          rewrite (run_value_text f0 var x Hmx Hwt).
          unfold g_items. rewrite Hwt.
          assert (Hxe : x = field_of fs var).
          { destruct Hsrc as [Hw|[f1 [t1 [l1 [Hf1 _]]]]]; [exact Hw|]. cbn [fst] in Hf1.
            rewrite (wf_text_nofactory var Hwt') in Hf1. discriminate Hf1. }
          rewrite Htx in Hft. rewrite <- Hxe in Hft.
          unfold Fits.fits_text, vtype in Hft. rewrite Htys in Hft.
          unfold convert_data.
          destruct (v_tokens_factory var) as [tf|].
          + destruct x as [| |tt l| | | |]; try discriminate Hft. apply andb_true_iff in Hft as [_ Htk].
            rewrite (encode_tokens t _ tt l Htk). reflexivity.
          + destruct x as [|p| | | | |]; try discriminate Hft; [congruence|].
            destruct (ptype_eqb t TQName) eqn:Etq.
            * unfold qleaf_ok in Hft. apply andb_true_iff in Hft as [_ Hq]. destruct p as [| | | | | |q1| |]; try discriminate Hq.
              reflexivity.
            * apply andb_true_iff in Hft as [Hp _]. rewrite (encode_leaf t _ p Hp). reflexivity. }
    cbn [gbind add_xsi_g add_nil_g bflat app]. f_equal. f_equal. f_equal.
    - rewrite !map_app. rewrite <- app_assoc. f_equal; [symmetry; apply map_flat_map_l|]. f_equal.
      + destruct xsi as [[|ch q]|]; reflexivity.
      + destruct (nl || m_nillable m); reflexivity.
    - f_equal. rewrite flat_map_flat_map. reflexivity.
  Qed.
  (* ---------------------------------------------------------------- the expected tree *)
  (* what Spec/XmlNs.v's reading of the emitted events is (Proofs/RoundtripTree.v): the same
     structural function, with values as text atoms *)
  Definition x_text (fmt : option str) (x : value) : str :=
    match x with VP p => leaf_text c u fmt p | _ => [] end.
  Definition e_atoms (fmt : option str) (x : value) : list atom :=
    match x with
    | VP (PQName q) => [AQName (Bind.split_qname q)]
    | VP p => [AText (leaf_text c u fmt p)]
    | VList _ l => map (fun y => AText (x_text fmt y)) l
    | _ => []
    end.
  (* a plain leaf is not a QName *)
  Lemma leaf_nq t fmt q : leaf_ok t fmt (PQName q) = false.
  Proof. unfold Fits.leaf_ok. cbn [ptext plain_text]. apply andb_false_r. Qed.
  Lemma e_atoms_plain_leaf t fmt p : leaf_ok t fmt p = true -> e_atoms fmt (VP p) = [AText (leaf_text c u fmt p)].
  Proof. intros H. destruct p; try reflexivity. rewrite leaf_nq in H. discriminate H. Qed.

  Definition e_data (fmt : option str) (x : value) : list XmlNs.enode :=
    match e_atoms fmt x with
    | [] => []
    | l => if atoms_trivial l then [] else [EData l]
    end.
  Definition e_attr (var : xvar) (x : value) : list (XmlNs.qname * list atom) :=
    match x with
    | VNone => []
    | VMap mm => map (fun kv => (Bind.split_qname (fst kv), [AText (snd kv)])) mm
    | _ => if is_array x && negb (py_truthy x) then []
           else if ign && opt_skip var x then []
           else [(Bind.split_qname (v_qname var), e_atoms (v_format var) x)]
    end.
  (* None in a nillable field: <f xsi:nil="true"/> *)
  Definition nil_attr_e (var : xvar) (x : value) : list (XmlNs.qname * list atom) :=
    match x with
    | VNone => if v_nillable var then [(Bind.split_qname XSI_NIL, [AText TRUE_STR])] else []
    | _ => []
    end.
  Definition e_prim (var : xvar) (x : value) : XmlNs.enode :=
    EElem (Bind.split_qname (v_qname var)) (nil_attr_e var x) (e_data (v_format var) x).
  Definition xsi_attr_e (x : option qname) : list (XmlNs.qname * list atom) :=
    match x with Some ((_ :: _) as q) => [(Bind.split_qname XSI_TYPE, [AQName (Bind.split_qname q)])] | _ => [] end.
  Definition add_xsi_e (x : option qname) (e : XmlNs.enode) : XmlNs.enode :=
    match e with EElem q ats ks => EElem q (ats ++ xsi_attr_e x) ks | EData a => EData a end.
  Lemma add_xsi_e_none e : add_xsi_e None e = e.
  Proof. destruct e; [reflexivity|]. cbn [add_xsi_e xsi_attr_e]. rewrite app_nil_r. reflexivity. Qed.
  Fixpoint e_any (x : value) : XmlNs.enode :=
    match x with
    | VAny (Some q) text _ attrs children =>
        EElem (Bind.split_qname q) (map (fun kv => (Bind.split_qname (fst kv), [AText (snd kv)])) attrs)
              ((match text with Some ((_ :: _) as t) => [EData [AText t]] | _ => [] end) ++ map e_any children)
    | _ => EData []
    end.

  Definition nil_attr_k (b : bool) : list (XmlNs.qname * list atom) :=
    if b then [(Bind.split_qname XSI_NIL, [AText TRUE_STR])] else [].
  Definition add_nil_e (b : bool) (e : XmlNs.enode) : XmlNs.enode :=
    match e with EElem q a k => EElem q (a ++ nil_attr_k b) k | EData d => EData d end.
  Lemma add_nil_e_false e : add_nil_e false e = e.
  Proof. destruct e; [reflexivity|]. cbn [add_nil_e nil_attr_k]. rewrite app_nil_r. reflexivity. Qed.

  Definition e_item (rec : option qname -> value -> XmlNs.enode) (var : xvar) (x : value) : XmlNs.enode :=
    match x with
    | VAny _ _ _ _ _ => e_any x
    | VObj k' _ => add_nil_e (nil_kept (v_nillable var || cnil x) x) (add_xsi_e (xsi_for var k') (rec (Some (v_qname var)) x))
    | _ => e_prim var x
    end.
  Definition e_wrap (var : xvar) (items : list XmlNs.enode) : list XmlNs.enode :=
    match v_wrapper_qname var with
    | Some ((_ :: _) as w) => [EElem (Bind.split_qname w) [] items]
    | _ => items
    end.

  Definition e_items (rec : option qname -> value -> XmlNs.enode) (var : xvar) (x : value) : list XmlNs.enode :=
    match x with
    | VNone => if v_nillable var then [e_prim var VNone] else []
    | _ =>
        if v_is KText var then e_data (v_format var) x
        else match v_tokens_factory var with
             | Some _ =>
                 match x with
                 | VList _ [] => []
                 | VList _ ((VList _ _ :: _) as l) => map (e_prim var) l
                 | _ => [e_prim var x]
                 end
             | None =>
                 match x with
                 | VList _ l => map (e_item rec var) l
                 | _ => [e_item rec var x]
                 end
             end
    end.
  Definition e_field (rec : option qname -> value -> XmlNs.enode) (var : xvar) (x : value) : list XmlNs.enode :=
    match x with
    | VNone => if v_nillable var then e_wrap var (e_items rec var x) else []
    | _ => e_wrap var (e_items rec var x)
    end.

  Fixpoint eobj (n : nat) (qn : option qname) (o : value) {struct n} : XmlNs.enode :=
    match n, o with
    | S k, VObj cl fs =>
        match u_meta u cl with
        | Some m =>
            EElem (Bind.split_qname (match qn with Some ((_ :: _) as q) => q | _ => m_qname m end))
                  (flat_map (fun var => e_attr var (field_of fs var)) (get_attribute_vars m))
                  (flat_map (fun vv => e_field (eobj k) (fst vv) (snd vv)) (pairs cl fs m))
        | None => EData []
        end
    | _, _ => EData []
    end.

  (* under the guards every encoded value is plain text *)
  Lemma enc_leaf t fmt p : leaf_ok t fmt p = true -> enc_p fmt p = WP (PStr (leaf_text c u fmt p)).
  Proof.
    unfold Fits.leaf_ok, leaf_text. intros H. apply andb_true_iff in H as [_ H].
    destruct (ptext c u fmt p) as [s|] eqn:E; [|discriminate]. clear H.
    destruct p; cbn [ptext plain_text enc_p encode_prim] in *; try (inversion E; reflexivity); try discriminate.
    destruct (enum_member u e member) as [pv|]; [|discriminate].
    destruct pv; cbn [plain_text encode_prim] in *; try (inversion E; reflexivity); discriminate.
  Qed.

  Lemma enc_tokens t fmt tf l : forallb (token_ok t fmt) l = true ->
    enc fmt (VList tf l) = WL (map (fun y => WP (PStr (x_text fmt y))) l).
  Proof.
    intros H. cbn [enc]. f_equal. apply map_ext_in. intros y Hy.
    rewrite forallb_forall in H. destruct (token_is_leaf _ _ _ (H y Hy)) as [p [-> Hp]].
    cbn [x_text]. eapply enc_leaf. exact Hp.
  Qed.
End Gen.
