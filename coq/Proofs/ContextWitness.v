(* Proofs/ContextWitness.v — concrete witnesses: the four refutations of the full
   history-independence statement (each replayed on the implementation by
   harness/c14.py), the guard clause that excludes each of them, and non-trivial
   histories inside the guard. *)
From Coq Require Import String NArith List Bool.
From XV Require Import Base.Str Base.Eqb Model.Context Proofs.ContextEq Proofs.ContextInv Proofs.ContextHist.
Import ListNotations.
Open Scope N_scope.

Definition history_independent_at (w0 : world) (h : list hop) (s : script) : Prop :=
  let '(w, x, _) := run_hist w0 ctx0 h in result w x s = result w ctx0 s.

(* ---- a small pool ---- *)
Definition f_elem (n : string) (t : ftype) : fdesc := mkF (lit n) KElem None t false None.
Definition cLeaf := mkC 1 (lit "Leaf") None None true None [f_elem "x" TStr] true.
Definition cPA := mkC 2 (lit "PA") (Some (lit "urn:a")) None true None [f_elem "leaf" (TCls 1)] true.
Definition cPB := mkC 3 (lit "PB") (Some (lit "urn:b")) None true None [f_elem "leaf" (TCls 1)] true.
Definition cBroken := mkC 14 (lit "Broken") (Some (lit "urn:k")) None true None [] false.
Definition cDep := mkC 16 (lit "Dep") (Some (lit "urn:p")) None true None
                     [f_elem "br" (TCls 14); f_elem "pleaf" (TCls 1)] true.
Definition cLate := mkC 20 (lit "Late") (Some (lit "urn:late")) None true None [f_elem "x" TStr] true.
Definition cOwn := mkC 12 (lit "Own") (Some (lit "urn:o")) None true None [f_elem "oleaf" (TCls 13)] true.
Definition cOwnLeaf := mkC 13 (lit "OwnLeaf") (Some (lit "urn:o")) None true None [f_elem "y" TStr] true.
Definition W : world := mkW [cLeaf; cPA; cPB; cBroken; cDep; cOwn; cOwnLeaf] 7.

Definition vstr (s : string) : value := V (GStr (lit s)) [].
Definition vLeaf : value := V (GObj 1) [V GField [vstr "1"]].
Definition vPA : value := V (GObj 2) [V GField [vLeaf]].
Definition vPB : value := V (GObj 3) [V GField [vLeaf]].
Definition vDep : value := V (GObj 16) [V GField []; V GField [vLeaf]].
Definition vOwn : value := V (GObj 12) [V GField [V (GObj 13) [V GField [vstr "y"]]]].

(* the document a fresh serializer writes for vPB, as parser events *)
Definition q (s : string) : str := lit s.
Definition docPB : list pevent :=
  [PNs (Some (q "ns0")) (q "urn:b");
   PStart (q "{urn:b}PB") [] None; PStart (q "{urn:b}leaf") [] None; PStart (q "{urn:b}x") [] None;
   PEnd (q "{urn:b}x") (Some (q "1")); PEnd (q "{urn:b}leaf") None; PEnd (q "{urn:b}PB") None].
Definition docOwn : list pevent :=
  [PStart (q "{urn:o}Own") [] None; PStart (q "{urn:o}oleaf") [] None; PStart (q "{urn:o}y") [] None;
   PEnd (q "{urn:o}y") (Some (q "y")); PEnd (q "{urn:o}oleaf") None; PEnd (q "{urn:o}Own") None].

(* ---- (a) the cache is keyed by class only ---- *)
Definition h_ns : list hop := [HRun (serialize W vPA)].

Example ns_fresh_output :
  result W ctx0 (serialize W vPB) =
  ROk (Node (q "{urn:b}PB") [Node (q "{urn:b}leaf") [Node (q "{urn:b}x") [Node (q "#1") []]]]).
Proof. vm_compute. reflexivity. Qed.

Example ns_shared_output :
  let '(w, x, _) := run_hist W ctx0 h_ns in
  result w x (serialize W vPB) =
  ROk (Node (q "{urn:b}PB") [Node (q "{urn:b}leaf") [Node (q "{urn:a}x") [Node (q "#1") []]]]).
Proof. vm_compute. reflexivity. Qed.

Lemma refuted_ns : world_ok W = true /\ ~ history_independent_at W h_ns (serialize W vPB).
Proof. split; [reflexivity|]. intros H. vm_compute in H. discriminate. Qed.

(* ... and parsing the fresh-context document on the used context fails *)
Example ns_parse_fails :
  let '(w, x, _) := run_hist W ctx0 (h_ns ++ [HRun (serialize W vPB)]) in
  result w x (parse W docPB (Some 3)) = RErr e_parser (q "Unknown property {urn:a}Leaf:{urn:b}x")
  /\ exists t, result w ctx0 (parse W docPB (Some 3)) = ROk t.
Proof. vm_compute. split; [reflexivity|eexists; reflexivity]. Qed.

Example ns_guard_clause : forall t, snd (run_script W ctx0 (serialize W vPA)) = t ->
  ns_closed (t ++ snd (run_script W (fst (fst (run_script W ctx0 (serialize W vPA)))) (serialize W vPB))) = false.
Proof. intros t <-. vm_compute. reflexivity. Qed.

(* ---- (b) the subclass index is not refreshed without a module-count change ---- *)
Definition find_late : script := op_script W (OCall (CFindType (q "{urn:late}Late"))).
Definition h_stale : list hop := [HRun find_late; HEnv (EDefine cLate false)].

Lemma refuted_stale : world_ok W = true /\ ~ history_independent_at W h_stale find_late.
Proof. split; [reflexivity|]. intros H. vm_compute in H. discriminate. Qed.

Example stale_values :
  let '(w, x, _) := run_hist W ctx0 h_stale in
  result w x find_late = ROk (Node (q "none") []) /\ result w ctx0 find_late = ROk (Node (q "c:20") []).
Proof. vm_compute. split; reflexivity. Qed.

Example stale_guard_clause : modules_stable h_stale = false.
Proof. reflexivity. Qed.

(* with the module count changing the index is rebuilt *)
Example stale_bumped :
  history_independent_at W [HRun find_late; HEnv (EDefine cLate true)] find_late.
Proof. vm_compute. reflexivity. Qed.

(* ---- (c) until /repo c28ded8 local_names_match pruned the index: a typeless decode made
   find_type lose an unbuildable class, a second local_names_match raised ValueError.  The
   history is harmless now (regression examples; harness/c14.py replays them) ---- *)
Definition find_broken : script := op_script W (OCall (CFindType (q "{urn:k}Broken"))).
Definition decode_x : script := decode W (J JO [J (JK (q "x")) [J (JS (q "1")) []]]) None.
Definition h_prune : list hop := [HRun decode_x].

Example former_prune_harmless : history_independent_at W h_prune find_broken.
Proof. vm_compute. reflexivity. Qed.

Definition names_broken : script := op_script W (OCall (CLocalNamesMatch [q "a"] 14)).
Example former_value_error_harmless :
  history_independent_at W [HRun (op_script W (OCall CBuildXsi)); HRun names_broken] names_broken.
Proof. vm_compute. reflexivity. Qed.

Example former_prune_guarded : hist_guard W (h_prune ++ [HRun names_broken; HRun names_broken]) find_broken = true.
Proof. vm_compute. reflexivity. Qed.

(* ---- (d) build_recursive stops at a cached class ---- *)
Definition rec_dep : script := op_script W (OCall (CBuildRecursive 16 None)).
Definition h_rec : list hop := [HRun (serialize W vDep)].

Lemma refuted_rec : world_ok W = true /\ ~ history_independent_at W h_rec rec_dep.
Proof. split; [reflexivity|]. intros H. vm_compute in H. discriminate. Qed.

Example rec_guard_clause : quiet (snd (run_script W ctx0 rec_dep)) = false.
Proof. vm_compute. reflexivity. Qed.

(* the full statement is false *)
Lemma full_statement_false :
  ~ (forall w0 h s, world_ok w0 = true -> history_independent_at w0 h s).
Proof. intros H. destruct refuted_ns as [Hw Hn]. apply Hn. apply H. exact Hw. Qed.

(* ---- inside the guard: a history with successes, failures, a class that
   appears together with a module, typed and untyped lookups ---- *)
Definition h_good : list hop :=
  [HRun (serialize W vOwn);
   HRun (parse W docOwn (Some 12));
   HRun (parse W (firstn 3 docOwn ++ [PBad]) (Some 12));          (* a truncated document *)
   HRun (serialize W (V (GObj 14) []));                            (* a class that cannot be built *)
   HEnv (EDefine cLate true);
   HRun find_late;
   HRun (parse W docOwn None);
   HRun (encode vOwn);
   HRun (parse W [PStart (q "{urn:none}Nobody") [] None; PEnd (q "{urn:none}Nobody") None] None);
   HEnv EImport;
   HRun (op_script W (OCall CReset));
   HRun (serialize W vPA)].

Example guard_nonvacuous : hist_guard W h_good (parse W docOwn None) = true.
Proof. vm_compute. reflexivity. Qed.

Example guard_nonvacuous_result :
  let '(w, x, _) := run_hist W ctx0 h_good in
  exists t, result w x (parse W docOwn None) = ROk t.
Proof. vm_compute. eexists. reflexivity. Qed.

(* an un-namespaced class reached under a single parent namespace is inside the guard *)
Example guard_single_parent : hist_guard W [HRun (serialize W vPA); HRun (serialize W vPA)] (serialize W vPA) = true.
Proof. vm_compute. reflexivity. Qed.
