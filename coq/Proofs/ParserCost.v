(* Proofs/ParserCost.v — the binding layer does a linear amount of work: the parser makes one
   step per event, and the only loops whose length is not bounded by the metadata are the ones
   over the child objects a node binds when it ends (ElementNode.bind_objects /
   bind_mixed_objects, WildcardNode.fetch_any_children); every object is appended by exactly one
   end event (at most two per event: the value and a tail) and consumed at most once.
   Not counted: the work inside UnionNode replays (the replay is a parameter here; it re-parses
   the recorded sub-stream once per candidate type). *)
From Coq Require Import NArith ZArith List Bool Arith Lia.
From XV Require Import Base.Str Base.Eqb Base.PyInt Model.Bind Model.Parser Model.ParserCorr Spec.Inject.
Import ListNotations.
Local Open Scope nat_scope.

(* child objects the node on top of the queue binds when it ends *)
Definition consumed (st : pstate) : nat :=
  match st_queue st with
  | NElement en :: _ =>
      if negb (xsi_nil_true en) || m_nillable (en_meta en)
      then length (skipn (en_position en) (st_objects st)) else 0
  | NWildcard _ _ _ pos :: _ => length (skipn pos (st_objects st))
  | _ => 0
  end.

Definition step_cost (st : pstate) (ev : pevent) : nat :=
  match ev with PEnd _ _ _ => 1 + consumed st | _ => 1 end.

Section Cost.
  Variable cfg : pconfig.
  Variable c : conv.
  Variable u : universe.
  Variable replay : pconfig -> option cls -> list pevent -> outcome.
  Variable root : option cls.

  Fixpoint run_cost (st : pstate) (evs : list pevent) : nat :=
    match evs with
    | [] => 0
    | ev :: r => step_cost st ev + match step cfg c u replay root st ev with
                                   | ROk st' => run_cost st' r
                                   | RErr _ => 0
                                   end
    end.

  Lemma append_tail_length objs tail : length (append_tail objs tail) <= length objs + 1.
  Proof. unfold append_tail. destruct (normalize_content tail); [rewrite app_length; cbn [length]|]; lia. Qed.

  Lemma bind_content_objs en p t tl objs r :
    bind_content cfg c en p t tl objs = ROk r -> snd (fst (fst r)) = firstn (en_position en) objs.
  Proof.
    unfold bind_content.
    destruct (find_any_wildcard (en_meta en)) as [wv|].
    - match goal with |- rbind ?X _ = _ -> _ => destruct X as [[[p1 ws1] bt]|k] end; cbn [rbind]; [|discriminate].
      destruct bt; [intros H; injection H as <-; reflexivity|].
      destruct (bind_wild_text en wv p1 t tl) as [r2|k]; cbn [rbind]; [|discriminate].
      intros H. injection H as <-. reflexivity.
    - match goal with |- rbind ?X _ = _ -> _ => destruct X as [[[p1 ws1] bt]|k] end; cbn [rbind]; [|discriminate].
      intros H. injection H as <-. reflexivity.
  Qed.

  Lemma element_bind_length en q t tl objs r :
    element_bind cfg c en q t tl objs = ROk r ->
    length (fst r) + (if negb (xsi_nil_true en) || m_nillable (en_meta en)
                      then length (skipn (en_position en) objs) else 0) <= length objs + 2.
  Proof.
    unfold element_bind. destruct (negb (xsi_nil_true en) || m_nillable (en_meta en)).
    - destruct (bind_attrs cfg c en) as [pa|k]; cbn [rbind]; [|discriminate].
      destruct (bind_content cfg c en (fst pa) t tl objs) as [[[[p objs'] ws2] tp]|k] eqn:Hc; cbn [rbind]; [|discriminate].
      pose proof (bind_content_objs _ _ _ _ _ _ Hc) as Ho. cbn [fst snd] in Ho. subst objs'.
      destruct (class_factory cfg (en_meta en) (evaluate p)) as [obj|k]; cbn [rbind]; [|discriminate].
      intros H. injection H as <-. cbn [fst].
      assert (Hsplit : length (firstn (en_position en) objs) + length (skipn (en_position en) objs) = length objs).
      { rewrite <- app_length, firstn_skipn. reflexivity. }
      destruct tp.
      + rewrite app_length. cbn [length]. lia.
      + pose proof (append_tail_length (firstn (en_position en) objs ++ [(Some q, if en_derived en then VDerived q obj (en_xsi_type en) else obj)]) tl) as Ha.
        rewrite app_length in Ha. cbn [length] in Ha. lia.
    - cbn [rbind]. intros H. injection H as <-. cbn [fst].
      pose proof (append_tail_length (objs ++ [(Some q, if en_derived en then VDerived q VNone (en_xsi_type en) else VNone)]) tl) as Ha.
      rewrite app_length in Ha. cbn [length] in Ha. lia.
  Qed.

  Lemma pend_potential st q t tl st' :
    pend cfg c replay st q t tl = ROk st' ->
    length (st_objects st') + consumed st <= length (st_objects st) + 2.
  Proof.
    unfold pend, consumed. destruct (st_queue st) as [|n Q]; [discriminate|].
    destruct n as [en|m var ns0|m var ty fmt wr ns0 nl dv|var at_ ns0 pos|wq| |un].
    - unfold finish_end. destruct (element_bind cfg c en q t tl (st_objects st)) as [x|k] eqn:He; cbn [rbind]; [|discriminate].
      intros H. injection H as <-. cbn [st_objects]. exact (element_bind_length _ _ _ _ _ _ He).
    - unfold finish_end, primitive_bind.
      destruct (parse_var c (fail_conv_warnings cfg) m var t ns0 None None) as [[obj ws]|k]; cbn [rbind]; [|discriminate].
      intros H. injection H as <-. cbn [st_objects fst].
      destruct (m_mixed_content m).
      + pose proof (append_tail_length (st_objects st ++ [(Some q, match obj with VNone => if v_nillable var then VNone else if existsb (ptype_eqb TBytes) (v_types var) then VP (PBytes []) else VP (PStr []) | _ => obj end)]) tl) as Ha.
        rewrite app_length in Ha. cbn [length] in Ha. lia.
      + rewrite app_length. cbn [length]. lia.
    - unfold finish_end, standard_bind.
      destruct (parse_var c (fail_conv_warnings cfg) m var t ns0 (Some [ty]) fmt) as [[obj ws]|k]; cbn [rbind]; [|discriminate].
      destruct (match wr with Some _ => _ | None => _ end) as [obj2|k]; cbn [rbind]; [|discriminate].
      intros H. injection H as <-. cbn [st_objects fst]. rewrite app_length. cbn [length]. lia.
    - intros H. injection H as <-. cbn [st_objects]. unfold wildcard_bind.
      assert (Hsplit : length (firstn pos (st_objects st)) + length (skipn pos (st_objects st)) = length (st_objects st)).
      { rewrite <- app_length, firstn_skipn. reflexivity. }
      destruct (_ || _ || _ || _ || _); rewrite app_length; cbn [length]; lia.
    - intros H. injection H as <-. cbn [st_objects]. lia.
    - intros H. injection H as <-. cbn [st_objects]. lia.
    - destruct (un_level un).
      + unfold union_bind. destruct (truthy (fst _)); cbn [rbind]; [|discriminate].
        intros H. injection H as <-. cbn [st_objects]. rewrite app_length. cbn [length]. lia.
      + intros H. injection H as <-. cbn [st_objects]. lia.
  Qed.

  Lemma start_objects st q a ns st' :
    start cfg c u root st q a ns = ROk st' -> st_objects st' = st_objects st.
  Proof.
    unfold start. destruct (st_queue st) as [|n Q].
    - destruct (root_node c u root q a ns); cbn [rbind]; [|discriminate]. intros H. injection H as <-. reflexivity.
    - destruct n as [en| | | |wq| |un]; try discriminate; try (intros H; injection H as <-; reflexivity).
      + destruct (is_some (assoc q (m_wrappers (en_meta en)))); [intros H; injection H as <-; reflexivity|].
        destruct (element_child cfg c u en q a ns (length (st_objects st)) None); cbn [rbind]; [|discriminate].
        intros H. injection H as <-. reflexivity.
      + destruct Q as [|n2 Q2]; [discriminate|]. destruct n2 as [en| | | | | |]; try discriminate.
        destruct (element_child cfg c u en q a ns (length (st_objects st)) (Some wq)); cbn [rbind]; [|discriminate].
        intros H. injection H as <-. reflexivity.
  Qed.

  Lemma consumed_le st : consumed st <= length (st_objects st).
  Proof.
    unfold consumed. destruct (st_queue st) as [|n Q]; [lia|]. destruct n; try lia.
    - destruct (negb (xsi_nil_true e) || m_nillable (en_meta e)); [rewrite skipn_length|]; lia.
    - rewrite skipn_length. lia.
  Qed.

  Theorem run_cost_linear evs : forall st, run_cost st evs <= 3 * length evs + length (st_objects st).
  Proof.
    induction evs as [|ev evs IH]; intros st; cbn [run_cost length]; [lia|].
    destruct (step cfg c u replay root st ev) as [st'|k] eqn:Hs.
    - specialize (IH st'). destruct ev as [q a ns|q t tl|p uri]; cbn [step step_cost] in *.
      + rewrite (start_objects _ _ _ _ _ Hs) in IH. lia.
      + pose proof (pend_potential _ _ _ _ _ Hs). lia.
      + injection Hs as <-. lia.
    - destruct ev as [q a ns|q t tl|p uri]; cbn [step_cost]; try lia.
      pose proof (consumed_le st). lia.
  Qed.
End Cost.

(* one step per event and at most 2 child-object bindings per event, for every stream *)
Theorem parse_work_linear : forall cfg c u replay root evs,
  run_cost cfg c u replay root init_state evs <= 3 * length evs.
Proof.
  intros. pose proof (run_cost_linear cfg c u replay root evs init_state) as H. cbn [init_state st_objects length] in H. lia.
Qed.
