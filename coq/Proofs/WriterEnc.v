(* Proofs/WriterEnc.v — lexical facts about names, split_qname/build_qname, and what
   encode_data does to the prefix map: the invariant is kept, no binding is lost, and the
   text produced `renders` the value in the resulting map (hence in every extension). *)
From Coq Require Import NArith List Bool Lia.
From XV Require Import Base.Str Base.Dec Base.Eqb Spec.XmlNs Gen.WriterTables Model.Writer
  Proofs.WriterTree Proofs.WriterMaps.
Import ListNotations.
Open Scope N_scope.

(* ------------------------------------------------------------------ character classes *)
Lemma in_range_spec lo hi c : in_range lo hi c = true <-> lo <= c <= hi.
Proof. unfold in_range. rewrite andb_true_iff, !N.leb_le. tauto. Qed.

Ltac range_cases H :=
  repeat match type of H with
         | (_ || _) = true => apply orb_true_iff in H as [H|H]
         end.

Lemma ncname_start_is_char c : is_ncname_start c = true -> is_ncname_char c = true.
Proof. unfold is_ncname_char. intros ->. reflexivity. Qed.

Lemma ncname_char_xml c : is_ncname_char c = true -> is_xml_char c = true.
Proof.
  unfold is_ncname_char, is_ncname_start, is_xml_char. intros H.
  range_cases H; try apply N.eqb_eq in H; try apply in_range_spec in H;
    repeat rewrite orb_true_iff; rewrite ?in_range_spec, ?N.eqb_eq; lia.
Qed.
Lemma ncname_char_not c x :
  is_ncname_char c = true -> x = 32 \/ x = 58 \/ x = 123 \/ x = 125 \/ x = 34 \/ x = 38 \/ x = 60 -> c <> x.
Proof.
  unfold is_ncname_char, is_ncname_start. intros H Hx.
  range_cases H; try apply N.eqb_eq in H; try apply in_range_spec in H; lia.
Qed.

Lemma is_ncname_chars s : is_ncname s = true -> forallb is_ncname_char s = true /\ s <> [].
Proof.
  destruct s as [|c r]; [discriminate|]. cbn [is_ncname forallb]. intros H.
  apply andb_true_iff in H as [H1 H2]. split; [|discriminate].
  rewrite (ncname_start_is_char _ H1), H2. reflexivity.
Qed.
Lemma is_ncname_xml s : is_ncname s = true -> forallb is_xml_char s = true.
Proof.
  intros H. apply is_ncname_chars in H as [H _]. rewrite forallb_forall in *.
  intros x Hx. apply ncname_char_xml, H, Hx.
Qed.
Lemma is_ncname_no s x :
  is_ncname s = true -> x = 32 \/ x = 58 \/ x = 123 \/ x = 125 \/ x = 34 \/ x = 38 \/ x = 60 ->
  find_chr x s = None.
Proof.
  intros H Hx. apply is_ncname_chars in H as [H _].
  induction s as [|c s IH]; [reflexivity|]. cbn [forallb] in H. apply andb_true_iff in H as [Hc Hs].
  cbn [find_chr]. pose proof (ncname_char_not c x Hc Hx) as Hn.
  destruct (c =? x) eqn:E; [apply N.eqb_eq in E; contradiction|]. rewrite (IH Hs). reflexivity.
Qed.

(* ------------------------------------------------------------------ find_chr / firstn / skipn *)
Lemma find_chr_app_stop c a r : find_chr c a = None -> find_chr c (a ++ c :: r) = Some (length a).
Proof.
  induction a as [|x a IH]; cbn [find_chr app length].
  - rewrite N.eqb_refl. reflexivity.
  - destruct (x =? c); [discriminate|]. intros H.
    destruct (find_chr c a) eqn:E; [discriminate|]. rewrite (IH eq_refl). reflexivity.
Qed.
Lemma find_chr_app_none c a b : find_chr c a = None -> find_chr c b = None -> find_chr c (a ++ b) = None.
Proof.
  induction a as [|x a IH]; cbn [find_chr app]; [tauto|].
  destruct (x =? c); [discriminate|]. intros H Hb.
  destruct (find_chr c a) eqn:E; [discriminate|]. rewrite (IH eq_refl Hb). reflexivity.
Qed.
Lemma firstn_app_exact {A} (a b : list A) : firstn (length a) (a ++ b) = a.
Proof. induction a; cbn; [destruct b; reflexivity|f_equal; assumption]. Qed.
Lemma skipn_app_exact {A} (a b : list A) x : skipn (S (length a)) (a ++ x :: b) = b.
Proof. induction a; cbn; [reflexivity|assumption]. Qed.

Lemma uri_ok_no_rbrace u : uri_ok u = true -> find_chr c_rbrace u = None /\ u <> [].
Proof.
  unfold uri_ok. destruct u as [|c u]; [discriminate|]. intros H. split; [|discriminate].
  apply andb_true_iff in H as [H _]. set (s := c :: u) in *. clearbody s.
  induction s as [|x s IH]; [reflexivity|]. cbn [forallb] in H. apply andb_true_iff in H as [Hx Hs].
  cbn [find_chr]. unfold uri_char_ok in Hx. apply andb_true_iff in Hx as [_ Hx].
  apply negb_true_iff in Hx. rewrite Hx. rewrite (IH Hs). reflexivity.
Qed.

(* ------------------------------------------------------------------ Clark notation round trip *)
Lemma split_build q : name_ok q = true -> split_qname (build_qname q) = q.
Proof.
  destruct q as [ou l]. unfold name_ok. cbn [fst snd]. intros H. apply andb_true_iff in H as [Hl Hu].
  unfold build_qname. cbn [fst snd].
  destruct ou as [u|].
  - cbn in Hu. destruct (uri_ok_no_rbrace u Hu) as [Hnb Hne].
    destruct u as [|c u]; [contradiction|]. set (uu := c :: u) in *.
    cbn [app]. unfold split_qname. unfold c_lbrace. rewrite N.eqb_refl.
    unfold text_split. rewrite (find_chr_app_stop c_rbrace uu l Hnb).
    rewrite skipn_app_exact, firstn_app_exact.
    destruct l as [|x l]; [discriminate|]. reflexivity.
  - destruct l as [|x l]; [discriminate|]. cbn [is_ncname] in Hl. apply andb_true_iff in Hl as [Hx _].
    unfold split_qname. destruct (x =? c_lbrace) eqn:E; [|reflexivity].
    apply N.eqb_eq in E. subst x. discriminate.
Qed.

(* the specification's own splitter agrees with the model's on every string *)
Lemma clark_split_split_qname s : clark_split s = split_qname s.
Proof.
  unfold clark_split, split_qname. destruct s as [|c r]; [reflexivity|].
  destruct (c =? c_lbrace); [|reflexivity].
  unfold text_split. destruct (find_chr c_rbrace r) as [i|]; [|reflexivity].
  destruct (skipn (S i) r) as [|y rt]; destruct (firstn i r) as [|x lf]; reflexivity.
Qed.

(* ------------------------------------------------------------------ renders *)
(* the text `t` is a lexical QName that denotes `q` under the prefix map `m` *)
Definition renders (m : nsmap) (t : str) (q : qname) : Prop :=
  match fst q with
  | Some u => exists p, nm_get m p = Some u
                        /\ t = match p with Some ((_ :: _) as p') => p' ++ [c_colon] ++ snd q | _ => snd q end
  | None => t = snd q
  end.
Lemma renders_ext m m' t q : ext m m' -> renders m t q -> renders m' t q.
Proof.
  unfold renders. destruct (fst q); [|tauto]. intros He [p [H1 H2]]. exists p. split; [apply He, H1|exact H2].
Qed.

Lemma enc_qname_ok u0 m q :
  minv u0 m -> name_ok q = true ->
  let '(t, m') := enc_qname m q in minv u0 m' /\ ext m m' /\ renders m' t q.
Proof.
  intros Hinv Hq. unfold enc_qname. rewrite (split_build q Hq).
  destruct q as [[u|] l]; cbn [fst snd].
  - unfold name_ok in Hq. cbn [fst snd] in Hq. apply andb_true_iff in Hq as [_ Hu]. cbn in Hu.
    pose proof (load_prefix_ok u0 m u Hinv Hu) as H.
    destruct (load_prefix u m) as [p m']. destruct H as [H1 [H2 H3]].
    split; [exact H1|split; [exact H2|]]. unfold renders. cbn [fst snd]. exists p. split; [exact H3|].
    destruct p as [[|x p]|]; reflexivity.
  - split; [exact Hinv|split; [apply ext_refl|reflexivity]].
Qed.

(* the encoded text of an atom / a value and what it means *)
Definition atom_renders (m : nsmap) (t : str) (a : atom) : Prop :=
  match a with AText s => t = s | AQName q => renders m t q end.
Lemma atom_renders_ext m m' t a : ext m m' -> atom_renders m t a -> atom_renders m' t a.
Proof. destruct a; cbn; [tauto|apply renders_ext]. Qed.

Definition atom_names_ok (a : atom) : bool := forallb name_ok (atom_qnames a).

Lemma enc_atom_ok u0 m a :
  minv u0 m -> atom_names_ok a = true ->
  let '(t, m') := enc_atom m a in minv u0 m' /\ ext m m' /\ atom_renders m' t a.
Proof.
  intros Hinv Ha. destruct a as [s|q]; cbn [enc_atom].
  - split; [exact Hinv|split; [apply ext_refl|reflexivity]].
  - unfold atom_names_ok in Ha. cbn in Ha. rewrite andb_true_r in Ha.
    exact (enc_qname_ok u0 m q Hinv Ha).
Qed.

Lemma enc_atoms_ok u0 l : forall m,
  minv u0 m -> forallb atom_names_ok l = true ->
  let '(ts, m') := enc_atoms m l in
  minv u0 m' /\ ext m m' /\ Forall2 (atom_renders m') ts l.
Proof.
  induction l as [|a l IH]; intros m Hinv Hl; cbn [enc_atoms].
  - split; [exact Hinv|split; [apply ext_refl|constructor]].
  - cbn [forallb] in Hl. apply andb_true_iff in Hl as [Ha Hl].
    pose proof (enc_atom_ok u0 m a Hinv Ha) as H1.
    destruct (enc_atom m a) as [t m1]. destruct H1 as [I1 [E1 R1]].
    pose proof (IH m1 I1 Hl) as H2.
    destruct (enc_atoms m1 l) as [ts m2]. destruct H2 as [I2 [E2 R2]].
    split; [exact I2|split; [exact (ext_trans _ _ _ E1 E2)|]].
    constructor; [exact (atom_renders_ext _ _ _ _ E2 R1)|exact R2].
Qed.

(* encode_data: None exactly for value_none; otherwise the space-joined renderings *)
Definition value_names_ok (v : wvalue) : bool := forallb atom_names_ok (value_atoms v).

Lemma encode_data_ok u0 m v :
  minv u0 m -> value_names_ok v = true ->
  let '(enc, m') := encode_data m v in
  minv u0 m' /\ ext m m'
  /\ match enc with
     | None => value_none v = true
     | Some t => value_none v = false
                 /\ exists ts, Forall2 (atom_renders m') ts (value_atoms v) /\ t = join [c_space] ts
     end.
Proof.
  intros Hinv Hv. unfold value_names_ok in Hv. destruct v as [|a|l]; cbn [encode_data value_atoms] in *.
  - split; [exact Hinv|split; [apply ext_refl|reflexivity]].
  - cbn [forallb] in Hv. rewrite andb_true_r in Hv.
    pose proof (enc_atom_ok u0 m a Hinv Hv) as H.
    destruct (enc_atom m a) as [t m']. destruct H as [I [E R]].
    split; [exact I|split; [exact E|]]. split; [reflexivity|].
    exists [t]. split; [constructor; [exact R|constructor]|reflexivity].
  - destruct l as [|a l].
    + split; [exact Hinv|split; [apply ext_refl|reflexivity]].
    + pose proof (enc_atoms_ok u0 (a :: l) m Hinv Hv) as H.
      destruct (enc_atoms m (a :: l)) as [ts m']. destruct H as [I [E R]].
      split; [exact I|split; [exact E|]]. split; [reflexivity|]. exists ts. split; [exact R|reflexivity].
Qed.

(* a value without namespace-qualified QNames does not touch the prefix map *)
Lemma data_plain_of v : value_names_ok v = true -> has_ns_qname v = false -> data_plain v = true.
Proof.
  unfold value_names_ok, has_ns_qname, value_qnames, data_plain. intros Hn Hq.
  apply forallb_forall. intros a Ha. destruct a as [s|q]; [reflexivity|].
  rewrite forallb_forall in Hn. pose proof (Hn _ Ha) as Hqn. unfold atom_names_ok in Hqn. cbn in Hqn.
  rewrite andb_true_r in Hqn. rewrite (split_build q Hqn).
  destruct (fst q) as [[|x u]|] eqn:E; [| |reflexivity].
  - unfold name_ok in Hqn. rewrite E in Hqn. cbn in Hqn. rewrite andb_false_r in Hqn. discriminate.
  - exfalso. refine (eq_true_false_abs _ _ Hq).
    apply existsb_exists. exists q. split; [|destruct q as [ou l]; cbn [fst] in *; subst ou; reflexivity].
    apply in_flat_map. exists (AQName q). split; [exact Ha|left; reflexivity].
Qed.

