(* Proofs/ParserInvWs.v — C09(c): the object produced by the XML parser does not change when
   the whitespace BETWEEN THE CHILDREN of element-only content is rewritten.

   In the event stream fed to NodeParser (Model/Bind.v `pevent`), the character data between
   the children of an element E is E's `text` (before the first child) and the `tail` of every
   child of E.  `parse` (Model/Parser.v) is shown invariant under replacing
     * the TAIL of any end event by any tail with the same `normalize_content`
       (None <-> whitespace-only, or two whitespace-only strings) — at every position;
     * the TEXT of an end event by any text with the same `normalize_content`, when the node
       that the parser pops at that event does not look at the raw text (`text_ignorable`:
       ElementNode bound to a class WITHOUT a text field, WrapperNode, SkipNode, WildcardNode
       with at least one child object).
   The guard is computable and evaluated along the parser's own run (`ws_variant_n`), in the
   style of C10's `admissible_step`.  It is needed: `ws_text_visible_refuted`.

   Proof: a simulation between two parser states that are identical except for the events that
   the UnionNodes on the stack have recorded, which are related pointwise by `ev_tail_rel`
   (same event up to normalize-equal tails); the replays of two related recorded streams agree
   by induction over the fuel.  Shape copied from Proofs/ParserNs.v. *)
From Coq Require Import NArith ZArith List Bool Arith Lia.
From XV Require Import Base.Str Base.Eqb Base.PyInt Model.Bind Model.Parser Proofs.ParserNs Proofs.ParserWitness.
Import ListNotations.

(* ---------------------------------------------------------------- boolean equalities *)
Lemma ostr_eqb_eq a b : ostr_eqb a b = true <-> a = b.
Proof. unfold ostr_eqb. apply opt_eqb_spec. exact str_eqb_eq. Qed.

Lemma ostr_eqb_refl a : ostr_eqb a a = true.
Proof. apply ostr_eqb_eq. reflexivity. Qed.

Lemma pair_eqb_spec {A B} (ea : A -> A -> bool) (eb : B -> B -> bool) :
  (forall x y, ea x y = true <-> x = y) -> (forall x y, eb x y = true <-> x = y) ->
  forall a b, pair_eqb ea eb a b = true <-> a = b.
Proof.
  intros Ha Hb [a1 b1] [a2 b2]. unfold pair_eqb. cbn [fst snd].
  rewrite andb_true_iff, Ha, Hb. split; [intros [-> ->]; reflexivity|intros E; inversion E; auto].
Qed.

Definition attrs_eqb : list (qname * str) -> list (qname * str) -> bool :=
  list_eqb (pair_eqb str_eqb str_eqb).

Lemma attrs_eqb_eq a b : attrs_eqb a b = true <-> a = b.
Proof. unfold attrs_eqb. apply list_eqb_spec. apply pair_eqb_spec; exact str_eqb_eq. Qed.

Lemma nsmap_eqb_eq a b : nsmap_eqb a b = true <-> a = b.
Proof. unfold nsmap_eqb. apply list_eqb_spec. apply pair_eqb_spec; [exact ostr_eqb_eq|exact str_eqb_eq]. Qed.

Definition pevent_eqb (a b : pevent) : bool :=
  match a, b with
  | PStart q at_ ns, PStart q' at' ns' => str_eqb q q' && attrs_eqb at_ at' && nsmap_eqb ns ns'
  | PEnd q t tl, PEnd q' t' tl' => str_eqb q q' && ostr_eqb t t' && ostr_eqb tl tl'
  | PStartNs p v, PStartNs p' v' => ostr_eqb p p' && str_eqb v v'
  | _, _ => false
  end.

Lemma pevent_eqb_eq a b : pevent_eqb a b = true <-> a = b.
Proof.
  destruct a as [q at_ ns|q t tl|p v], b as [q' at' ns'|q' t' tl'|p' v']; cbn [pevent_eqb];
    try (split; discriminate).
  - rewrite !andb_true_iff, str_eqb_eq, attrs_eqb_eq, nsmap_eqb_eq.
    split; [intros [[-> ->] ->]; reflexivity|intros E; inversion E; auto].
  - rewrite !andb_true_iff, str_eqb_eq, !ostr_eqb_eq.
    split; [intros [[-> ->] ->]; reflexivity|intros E; inversion E; auto].
  - rewrite !andb_true_iff, str_eqb_eq, ostr_eqb_eq.
    split; [intros [-> ->]; reflexivity|intros E; inversion E; auto].
Qed.

Lemma pevent_eqb_refl a : pevent_eqb a a = true.
Proof. apply pevent_eqb_eq. reflexivity. Qed.

(* ---------------------------------------------------------------- list helpers *)
Lemma Forall2_refl {A} (P : A -> A -> Prop) : (forall x, P x x) -> forall l, Forall2 P l l.
Proof. intros H l. induction l as [|x l IH]; constructor; [apply H|exact IH]. Qed.

Lemma Forall2_snoc {A} (P : A -> A -> Prop) l l' x x' :
  Forall2 P l l' -> P x x' -> Forall2 P (l ++ [x]) (l' ++ [x']).
Proof. intros H Hx. apply Forall2_app; [exact H|constructor; [exact Hx|constructor]]. Qed.

Lemma parse_n_unfold n cfg c u root evs :
  parse_n n cfg c u root evs = finish (run cfg c u (replay_n n c u) root init_state evs).
Proof. destruct n; reflexivity. Qed.

(* ---------------------------------------------------------------- what normalize_content identifies *)
(* absent, or made of (Python) whitespace only *)
Definition py_blank (o : option str) : bool :=
  match o with None => true | Some s => forallb py_isspace s end.

Lemma lstrip_by_nil_iff ws s : lstrip_by ws s = [] <-> forallb ws s = true.
Proof.
  induction s as [|x s IH]; cbn [lstrip_by forallb]; [split; reflexivity|].
  destruct (ws x); cbn [andb]; [exact IH|split; discriminate].
Qed.

Lemma forallb_lstrip_by ws s : forallb ws (lstrip_by ws s) = forallb ws s.
Proof.
  induction s as [|x s IH]; cbn [lstrip_by]; [reflexivity|].
  destruct (ws x) eqn:Ex; [|reflexivity]. cbn [forallb]. rewrite Ex. exact IH.
Qed.

Lemma strip_by_nil_iff ws s : strip_by ws s = [] <-> forallb ws s = true.
Proof.
  unfold strip_by, rstrip_by. rewrite <- (forallb_lstrip_by ws s), <- (forallb_rev ws (lstrip_by ws s)).
  rewrite <- lstrip_by_nil_iff. split; intros H.
  - apply (f_equal (@rev N)) in H. rewrite rev_involutive in H. exact H.
  - rewrite H. reflexivity.
Qed.

Lemma normalize_content_blank o : py_blank o = true <-> normalize_content o = None.
Proof.
  destruct o as [s|]; cbn [py_blank normalize_content]; [|split; reflexivity].
  rewrite <- (strip_by_nil_iff py_isspace s). fold (py_strip s).
  destruct (py_strip s) as [|x r]; split; try reflexivity; discriminate.
Qed.

Lemma normalize_content_nonblank o : py_blank o = false -> normalize_content o = o.
Proof.
  intros H. destruct o as [s|]; [|reflexivity]. cbn [normalize_content].
  destruct (py_strip s) as [|x r] eqn:E; [|reflexivity].
  exfalso. apply (strip_by_nil_iff py_isspace s) in E. cbn [py_blank] in H. congruence.
Qed.

(* two texts (or tails) have the same normalize_content exactly when they are equal or both
   are absent / whitespace-only: the relation below rewrites WHITESPACE ONLY *)
Lemma normalize_content_eq_iff a b :
  normalize_content a = normalize_content b <-> a = b \/ (py_blank a = true /\ py_blank b = true).
Proof.
  split.
  - intros H. destruct (py_blank a) eqn:Ea, (py_blank b) eqn:Eb.
    + right. split; reflexivity.
    + exfalso. apply normalize_content_blank in Ea. rewrite (normalize_content_nonblank b Eb), Ea in H.
      subst b. discriminate Eb.
    + exfalso. apply normalize_content_blank in Eb. rewrite (normalize_content_nonblank a Ea), Eb in H.
      subst a. discriminate Ea.
    + left. rewrite (normalize_content_nonblank a Ea), (normalize_content_nonblank b Eb) in H. exact H.
  - intros [->|[Ha Hb]]; [reflexivity|].
    apply normalize_content_blank in Ha, Hb. rewrite Ha, Hb. reflexivity.
Qed.

(* ---------------------------------------------------------------- the relations *)
(* same event, up to a tail with the same normalize_content *)
Definition ev_tail_rel (x y : pevent) : Prop :=
  match x with
  | PEnd q t tl => exists tl', y = PEnd q t tl' /\ normalize_content tl = normalize_content tl'
  | _ => y = x
  end.

Lemma ev_tail_rel_refl x : ev_tail_rel x x.
Proof. destruct x as [q a ns|q t tl|p v]; cbn [ev_tail_rel]; try reflexivity. exists tl. split; reflexivity. Qed.

Definition set_events (a : unode) (evs : list pevent) : unode :=
  mk_unode (un_meta a) (un_var a) (un_attrs a) (un_ns a) (un_position a) (un_level a) (un_candidates a) evs.

Lemma set_events_same a : set_events a (un_events a) = a.
Proof. destruct a; reflexivity. Qed.

(* two stack entries are equal, except that a UnionNode may have recorded tail-related events *)
Definition node_tl (n n' : node) : Prop :=
  match n with
  | NUnion a => exists evs', Forall2 ev_tail_rel (un_events a) evs' /\ n' = NUnion (set_events a evs')
  | _ => n' = n
  end.

Lemma node_tl_refl n : node_tl n n.
Proof.
  destruct n as [e|m v ns|m v ty fmt wr ns nl dv|v at_ ns pos|wq| |un]; cbn [node_tl]; try reflexivity.
  exists (un_events un). split; [apply Forall2_refl; exact ev_tail_rel_refl|].
  rewrite set_events_same. reflexivity.
Qed.

Definition st_tl (s s' : pstate) : Prop :=
  Forall2 node_tl (st_queue s) (st_queue s') /\ st_objects s = st_objects s' /\ st_warn s = st_warn s'.

Lemma st_tl_refl s : st_tl s s.
Proof. repeat split. apply Forall2_refl. exact node_tl_refl. Qed.

(* ---------------------------------------------------------------- the guard *)
(* the node popped by an end event does not read the raw text of the element:
   - ElementNode bound to a class without a text field (element-only content): the text is read
     only by bind_wild_text, through normalize_content;
   - WrapperNode, SkipNode: the text is dropped;
   - WildcardNode with at least one child object: `text = normalize_content(text)`.
   NOT: PrimitiveNode / StandardNode (the text is the value), ElementNode with a text field,
   childless WildcardNode (AnyElement.text keeps the raw text), UnionNode (records / replays). *)
Definition text_ignorable (Q : list node) (objs : objects) : bool :=
  match Q with
  | NElement en :: _ => match m_text (en_meta en) with None => true | Some _ => false end
  | NWrapper _ :: _ => true
  | NSkip :: _ => true
  | NWildcard _ _ _ pos :: _ => match skipn pos objs with [] => false | _ => true end
  | _ => false
  end.

(* one event of the variant against the same event of the original, in the parser state `st`
   reached before the event *)
Definition ws_ev_ok (st : pstate) (ev ev' : pevent) : bool :=
  match ev with
  | PEnd q t tl =>
      match ev' with
      | PEnd q' t' tl' =>
          str_eqb q q'
          && ostr_eqb (normalize_content tl) (normalize_content tl')
          && (ostr_eqb t t'
              || (ostr_eqb (normalize_content t) (normalize_content t')
                  && text_ignorable (st_queue st) (st_objects st)))
      | _ => false
      end
  | _ => pevent_eqb ev ev'
  end.

Section Sim.
  Variable cfg : pconfig.
  Variable c : conv.
  Variable u : universe.
  Variable replay : pconfig -> option cls -> list pevent -> outcome.
  Variable root : option cls.

  (* the variant stream evs' against evs, along the run of the parser on evs from st; once a
     step fails (both runs fail identically) only the lengths are compared *)
  Fixpoint ws_variant (st : pstate) (evs evs' : list pevent) : bool :=
    match evs, evs' with
    | [], [] => true
    | ev :: r, ev' :: r' =>
        ws_ev_ok st ev ev'
        && match step cfg c u replay root st ev with
           | ROk st1 => ws_variant st1 r r'
           | RErr _ => Nat.eqb (length r) (length r')
           end
    | _, _ => false
    end.

  Lemma ws_variant_len : forall evs evs' st, ws_variant st evs evs' = true -> length evs = length evs'.
  Proof.
    induction evs as [|ev r IH]; intros [|ev' r'] st H; cbn [ws_variant] in H; try discriminate; [reflexivity|].
    apply andb_true_iff in H as [_ H]. cbn [length]. f_equal.
    destruct (step cfg c u replay root st ev) as [st1|k]; [exact (IH _ _ H)|apply Nat.eqb_eq; exact H].
  Qed.

  (* ---------------------------------------------------------------- tails are read through normalize_content *)
  Lemma append_tail_norm objs tl tl' :
    normalize_content tl = normalize_content tl' -> append_tail objs tl = append_tail objs tl'.
  Proof. intros H. unfold append_tail. rewrite H. reflexivity. Qed.

  Lemma bind_wild_text_norm en var p t t' tl tl' :
    normalize_content t = normalize_content t' -> normalize_content tl = normalize_content tl' ->
    bind_wild_text en var p t tl = bind_wild_text en var p t' tl'.
  Proof. intros Ht Htl. unfold bind_wild_text. rewrite Ht, Htl. reflexivity. Qed.

  Lemma bind_text_none en p t : m_text (en_meta en) = None -> bind_text cfg c en p t = ROk (false, p, []).
  Proof. intros H. unfold bind_text. rewrite H. reflexivity. Qed.

  Lemma bind_content_tail en p t tl tl' objs :
    normalize_content tl = normalize_content tl' ->
    bind_content cfg c en p t tl objs = bind_content cfg c en p t tl' objs.
  Proof.
    intros Htl. unfold bind_content.
    destruct (find_any_wildcard (en_meta en)) as [wv|]; [|reflexivity].
    destruct (v_mixed wv).
    - cbn [rbind]. rewrite (bind_wild_text_norm en wv _ t t tl tl' eq_refl Htl). reflexivity.
    - destruct (bind_objects_loop c (en_meta en) (skipn (en_position en) objs) p (en_wrappers en) []) as [r|k];
        cbn [rbind]; [|reflexivity].
      destruct (bind_text cfg c en (fst r) t) as [[[bt p'] ws']|k]; cbn [rbind]; [|reflexivity].
      destruct bt; [reflexivity|].
      rewrite (bind_wild_text_norm en wv p' t t tl tl' eq_refl Htl). reflexivity.
  Qed.

  Lemma bind_content_text en p t t' tl objs :
    m_text (en_meta en) = None -> normalize_content t = normalize_content t' ->
    bind_content cfg c en p t tl objs = bind_content cfg c en p t' tl objs.
  Proof.
    intros Hm Ht. unfold bind_content.
    destruct (find_any_wildcard (en_meta en)) as [wv|].
    - destruct (v_mixed wv).
      + cbn [rbind]. rewrite (bind_wild_text_norm en wv _ t t' tl tl Ht eq_refl). reflexivity.
      + destruct (bind_objects_loop c (en_meta en) (skipn (en_position en) objs) p (en_wrappers en) []) as [r|k];
          cbn [rbind]; [|reflexivity].
        rewrite !(bind_text_none en (fst r) _ Hm). cbn [rbind].
        rewrite (bind_wild_text_norm en wv (fst r) t t' tl tl Ht eq_refl). reflexivity.
    - destruct (bind_objects_loop c (en_meta en) (skipn (en_position en) objs) p (en_wrappers en) []) as [r|k];
        cbn [rbind]; [|reflexivity].
      rewrite !(bind_text_none en (fst r) _ Hm). reflexivity.
  Qed.

  Lemma element_bind_ext en q t t' tl tl' objs :
    (forall p, bind_content cfg c en p t tl objs = bind_content cfg c en p t' tl' objs) ->
    normalize_content tl = normalize_content tl' ->
    element_bind cfg c en q t tl objs = element_bind cfg c en q t' tl' objs.
  Proof.
    intros Hc Htl. unfold element_bind.
    destruct (negb (xsi_nil_true en) || m_nillable (en_meta en)).
    - destruct (bind_attrs cfg c en) as [pa|k]; cbn [rbind]; [|reflexivity].
      rewrite (Hc (fst pa)).
      destruct (bind_content cfg c en (fst pa) t' tl' objs) as [[[[p objs'] ws2] tp]|k]; cbn [rbind]; [|reflexivity].
      destruct (class_factory cfg (en_meta en) (evaluate p)) as [obj|k]; cbn [rbind]; [|reflexivity].
      rewrite (append_tail_norm _ tl tl' Htl). reflexivity.
    - cbn [rbind]. rewrite (append_tail_norm _ tl tl' Htl). reflexivity.
  Qed.

  Lemma element_bind_tail en q t tl tl' objs :
    normalize_content tl = normalize_content tl' ->
    element_bind cfg c en q t tl objs = element_bind cfg c en q t tl' objs.
  Proof.
    intros Htl. apply element_bind_ext; [|exact Htl]. intros p. apply bind_content_tail. exact Htl.
  Qed.

  Lemma element_bind_text en q t t' tl objs :
    m_text (en_meta en) = None -> normalize_content t = normalize_content t' ->
    element_bind cfg c en q t tl objs = element_bind cfg c en q t' tl objs.
  Proof.
    intros Hm Ht. apply element_bind_ext; [|reflexivity]. intros p. apply bind_content_text; assumption.
  Qed.

  Lemma primitive_bind_tail m var ns q t tl tl' objs :
    normalize_content tl = normalize_content tl' ->
    primitive_bind cfg c m var ns q t tl objs = primitive_bind cfg c m var ns q t tl' objs.
  Proof.
    intros Htl. unfold primitive_bind.
    destruct (parse_var c (fail_conv_warnings cfg) m var t ns None None) as [[obj ws]|k]; cbn [rbind]; [|reflexivity].
    rewrite (append_tail_norm _ tl tl' Htl). reflexivity.
  Qed.

  Lemma wildcard_bind_tail var attrs ns pos q t tl tl' objs :
    normalize_content tl = normalize_content tl' ->
    wildcard_bind var attrs ns pos q t tl objs = wildcard_bind var attrs ns pos q t tl' objs.
  Proof. intros Htl. unfold wildcard_bind. rewrite Htl. reflexivity. Qed.

  Lemma wildcard_bind_text var attrs ns pos q t t' tl objs :
    match skipn pos objs with [] => false | _ => true end = true ->
    normalize_content t = normalize_content t' ->
    wildcard_bind var attrs ns pos q t tl objs = wildcard_bind var attrs ns pos q t' tl objs.
  Proof.
    intros Hc Ht. unfold wildcard_bind.
    destruct (skipn pos objs) as [|x r]; [discriminate|]. cbn [map]. rewrite Ht. reflexivity.
  Qed.

  (* ---------------------------------------------------------------- the union replay *)
  Hypothesis replay_T : forall cfg0 root0 evs evs',
    Forall2 ev_tail_rel evs evs' -> replay cfg0 root0 evs = replay cfg0 root0 evs'.

  Lemma union_bind_T un evs' q t tl tl' objs :
    Forall2 ev_tail_rel (un_events un) evs' -> normalize_content tl = normalize_content tl' ->
    union_bind cfg c replay un q t tl objs = union_bind cfg c replay (set_events un evs') q t tl' objs.
  Proof.
    intros Hev Htl. unfold union_bind, set_events.
    cbn [un_attrs un_ns un_events un_candidates un_meta un_var].
    assert (Hevs : Forall2 ev_tail_rel (PStart q (un_attrs un) (un_ns un) :: un_events un ++ [PEnd q t tl])
                                       (PStart q (un_attrs un) (un_ns un) :: evs' ++ [PEnd q t tl'])).
    { constructor; [cbn [ev_tail_rel]; reflexivity|]. apply Forall2_snoc; [exact Hev|].
      cbn [ev_tail_rel]. exists tl'. split; [reflexivity|exact Htl]. }
    match goal with
    | |- (if truthy (fst ?X) then _ else _) = (if truthy (fst ?Y) then _ else _) => assert (HXY : X = Y)
    end.
    { apply fold_left_ext_in. intros acc cand _. destruct cand; try reflexivity.
      rewrite (replay_T _ _ _ _ Hevs). reflexivity. }
    rewrite HXY. reflexivity.
  Qed.

  (* ---------------------------------------------------------------- NodeParser.start *)
  Lemma st_tl_push n s s' : st_tl s s' -> st_tl (push n s) (push n s').
  Proof.
    intros (Hq & Ho & Hw). unfold push. repeat split; cbn [st_queue st_objects st_warn]; try assumption.
    constructor; [apply node_tl_refl|exact Hq].
  Qed.

  Lemma start_T s s' q attrs ns : st_tl s s' ->
    res_rel st_tl (start cfg c u root s q attrs ns) (start cfg c u root s' q attrs ns).
  Proof.
    intros Hs. pose proof Hs as (Hq & Ho & Hw). unfold start. rewrite <- Ho, <- Hw.
    destruct (st_queue s) as [|n Q] eqn:E, (st_queue s') as [|n' Q'] eqn:E'; inversion Hq as [|? ? ? ? Hn HQ]; subst.
    - destruct (root_node c u root q attrs ns) as [x|k]; cbn [rbind res_rel]; [|reflexivity].
      apply st_tl_push. exact Hs.
    - destruct n as [e|m v ns0|m v ty fmt wr ns0 nl dv|v at_ ns0 pos|wq| |un]; cbn [node_tl] in Hn.
      + (* ElementNode *)
        subst n'. destruct (is_some (assoc q (m_wrappers (en_meta e)))).
        * cbn [res_rel]. apply st_tl_push. exact Hs.
        * destruct (element_child cfg c u e q attrs ns (length (st_objects s)) None) as [x|k];
            cbn [rbind res_rel]; [|reflexivity].
          repeat split; cbn [st_queue st_objects st_warn]; try reflexivity.
          constructor; [apply node_tl_refl|]. constructor; [apply node_tl_refl|exact HQ].
      + subst n'. reflexivity.
      + subst n'. reflexivity.
      + subst n'. cbn [res_rel]. apply st_tl_push. exact Hs.
      + (* WrapperNode *)
        subst n'. destruct Q as [|n2 Q2], Q' as [|n2' Q2']; inversion HQ as [|? ? ? ? Hn2 HQ2]; subst; [reflexivity|].
        destruct n2 as [e| | | | | |un2]; cbn [node_tl] in Hn2.
        * subst n2'.
          destruct (element_child cfg c u e q attrs ns (length (st_objects s)) (Some wq)) as [x|k];
            cbn [rbind res_rel]; [|reflexivity].
          repeat split; cbn [st_queue st_objects st_warn]; try reflexivity.
          constructor; [apply node_tl_refl|]. constructor; [apply node_tl_refl|].
          constructor; [apply node_tl_refl|exact HQ2].
        * subst n2'. reflexivity.
        * subst n2'. reflexivity.
        * subst n2'. reflexivity.
        * subst n2'. reflexivity.
        * subst n2'. reflexivity.
        * destruct Hn2 as (evs2 & _ & ->). reflexivity.
      + subst n'. cbn [res_rel]. apply st_tl_push. exact Hs.
      + (* UnionNode: the start event is recorded *)
        destruct Hn as (evs' & Hev & ->). cbn [res_rel]. unfold set_events.
        cbn [un_meta un_var un_attrs un_ns un_position un_level un_candidates un_events].
        repeat split; cbn [st_queue st_objects st_warn]; try reflexivity.
        constructor; [|exact HQ]. cbn [node_tl un_events]. exists (evs' ++ [PStart q attrs ns]).
        split; [|reflexivity].
        apply Forall2_snoc; [exact Hev|]. cbn [ev_tail_rel]. reflexivity.
  Qed.

  (* ---------------------------------------------------------------- NodeParser.end *)
  (* (A) related states, same text, normalize-equal tails *)
  Lemma pend_tail_T s s' q t tl tl' : st_tl s s' -> normalize_content tl = normalize_content tl' ->
    res_rel st_tl (pend cfg c replay s q t tl) (pend cfg c replay s' q t tl').
  Proof.
    intros Hs Htl. pose proof Hs as (Hq & Ho & Hw). unfold pend. rewrite <- Ho.
    destruct (st_queue s) as [|n Q] eqn:E, (st_queue s') as [|n' Q'] eqn:E'; inversion Hq as [|? ? ? ? Hn HQ]; subst;
      [reflexivity|].
    destruct n as [e|m v ns|m v ty fmt wr ns nl dv|v at_ ns pos|wq| |un]; cbn [node_tl] in Hn.
    - subst n'. rewrite (element_bind_tail e q t tl tl' (st_objects s) Htl).
      unfold finish_end. rewrite <- Hw.
      destruct (element_bind cfg c e q t tl' (st_objects s)) as [x|k]; cbn [rbind res_rel]; [|reflexivity].
      repeat split; cbn [st_queue st_objects st_warn]; assumption || reflexivity.
    - subst n'. rewrite (primitive_bind_tail m v ns q t tl tl' (st_objects s) Htl).
      unfold finish_end. rewrite <- Hw.
      destruct (primitive_bind cfg c m v ns q t tl' (st_objects s)) as [x|k]; cbn [rbind res_rel]; [|reflexivity].
      repeat split; cbn [st_queue st_objects st_warn]; assumption || reflexivity.
    - subst n'. unfold finish_end. rewrite <- Hw.
      destruct (standard_bind cfg c m v ty fmt wr ns nl dv q t (st_objects s)) as [x|k]; cbn [rbind res_rel]; [|reflexivity].
      repeat split; cbn [st_queue st_objects st_warn]; assumption || reflexivity.
    - subst n'. rewrite (wildcard_bind_tail v at_ ns pos q t tl tl' (st_objects s) Htl). rewrite <- Hw.
      cbn [res_rel]. repeat split; cbn [st_queue st_objects st_warn]; assumption || reflexivity.
    - subst n'. rewrite <- Hw. cbn [res_rel]. repeat split; cbn [st_queue st_objects st_warn]; assumption || reflexivity.
    - subst n'. rewrite <- Hw. cbn [res_rel]. repeat split; cbn [st_queue st_objects st_warn]; assumption || reflexivity.
    - destruct Hn as (evs' & Hev & ->). rewrite <- Hw. unfold set_events at 1.
      cbn [un_level un_meta un_var un_attrs un_ns un_position un_candidates un_events].
      destruct (un_level un) as [|l] eqn:El.
      + rewrite (union_bind_T un evs' q t tl tl' (st_objects s) Hev Htl).
        destruct (union_bind cfg c replay (set_events un evs') q t tl' (st_objects s)) as [x|k];
          cbn [rbind res_rel]; [|reflexivity].
        repeat split; cbn [st_queue st_objects st_warn]; assumption || reflexivity.
      + cbn [res_rel]. unfold set_events.
        cbn [un_level un_meta un_var un_attrs un_ns un_position un_candidates un_events].
        repeat split; cbn [st_queue st_objects st_warn]; try reflexivity.
        constructor; [|exact HQ]. cbn [node_tl un_events]. exists (evs' ++ [PEnd q t tl']).
        split; [|reflexivity].
        apply Forall2_snoc; [exact Hev|]. cbn [ev_tail_rel]. exists tl'. split; [reflexivity|exact Htl].
  Qed.

  (* (B) one state, ignorable text *)
  Lemma pend_text s q t t' tl :
    text_ignorable (st_queue s) (st_objects s) = true ->
    normalize_content t = normalize_content t' ->
    pend cfg c replay s q t tl = pend cfg c replay s q t' tl.
  Proof.
    intros Hi Ht. unfold pend. unfold text_ignorable in Hi.
    destruct (st_queue s) as [|n Q]; [reflexivity|].
    destruct n as [e|m v ns|m v ty fmt wr ns nl dv|v at_ ns pos|wq| |un]; try discriminate Hi.
    - destruct (m_text (en_meta e)) eqn:Em; [discriminate Hi|].
      rewrite (element_bind_text e q t t' tl (st_objects s) Em Ht). reflexivity.
    - rewrite (wildcard_bind_text v at_ ns pos q t t' tl (st_objects s) Hi Ht). reflexivity.
    - reflexivity.
    - reflexivity.
  Qed.

  (* ---------------------------------------------------------------- step / run *)
  Lemma step_same_T s s' ev : st_tl s s' ->
    res_rel st_tl (step cfg c u replay root s ev) (step cfg c u replay root s' ev).
  Proof.
    intros Hs. destruct ev as [q a ns|q t tl|p v]; cbn [step].
    - apply start_T. exact Hs.
    - apply pend_tail_T; [exact Hs|reflexivity].
    - exact Hs.
  Qed.

  Lemma step_T s s' ev ev' : st_tl s s' -> ws_ev_ok s ev ev' = true ->
    res_rel st_tl (step cfg c u replay root s ev) (step cfg c u replay root s' ev').
  Proof.
    intros Hs He. destruct ev as [q a ns|q t tl|p v]; cbn [ws_ev_ok] in He.
    - apply pevent_eqb_eq in He. subst ev'. apply step_same_T. exact Hs.
    - destruct ev' as [q' a' ns'|q' t' tl'|p' v']; try discriminate He.
      apply andb_true_iff in He as [He Ht]. apply andb_true_iff in He as [Hqq Htl].
      apply str_eqb_eq in Hqq. subst q'. apply ostr_eqb_eq in Htl. cbn [step].
      apply orb_true_iff in Ht as [Ht|Ht].
      + apply ostr_eqb_eq in Ht. subst t'. apply pend_tail_T; assumption.
      + apply andb_true_iff in Ht as [Ht Hi]. apply ostr_eqb_eq in Ht.
        rewrite (pend_text s q t t' tl Hi Ht). apply pend_tail_T; assumption.
    - apply pevent_eqb_eq in He. subst ev'. apply step_same_T. exact Hs.
  Qed.

  Lemma run_T : forall evs evs' s s', st_tl s s' -> ws_variant s evs evs' = true ->
    res_rel st_tl (run cfg c u replay root s evs) (run cfg c u replay root s' evs').
  Proof.
    induction evs as [|ev r IH]; intros [|ev' r'] s s' Hs H; cbn [ws_variant] in H; try discriminate; cbn [run].
    - exact Hs.
    - apply andb_true_iff in H as [He H].
      pose proof (step_T s s' ev ev' Hs He) as H1.
      destruct (step cfg c u replay root s ev) as [x|k], (step cfg c u replay root s' ev') as [x'|k'];
        cbn [res_rel] in H1; try contradiction; cbn [rbind]; [|exact H1].
      apply IH; assumption.
  Qed.

  Lemma finish_T r r' : res_rel st_tl r r' -> finish r = finish r'.
  Proof.
    destruct r as [s|k], r' as [s'|k']; cbn [res_rel]; try contradiction.
    - intros (_ & Ho & Hw). unfold finish. rewrite Ho, Hw. reflexivity.
    - intros ->. reflexivity.
  Qed.

  (* tail-related streams are variants from any state: all texts are equal *)
  Lemma tail_rel_ws_ev_ok s ev ev' : ev_tail_rel ev ev' -> ws_ev_ok s ev ev' = true.
  Proof.
    destruct ev as [q a ns|q t tl|p v]; cbn [ev_tail_rel ws_ev_ok].
    - intros ->. apply pevent_eqb_refl.
    - intros (tl' & -> & Htl). rewrite str_eqb_refl, ostr_eqb_refl, Htl, ostr_eqb_refl. reflexivity.
    - intros ->. apply pevent_eqb_refl.
  Qed.

  Lemma tail_rel_ws_variant evs evs' : Forall2 ev_tail_rel evs evs' -> forall s, ws_variant s evs evs' = true.
  Proof.
    induction 1 as [|ev ev' r r' He Hr IH]; intros s; cbn [ws_variant]; [reflexivity|].
    rewrite (tail_rel_ws_ev_ok s ev ev' He). cbn [andb].
    destruct (step cfg c u replay root s ev) as [st1|k]; [apply IH|].
    apply Nat.eqb_eq. exact (Forall2_len _ _ _ Hr).
  Qed.

  Lemma ws_ev_ok_refl s ev : ws_ev_ok s ev ev = true.
  Proof. apply tail_rel_ws_ev_ok. apply ev_tail_rel_refl. Qed.

  Lemma ws_variant_refl evs s : ws_variant s evs evs = true.
  Proof. apply tail_rel_ws_variant. apply Forall2_refl. exact ev_tail_rel_refl. Qed.
End Sim.

(* ---------------------------------------------------------------- parse level *)
Definition ws_variant_n (n : nat) (cfg : pconfig) (c : conv) (u : universe) (root : option cls)
           (st : pstate) (evs evs' : list pevent) : bool :=
  ws_variant cfg c u (replay_n n c u) root st evs evs'.

(* replays of tail-related recorded streams agree, for every fuel *)
Lemma parse_n_tail : forall n cfg c u root evs evs',
  Forall2 ev_tail_rel evs evs' -> parse_n n cfg c u root evs = parse_n n cfg c u root evs'.
Proof.
  induction n as [|n IH]; intros cfg c u root evs evs' H; rewrite !parse_n_unfold.
  - apply finish_T.
    apply (run_T cfg c u (replay_n 0 c u) root); [intros; reflexivity|apply st_tl_refl|].
    apply tail_rel_ws_variant. exact H.
  - apply finish_T.
    apply (run_T cfg c u (replay_n (S n) c u) root);
      [intros cfg0 root0 e e' He; cbn [replay_n]; apply IH; exact He|apply st_tl_refl|].
    apply tail_rel_ws_variant. exact H.
Qed.

Lemma replay_n_tail n c u cfg root evs evs' :
  Forall2 ev_tail_rel evs evs' -> replay_n n c u cfg root evs = replay_n n c u cfg root evs'.
Proof. destruct n; [reflexivity|]. cbn [replay_n]. apply parse_n_tail. Qed.

(* from two related states (equal up to tail-related events recorded by UnionNodes) *)
Lemma ws_invariant_run : forall n cfg c u root st st' evs evs',
  st_tl st st' ->
  ws_variant_n n cfg c u root st evs evs' = true ->
  res_rel st_tl (run cfg c u (replay_n n c u) root st evs) (run cfg c u (replay_n n c u) root st' evs').
Proof.
  intros n cfg c u root st st' evs evs' Hs H.
  apply (run_T cfg c u (replay_n n c u) root); [|exact Hs|exact H].
  intros cfg0 root0 e e' He. apply replay_n_tail. exact He.
Qed.

(* MAIN THEOREM *)
Theorem ws_invariant : forall n cfg c u root evs evs',
  ws_variant_n n cfg c u root init_state evs evs' = true ->
  parse_n n cfg c u root evs = parse_n n cfg c u root evs'.
Proof.
  intros n cfg c u root evs evs' H. rewrite !parse_n_unfold. apply finish_T.
  apply ws_invariant_run; [apply st_tl_refl|exact H].
Qed.

Lemma ws_variant_n_len n cfg c u root st evs evs' :
  ws_variant_n n cfg c u root st evs evs' = true -> length evs = length evs'.
Proof. apply ws_variant_len. Qed.

Corollary ws_invariant_parse : forall cfg c u root evs evs',
  ws_variant_n (length evs) cfg c u root init_state evs evs' = true ->
  parse cfg c u root evs = parse cfg c u root evs'.
Proof.
  intros cfg c u root evs evs' H. unfold parse.
  rewrite <- (ws_variant_n_len _ _ _ _ _ _ _ _ H). apply ws_invariant. exact H.
Qed.

(* tails alone: no guard at all *)
Corollary tails_invariant_parse : forall cfg c u root evs evs',
  Forall2 ev_tail_rel evs evs' -> parse cfg c u root evs = parse cfg c u root evs'.
Proof.
  intros cfg c u root evs evs' H. unfold parse. rewrite <- (Forall2_len _ _ _ H). apply parse_n_tail. exact H.
Qed.

(* ---------------------------------------------------------------- in the vocabulary of the property *)
(* the text of an element bound to a class without a text field (element-only content) is
   ignorable *)
Lemma text_ignorable_element_only st en Q :
  st_queue st = NElement en :: Q -> m_text (en_meta en) = None ->
  text_ignorable (st_queue st) (st_objects st) = true.
Proof. intros -> H. cbn [text_ignorable]. rewrite H. reflexivity. Qed.

Lemma text_ignorable_wrapper st wq Q :
  st_queue st = NWrapper wq :: Q -> text_ignorable (st_queue st) (st_objects st) = true.
Proof. intros ->. reflexivity. Qed.

Lemma text_ignorable_skip st Q :
  st_queue st = NSkip :: Q -> text_ignorable (st_queue st) (st_objects st) = true.
Proof. intros ->. reflexivity. Qed.

(* one end event rewritten: the element closed after `pre` is bound to a class without a text
   field; its text and its tail are replaced by normalize-equal ones (None <-> whitespace) *)
Theorem ws_element_only_end : forall n cfg c u root pre post q t t' tl tl' st en Q,
  run_n n cfg c u root pre = ROk st ->
  st_queue st = NElement en :: Q -> m_text (en_meta en) = None ->
  normalize_content t = normalize_content t' ->
  normalize_content tl = normalize_content tl' ->
  parse_n n cfg c u root (pre ++ PEnd q t tl :: post) = parse_n n cfg c u root (pre ++ PEnd q t' tl' :: post).
Proof.
  intros n cfg c u root pre post q t t' tl tl' st en Q Hrun Hq Hm Ht Htl.
  apply ws_invariant. unfold ws_variant_n. unfold run_n in Hrun.
  revert Hrun. generalize init_state as s0. induction pre as [|ev pre IH]; intros s0 Hrun.
  - cbn [run] in Hrun. injection Hrun as ->. cbn [app ws_variant ws_ev_ok].
    rewrite str_eqb_refl, Htl, ostr_eqb_refl, Ht, ostr_eqb_refl.
    rewrite (text_ignorable_element_only st en Q Hq Hm). rewrite orb_true_r. cbn [andb].
    destruct (step cfg c u (replay_n n c u) root st (PEnd q t tl)) as [st1|k];
      [apply ws_variant_refl|apply Nat.eqb_refl].
  - cbn [run] in Hrun. cbn [app ws_variant]. rewrite ws_ev_ok_refl. cbn [andb].
    destruct (step cfg c u (replay_n n c u) root s0 ev) as [s1|k]; cbn [rbind] in Hrun; [|discriminate Hrun].
    apply IH. exact Hrun.
Qed.

(* the same with the word "whitespace": absent / whitespace-only text and tail of an element bound
   to a class without a text field may be rewritten into any other absent / whitespace-only ones *)
Corollary ws_element_only_end_blank : forall n cfg c u root pre post q t t' tl tl' st en Q,
  run_n n cfg c u root pre = ROk st ->
  st_queue st = NElement en :: Q -> m_text (en_meta en) = None ->
  py_blank t = true -> py_blank t' = true -> py_blank tl = true -> py_blank tl' = true ->
  parse_n n cfg c u root (pre ++ PEnd q t tl :: post) = parse_n n cfg c u root (pre ++ PEnd q t' tl' :: post).
Proof.
  intros n cfg c u root pre post q t t' tl tl' st en Q Hrun Hq Hm Ht Ht' Htl Htl'.
  apply (ws_element_only_end n cfg c u root pre post q t t' tl tl' st en Q Hrun Hq Hm);
    apply normalize_content_eq_iff; right; split; assumption.
Qed.

(* the unguarded relation: every text and every tail may change within its normalize_content
   class -- what C09(c) would say without looking at the binding *)
Definition ev_norm_rel (x y : pevent) : Prop :=
  match x with
  | PEnd q t tl => exists t' tl', y = PEnd q t' tl'
                     /\ normalize_content t = normalize_content t'
                     /\ normalize_content tl = normalize_content tl'
  | _ => y = x
  end.

(* ---------------------------------------------------------------- witnesses *)
(* binding models exported from the real XmlContext (Proofs/ParserWitness.v: `required`,
   `anytype`) and one hand-written class with a text field; every document below was also run
   through the real XmlParser: same objects *)
Local Open Scope N_scope.

Definition ws_tbl : conv_table :=
  mk_conv_table [([TInt], None, [], [49], Some (PInt 1%Z)); ([TInt], None, [], [50], Some (PInt 2%Z));
                 ([TStr], None, [], [120], Some (PStr [120])); ([TStr], None, [], [32], Some (PStr [32]))]
                [] [] [] dt_table.
Definition ws_cfg : pconfig := cfg_of true false false nodefault_required.

(* <R><a>1</a><b>x</b><i v="2"/></R>: R and Inner have no text field *)
Definition ws_doc : list pevent :=
  [PStart [82] [] []; PStart [97] [] []; PEnd [97] (Some [49]) None;
   PStart [98] [] []; PEnd [98] (Some [120]) None;
   PStart [105] [([118], [50])] []; PEnd [105] None None; PEnd [82] None None].
(* <R>\n  <a>1</a>\n  <b>x</b>\n  <i v="2"> </i>\n</R> *)
Definition ws_doc' : list pevent :=
  [PStart [82] [] []; PStart [97] [] []; PEnd [97] (Some [49]) (Some [10;32;32]);
   PStart [98] [] []; PEnd [98] (Some [120]) (Some [10;32;32]);
   PStart [105] [([118], [50])] []; PEnd [105] (Some [32]) (Some [10]); PEnd [82] (Some [10;32;32]) None].

(* non-vacuity: an element-only parent with three children (one of them element-only itself),
   re-indented: the guard holds, and the common outcome is an object *)
Example ws_variant_nonvacuous :
  ws_variant_n (length ws_doc) ws_cfg (conv_of_table ws_tbl) u_required (Some root_required) init_state ws_doc ws_doc' = true
  /\ ws_doc <> ws_doc'
  /\ parse ws_cfg (conv_of_table ws_tbl) u_required (Some root_required) ws_doc
     = Ok (VObj 2 [([97], VP (PInt 1%Z)); ([98], VP (PStr [120])); ([105], VObj 1 [([118], VP (PInt 2%Z))])]) [].
Proof. split; [vm_compute; reflexivity|]. split; [discriminate|vm_compute; reflexivity]. Qed.

Example ws_variant_nonvacuous_parse :
  parse ws_cfg (conv_of_table ws_tbl) u_required (Some root_required) ws_doc
  = parse ws_cfg (conv_of_table ws_tbl) u_required (Some root_required) ws_doc'.
Proof. apply ws_invariant_parse. vm_compute. reflexivity. Qed.

(* the guard is needed (1): the text of a PRIMITIVE child is its value.
   <R><a>1</a><b/></R> -> b = ""   vs   <R><a>1</a><b> </b></R> -> b = " " *)
Definition ws_prim : list pevent :=
  [PStart [82] [] []; PStart [97] [] []; PEnd [97] (Some [49]) None;
   PStart [98] [] []; PEnd [98] None None; PEnd [82] None None].
Definition ws_prim' : list pevent :=
  [PStart [82] [] []; PStart [97] [] []; PEnd [97] (Some [49]) None;
   PStart [98] [] []; PEnd [98] (Some [32]) None; PEnd [82] None None].

(* (2): a class WITH a text field.   @dataclass class X: value: str = field(default="")
   <X/> -> value = ""   vs   <X> </X> -> value = " " *)
Definition tv_value : xvar :=
  mk_xvar 1 [118;97;108;117;101] [118;97;108;117;101] [118;97;108;117;101] None KText [TStr] None true false None None None
          false [115;116;114;105;99;116] false false None (DValue (VP (PStr []))) [] [] [].
Definition u_textvar : universe :=
  mk_universe [(1, mk_xmeta 1 [88] (Some [88]) false (Some tv_value) [] [] [] [] [] [] None false)]
              [(1, [1])] [(1, [])] [([88], [1])] [] [(1, [88])].
Definition ws_tv : list pevent := [PStart [88] [] []; PEnd [88] None None].
Definition ws_tv' : list pevent := [PStart [88] [] []; PEnd [88] (Some [32]) None].

(* (3): a CHILDLESS element matched by a wildcard keeps its raw text in AnyElement.text.
   <T><zz/></T> -> AnyElement(text="")   vs   <T><zz> </zz></T> -> AnyElement(text=" ") *)
Definition ws_wild : list pevent :=
  [PStart [84] [] []; PStart [122;122] [] []; PEnd [122;122] None None; PEnd [84] None None].
Definition ws_wild' : list pevent :=
  [PStart [84] [] []; PStart [122;122] [] []; PEnd [122;122] (Some [32]) None; PEnd [84] None None].

Ltac norm_rel_tac :=
  repeat (constructor;
          [cbn [ev_norm_rel]; first [reflexivity | (do 2 eexists; split; [reflexivity|split; vm_compute; reflexivity])]|]);
  try constructor.

(* C09(c) without the guard is FALSE of the faithful model (and of the code): changing the text
   of one element from absent to one space changes the parsed object *)
Theorem ws_text_visible_refuted :
  exists cfg c u root evs evs',
    Forall2 ev_norm_rel evs evs'
    /\ parse cfg c u root evs <> parse cfg c u root evs'
    /\ ws_variant_n (length evs) cfg c u root init_state evs evs' = false.
Proof.
  exists ws_cfg, (conv_of_table ws_tbl), u_required, (Some root_required), ws_prim, ws_prim'.
  split; [unfold ws_prim, ws_prim'; norm_rel_tac|].
  split; [intros H; vm_compute in H; discriminate H|vm_compute; reflexivity].
Qed.

Theorem ws_text_field_visible_refuted :
  exists cfg c u root evs evs',
    Forall2 ev_norm_rel evs evs'
    /\ parse cfg c u root evs <> parse cfg c u root evs'
    /\ ws_variant_n (length evs) cfg c u root init_state evs evs' = false.
Proof.
  exists default_config, (conv_of_table ws_tbl), u_textvar, (Some 1), ws_tv, ws_tv'.
  split; [unfold ws_tv, ws_tv'; norm_rel_tac|].
  split; [intros H; vm_compute in H; discriminate H|vm_compute; reflexivity].
Qed.

Theorem ws_childless_wildcard_visible_refuted :
  exists cfg c u root evs evs',
    Forall2 ev_norm_rel evs evs'
    /\ parse cfg c u root evs <> parse cfg c u root evs'
    /\ ws_variant_n (length evs) cfg c u root init_state evs evs' = false.
Proof.
  exists default_config, (conv_of_table ws_tbl), u_anytype, (Some root_anytype), ws_wild, ws_wild'.
  split; [unfold ws_wild, ws_wild'; norm_rel_tac|].
  split; [intros H; vm_compute in H; discriminate H|vm_compute; reflexivity].
Qed.

Print Assumptions ws_invariant.
Print Assumptions ws_invariant_parse.
Print Assumptions tails_invariant_parse.
Print Assumptions ws_element_only_end.
Print Assumptions ws_element_only_end_blank.
Print Assumptions normalize_content_eq_iff.
Print Assumptions text_ignorable_element_only.
Print Assumptions ws_variant_nonvacuous.
Print Assumptions ws_text_visible_refuted.
Print Assumptions ws_text_field_visible_refuted.
Print Assumptions ws_childless_wildcard_visible_refuted.
