(* Proofs/ConvBool.v — BoolConverter against xs:boolean. *)
From Coq Require Import NArith ZArith List Bool Lia.
From XV Require Import Base.Str Base.PyInt Gen.ConvTables Model.ConvBool Spec.XsdPrims Proofs.ConvLemmas.
Import ListNotations.
Open Scope N_scope.

Lemma bool_roundtrip b : bool_deser (bool_ser b) = Some b.
Proof. destruct b; vm_compute; reflexivity. Qed.

Lemma bool_ser_valid b : xsd_boolean (bool_ser b) = Some b.
Proof. destruct b; vm_compute; reflexivity. Qed.

Lemma xsd_boolean_cases s v :
  xsd_boolean s = Some v ->
  (s = [116;114;117;101] /\ v = true) \/ (s = [49] /\ v = true)
  \/ (s = [102;97;108;115;101] /\ v = false) \/ (s = [48] /\ v = false).
Proof.
  unfold xsd_boolean.
  repeat match goal with |- context [str_eqb s ?l] => destruct (str_eqb_spec s l) end;
    intros E; inversion E; subst; auto 6.
Qed.

(* every xs:boolean lexical form, with surrounding XML whitespace, is accepted
   with the value XSD assigns *)
Lemma bool_accepts_xsd s v a b :
  xsd_boolean s = Some v -> forallb xml_ws a = true -> forallb xml_ws b = true ->
  bool_deser (a ++ s ++ b) = Some v.
Proof.
  intros Hs Ha Hb.
  assert (Hst : py_strip (a ++ s ++ b) = s).
  { apply strip_by_wrap_hd_last.
    - eapply forallb_impl; [apply xml_ws_py_isspace|exact Ha].
    - eapply forallb_impl; [apply xml_ws_py_isspace|exact Hb].
    - apply xsd_boolean_cases in Hs as [[-> _]|[[-> _]|[[-> _]|[-> _]]]]; discriminate.
    - apply xsd_boolean_cases in Hs as [[-> _]|[[-> _]|[[-> _]|[-> _]]]]; vm_compute; reflexivity.
    - apply xsd_boolean_cases in Hs as [[-> _]|[[-> _]|[[-> _]|[-> _]]]]; vm_compute; reflexivity. }
  unfold bool_deser. rewrite Hst.
  apply xsd_boolean_cases in Hs as [[-> ->]|[[-> ->]|[[-> ->]|[-> ->]]]]; vm_compute; reflexivity.
Qed.

(* the converter accepts nothing but the four literals (modulo Python whitespace) *)
Lemma bool_deser_sound s v : bool_deser s = Some v -> xsd_boolean (py_strip s) = Some v.
Proof.
  unfold bool_deser, str_in.
  destruct (existsb (str_eqb (py_strip s)) bool_true_literals) eqn:Et.
  - intros E; inversion E; subst. apply existsb_exists in Et as [l [Hin Heq]].
    apply str_eqb_eq in Heq. rewrite Heq.
    cbn in Hin. destruct Hin as [<-|[<-|[]]]; vm_compute; reflexivity.
  - destruct (existsb (str_eqb (py_strip s)) bool_false_literals) eqn:Ef; [|discriminate].
    intros E; inversion E; subst. apply existsb_exists in Ef as [l [Hin Heq]].
    apply str_eqb_eq in Heq. rewrite Heq.
    cbn in Hin. destruct Hin as [<-|[<-|[]]]; vm_compute; reflexivity.
Qed.

(* StringConverter *)
Lemma string_roundtrip s : string_deser (string_ser s) = Some s.
Proof. reflexivity. Qed.
