(* Proofs/GenericWrite.v — the writer events generated for a generic element denote
   that element: under the specification reading of the event protocol
   (Spec.Infoset.wrun) and under the faithful model of EventHandler.write
   (Model.Generic.wsteps), by induction on the generic tree. *)
From Coq Require Import NArith ZArith List Bool Lia.
From XV Require Import Base.Str Base.Eqb Base.PyInt Gen.GenericTables Spec.Infoset Model.Generic.
Import ListNotations.
Open Scope N_scope.

(* ---- induction on generic values ---------------------------------------- *)
Section GvalInd.
  Variable P : gval -> Prop.
  Hypothesis HA : forall q x l ks a, Forall P ks -> P (GAny q x l ks a).
  Hypothesis HT : forall s, P (GText s).
  Hypothesis HD : forall q v, P (GDerived q v).
  Hypothesis HH : forall c ra sh items, P (GHolder c ra sh items).
  Fixpoint gval_ind' (v : gval) : P v :=
    match v with
    | GAny q x l ks a =>
        HA q x l ks a
           ((fix go (ks : list gval) : Forall P ks :=
               match ks with
               | [] => Forall_nil P
               | k :: r => Forall_cons k (gval_ind' k) (go r)
               end) ks)
    | GText s => HT s
    | GDerived q p => HD q p
    | GHolder c ra sh items => HH c ra sh items
    end.
End GvalInd.

Definition ostr (o : option str) : str := match o with Some s => s | None => [] end.

(* the infoset tree a generic value stands for *)
Fixpoint tree_of (v : gval) : itree :=
  match v with
  | GAny q text tail kids atts =>
      INode (ostr q) atts [] (ostr text) (map tree_of kids) (ostr tail)
  | GText s => INode [] [] [] (ostr s) [] []
  | GDerived q p => INode q [(xsi_type_q, datatype_of_value p)] [] (prim_text p) [] []
  | GHolder c _ _ _ => INode (c_rq c) [] [] [] [] []
  end.


(* generic values that are elements, with well-formed attribute lists *)
Fixpoint elem_ok (v : gval) : bool :=
  match v with
  | GAny (Some _) _ _ kids atts => nodup_keys atts && forallb elem_ok kids
  | GAny None _ _ _ _ => false
  | GText _ => false
  | GDerived _ _ => true
  | GHolder _ _ _ _ => false
  end.

Lemma str_eqb_sym a b : str_eqb a b = str_eqb b a.
Proof.
  destruct (str_eqb_spec a b) as [->|Hn].
  - symmetry. apply str_eqb_refl.
  - destruct (str_eqb_spec b a) as [->|_]; [congruence|reflexivity].
Qed.

Lemma has_key_app k a b : has_key k (a ++ b) = has_key k a || has_key k b.
Proof. unfold has_key. apply existsb_app. Qed.

Lemma nodup_keys_mid acc k v r : nodup_keys (acc ++ (k, v) :: r) = true -> has_key k acc = false.
Proof.
  induction acc as [|[k' v'] acc IH]; cbn; intros H; [reflexivity|].
  apply andb_true_iff in H as [H1 H2].
  rewrite has_key_app in H1. cbn in H1.
  rewrite (str_eqb_sym k k').
  destruct (str_eqb k' k); cbn in *.
  - rewrite orb_true_r in H1. discriminate.
  - apply IH. exact H2.
Qed.

Lemma attr_set_fresh k v l : has_key k l = false -> attr_set k v l = l ++ [(k, v)].
Proof.
  induction l as [|[k' v'] l IH]; cbn; intros H; [reflexivity|].
  apply orb_false_iff in H as [H1 H2]. rewrite H1. f_equal. apply IH. exact H2.
Qed.

Lemma wrun_app a b stk :
  wrun (a ++ b) stk = match wrun a stk with Some s => wrun b s | None => None end.
Proof.
  revert stk; induction a as [|e a IH]; intros stk; [reflexivity|].
  cbn [app wrun].
  destruct e, stk as [|f [|g s]]; cbn; try reflexivity; try apply IH;
    repeat match goal with |- context [if ?c then _ else _] => destruct c end; try reflexivity; apply IH.
Qed.

(* ---- specification reading ------------------------------------------------ *)
Lemma wrun_attrs atts : forall acc q tx ks s r,
  nodup_keys (acc ++ atts) = true ->
  wrun (map attr_ev atts ++ r) (mkF q acc tx ks true :: s) = wrun r (mkF q (acc ++ atts) tx ks true :: s).
Proof.
  induction atts as [|[k v] atts IH]; intros acc q tx ks s r H.
  - cbn. rewrite app_nil_r. reflexivity.
  - cbn [map app attr_ev fst snd wrun f_open f_name f_atts f_text f_kids aval_text].
    rewrite (attr_set_fresh k v acc (nodup_keys_mid acc k v atts H)).
    rewrite IH; rewrite <- app_assoc; [reflexivity| exact H].
Qed.

Definition spec_ok (v : gval) : Prop :=
  forall f stk rest, wrun (gen_val v ++ rest) (f :: stk) = wrun rest (add_kid f (tree_of v) :: stk).

Lemma spec_forest kids :
  Forall (fun k => elem_ok k = true -> spec_ok k) kids ->
  forallb elem_ok kids = true ->
  forall n a t ks0 stk rest,
    wrun (flat_map gen_val kids ++ rest) (mkF n a t ks0 false :: stk)
    = wrun rest (mkF n a t (rev (map tree_of kids) ++ ks0) false :: stk).
Proof.
  induction 1 as [|k kids Hk _ IH]; intros Hok n a t ks0 stk rest.
  - reflexivity.
  - cbn in Hok. apply andb_true_iff in Hok as [Hk1 Hk2].
    cbn [flat_map]. rewrite <- app_assoc. rewrite (Hk Hk1).
    unfold add_kid. cbn [f_name f_atts f_text f_kids].
    rewrite (IH Hk2). cbn [map rev]. rewrite <- app_assoc. reflexivity.
Qed.

Lemma tail_step (tail : option str) g T0 stk rest :
  i_tail T0 = [] ->
  wrun ((if truthy tail then [WData (option_map PStr tail)] else []) ++ rest) (add_kid g T0 :: stk)
  = wrun rest (add_kid g (set_tail T0 (ostr tail)) :: stk).
Proof.
  intros HT. destruct T0 as [n a d x ks l]. cbn in HT. subst l.
  destruct tail as [[|c s]|]; cbn; reflexivity.
Qed.

Theorem spec_ok_all v : elem_ok v = true -> spec_ok v.
Proof.
  induction v as [q x l ks a IH | s | q p | c ra sh items] using gval_ind'; intros Hok.
  - destruct q as [q|]; [|discriminate Hok].
    cbn in Hok. apply andb_true_iff in Hok as [Ha Hks].
    intros f stk rest.
    cbn [gen_val option_map opt_ev].
    rewrite <- !app_assoc. cbn [app wrun].
    rewrite (wrun_attrs a [] q [] [] (close_attrs f :: stk)); [|exact Ha].
    cbn [app wrun].
    assert (E : add_text (mkF q a [] [] true) (data_text (option_map PStr x)) = mkF q a (ostr x) [] false).
    { destruct x as [[|c s]|]; reflexivity. }
    rewrite E. clear E.
    rewrite (spec_forest ks IH Hks).
    cbn [app wrun f_name]. rewrite str_eqb_refl.
    unfold frame_tree. cbn [f_name f_atts f_text f_kids].
    rewrite app_nil_r, rev_involutive.
    replace (add_kid (close_attrs f)) with (add_kid f) by reflexivity.
    rewrite tail_step by reflexivity. reflexivity.
  - discriminate Hok.
  - intros f stk rest. cbn [gen_val app wrun f_open f_name f_atts f_text f_kids aval_text attr_set].
    assert (E : add_text (mkF q [(xsi_type_q, datatype_of_value p)] [] [] true) (data_text (Some p))
                = mkF q [(xsi_type_q, datatype_of_value p)] (prim_text p) [] false).
    { cbn [data_text]. destruct (prim_text p); reflexivity. }
    rewrite E. cbn [f_name]. rewrite str_eqb_refl. reflexivity.
  - discriminate Hok.
Qed.

Theorem itree_of_wevents_gen v : elem_ok v = true -> itree_of_wevents (gen_any v) = Some (tree_of v).
Proof.
  intros H. unfold itree_of_wevents, gen_any.
  rewrite <- (app_nil_r (gen_val v)). rewrite (spec_ok_all v H). reflexivity.
Qed.

(* ---- the faithful writer ---------------------------------------------------- *)
(* attributes the writer passes through unchanged: not xsi:nil (popped by
   flush_start) and not re-encoded by add_attribute *)
Definition attr_wr_ok (kv : str * str) : bool :=
  negb (str_eqb xsi_nil_q (fst kv)) && opt_eqb str_eqb (encode_attr (fst kv) (AVStr (snd kv))) (Some (snd kv)).
Fixpoint wr_ok (v : gval) : bool :=
  match v with
  | GAny _ _ _ kids atts => forallb attr_wr_ok atts && forallb wr_ok kids
  | _ => true
  end.

Definition tail_of (v : gval) : option str :=
  match v with GAny _ _ tl _ _ => tl | _ => None end.

Lemma attr_remove_absent k a :
  forallb (fun kv => negb (str_eqb k (fst kv))) a = true -> attr_remove k a = a.
Proof.
  induction a as [|[k' v'] a IH]; cbn; intros H; [reflexivity|].
  apply andb_true_iff in H as [H1 H2]. apply negb_true_iff in H1. rewrite H1. f_equal. apply IH, H2.
Qed.

Lemma attr_wr_ok_nil a : forallb attr_wr_ok a = true -> attr_remove xsi_nil_q a = a.
Proof.
  intros H. apply attr_remove_absent. rewrite forallb_forall in *. intros kv Hin.
  specialize (H kv Hin). unfold attr_wr_ok in H. apply andb_true_iff in H as [H _]. exact H.
Qed.

Lemma wsteps_attrs atts : forall acc q it sink r,
  nodup_keys (acc ++ atts) = true -> forallb attr_wr_ok atts = true ->
  wsteps (map attr_ev atts ++ r) (mkW (Some q) acc it None sink)
  = wsteps r (mkW (Some q) (acc ++ atts) it None sink).
Proof.
  induction atts as [|[k v] atts IH]; intros acc q it sink r H W.
  - cbn. rewrite app_nil_r. reflexivity.
  - cbn in W. apply andb_true_iff in W as [W1 W2].
    unfold attr_wr_ok in W1. apply andb_true_iff in W1 as [_ W1]. cbn [fst snd] in W1.
    cbn [map app attr_ev fst snd wsteps wstep w_pending w_attrs w_in_tail w_tail w_sink].
    destruct (encode_attr k (AVStr v)) as [s|]; [|discriminate W1].
    cbn in W1. apply str_eqb_eq in W1. subst s.
    rewrite (attr_set_fresh k v acc (nodup_keys_mid acc k v atts H)).
    rewrite IH; [rewrite <- app_assoc; reflexivity | rewrite <- app_assoc; exact H | exact W2].
Qed.

Definition wr_step_ok (v : gval) : Prop :=
  forall it f s rest,
    wsteps (gen_val v ++ rest) (mkW None [] it None (f :: s))
    = wsteps rest (mkW None [] (truthy (tail_of v)) None (add_kid f (tree_of v) :: s)).

Definition last_it (it : bool) (kids : list gval) : bool :=
  fold_left (fun _ k => truthy (tail_of k)) kids it.

Lemma wr_forest kids :
  Forall (fun k => elem_ok k = true -> wr_ok k = true -> wr_step_ok k) kids ->
  forallb elem_ok kids = true -> forallb wr_ok kids = true ->
  forall it n a t ks0 s rest,
    wsteps (flat_map gen_val kids ++ rest) (mkW None [] it None (mkF n a t ks0 false :: s))
    = wsteps rest (mkW None [] (last_it it kids) None (mkF n a t (rev (map tree_of kids) ++ ks0) false :: s)).
Proof.
  induction 1 as [|k kids Hk _ IH]; intros He Hw it n a t ks0 s rest.
  - reflexivity.
  - cbn in He, Hw. apply andb_true_iff in He as [He1 He2]. apply andb_true_iff in Hw as [Hw1 Hw2].
    cbn [flat_map]. rewrite <- app_assoc. rewrite (Hk He1 Hw1).
    unfold add_kid. cbn [f_name f_atts f_text f_kids].
    rewrite (IH He2 Hw2). cbn [map rev last_it fold_left]. rewrite <- app_assoc. reflexivity.
Qed.

Lemma xsi_nil_ne_type : str_eqb xsi_nil_q xsi_type_q = false.
Proof. vm_compute. reflexivity. Qed.
Lemma xsi_type_refl : str_eqb xsi_type_q xsi_type_q = true.
Proof. apply str_eqb_refl. Qed.

Theorem wr_step_ok_all v : elem_ok v = true -> wr_ok v = true -> wr_step_ok v.
Proof.
  induction v as [q x l ks a IH | s | q p | c ra sh items] using gval_ind'; intros Hok Hw.
  - destruct q as [q|]; [|discriminate Hok].
    cbn in Hok. apply andb_true_iff in Hok as [Ha Hks].
    cbn in Hw. apply andb_true_iff in Hw as [Hwa Hwk].
    intros it f s rest.
    cbn [gen_val option_map opt_ev].
    rewrite <- !app_assoc. cbn [app wsteps wstep flush_start w_pending w_attrs w_in_tail w_tail w_sink].
    rewrite (wsteps_attrs a [] q it (f :: s)); [|exact Ha|exact Hwa].
    cbn [app].
    assert (E : wstep (mkW (Some q) a it None (f :: s)) (WData (option_map PStr x))
                = Some (mkW None [] true None (mkF q a (ostr x) [] false :: f :: s))).
    { destruct x as [[|c r]|]; cbn -[xsi_nil_q]; rewrite ?(attr_wr_ok_nil a Hwa); reflexivity. }
    cbn [wsteps]. rewrite E. clear E.
    rewrite (wr_forest ks IH Hks Hwk).
    cbn [app wsteps wstep flush_start w_pending w_attrs w_in_tail w_tail w_sink f_name truthy].
    rewrite str_eqb_refl.
    unfold frame_tree. cbn [f_name f_atts f_text f_kids]. rewrite app_nil_r, rev_involutive.
    cbn [tail_of tree_of ostr].
    destruct l as [[|c r]|]; cbn; reflexivity.
  - discriminate Hok.
  - intros it f s rest.
    cbn [gen_val app wsteps wstep flush_start w_pending w_attrs w_in_tail w_tail w_sink encode_attr].
    rewrite xsi_type_refl. cbn [attr_set encode_data option_map].
    cbn [wsteps wstep flush_start w_pending w_attrs w_in_tail w_tail w_sink encode_data option_map attr_remove].
    rewrite xsi_nil_ne_type.
    destruct (prim_text p) as [|c r] eqn:E; cbn; rewrite ?E, ?str_eqb_refl; cbn; rewrite ?E; reflexivity.
  - discriminate Hok.
Qed.

Theorem write_tree_gen v :
  elem_ok v = true -> wr_ok v = true -> write_tree (gen_any v) = Some (tree_of v).
Proof.
  intros H W. unfold write_tree, gen_any, winit.
  rewrite <- (app_nil_r (gen_val v)). rewrite (wr_step_ok_all v H W). reflexivity.
Qed.

(* ---- forests below an arbitrary open frame (used for the holder element) -------- *)
Definition add_kids (f : frame) (ts : list itree) : frame := fold_left add_kid ts f.

Lemma frame_tree_add_kids ts : forall f,
  frame_tree (add_kids f ts) = INode (f_name f) (f_atts f) [] (f_text f) (rev (f_kids f) ++ ts) [].
Proof.
  induction ts as [|t ts IH]; intros f.
  - cbn. rewrite app_nil_r. reflexivity.
  - unfold add_kids in *. cbn [fold_left]. rewrite IH. unfold add_kid. cbn [f_name f_atts f_text f_kids rev].
    rewrite <- app_assoc. reflexivity.
Qed.

Lemma add_kids_name ts : forall f, f_name (add_kids f ts) = f_name f.
Proof.
  induction ts as [|t ts IH]; intros f; [reflexivity|].
  unfold add_kids in *. cbn [fold_left]. rewrite IH. reflexivity.
Qed.

Lemma spec_forest_gen kids :
  forallb elem_ok kids = true ->
  forall f stk rest,
    wrun (flat_map gen_val kids ++ rest) (f :: stk) = wrun rest (add_kids f (map tree_of kids) :: stk).
Proof.
  induction kids as [|k kids IH]; intros Hok f stk rest; [reflexivity|].
  cbn in Hok. apply andb_true_iff in Hok as [H1 H2].
  cbn [flat_map]. rewrite <- app_assoc. rewrite (spec_ok_all k H1). rewrite (IH H2). reflexivity.
Qed.
