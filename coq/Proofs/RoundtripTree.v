(* Proofs/RoundtripTree.v — what the emitted events MEAN (C01): the specification's reading
   of the event list (Spec/XmlNs.v `itree_of_events`, through Proofs/WriterDenote.v) of the
   tree `gobj` is the expected tree `eobj`. *)
From Coq Require Import NArith ZArith List Bool Lia Arith.
From XV Require Import Base.Str Base.Eqb Base.PyInt Spec.XmlNs Model.Writer Proofs.WriterTree Proofs.WriterDenote
  Model.Bind Model.WriterBridge Model.EventGen Spec.Fits Proofs.RoundtripBase Proofs.RoundtripGen.
Import ListNotations.
Open Scope N_scope.

(* ---------------------------------------------------------------- Bind trees as Writer trees *)
Fixpoint item_of (c : conv) (i : bitem) : Writer.item :=
  match i with
  | BData v => IData (of_wval c v)
  | BNode q ats ks =>
      Writer.INode (of_qname q) (map (fun a => (of_qname (fst a), of_wval c (snd a))) ats) (map (item_of c) ks)
  end.

Lemma flatten_item_of c : forall i, map (of_wevent c) (bflat i) = flatten (item_of c i).
Proof.
  fix IH 1. intros [v|q ats ks]; [reflexivity|].
  cbn [bflat item_of flatten map of_wevent]. f_equal.
  rewrite !map_app. cbn [map of_wevent]. f_equal.
  - rewrite !map_map. reflexivity.
  - f_equal. induction ks as [|k ks IHk]; [reflexivity|].
    cbn [flat_map map]. rewrite map_app, IH, IHk. reflexivity.
Qed.

(* ---------------------------------------------------------------- attributes *)
Definition attr_rel (a : XmlNs.qname * wvalue) (ea : XmlNs.qname * list atom) : Prop :=
  fst a = fst ea /\ attr_atoms (fst a) (snd a) = Some (snd ea) /\ value_none (snd a) = false.

Lemma set_attr_fresh q l acc :
  (forall a, In a acc -> qname_eqb q (fst a) = false) -> set_attr q l acc = acc ++ [(q, l)].
Proof.
  induction acc as [|[q' l'] acc IH]; intros H; [reflexivity|].
  cbn [set_attr]. pose proof (H (q', l') (or_introl eq_refl)) as E. cbn [fst] in E. rewrite E. cbn [app]. f_equal.
  apply IH. intros a Ha. apply H. right; exact Ha.
Qed.

Lemma qname_eqb_neq a b : a <> b -> qname_eqb a b = false.
Proof. intros H. destruct (qname_eqb a b) eqn:E; [|reflexivity]. exfalso. apply H. apply qname_eqb_true. exact E. Qed.

Lemma spec_attrs_rel ats : forall eats acc,
  Forall2 attr_rel ats eats -> NoDup (map fst (acc ++ eats)) ->
  spec_attrs acc ats = Some (acc ++ eats).
Proof.
  induction ats as [|a ats IH]; intros eats acc HF Hn; inversion HF as [|? ea ? eats' Hr HF']; subst.
  - rewrite app_nil_r. reflexivity.
  - destruct Hr as [Hk [Ha _]]. cbn [spec_attrs]. rewrite Ha.
    rewrite set_attr_fresh.
    + rewrite (IH eats' (acc ++ [(fst a, snd ea)]) HF').
      * rewrite <- app_assoc. cbn [app]. rewrite Hk. destruct ea; reflexivity.
      * rewrite <- app_assoc. cbn [app]. rewrite Hk. destruct ea; exact Hn.
    + intros b Hb. apply qname_eqb_neq. intros E.
      rewrite map_app in Hn. apply NoDup_remove_2 in Hn. apply Hn.
      apply in_or_app. left. rewrite <- Hk, E. apply in_map. exact Hb.
Qed.

Lemma attrs_present_rel ats eats :
  Forall2 attr_rel ats eats -> forallb (fun a => negb (value_none (snd a))) ats = true.
Proof.
  induction 1 as [|a ea ats eats [_ [_ Hv]] _ IH]; [reflexivity|]. cbn [forallb]. rewrite Hv, IH. reflexivity.
Qed.

Lemma Forall2_flat_map {A B C} (R : B -> C -> Prop) (f : A -> list B) (g : A -> list C) l :
  (forall x, In x l -> Forall2 R (f x) (g x)) -> Forall2 R (flat_map f l) (flat_map g l).
Proof.
  induction l as [|x r IH]; intros H; [constructor|]. cbn [flat_map].
  apply Forall2_app; [apply H; left; reflexivity|]. apply IH. intros y Hy. apply H. right; exact Hy.
Qed.

Lemma flat_map_ext_in {A B} (f g : A -> list B) l :
  (forall x, In x l -> f x = g x) -> flat_map f l = flat_map g l.
Proof.
  induction l as [|x r IH]; intros H; [reflexivity|]. cbn [flat_map].
  rewrite (H x (or_introl eq_refl)), IH; [reflexivity|]. intros y Hy. apply H. right; exact Hy.
Qed.

Lemma forallb_map' {A B} (f : B -> bool) (g : A -> B) l : forallb f (map g l) = forallb (fun x => f (g x)) l.
Proof. induction l as [|x r IH]; [reflexivity|]. cbn [map forallb]. rewrite IH. reflexivity. Qed.

Lemma nil_filter_none b eats :
  (forall a, In a eats -> fst a <> q_xsi_nil) -> nil_filter b eats = eats.
Proof.
  intros H. unfold nil_filter. destruct b; [|reflexivity].
  induction eats as [|a r IH]; [reflexivity|]. cbn [filter].
  rewrite (qname_eqb_neq (fst a) q_xsi_nil (H a (or_introl eq_refl))). cbn [negb]. f_equal.
  apply IH. intros x Hx. apply H. right; exact Hx.
Qed.

Lemma split_xsi_nil : Bind.split_qname XSI_NIL = q_xsi_nil.
Proof. vm_compute. reflexivity. Qed.
Lemma split_xsi_type : Bind.split_qname XSI_TYPE = q_xsi_type.
Proof. vm_compute. reflexivity. Qed.

Lemma NoDup_app_intro' {A} (a b : list A) :
  NoDup a -> NoDup b -> (forall x, In x a -> In x b -> False) -> NoDup (a ++ b).
Proof.
  induction a as [|x a IH]; intros Ha Hb Hd; [exact Hb|]. inversion Ha as [|? ? Hx Ha']; subst.
  cbn [app]. constructor.
  - intros Hi. apply in_app_or in Hi as [Hi|Hi]; [exact (Hx Hi)|]. apply (Hd x); [left; reflexivity|exact Hi].
  - apply IH; [exact Ha'|exact Hb|]. intros y Hy1 Hy2. apply (Hd y); [right; exact Hy1|exact Hy2].
Qed.

Section Tree.
  Variable c : conv.
  Variable u : universe.
  Variable ok : prim -> bool.
  Variable pyspace : N -> bool.
  Variable ign : bool.

  Notation leaf_ok := (leaf_ok c u ok).
  Notation token_ok := (token_ok c u ok pyspace).
  Notation fits := (fits c u ok pyspace).
  Notation gobj := (gobj c u ign).
  Notation eobj := (eobj c u ign).
  Notation enc := (enc c u).
  Notation e_atoms := (e_atoms c u).
  Notation e_data := (e_data c u).
  Notation x_text := (x_text c u).
  Notation wfr := (wfr u).

  Definition den (i : bitem) : list XmlNs.enode := denote (item_of c i).

  (* ---------------------------------------------------------------- values *)
  Lemma of_wval_tokens (t : value -> str) l :
    of_wval c (WL (map (fun y => WP (PStr (t y))) l)) = XmlNs.VList (map (fun y => AText (t y)) l).
  Proof.
    cbn [of_wval]. f_equal. induction l as [|y l IH]; [reflexivity|].
    cbn [map flat_wval of_prim app]. f_equal. exact IH.
  Qed.

  (* what a fitting value is encoded as, as a writer value *)
  Inductive enc_shape (fmt : option str) : value -> Prop :=
  | es_leaf t p : leaf_ok t fmt p = true -> enc_shape fmt (VP p)
  | es_tokens t tf l : forallb (token_ok t fmt) l = true -> enc_shape fmt (VList tf l)
  | es_qname q : enc_shape fmt (VP (PQName q)).

  (* a plain leaf is not a QName *)
  Lemma leaf_not_qname t fmt q : leaf_ok t fmt (PQName q) = false.
  Proof. unfold Fits.leaf_ok. cbn [ptext plain_text]. apply andb_false_r. Qed.

  Lemma e_atoms_leaf t fmt p : leaf_ok t fmt p = true -> e_atoms fmt (VP p) = [AText (leaf_text c u fmt p)].
  Proof. intros H. destruct p; try reflexivity. rewrite leaf_not_qname in H. discriminate H. Qed.

  Lemma of_wval_enc fmt x : enc_shape fmt x ->
    of_wval c (enc fmt x) = match x with
                            | VP (PQName q) => VAtom (AQName (Bind.split_qname q))
                            | VP p => VAtom (AText (leaf_text c u fmt p))
                            | VList _ l => XmlNs.VList (map (fun y => AText (x_text fmt y)) l)
                            | _ => XmlNs.VNone
                            end.
  Proof.
    intros [t p Hp|t tf l Hl|q].
    - cbn [enc]. rewrite (enc_leaf c u ok t fmt p Hp). destruct p; try reflexivity.
      rewrite leaf_not_qname in Hp. discriminate Hp.
    - rewrite (enc_tokens c u ok pyspace t fmt tf l Hl). apply of_wval_tokens.
    - reflexivity.
  Qed.

  Lemma atoms_enc fmt x : enc_shape fmt x ->
    atoms_of_value (of_wval c (enc fmt x)) = match e_atoms fmt x with [] => None | l => Some l end.
  Proof.
    intros H. rewrite (of_wval_enc fmt x H). destruct H as [t p Hp|t tf l Hl|q]; [|cbn [RoundtripGen.e_atoms]; destruct l; reflexivity|reflexivity].
    rewrite (e_atoms_leaf t fmt p Hp). destruct p; try reflexivity. rewrite leaf_not_qname in Hp. discriminate Hp.
  Qed.

  Lemma den_data fmt x : enc_shape fmt x -> den (BData (enc fmt x)) = e_data fmt x.
  Proof.
    intros H. unfold den. cbn [item_of denote]. rewrite (atoms_enc fmt x H). unfold RoundtripGen.e_data.
    destruct (e_atoms fmt x); reflexivity.
  Qed.

  Lemma den_prim var x : enc_shape (v_format var) x ->
    (v_nillable var = false \/ (exists p, x = VP p) \/ py_truthy x = true) ->
    den (g_prim c u var x) = [e_prim c u var x]
    /\ attrs_present (item_of c (g_prim c u var x)) = true.
  Proof.
    intros H Hnl.
    assert (Hcase : nil_attr_g var x = []
                    \/ (nil_attr_g var x = [(XSI_NIL, WP (PStr EventGen.TRUE_STR))] /\ exists p, x = VP p)).
    { unfold nil_attr_g. destruct Hnl as [Hn|[Hp|Ht]]; [left; rewrite Hn; reflexivity| |left; rewrite Ht, andb_false_r; reflexivity].
      destruct (v_nillable var && negb (py_truthy x)); [right; split; [reflexivity|exact Hp]|left; reflexivity]. }
    assert (Ene : nil_attr_e var x = []) by (destruct H; reflexivity).
    unfold den, g_prim, e_prim. rewrite Ene. cbn [item_of map].
    destruct Hcase as [E|[E [p Ex]]]; rewrite E; cbn [map].
    - split.
      + rewrite (denote_node _ [] _ [] eq_refl).
        change (flat_map denote [IData (of_wval c (enc (v_format var) x))])
          with (den (BData (enc (v_format var) x)) ++ []).
        rewrite (den_data _ x H), app_nil_r.
        unfold nil_filter. destruct (existsb kid_content _); reflexivity.
      + reflexivity.
    - subst x. split; [|reflexivity].
      rewrite (denote_node _ _ _ [(Bind.split_qname XSI_NIL, [AText EventGen.TRUE_STR])]).
      2:{ reflexivity. }
      change (flat_map denote [IData (of_wval c (enc (v_format var) (VP p)))])
        with (den (BData (enc (v_format var) (VP p))) ++ []).
      rewrite (den_data _ (VP p) H), app_nil_r.
      assert (Hc : existsb kid_content [IData (of_wval c (enc (v_format var) (VP p)))] = true).
      { cbn [existsb kid_content]. rewrite (of_wval_enc _ _ H). destruct p; reflexivity. }
      rewrite Hc. unfold nil_filter. cbn [filter fst]. rewrite split_xsi_nil.
      assert (Eq : qname_eqb q_xsi_nil q_xsi_nil = true) by (vm_compute; reflexivity).
      rewrite Eq. reflexivity.
  Qed.

  (* None in a nillable field: the element keeps xsi:nil (it has no content) *)
  Lemma den_nil var : v_nillable var = true ->
    den (g_prim c u var VNone) = [e_prim c u var VNone]
    /\ attrs_present (item_of c (g_prim c u var VNone)) = true.
  Proof.
    intros Hn. unfold den, g_prim, e_prim, nil_attr_g, nil_attr_e. rewrite Hn. cbn [py_truthy negb andb item_of map].
    split; [|reflexivity].
    rewrite (denote_node _ _ _ [(Bind.split_qname XSI_NIL, [AText EventGen.TRUE_STR])]); [|reflexivity].
    reflexivity.
  Qed.

  (* ---------------------------------------------------------------- attributes of one field *)
  Lemma attr_rel_one q fmt x :
    enc_shape fmt x -> e_atoms fmt x <> [] -> reserved_name q = false ->
    attr_rel (of_qname q, of_wval c (enc fmt x)) (Bind.split_qname q, e_atoms fmt x).
  Proof.
    intros Hsh Hne Hr. unfold attr_rel. cbn [fst snd].
    assert (Hnt : qname_eqb (of_qname q) q_xsi_type = false).
    { rewrite <- split_xsi_type. apply qname_eqb_split. intros E. unfold reserved_name in Hr.
      rewrite E, str_eqb_refl, orb_true_r in Hr. discriminate. }
    pose proof (atoms_enc fmt x Hsh) as Ha. pose proof (of_wval_enc fmt x Hsh) as Ho.
    split; [reflexivity|].
    destruct Hsh as [t p Hp|t tf l Hl|q0]; rewrite Ho in *.
    - rewrite (e_atoms_leaf t fmt p Hp) in *. destruct p; try (split; [|reflexivity]; unfold attr_atoms; rewrite Hnt; cbn [andb]; reflexivity).
      rewrite leaf_not_qname in Hp. discriminate Hp.
    - cbn [RoundtripGen.e_atoms] in *. destruct l as [|y l]; [exfalso; apply Hne; reflexivity|]. split; reflexivity.
    - cbn [RoundtripGen.e_atoms]. split; reflexivity.
  Qed.

  Lemma attr_rel_field var x :
    wf_attr var = true -> fits_attr c u ok pyspace var x = true ->
    Forall2 attr_rel
      (map (fun a => (of_qname (fst a), of_wval c (snd a))) (g_attr c u ign var x))
      (e_attr c u ign var x).
  Proof.
    intros Hw Hf. destruct (wf_attr_inv var Hw) as [Hk [Hc [Hcl [Hfa [Hr [t [Ht Hty0]]]]]]].
    unfold g_attr, e_attr.
    assert (Hsh : x <> VNone -> (is_array x && negb (py_truthy x)) = false -> enc_shape (v_format var) x
                  /\ e_atoms (v_format var) x <> []).
    { intros Hx Hne. unfold Fits.fits_attr, vtype in Hf. rewrite Ht in Hf.
      destruct Hty0 as [[Hs Hd]|[Et [Htf0 Hd0]]].
      2:{ subst t. rewrite Htf0 in Hf. cbn [ptype_eqb] in Hf.
          destruct x as [|p| | | | |]; try discriminate; [congruence|].
          unfold qleaf_ok in Hf. apply andb_true_iff in Hf as [_ Hq]. destruct p as [| | | | | |q1| |]; try discriminate Hq.
          split; [apply es_qname|discriminate]. }
      rewrite (simple_not_qname t Hs) in Hf.
      destruct (v_tokens_factory var).
      - destruct x as [| |tt l| | | |]; try discriminate. apply andb_true_iff in Hf as [_ Hf].
        split; [eapply es_tokens; exact Hf|]. destruct l; [discriminate Hne|]. discriminate.
      - destruct x as [|p| | | | |]; try discriminate; [congruence|].
        split; [eapply es_leaf; exact Hf|]. rewrite (e_atoms_leaf _ _ _ Hf). discriminate. }
    destruct x as [|p|tt l|cl fs|q0 tx tl at0 ch|q0 v0 ty|mm]; [constructor| | | | | |].
    6:{ exfalso. unfold Fits.fits_attr in Hf. destruct (v_tokens_factory var); discriminate Hf. }
    all: destruct (is_array _ && negb (py_truthy _)) eqn:Ene; [cbn [map]; constructor|].
    all: destruct (ign && opt_skip var _); [cbn [map]; constructor|].
    all: cbn [map fst snd]; constructor; [|constructor].
    all: destruct Hsh as [Hsh Hne]; [discriminate|reflexivity|].
    all: apply attr_rel_one; assumption.
  Qed.

  Lemma den_wrap var gi ei :
    flat_map den gi = ei -> forallb (fun k => attrs_present (item_of c k)) gi = true ->
    flat_map den (g_wrap var gi) = e_wrap var ei
    /\ forallb (fun k => attrs_present (item_of c k)) (g_wrap var gi) = true.
  Proof.
    intros E1 E2. unfold g_wrap, e_wrap. destruct (v_wrapper_qname var) as [[|ch w]|]; try (split; assumption).
    split.
    - cbn [flat_map]. rewrite app_nil_r. unfold den at 1. cbn [item_of map].
      rewrite (denote_node _ [] _ [] eq_refl). rewrite flat_map_map. fold den. rewrite E1.
      unfold nil_filter. destruct (existsb kid_content _); reflexivity.
    - cbn [forallb]. rewrite andb_true_r. unfold attrs_present, t_attrs_present. cbn [item_of all_nodes map forallb andb].
      rewrite forallb_map'. exact E2.
  Qed.

  (* ---------------------------------------------------------------- generic elements *)
  Lemma den_any : forall k x, (odepth x <= k)%nat -> fits_anyel x = true ->
    den (g_any x) = [e_any x] /\ attrs_present (item_of c (g_any x)) = true.
  Proof.
    induction k as [|k IH]; intros x Hd Hf;
      destruct (fits_anyel_inv x Hf) as [q [s [a [ch [-> [Hq [Hnd [Hat [Hs Hch]]]]]]]]]; [cbn [odepth] in Hd; lia|].
    cbn [g_any e_any].
    assert (Hrel : Forall2 attr_rel (map (fun a0 => (of_qname (fst a0), of_wval c (snd a0))) (map (fun kv : qname * str => (fst kv, WP (PStr (snd kv)))) a))
                     (map (fun kv : qname * str => (Bind.split_qname (fst kv), [AText (snd kv)])) a)).
    { clear Hnd Hf Hd. induction a as [|kv r IHa]; [constructor|]. cbn [map]. cbn [forallb] in Hat. apply andb_true_iff in Hat as [Hkv Hr].
      constructor; [|apply IHa; exact Hr].
      unfold attr_rel. cbn [fst snd of_wval of_prim attr_atoms].
      unfold any_attr_ok in Hkv. apply andb_true_iff in Hkv as [Hres _]. apply negb_true_iff in Hres.
      assert (Hnt : qname_eqb (of_qname (fst kv)) q_xsi_type = false).
      { rewrite <- split_xsi_type. apply qname_eqb_split. intros E. unfold reserved_name in Hres.
        rewrite E, str_eqb_refl, orb_true_r in Hres. discriminate. }
      rewrite Hnt. cbn [andb]. repeat split. }
    assert (Hndk : NoDup (map fst (map (fun kv : qname * str => (Bind.split_qname (fst kv), [AText (snd kv)])) a))).
    { rewrite map_map. cbn [fst]. rewrite <- (map_map fst Bind.split_qname).
      apply FinFun.Injective_map_NoDup; [|exact Hnd]. intros a0 b0. apply split_qname_inj. }
    assert (Hnonil : forall ea, In ea (map (fun kv : qname * str => (Bind.split_qname (fst kv), [AText (snd kv)])) a) -> fst ea <> q_xsi_nil).
    { intros ea Hea. apply in_map_iff in Hea as [kv [<- Hkv]]. cbn [fst].
      rewrite forallb_forall in Hat. specialize (Hat kv Hkv). unfold any_attr_ok in Hat. apply andb_true_iff in Hat as [Hres _].
      apply negb_true_iff in Hres. rewrite <- split_xsi_nil. intros Es. apply split_qname_inj in Es.
      unfold reserved_name in Hres. rewrite Es, str_eqb_refl in Hres. discriminate. }
    assert (Hkids : flat_map den (map (g_any) ch) = map e_any ch
                    /\ forallb (fun k0 => attrs_present (item_of c k0)) (map g_any ch) = true).
    { assert (Hd' : forall y, In y ch -> (odepth y <= k)%nat).
      { intros y Hy. pose proof (odepth_anychild (Some q) (Some s) None a ch y Hy). lia. }
      clear Hs Hd Hf. induction ch as [|y r IHc]; [split; reflexivity|]. cbn [map flat_map forallb].
      destruct (IH y (Hd' y (or_introl eq_refl)) (Hch y (or_introl eq_refl))) as [E1 E2].
      destruct (IHc (fun z Hz => Hch z (or_intror Hz)) (fun z Hz => Hd' z (or_intror Hz))) as [E3 E4].
      rewrite E1, E2, E3, E4. split; reflexivity. }
    destruct Hkids as [Hk1 Hk2].
    split.
    - unfold den. cbn [item_of denote map].
      rewrite (spec_attrs_rel _ _ [] Hrel Hndk). cbn [app].
      rewrite (nil_filter_none _ _ Hnonil). f_equal. f_equal.
      cbn [flat_map denote of_wval of_prim atoms_of_value]. rewrite flat_map_map. fold den.
      change (flat_map (fun x0 : bitem => denote (item_of c x0)) (map g_any ch)) with (flat_map den (map g_any ch)).
      rewrite Hk1. destruct s; reflexivity.
    - unfold attrs_present, t_attrs_present. cbn [item_of all_nodes map].
      rewrite (attrs_present_rel _ _ Hrel). cbn [andb forallb].
      rewrite forallb_map'. exact Hk2.
  Qed.

  (* ---------------------------------------------------------------- content *)
  (* kids the specification reads something from count as content for the writer *)
  Lemma content_of_den ks : flat_map denote ks <> [] -> existsb kid_content ks = true.
  Proof.
    induction ks as [|k r IH]; [intros H; exfalso; apply H; reflexivity|].
    cbn [flat_map existsb]. intros H. destruct k as [v|q ats kk]; [|reflexivity].
    cbn [kid_content denote] in *. destruct (atoms_of_value v) as [l|] eqn:E.
    - assert (Hn : value_none v = false).
      { destruct (value_none v) eqn:Hn; [|reflexivity]. apply atoms_of_value_none in Hn. congruence. }
      rewrite Hn. reflexivity.
    - cbn [app] in H. rewrite (IH H). apply orb_true_r.
  Qed.

  Lemma e_items_nonempty rec var x : v_is KText var = false -> occ var x <> [] -> x <> VNone ->
    e_items c u rec var x <> [].
  Proof.
    intros Hk Ho Hx. unfold RoundtripGen.e_items, occ in *. rewrite Hk.
    destruct x as [|p|tt l|cl fs|q0 tx tl at0 ch|q0 v0 ty|mm]; [congruence|..];
      destruct (v_tokens_factory var); try discriminate.
    - destruct l as [|y l']; [exfalso; apply Ho; reflexivity|]. destruct y; discriminate.
    - destruct l; [exfalso; apply Ho; reflexivity|discriminate].
  Qed.

  Lemma e_wrap_nonempty var l : l <> [] -> e_wrap var l <> [].
  Proof. intros H. unfold RoundtripGen.e_wrap. destruct (v_wrapper_qname var) as [[|ch w]|]; try exact H; discriminate. Qed.

  Lemma filter_nil_last (eats : list (XmlNs.qname * list atom)) a :
    (forall x, In x eats -> fst x <> q_xsi_nil) ->
    nil_filter true (eats ++ [(q_xsi_nil, a)]) = eats.
  Proof.
    intros H. unfold nil_filter. rewrite filter_app. cbn [filter fst].
    assert (Eq : qname_eqb q_xsi_nil q_xsi_nil = true) by (vm_compute; reflexivity).
    rewrite Eq. cbn [negb]. rewrite app_nil_r.
    induction eats as [|x r IH]; [reflexivity|]. cbn [filter].
    rewrite (qname_eqb_neq (fst x) q_xsi_nil (H x (or_introl eq_refl))). cbn [negb]. f_equal.
    apply IH. intros y Hy. apply H. right; exact Hy.
  Qed.

  Definition nil_attr_b (b : bool) : list (XmlNs.qname * list atom) :=
    if b then [(q_xsi_nil, [AText EventGen.TRUE_STR])] else [].

  (* ---------------------------------------------------------------- one object *)
  (* b: the serializer marks the element xsi:nil="true" (nillable field or class); the instance then has
     content and the writer drops the mark *)
  Definition nil_case (b : bool) (o : value) : Prop :=
    b = false \/ has_content u o = true \/ (has_content u o = false /\ strict_empty u o = true).
  Lemma nil_case_item var y cl' n : fits n cl' y = true -> (v_nillable var = true -> has_content u y = true \/ cnil u y = true) ->
    nil_case (v_nillable var || cnil u y) y.
  Proof.
    intros Hr Hcy. unfold nil_case.
    destruct (cnil u y) eqn:Ec.
    - rewrite orb_true_r. right. destruct (fits_content c u ok pyspace _ _ _ Hr Ec) as [H|[H1 [H2 _]]]; [left; exact H|right; split; assumption].
    - rewrite orb_false_r. destruct (v_nillable var); [|left; reflexivity]. right. left.
      destruct (Hcy eq_refl) as [H|H]; [exact H|discriminate H].
  Qed.
  Lemma den_obj : forall n cl o qn xsi b,
    wfr cl -> fits n cl o = true -> nil_case b o ->
    den (add_nil_g b (add_xsi_g xsi (gobj n qn o))) = [add_nil_e (nil_kept u b o) (add_xsi_e xsi (eobj n qn o))]
    /\ attrs_present (item_of c (add_nil_g b (add_xsi_g xsi (gobj n qn o)))) = true.
  Proof.
    induction n as [|n IH]; intros cl o qn xsi b Hwf Hfit Hb; [discriminate|].
    destruct (fits_inv c u ok pyspace n cl o Hfit) as [fs [m [-> [Hm [Hnames [Hfa [Hfe Hft]]]]]]].
    destruct (wfr_inv u cl Hwf) as [m' [Hm' [Hmc [Hwc Hnest]]]]. rewrite Hm in Hm'. inversion Hm'; subst m'. clear Hm'.
    cbn [RoundtripGen.gobj RoundtripGen.eobj]. rewrite Hm. cbn [add_xsi_g add_xsi_e add_nil_g add_nil_e].
    set (q := match qn with Some ((_ :: _) as q) => q | _ => m_qname m end).
    set (gats0 := flat_map (fun var => g_attr c u ign var (field_of fs var)) (get_attribute_vars m)).
    set (gats := gats0 ++ xsi_attr_g xsi).
    set (gnil := if b then [(XSI_NIL, WP (PStr EventGen.TRUE_STR))] else []).
    assert (Hfw : forall wv, m_wildcards m = [wv] -> fits_wild u m wv (field_of fs wv) = true)
      by (intros wv Hwv; apply (fits_wildvar c u ok pyspace n cl fs m wv Hfit Hm Hwv)).
    pose proof (class_pairs_fits c u ok _ _ cl fs m Hwc Hnames Hfe Hfw) as Hps.
    set (gks := flat_map (fun vv => g_field c u (gobj n) (fst vv) (snd vv)) (pairs cl fs m)).
    (* attributes *)
    assert (Hmapv : forall var, is_mapvar m var ->
              exists mm, field_of fs var = VMap mm /\ NoDup (map fst mm)
                /\ forall kv, In kv mm -> assoc (fst kv) (m_attributes m) = None /\ reserved_name (fst kv) = false).
    { intros var [Hav Hwv]. destruct (fits_map_inv ok m var _ (fits_mapvar c u ok pyspace n cl fs m var Hfit Hm Hav)) as [mm [E [Hnd Hall]]].
      exists mm. split; [exact E|]. split; [exact Hnd|]. intros kv Hkv. destruct (Hall kv Hkv) as [_ [H1 [H2 _]]]. split; assumption. }
    assert (Hrel0 : Forall2 attr_rel (map (fun a => (of_qname (fst a), of_wval c (snd a))) gats0)
                     (flat_map (fun var => e_attr c u ign var (field_of fs var)) (get_attribute_vars m))).
    { unfold gats0. rewrite map_flat_map_l. apply Forall2_flat_map. intros var Hin.
      destruct (wf_class_avar m var Hwc Hin) as [[Hwa Hina]|Hmv].
      - apply attr_rel_field; [exact Hwa|]. apply (Hfa _ Hina).
      - destruct (Hmapv var Hmv) as [mm [E [_ Hall]]]. rewrite E. cbn [g_attr e_attr]. clear E.
        induction mm as [|kv mm IHmm]; [constructor|]. cbn [map]. constructor.
        + unfold attr_rel. cbn [fst snd of_wval of_prim attr_atoms].
          destruct (Hall kv (or_introl eq_refl)) as [_ Hr].
          assert (Hnt : qname_eqb (of_qname (fst kv)) q_xsi_type = false).
          { rewrite <- split_xsi_type. apply qname_eqb_split. intros E. unfold reserved_name in Hr.
            rewrite E, str_eqb_refl, orb_true_r in Hr. discriminate. }
          rewrite Hnt. cbn [andb]. repeat split.
        + apply IHmm. intros kv' Hkv'. apply Hall. right; exact Hkv'. }
    assert (Hrel : Forall2 attr_rel (map (fun a => (of_qname (fst a), of_wval c (snd a))) gats)
                     (flat_map (fun var => e_attr c u ign var (field_of fs var)) (get_attribute_vars m) ++ xsi_attr_e xsi)).
    { unfold gats. rewrite map_app. apply Forall2_app; [exact Hrel0|].
      destruct xsi as [[|ch xq]|]; cbn [xsi_attr_g xsi_attr_e map]; try constructor; [|constructor].
      unfold attr_rel. cbn [fst snd]. repeat split. }
    (* the keys: declared attributes by their (distinct) names, map entries by their (distinct) keys that no
       declared attribute claims *)
    assert (Hkeys : forall e, In e (m_attributes m) ->
              e_attr c u ign (snd e) (field_of fs (snd e)) = []
              \/ exists b, e_attr c u ign (snd e) (field_of fs (snd e)) = [b] /\ fst b = Bind.split_qname (fst e)).
    { intros e He. destruct (wf_class_inv m Hwc) as [F1 F2 F3 F4 F5 F6 F7 F8 F9 F10 F11 F12 F13].
      rewrite forallb_forall in F9. specialize (F9 e He). apply andb_true_iff in F9 as [Hq Hw]. apply str_eqb_eq in Hq.
      pose proof (Hfa e He) as Hfv.
      unfold e_attr. destruct (field_of fs (snd e)) eqn:Ex; try (left; reflexivity).
      6:{ exfalso. unfold Fits.fits_attr in Hfv. destruct (v_tokens_factory (snd e)); discriminate Hfv. }
      all: (destruct (is_array _ && negb (py_truthy _)); [left; reflexivity|];
            destruct (ign && opt_skip (snd e) _); [left; reflexivity|]; right; eexists; split; [reflexivity|]; change (Bind.split_qname (v_qname (snd e)) = Bind.split_qname (fst e)); f_equal; exact Hq). }
    assert (Hnd0 : NoDup (map fst (flat_map (fun var => e_attr c u ign var (field_of fs var)) (get_attribute_vars m)))).
    { destruct (wf_class_inv m Hwc) as [F1 F2 F3 F4 F5 F6 F7 F8 F9 F10 F11 F12 F13].
      rewrite (avars_eq m Hwc).
      eapply Permutation.Permutation_NoDup.
      { apply Permutation.Permutation_map. apply Permutation.Permutation_flat_map. apply Permutation.Permutation_sym. apply sort_perm. }
      rewrite flat_map_app, map_app.
      assert (Hdecl : NoDup (map fst (flat_map (fun var => e_attr c u ign var (field_of fs var)) (map snd (m_attributes m))))).
      { rewrite flat_map_map.
        apply (nodup_flat_opt (fun e : qname * xvar => Bind.split_qname (fst e)) fst); [|exact Hkeys].
        rewrite <- (map_map fst Bind.split_qname). apply FinFun.Injective_map_NoDup; [|exact F10].
        intros a0 b0. apply split_qname_inj. }
      destruct F3 as [E|[av [E Hwv]]]; rewrite E; cbn [flat_map app map]; [exact Hdecl|]. rewrite app_nil_r.
      destruct (Hmapv av (conj E Hwv)) as [mm [Ex [Hndm Hall]]]. rewrite Ex. cbn [e_attr].
      apply NoDup_app_intro'; [|exact Hdecl|].
      - rewrite map_map. cbn [fst]. rewrite <- (map_map fst Bind.split_qname).
        apply FinFun.Injective_map_NoDup; [|exact Hndm]. intros a0 b0. apply split_qname_inj.
      - intros x Hx1 Hx2. rewrite map_map in Hx1. cbn [fst] in Hx1. apply in_map_iff in Hx1 as [kv [Ek Hkv]].
        apply in_map_iff in Hx2 as [b1 [Eb Hb1]]. apply in_flat_map in Hb1 as [var [Hvar Hb1]].
        apply in_map_iff in Hvar as [e [Ee He]]. subst var.
        destruct (Hkeys e He) as [E0|[b2 [E0 Hk2]]]; rewrite E0 in Hb1; [destruct Hb1|]. destruct Hb1 as [<-|[]].
        rewrite Hk2 in Eb. rewrite <- Eb in Ek. apply split_qname_inj in Ek.
        destruct (Hall kv Hkv) as [Hna _].
        destruct (assoc_some_in (fst kv) (m_attributes m)) as [v0 Hv0]; [rewrite Ek; apply in_map; exact He|congruence]. }
    assert (Hnores : forall a, In a (flat_map (fun var => e_attr c u ign var (field_of fs var)) (get_attribute_vars m)) ->
                fst a <> q_xsi_nil /\ fst a <> Bind.split_qname XSI_TYPE).
    { intros a Ha. apply in_flat_map in Ha as [var [Hvar Ha]].
      assert (Hres : forall k, In a (e_attr c u ign var (field_of fs var)) -> fst a = Bind.split_qname k -> reserved_name k = false ->
                fst a <> q_xsi_nil /\ fst a <> Bind.split_qname XSI_TYPE).
      { intros k _ Hk Hr. rewrite Hk. split.
        - rewrite <- split_xsi_nil. intros Es. apply split_qname_inj in Es.
          unfold reserved_name in Hr. rewrite Es, str_eqb_refl in Hr. discriminate.
        - intros Es. apply split_qname_inj in Es.
          unfold reserved_name in Hr. rewrite Es, str_eqb_refl, orb_true_r in Hr. discriminate. }
      destruct (wf_class_avar m var Hwc Hvar) as [[Hwa Hina]|Hmv].
      - destruct (Hkeys _ Hina) as [E|[b1 [E Hk]]]; cbn [snd] in E; rewrite E in Ha; [destruct Ha|]. destruct Ha as [<-|[]].
        destruct (wf_attr_inv var Hwa) as [_ [_ [_ [_ [Hr _]]]]]. cbn [fst] in Hk.
        apply (Hres (v_qname var)); [rewrite E; left; reflexivity|exact Hk|exact Hr].
      - destruct (Hmapv var Hmv) as [mm [Ex [_ Hall]]]. rewrite Ex in Ha. cbn [e_attr] in Ha.
        apply in_map_iff in Ha as [kv [<- Hkv]]. destruct (Hall kv Hkv) as [_ Hr]. cbn [fst].
        split.
        + rewrite <- split_xsi_nil. intros Es. apply split_qname_inj in Es.
          unfold reserved_name in Hr. rewrite Es, str_eqb_refl in Hr. discriminate.
        + intros Es. apply split_qname_inj in Es.
          unfold reserved_name in Hr. rewrite Es, str_eqb_refl, orb_true_r in Hr. discriminate. }
    assert (Hnd : NoDup (map fst (flat_map (fun var => e_attr c u ign var (field_of fs var)) (get_attribute_vars m) ++ xsi_attr_e xsi))).
    { rewrite map_app. destruct xsi as [[|ch xq]|]; cbn [xsi_attr_e map]; rewrite ?app_nil_r; try exact Hnd0.
      apply NoDup_app_intro'; [exact Hnd0|constructor; [intros []|constructor]|].
      intros x Hx [<-|[]]. apply in_map_iff in Hx as [a [Ea Ha]]. destruct (Hnores a Ha) as [_ H2]. exact (H2 Ea). }
    assert (Hnonil : forall a, In a (flat_map (fun var => e_attr c u ign var (field_of fs var)) (get_attribute_vars m) ++ xsi_attr_e xsi) ->
                fst a <> q_xsi_nil).
    { intros a Ha. apply in_app_or in Ha as [Ha|Ha]; [apply (Hnores a Ha)|].
      destruct xsi as [[|ch xq]|]; cbn [xsi_attr_e] in Ha; [destruct Ha| |destruct Ha]. destruct Ha as [<-|[]].
      cbn [fst]. rewrite split_xsi_type. vm_compute. discriminate. }
    (* content *)
      assert (Hper : forall var x, In (var, x) (pairs cl fs m) ->
                flat_map den (g_field c u (gobj n) var x) = e_field c u (eobj n) var x
                /\ forallb (fun k => attrs_present (item_of c k)) (g_field c u (gobj n) var x) = true).
      { intros var x Hin.
        destruct (ps_src _ _ _ _ Hps _ Hin) as [Hvar [Hok Hsrc]]. cbn [fst snd] in Hvar, Hsrc.
        unfold okval in Hok. cbn [fst snd] in Hok.
        assert (Hcase : x <> VNone \/ (x = VNone /\ v_nillable var = true)).
        { destruct x; try (left; discriminate). destruct Hok as [H|H]; [congruence|right; split; [reflexivity|exact H]]. }
        clear Hok. destruct Hcase as [Hxn|[-> Hnl]].
        2:{ (* None in a nillable field *)
            cbn [g_field e_field g_items e_items]. rewrite Hnl.
            destruct (den_nil var Hnl) as [E1 E2].
            apply (den_wrap var [g_prim c u var VNone] [e_prim c u var VNone]); cbn [flat_map forallb];
              [rewrite E1; reflexivity|rewrite E2; reflexivity]. }
        cut (flat_map den (g_items c u (gobj n) var x) = e_items c u (eobj n) var x
             /\ forallb (fun k => attrs_present (item_of c k)) (g_items c u (gobj n) var x) = true).
        { intros [E1 E2]. unfold g_field, e_field. destruct x eqn:Ex; [congruence| | | | | |];
            rewrite <- Ex in *; apply (den_wrap var _ _ E1 E2). }
        assert (Hpr : forall y, enc_shape (v_format var) y -> (v_nillable var = false \/ (exists p, y = VP p) \/ py_truthy y = true) ->
                  flat_map den [g_prim c u var y] = [e_prim c u var y]
                  /\ forallb (fun k => attrs_present (item_of c k)) [g_prim c u var y] = true).
        { intros y Hy Hnl. cbn [flat_map forallb]. destruct (den_prim var y Hy Hnl) as [E1 E2]. rewrite E1, E2. split; reflexivity. }
        destruct (wf_class_evar m var Hwc Hvar) as [[Hwe Hine]|[[Htx [Hwt Hnoe]]|Hwv]].
        3:{ (* the wildcard field: generic elements *)
            pose proof Hwv as [Ewv [Hww _]].
            destruct (wf_wild_inv var Hww) as [_ [_ [_ [_ [_ [Htf [_ [_ [Hkt _]]]]]]]]].
            pose proof (Hfw var Ewv) as Hfv. unfold fits_wild in Hfv.
            unfold g_items, e_items. rewrite Hkt, Htf.
            assert (Hone : forall y, fits_any_top u m var y = true ->
                      den (g_item c u (gobj n) var y) = [e_item c u (eobj n) var y]
                      /\ attrs_present (item_of c (g_item c u (gobj n) var y)) = true).
            { intros y Hy. unfold fits_any_top in Hy. apply andb_true_iff in Hy as [Hy _].
              destruct (fits_anyel_inv y Hy) as [q0 [s0 [a0 [ch0 [Ey _]]]]]. rewrite Ey. cbn [g_item e_item]. rewrite <- Ey.
              apply (den_any (odepth y) y (le_n _) Hy). }
            destruct Hsrc as [Hw|[f0 [t0 [l0 [Hf0 [_ [_ [El Hil]]]]]]]]; cbn [fst snd] in *.
            - unfold pair_whole in Hw. cbn [fst snd] in Hw. rewrite <- Hw in Hfv.
              destruct (v_factory var).
              + destruct x as [| |tt l| | | |]; try discriminate Hfv. destruct tt; [discriminate Hfv|].
                rewrite forallb_forall in Hfv. clear Hxn Hin Hw.
                induction l as [|y l IHl]; [split; reflexivity|].
                cbn [map flat_map forallb]. destruct (Hone y (Hfv y (or_introl eq_refl))) as [E1 E2].
                destruct (IHl (fun z Hz => Hfv z (or_intror Hz))) as [E3 E4].
                rewrite E1, E2, E3, E4. split; reflexivity.
              + assert (Hfx : fits_any_top u m var x = true) by (destruct x; try exact Hfv; congruence).
                destruct (Hone x Hfx) as [E1 E2].
                assert (Ex : match x with VList _ _ => False | _ => True end).
                { unfold fits_any_top in Hfx. apply andb_true_iff in Hfx as [Hfx _]. destruct x; try discriminate Hfx; exact I. }
                destruct x; try congruence; try destruct Ex; cbn [flat_map forallb]; rewrite E1, E2; split; reflexivity.
            - rewrite El, Hf0 in Hfv. destruct t0; [discriminate Hfv|]. rewrite forallb_forall in Hfv. specialize (Hfv x Hil).
              destruct (Hone x Hfv) as [E1 E2].
              assert (Ex : match x with VList _ _ => False | _ => True end).
              { unfold fits_any_top in Hfv. apply andb_true_iff in Hfv as [Hfv _]. destruct x; try discriminate Hfv; exact I. }
              destruct x; try congruence; try destruct Ex; cbn [flat_map forallb]; rewrite E1, E2; split; reflexivity. }
        - destruct (wf_elem_inv var Hwe) as [Hk [Hc Hty]].
          pose proof (Hfe _ var Hine (or_introl eq_refl)) as Hfv0.
          assert (Hkt : v_is KText var = false) by (destruct Hk as [_ [Hkt _]]; exact Hkt).
          unfold g_items, e_items. rewrite Hkt.
          destruct Hty as [[k [Htys [Hcl Htf]]]|Hty2].
          + rewrite Htf.
            assert (Hobj : forall y, fits_item c u ok (fits n) var y = true ->
                      den (g_item c u (gobj n) var y) = [e_item c u (eobj n) var y]
                      /\ attrs_present (item_of c (g_item c u (gobj n) var y)) = true).
            { intros y Hfy.
              pose proof (fits_item_content c u ok _ var k y Htys Hfy) as Hcy.
              destruct (fits_item_class c u ok _ var k y Htys Hfy) as [cl' [fs' [-> [[-> Hr]|[Hdok Hr]]]]].
              - cbn [g_item e_item].
                pose proof (nil_case_item var (VObj k fs') k n Hr Hcy) as Hby.
                apply (IH k); [|exact Hr|exact Hby].
                apply (Hnest _ var k Hine (or_introl eq_refl) Hcl).
              - cbn [g_item e_item].
                pose proof (nil_case_item var (VObj cl' fs') cl' n Hr Hcy) as Hby.
                apply (IH cl'); [|exact Hr|exact Hby].
                destruct (derived_ok_inv c u ok var k cl' Hdok) as [Hne [Hsub [mk [mkd [t [Hmk _]]]]]].
                apply (wfr_sub u cl m _ var k cl' Hwf Hm Hine (or_introl eq_refl) Hcl); [congruence|exact Hne|exact Hsub]. }
            destruct Hsrc as [Hw|[f0 [t0 [l0 [Hf0 [_ [_ [El Hil]]]]]]]]; cbn [fst snd] in *.
            2:{ rewrite El in Hfv0. unfold Fits.fits_elem in Hfv0. rewrite Hf0, Htf in Hfv0.
                apply andb_true_iff in Hfv0 as [_ Hfl]. rewrite forallb_forall in Hfl. specialize (Hfl x Hil).
                destruct (fits_item_class c u ok _ var k x Htys Hfl) as [cl' [fs' [Ex _]]].
                destruct (Hobj x Hfl) as [E1 E2]. subst x. cbn [flat_map forallb]. rewrite E1, E2. split; reflexivity. }
            unfold pair_whole in Hw. cbn [fst snd] in Hw. rewrite <- Hw in Hfv0. rename Hfv0 into Hfv. clear Hin Hw.
            unfold Fits.fits_elem in Hfv. rewrite Htf in Hfv.
            destruct (v_factory var).
            * destruct x as [| |tt l| | | |]; try discriminate Hfv. apply andb_true_iff in Hfv as [_ Hfl].
              rewrite forallb_forall in Hfl. clear Hpr Hxn.
              induction l as [|y l IHl]; [split; reflexivity|].
              cbn [map flat_map forallb]. destruct (Hobj y (Hfl y (or_introl eq_refl))) as [E1 E2].
              destruct (IHl (fun z Hz => Hfl z (or_intror Hz))) as [E3 E4].
              rewrite E1, E2, E3, E4. split; reflexivity.
            * destruct x as [| | |cl' fs'| | |] eqn:Ex;
                try (unfold Fits.fits_item, vtype in Hfv; rewrite Htys in Hfv; discriminate Hfv); [congruence|].
              cbn [flat_map forallb]. destruct (Hobj _ Hfv) as [E1 E2]. rewrite E1, E2. split; reflexivity.
          + assert (Hit : forall y, fits_item c u ok (fits n) var y = true ->
                      g_item c u (gobj n) var y = g_prim c u var y /\ e_item c u (eobj n) var y = e_prim c u var y
                      /\ enc_shape (v_format var) y).
            { intros y Hfy. destruct Hty2 as [[t' [Htys' [Hst _]]]|[[Htys' _]|[Htys' _]]].
              - destruct (fits_item_simple c u ok _ var t' y Htys' Hst Hfy) as [p [-> Hp]].
                repeat split. eapply es_leaf; exact Hp.
              - destruct (fits_item_qname c u ok _ var y Htys' Hfy) as [q1 [-> _]]. repeat split. apply es_qname.
              - destruct (fits_item_any c u ok _ var y Htys' Hfy) as [sx [-> [Hp _]]].
                repeat split. eapply es_leaf; exact Hp. }
            assert (Hitp : forall y, fits_item c u ok (fits n) var y = true -> exists p, y = VP p).
            { intros y Hfy. destruct Hty2 as [[t' [Htys' [Hst _]]]|[[Htys' _]|[Htys' _]]].
              - destruct (fits_item_simple c u ok _ var t' y Htys' Hst Hfy) as [p [-> _]]. eexists; reflexivity.
              - destruct (fits_item_qname c u ok _ var y Htys' Hfy) as [q1 [-> _]]. eexists; reflexivity.
              - destruct (fits_item_any c u ok _ var y Htys' Hfy) as [sx [-> _]]. eexists; reflexivity. }
            assert (Htt : exists t, v_types var = [t])
              by (destruct Hty2 as [[t [H1 _]]|[[H1 _]|[H1 _]]]; eexists; eassumption).
            destruct Htt as [t Htys].
            destruct Hsrc as [Hw|[f0 [t0 [l0 [Hf0 [Htf0 [_ [El Hil]]]]]]]]; cbn [fst snd] in *.
            2:{ rewrite El in Hfv0. unfold Fits.fits_elem in Hfv0. rewrite Hf0, Htf0 in Hfv0.
                apply andb_true_iff in Hfv0 as [_ Hfl]. rewrite forallb_forall in Hfl. specialize (Hfl x Hil).
                destruct (Hit x Hfl) as [_ [_ Hshx]]. destruct (Hitp x Hfl) as [p Ex]. subst x. rewrite Htf0.
                apply (Hpr (VP p) Hshx). right. left. eexists; reflexivity. }
            unfold pair_whole in Hw. cbn [fst snd] in Hw. rewrite <- Hw in Hfv0. rename Hfv0 into Hfv. clear Hin Hw.
            unfold Fits.fits_elem in Hfv.
            destruct (v_tokens_factory var) as [tf|] eqn:Etf.
            * destruct (v_factory var) as [fa|] eqn:Efa.
              -- destruct x as [| |tt l| | | |]; try discriminate Hfv. apply andb_true_iff in Hfv as [_ Hfl].
                 destruct l as [|y l']; [split; reflexivity|].
                 rewrite forallb_forall in Hfl.
                 destruct (fits_tokens_inv c u ok pyspace var tf y t Htys (Hfl y (or_introl eq_refl))) as [ty [ly [-> _]]].
                 clear Hxn. set (l := VList ty ly :: l') in *. clearbody l.
                 induction l as [|z l IHl]; [split; reflexivity|].
                 destruct (fits_tokens_inv c u ok pyspace var tf z t Htys (Hfl z (or_introl eq_refl))) as [tz [lz [-> [Hnez [Htk _]]]]].
                 cbn [map flat_map forallb]. fold (den (g_prim c u var (VList tz lz))).
                 destruct (den_prim var (VList tz lz)) as [Ed1 Ed2];
                   [eapply es_tokens; exact Htk|right; right; destruct lz; [exfalso; apply Hnez; reflexivity|reflexivity]|].
                 rewrite Ed1, Ed2.
                 destruct (IHl (fun w Hw => Hfl w (or_intror Hw))) as [E3 E4]. rewrite E3, E4. split; reflexivity.
              -- destruct x as [| |tt l| | | |] eqn:Ex; try (cbn in Hfv; discriminate Hfv).
                 destruct l as [|y l']; [split; reflexivity|].
                 destruct (fits_tokens_inv c u ok pyspace var tf _ t Htys Hfv) as [tt' [l'' [E [_ [Htk _]]]]]. inversion E; subst tt' l''.
                 assert (Hy : match y with VList _ _ => False | _ => True end).
                 { cbn [forallb] in Htk. apply andb_true_iff in Htk as [Hy _].
                   destruct (token_is_leaf c u ok pyspace _ _ _ Hy) as [p [-> _]]. exact I. }
                 assert (Hsh : enc_shape (v_format var) (VList tt (y :: l'))) by (eapply es_tokens; exact Htk).
                 destruct y; try destruct Hy; apply (Hpr _ Hsh); right; right; reflexivity.
            * destruct (v_factory var) as [fa|] eqn:Efa.
              -- destruct x as [| |tt l| | | |]; try discriminate Hfv. apply andb_true_iff in Hfv as [_ Hfl].
                 rewrite forallb_forall in Hfl. clear Hxn.
                 induction l as [|y l IHl]; [split; reflexivity|].
                 destruct (Hit y (Hfl y (or_introl eq_refl))) as [E1 [E2 Hsh]].
                 cbn [map flat_map forallb]. rewrite E1, E2.
                 fold (den (g_prim c u var y)).
                 destruct (den_prim var y Hsh) as [Ed1 Ed2]; [right; left; apply (Hitp y (Hfl y (or_introl eq_refl)))|].
                 rewrite Ed1, Ed2.
                 destruct (IHl (fun z Hz => Hfl z (or_intror Hz))) as [E3 E4]. rewrite E3, E4. split; reflexivity.
              -- destruct x eqn:Ex; try congruence.
                 all: destruct (Hit _ Hfv) as [_ [_ Hshx]]; destruct (Hitp _ Hfv) as [p0 Ep]; try discriminate Ep.
                 inversion Ep; subst. apply (Hpr (VP p0) Hshx). right. left. eexists; reflexivity.
        - destruct (wf_text_inv var Hwt) as [Hwtk [Hwt0 [t [Htys Hwtd]]]].
          unfold g_items, e_items. rewrite Hwtk.
          assert (Hxe : x = field_of fs var).
          { destruct Hsrc as [Hw|[f1 [t1 [l1 [Hf1 _]]]]]; [exact Hw|]. cbn [fst] in Hf1.
            rewrite (wf_text_nofactory var Hwt) in Hf1. discriminate Hf1. }
          rewrite Htx in Hft. rewrite <- Hxe in Hft. unfold Fits.fits_text, vtype in Hft. rewrite Htys in Hft.
          assert (Hsh : x <> VNone -> enc_shape (v_format var) x).
          { intros Hx. destruct (v_tokens_factory var).
            - destruct x as [| |tt l| | | |]; try discriminate Hft. apply andb_true_iff in Hft as [_ Htk].
              eapply es_tokens; exact Htk.
            - destruct x as [|p| | | | |]; try discriminate Hft; [congruence|].
              destruct (ptype_eqb t TQName) eqn:Etq.
              + unfold qleaf_ok in Hft. apply andb_true_iff in Hft as [_ Hq]. destruct p as [| | | | | |q1| |]; try discriminate Hq.
                apply es_qname.
              + apply andb_true_iff in Hft as [Hp _]. eapply es_leaf; exact Hp. }
          destruct x eqn:Ex; try congruence;
            (cbn [flat_map forallb]; rewrite app_nil_r; rewrite den_data; [split; reflexivity|apply Hsh; discriminate]). }
    assert (Hkids : flat_map den gks = flat_map (fun vv => e_field c u (eobj n) (fst vv) (snd vv)) (pairs cl fs m)
                    /\ forallb (fun k => attrs_present (item_of c k)) gks = true).
    { unfold gks. rewrite flat_map_flat_map.
      split.
      - apply flat_map_ext_in. intros [var x] Hvar. apply (Hper var x Hvar).
      - rewrite forallb_forall. intros k Hk. apply in_flat_map in Hk as [[var x] [Hvar Hk]].
        destruct (Hper var x Hvar) as [_ Hall]. rewrite forallb_forall in Hall. apply Hall. exact Hk. }
    destruct Hkids as [Hk1 Hk2].
    set (eats := flat_map (fun var => e_attr c u ign var (field_of fs var)) (get_attribute_vars m) ++ xsi_attr_e xsi) in *.
    assert (Hrel2 : Forall2 attr_rel (map (fun a => (of_qname (fst a), of_wval c (snd a))) (gats ++ gnil)) (eats ++ nil_attr_b b)).
    { rewrite map_app. apply Forall2_app; [exact Hrel|]. unfold gnil, nil_attr_b. destruct b; [|constructor].
      constructor; [|constructor]. unfold attr_rel. cbn [fst snd map]. rewrite <- split_xsi_nil. repeat split. }
    assert (Hnd2 : NoDup (map fst (eats ++ nil_attr_b b))).
    { unfold nil_attr_b. destruct b; [|rewrite app_nil_r; exact Hnd].
      rewrite map_app. apply NoDup_app_intro'; [exact Hnd|constructor; [intros []|constructor]|].
      intros x Hx [<-|[]]. apply in_map_iff in Hx as [a [Ea Ha]]. exact (Hnonil a Ha Ea). }
    (* content: the instance has content when the element is marked *)
    assert (Hnocont : strict_empty u (VObj cl fs) = true -> existsb kid_content (map (item_of c) gks) = false).
    { intros Hse. cbn [strict_empty] in Hse. rewrite Hm in Hse. rewrite forallb_forall in Hse.
      destruct (existsb kid_content (map (item_of c) gks)) eqn:Eex; [|reflexivity]. exfalso.
      apply existsb_exists in Eex as [k [Hk Hkc]]. revert Hkc. enough (Hkf : kid_content k = false) by (rewrite Hkf; discriminate).
      apply in_map_iff in Hk as [k0 [<- Hk0]].
      unfold gks in Hk0. apply in_flat_map in Hk0 as [[var x] [Hin Hk0]]. cbn [fst snd] in Hk0.
      destruct (ps_src _ _ _ _ Hps _ Hin) as [Hvar [Hok Hsrc]]. cbn [fst snd] in Hvar, Hsrc. unfold okval in Hok. cbn [fst snd] in Hok.
      pose proof (Hse var Hvar) as Hv.
      destruct Hsrc as [Hw|[f0 [t0 [l0 [_ [_ [_ [El Hil]]]]]]]]; cbn [fst snd] in *.
      2:{ exfalso. rewrite El in Hv. destruct l0; [destruct Hil|discriminate Hv]. }
      unfold pair_whole in Hw. cbn [fst snd] in Hw. rewrite <- Hw in Hv.
      destruct x as [| |tt l| | | |]; try discriminate Hv.
      - exfalso. apply negb_true_iff in Hv. destruct Hok as [H|H]; congruence.
      - destruct l; [|discriminate Hv]. destruct (v_wrapper_qname var) eqn:Ew; [discriminate Hv|].
        unfold g_field, g_wrap in Hk0. rewrite Ew in Hk0. unfold g_items in Hk0.
        destruct (v_is KText var).
        + destruct Hk0 as [<-|[]]. reflexivity.
        + destruct (v_tokens_factory var); destruct Hk0. }
    assert (Hcont : b = true -> has_content u (VObj cl fs) = true -> existsb kid_content (map (item_of c) gks) = true).
    { clear Hb. intros -> Hb.
      cbn [has_content] in Hb. rewrite Hm in Hb. apply existsb_exists in Hb as [var [Hvar Hem]].
      assert (Hocc : occ var (field_of fs var) <> []).
      { unfold emits in Hem. unfold occ. destruct (field_of fs var) as [| |tt l| | | |]; try (destruct (v_tokens_factory var); discriminate).
        - rewrite Hem. discriminate.
        - destruct l as [|y l']; [discriminate Hem|]. destruct (v_tokens_factory var); [destruct y|]; discriminate. }
      rewrite <- (ps_sel _ _ _ _ Hps var Hvar) in Hocc.
      assert (Hex : exists vv, In vv (pairs cl fs m) /\ same_var (fst vv) var = true /\ occ var (snd vv) <> []).
      { clear - Hocc. unfold sel in Hocc. induction (pairs cl fs m) as [|vv r IHr]; [exfalso; apply Hocc; reflexivity|].
        cbn [flat_map] in Hocc. destruct (same_var (fst vv) var) eqn:Es.
        - destruct (occ var (snd vv)) eqn:Eo.
          + cbn [app] in Hocc. destruct (IHr Hocc) as [w [Hw H]]. exists w. split; [right; exact Hw|exact H].
          + exists vv. split; [left; reflexivity|]. split; [exact Es|]. rewrite Eo. discriminate.
        - cbn [app] in Hocc. destruct (IHr Hocc) as [w [Hw H]]. exists w. split; [right; exact Hw|exact H]. }
      destruct Hex as [[var' x] [Hin [Hsv Hox]]]. cbn [fst snd] in Hsv, Hox.
      destruct (ps_src _ _ _ _ Hps _ Hin) as [Hvar' [Hok Hsrc]]. cbn [fst snd] in Hvar', Hsrc.
      unfold okval in Hok. cbn [fst snd] in Hok.
      assert (var' = var).
      { apply (nodup_map_inj v_index (get_element_vars m)); [eapply evars_indices_nodup; exact Hwc|exact Hvar'|exact Hvar|].
        unfold same_var in Hsv. apply N.eqb_eq in Hsv. exact Hsv. }
      subst var'. clear Hsv.
      assert (Hsub : existsb kid_content (map (item_of c) (g_field c u (gobj n) var x)) = true).
      { assert (Hnontext : v_is KText var = false ->
                  existsb kid_content (map (item_of c) (g_field c u (gobj n) var x)) = true).
        { intros Hkt. apply content_of_den. rewrite flat_map_map. fold den.
          destruct (Hper var x Hin) as [Hper' _]. rewrite Hper'.
          unfold RoundtripGen.e_field.
          assert (Hcase : x = VNone \/ x <> VNone) by (destruct x; [left; reflexivity|right; discriminate..]).
          destruct Hcase as [->|Hxn].
          + destruct Hok as [Hok|Hok]; [congruence|]. rewrite Hok. apply e_wrap_nonempty.
            cbn [RoundtripGen.e_items]. rewrite Hok. discriminate.
          + assert (Hne : e_wrap var (e_items c u (eobj n) var x) <> [])
              by (apply e_wrap_nonempty; apply (e_items_nonempty _ var x Hkt Hox Hxn)).
            destruct x; [congruence|exact Hne..]. }
        destruct (wf_class_evar m var Hwc Hvar) as [[Hwe Hine]|[[Htx [Hwt Hnoe]]|[_ [Hww _]]]].
        3:{ apply Hnontext. destruct (wf_wild_inv var Hww) as [_ [_ [_ [_ [_ [_ [_ [_ [Hkt _]]]]]]]]]. exact Hkt. }
        - apply Hnontext. destruct (wf_elem_inv var Hwe) as [[_ [Hkt _]] _]. exact Hkt.
        - (* the Text field *)
          destruct (wf_text_inv var Hwt) as [Hwtk [Hwt0 [t [Htys Hwtd]]]].
          assert (Hxe : x = field_of fs var).
          { destruct Hsrc as [Hw|[f1 [t1 [l1 [Hf1 _]]]]]; [exact Hw|]. cbn [fst] in Hf1.
            rewrite (wf_text_nofactory var Hwt) in Hf1. discriminate Hf1. }
          assert (Hxn : x <> VNone).
          { destruct Hok as [Hok|Hok]; [exact Hok|]. rewrite (wf_text_nonil var Hwt) in Hok. discriminate Hok. }
          pose proof Hft as Hft'. rewrite Htx in Hft'. rewrite <- Hxe in Hft'. unfold Fits.fits_text, vtype in Hft'. rewrite Htys in Hft'.
          assert (Hsh : enc_shape (v_format var) x).
          { destruct (v_tokens_factory var).
            - destruct x as [| |tt l| | | |]; try discriminate Hft'. apply andb_true_iff in Hft' as [_ Htk].
              eapply es_tokens; exact Htk.
            - destruct x as [|p| | | | |]; try discriminate Hft'; [congruence|].
              destruct (ptype_eqb t TQName) eqn:Etq.
              + unfold qleaf_ok in Hft'. apply andb_true_iff in Hft' as [_ Hq]. destruct p as [| | | | | |q1| |]; try discriminate Hq.
                apply es_qname.
              + apply andb_true_iff in Hft' as [Hp _]. eapply es_leaf; exact Hp. }
          rewrite (g_field_some c u (gobj n) var x Hxn). unfold g_wrap. rewrite (wf_text_nowrap var Hwt).
          unfold g_items. rewrite Hwtk.
          assert (Eg : match x with VNone => (if v_nillable var then [g_prim c u var VNone] else []) | _ => [BData (enc (v_format var) x)] end
                       = [BData (enc (v_format var) x)]) by (destruct x; [congruence|reflexivity..]).
          rewrite Eg. cbn [map item_of existsb kid_content]. rewrite (of_wval_enc _ _ Hsh), orb_false_r.
          destruct Hsh as [t' p Hp|t' tf l Hl|q1]; [destruct p; reflexivity| |reflexivity].
          unfold occ in Hox. destruct (v_tokens_factory var); destruct l; try reflexivity; exfalso; apply Hox; reflexivity. }
      apply existsb_exists in Hsub as [k [Hk Hkc]]. apply existsb_exists. exists k. split; [|exact Hkc].
      apply in_map_iff in Hk as [k0 [<- Hk0]]. apply in_map. unfold gks. apply in_flat_map. exists (var, x). split; [exact Hin|exact Hk0]. }
    split.
    - unfold den. cbn [item_of denote].
      fold gnil. fold gats.
      rewrite (spec_attrs_rel _ _ [] Hrel2 Hnd2). cbn [app].
      assert (Ef : nil_filter (existsb kid_content (map (item_of c) gks)) (eats ++ nil_attr_b b)
                   = eats ++ nil_attr_k (nil_kept u b (VObj cl fs))).
      { unfold nil_kept. destruct Hb as [->|[Hc|[Hc Hse]]].
        - cbn [andb nil_attr_k]. unfold nil_attr_b. rewrite !app_nil_r. apply (nil_filter_none _ _ Hnonil).
        - rewrite Hc. cbn [negb]. rewrite andb_false_r. cbn [nil_attr_k]. rewrite app_nil_r.
          destruct b.
          + rewrite (Hcont eq_refl Hc). apply filter_nil_last. exact Hnonil.
          + unfold nil_attr_b. rewrite app_nil_r. apply (nil_filter_none _ _ Hnonil).
        - rewrite Hc, (Hnocont Hse). cbn [negb]. rewrite andb_true_r. unfold nil_filter.
          destruct b; cbn [nil_attr_b nil_attr_k]; [rewrite split_xsi_nil|]; reflexivity. }
      rewrite Ef. f_equal. f_equal.
      rewrite flat_map_map. exact Hk1.
    - unfold attrs_present, t_attrs_present. cbn [item_of all_nodes].
      fold gnil. fold gats.
      rewrite (attrs_present_rel _ _ Hrel2). cbn [andb].
      rewrite forallb_map'. exact Hk2.
  Qed.

  (* the events mean the expected tree *)
  Lemma itree_of_denote i e :
    (match i with Writer.INode _ _ _ => True | _ => False end) ->
    attrs_present i = true -> denote i = [e] -> itree_of_events (flatten i) = Some e.
  Proof.
    destruct i as [v|q ats ks]; [contradiction|]. intros _ Hp Hd.
    destruct (itree_of_flatten q ats ks Hp) as [eats [He Hi]]. rewrite Hi.
    cbn [denote] in Hd. rewrite He in Hd. inversion Hd. reflexivity.
  Qed.

  (* the element of an empty instance of a nillable class keeps xsi:nil="true" *)
  Definition etop (n : nat) (o : value) : XmlNs.enode := add_nil_e (nil_kept u (cnil u o) o) (eobj n None o).
  Theorem events_mean : forall n cl o,
    wfr cl -> fits n cl o = true ->
    itree_of_events (map (of_wevent c) (bflat (add_nil_g (cnil u o) (gobj n None o)))) = Some (etop n o).
  Proof.
    intros n cl o Hwf Hfit. unfold etop.
    assert (Hb : nil_case (cnil u o) o).
    { unfold nil_case. destruct (cnil u o) eqn:Ec; [right|left; reflexivity].
      destruct (fits_content c u ok pyspace _ _ _ Hfit Ec) as [H|[H1 [H2 _]]]; [left; exact H|right; split; assumption]. }
    destruct (den_obj n cl o None None (cnil u o) Hwf Hfit Hb) as [Hd Hp].
    rewrite add_xsi_g_none, add_xsi_e_none in Hd. rewrite add_xsi_g_none in Hp.
    rewrite flatten_item_of. apply itree_of_denote; [|exact Hp|exact Hd].
    destruct n; [discriminate|]. destruct (fits_inv c u ok pyspace n cl o Hfit) as [fs [m [-> [Hm _]]]].
    cbn [RoundtripGen.gobj add_nil_g]. rewrite Hm. exact I.
  Qed.
End Tree.
