(* Proofs/ConvDecimal.v — DecimalConverter against xs:decimal; the number scanner
   shared with float() (scan_number) against the xs:decimal / xs:double spellings. *)
From Coq Require Import NArith ZArith List Bool Lia.
From XV Require Import Base.Str Base.Dec Base.PyInt Gen.ConvTables Model.ConvDecimal Model.ConvGuards
  Spec.XsdPrims Proofs.ConvLemmas.
Import ListNotations.
Open Scope N_scope.

(* ---- numeric_as_ascii is the identity on plain ASCII without underscores ---- *)
Definition dec_plain (c : N) : bool := (0 <? c) && (c <=? 127) && negb (c =? 95).

Lemma dec_to_ascii_id s : forallb dec_plain s = true -> dec_to_ascii s = Some s.
Proof.
  induction s as [|c s IH]; [reflexivity|]. cbn [forallb dec_to_ascii]. intros H.
  apply andb_true_iff in H as [Hc Hs]. unfold dec_plain in Hc.
  apply andb_true_iff in Hc as [Hr Hu]. apply negb_true_iff in Hu. rewrite Hu.
  unfold dec_map_char. rewrite Hr, (IH Hs). reflexivity.
Qed.

Lemma digit_plain c : is_ascii_digit c = true -> dec_plain c = true.
Proof.
  intros H. apply is_ascii_digit_range in H. unfold dec_plain.
  destruct (N.ltb_spec 0 c); [|lia]. destruct (N.leb_spec c 127); [|lia].
  destruct (N.eqb_spec c 95); [lia|reflexivity].
Qed.

Lemma all_digits_plain s : all_digits s = true -> forallb dec_plain s = true.
Proof. apply forallb_impl, digit_plain. Qed.

(* ---- the scanner on a spelled number -------------------------------------- *)
Definition frac_text (fo : option str) : str := match fo with None => [] | Some f => 46 :: f end.
Definition frac_of (fo : option str) : str := match fo with None => [] | Some f => f end.
Definition exp_text (xo : option exp_sp) : str := match xo with None => [] | Some x => lex_exp x end.
Definition exp_val (xo : option exp_sp) : Z := match xo with None => 0%Z | Some x => val_exp x end.
Definition wf_exp_opt (xo : option exp_sp) : bool := match xo with None => true | Some x => wf_exp x end.

Lemma span_digits_stop a rest :
  all_digits a = true ->
  match rest with [] => True | c :: _ => is_ascii_digit c = false end ->
  span is_ascii_digit (a ++ rest) = (a, rest).
Proof.
  intros Ha Hr. destruct rest as [|c r].
  - rewrite app_nil_r. apply span_all, Ha.
  - apply span_app_stop; assumption.
Qed.

Lemma exp_text_head xo :
  match exp_text xo with [] => True | c :: _ => is_ascii_digit c = false end.
Proof. destruct xo as [[u sg ds]|]; [|exact I]. cbn. destruct u; reflexivity. Qed.

Lemma split_pm_lex sg ds :
  match ds with [] => False | c :: _ => c <> 43 /\ c <> 45 end ->
  split_pm (lex_sign sg ++ ds) = (sign_neg sg, ds).
Proof.
  intros Hd. destruct sg; cbn [lex_sign app sign_neg]; try reflexivity.
  destruct ds as [|c r]; [contradiction|]. destruct Hd as [N1 N2].
  destruct c as [|p]; [reflexivity|]. do 6 (destruct p; try reflexivity); congruence.
Qed.

Lemma digits_not_pm ds :
  all_digits ds = true -> ds <> [] -> match ds with [] => False | c :: _ => c <> 43 /\ c <> 45 end.
Proof.
  intros Hd Hne. destruct ds as [|c r]; [congruence|]. cbn in Hd. apply andb_true_iff in Hd as [Hc _].
  apply is_ascii_digit_range in Hc. lia.
Qed.

(* the scanner reads digits, an optional point and digits, an optional exponent *)
Lemma scan_number_spelled ip fo xo :
  all_digits ip = true -> all_digits (frac_of fo) = true ->
  (length ip + length (frac_of fo) =? 0)%nat = false ->
  wf_exp_opt xo = true ->
  scan_number (ip ++ frac_text fo ++ exp_text xo)
  = Some (ip ++ frac_of fo, (exp_val xo - Z.of_nat (length (frac_of fo)))%Z).
Proof.
  intros Hi Hf Hne Hx. unfold scan_number.
  assert (S1 : span is_ascii_digit (ip ++ frac_text fo ++ exp_text xo) = (ip, frac_text fo ++ exp_text xo)).
  { apply span_digits_stop; [exact Hi|]. destruct fo; cbn [frac_text app]; [reflexivity|apply exp_text_head]. }
  rewrite S1. cbv beta iota.
  assert (S2 : scan_frac (frac_text fo ++ exp_text xo) = (frac_of fo, exp_text xo)).
  { destruct fo as [f|]; cbn [frac_text frac_of app].
    - cbn [scan_frac]. apply span_digits_stop; [exact Hf|apply exp_text_head].
    - destruct xo as [[u sg ds]|]; [|reflexivity]. cbn. destruct u; reflexivity. }
  rewrite S2. cbv beta iota. rewrite Hne.
  destruct xo as [[u sg ds]|]; cbn [exp_text exp_val].
  - unfold wf_exp_opt, wf_exp in Hx. cbn [x_digits] in Hx. apply andb_true_iff in Hx as [Hd Hn].
    pose proof Hn as Hn'. apply negb_true_iff, length_zero_iff_nil_b in Hn'.
    unfold lex_exp. cbn [x_upper x_sign x_digits app].
    replace (((if u then 69 else 101) =? 101) || ((if u then 69 else 101) =? 69)) with true by (destruct u; reflexivity).
    rewrite (split_pm_lex sg ds (digits_not_pm ds Hd Hn')). cbv beta iota.
    rewrite Hd. rewrite Hn. unfold val_exp. cbn [x_sign x_digits andb]. reflexivity.
  - replace (0 - Z.of_nat (length (frac_of fo)))%Z with (- Z.of_nat (length (frac_of fo)))%Z by lia. reflexivity.
Qed.

(* ---- the sign and keyword dispatch ------------------------------------------ *)
Definition num_start (c : N) : bool := is_ascii_digit c || (c =? 46).

Lemma starts_ci_num x p c s : num_start c = true -> (97 <=? x) = true -> starts_ci (x :: p) (c :: s) = false.
Proof.
  intros Hc Hx. cbn [starts_ci]. apply N.leb_le in Hx.
  assert (ascii_lower c = c /\ c <= 57) as [E L].
  { unfold num_start in Hc. apply orb_true_iff in Hc as [Hc|Hc].
    - apply is_ascii_digit_range in Hc. unfold ascii_lower, is_ascii_upper.
      destruct (N.leb_spec 65 c); [lia|]. cbn. split; [reflexivity|lia].
    - apply N.eqb_eq in Hc. subst. split; [reflexivity|lia]. }
  rewrite E. destruct (N.eqb_spec c x); [lia|reflexivity].
Qed.

Lemma dec_parse_ascii_number sg body :
  match body with [] => False | c :: _ => num_start c = true end ->
  dec_parse_ascii (lex_sign sg ++ body) = dec_parse_number (sign_neg sg) body.
Proof.
  intros Hb. destruct body as [|c r]; [contradiction|].
  assert (K : forall neg, (if starts_ci [110;97;110] (c :: r) then option_map (DNaN neg false) (dec_payload (skipn 3 (c :: r)))
          else if starts_ci [115;110;97;110] (c :: r) then option_map (DNaN neg true) (dec_payload (skipn 4 (c :: r)))
          else if starts_ci [105;110;102] (c :: r) then
            (let t := skipn 3 (c :: r) in
             if (length t =? 0)%nat || eq_ci [105;110;105;116;121] t then Some (DInf neg) else None)
          else dec_parse_number neg (c :: r)) = dec_parse_number neg (c :: r)).
  { intros neg. rewrite !(starts_ci_num _ _ c r Hb) by reflexivity. reflexivity. }
  unfold dec_parse_ascii.
  assert (c <> 43 /\ c <> 45) as NN.
  { unfold num_start in Hb. apply orb_true_iff in Hb as [Hb|Hb].
    - apply is_ascii_digit_range in Hb. lia.
    - apply N.eqb_eq in Hb. lia. }
  rewrite (split_pm_lex sg (c :: r) NN). apply K.
Qed.

(* ---- xs:decimal spellings ------------------------------------------------------ *)
Lemma wf_decimal_parts d :
  wf_decimal d = true ->
  all_digits (dc_int d) = true /\ all_digits (frac_digits d) = true
  /\ (length (dc_int d) + length (frac_digits d) =? 0)%nat = false.
Proof.
  unfold wf_decimal, frac_digits. intros H. apply andb_true_iff in H as [Hi H].
  destruct (dc_frac d) as [f|].
  - apply andb_true_iff in H as [Hf Hn]. split; [exact Hi|]. split; [exact Hf|].
    apply negb_true_iff in Hn. destruct (dc_int d), f; cbn in *; try reflexivity; discriminate.
  - split; [exact Hi|]. split; [reflexivity|].
    apply negb_true_iff in H. destruct (dc_int d); cbn in *; [discriminate|reflexivity].
Qed.

Lemma decimal_body_start d :
  wf_decimal d = true ->
  match dc_int d ++ frac_text (dc_frac d) with [] => False | c :: _ => num_start c = true end.
Proof.
  intros H. destruct (wf_decimal_parts d H) as [Hi [Hf Hn]]. unfold frac_digits in *.
  destruct (dc_int d) as [|c r].
  - destruct (dc_frac d) as [f|]; cbn in *; [reflexivity|discriminate].
  - cbn. cbn in Hi. apply andb_true_iff in Hi as [Hc _]. unfold num_start. rewrite Hc. reflexivity.
Qed.

Lemma lex_decimal_eq d : lex_decimal d = lex_sign (dc_sign d) ++ dc_int d ++ frac_text (dc_frac d).
Proof. reflexivity. Qed.

Definition dec_text_char (c : N) : bool := is_ascii_digit c || (c =? 46) || (c =? 43) || (c =? 45).

Lemma lex_decimal_chars d : wf_decimal d = true -> forallb dec_text_char (lex_decimal d) = true.
Proof.
  intros H. destruct (wf_decimal_parts d H) as [Hi [Hf _]]. unfold lex_decimal, frac_digits in *.
  rewrite !forallb_app. repeat (apply andb_true_iff; split).
  - destruct (dc_sign d); reflexivity.
  - eapply forallb_impl; [|exact Hi]. intros c Hc. unfold dec_text_char. rewrite Hc. reflexivity.
  - destruct (dc_frac d) as [f|]; [|reflexivity]. cbn [forallb]. apply andb_true_iff. split; [reflexivity|].
    eapply forallb_impl; [|exact Hf]. intros c Hc. unfold dec_text_char. rewrite Hc. reflexivity.
Qed.

Lemma dec_text_char_plain c : dec_text_char c = true -> dec_plain c = true.
Proof.
  unfold dec_text_char. rewrite !orb_true_iff, !N.eqb_eq. intros [[[H|H]|H]|H]; subst; try reflexivity.
  apply digit_plain, H.
Qed.

Lemma dec_text_char_not_space c : dec_text_char c = true -> py_isspace c = false.
Proof.
  unfold dec_text_char. rewrite !orb_true_iff, !N.eqb_eq. intros [[[H|H]|H]|H]; subst; try reflexivity.
  apply ascii_digit_not_space, H.
Qed.

Lemma lex_decimal_nonempty d : wf_decimal d = true -> lex_decimal d <> [].
Proof.
  intros H. pose proof (decimal_body_start d H) as B. rewrite lex_decimal_eq.
  destruct (dc_int d ++ frac_text (dc_frac d)) eqn:E; [contradiction|].
  destruct (lex_sign (dc_sign d)); discriminate.
Qed.

(* every xs:decimal lexical form (any sign spelling, leading/trailing zeros, bare
   leading or trailing point) wrapped in XML whitespace is accepted with the exact
   coefficient and exponent the text denotes *)
Lemma dec_accepts_xsd d a b :
  wf_decimal d = true -> dec_sp_fits d = true ->
  forallb xml_ws a = true -> forallb xml_ws b = true ->
  dec_deser (a ++ lex_decimal d ++ b)
  = Some (let v := val_decimal d in DFin (dn_neg v) (dn_coeff v) (dn_exp v)).
Proof.
  intros Hwf Hfit Ha Hb. unfold dec_deser.
  pose proof (lex_decimal_chars d Hwf) as Hch. pose proof (lex_decimal_nonempty d Hwf) as Hne.
  assert (Hst : py_strip (a ++ lex_decimal d ++ b) = lex_decimal d).
  { apply strip_by_wrap_hd_last.
    - eapply forallb_impl; [apply xml_ws_py_isspace|exact Ha].
    - eapply forallb_impl; [apply xml_ws_py_isspace|exact Hb].
    - exact Hne.
    - apply dec_text_char_not_space. rewrite forallb_forall in Hch. apply Hch.
      destruct (lex_decimal d); [congruence|left; reflexivity].
    - apply dec_text_char_not_space. rewrite forallb_forall in Hch. apply Hch, last_in, Hne. }
  rewrite Hst, dec_to_ascii_id by (eapply forallb_impl; [apply dec_text_char_plain|exact Hch]).
  rewrite lex_decimal_eq.
  rewrite dec_parse_ascii_number by (apply decimal_body_start, Hwf).
  unfold dec_parse_number.
  destruct (wf_decimal_parts d Hwf) as [Hi [Hf Hn]].
  pose proof (scan_number_spelled (dc_int d) (dc_frac d) None Hi Hf Hn eq_refl) as S.
  cbn [exp_text exp_val] in S. rewrite app_nil_r in S.
  change (frac_of (dc_frac d)) with (frac_digits d) in S. rewrite S.
  unfold dec_finish. unfold dec_sp_fits, val_decimal in Hfit. cbn [dn_coeff dn_exp] in Hfit.
  replace (0 - Z.of_nat (length (frac_digits d)))%Z with (- Z.of_nat (length (frac_digits d)))%Z by lia.
  rewrite Hfit. reflexivity.
Qed.

(* ---- serialize: the spelling format(d, "f") uses ------------------------------- *)
Definition dec_canon (neg : bool) (c : N) (e : Z) : decimal_sp :=
  let sg := if neg then SgMinus else SgNone in
  let ds := to_dec c in
  if (0 <=? e)%Z then
    mk_decimal_sp sg (if c =? 0 then [48] else ds ++ repeat_chr 48 (Z.to_nat e)) None
  else
    let k := Z.to_nat (- e) in
    let n := length ds in
    if (k <? n)%nat then mk_decimal_sp sg (firstn (n - k) ds) (Some (skipn (n - k) ds))
    else mk_decimal_sp sg [48] (Some (repeat_chr 48 (k - n) ++ ds)).

(* the value read back: a positive exponent is spent on trailing zeros *)
Definition dec_norm (c : N) (e : Z) : N * Z :=
  if (0 <? e)%Z then (c * 10 ^ Z.to_N e, 0%Z) else (c, e).

Lemma dec_canon_lex neg c e : lex_decimal (dec_canon neg c e) = dec_ser (DFin neg c e).
Proof.
  unfold dec_canon, dec_ser, dec_format_f, lex_decimal.
  destruct (0 <=? e)%Z.
  - cbn [dc_sign dc_int dc_frac]. rewrite app_nil_r. destruct neg; reflexivity.
  - destruct (Z.to_nat (- e) <? length (to_dec c))%nat; cbn [dc_sign dc_int dc_frac]; destruct neg; reflexivity.
Qed.

Lemma all_digits_zeros k : all_digits (repeat_chr 48 k) = true.
Proof. apply repeat_chr_forallb. reflexivity. Qed.

Lemma all_digits_firstn_skipn n s :
  all_digits s = true -> all_digits (firstn n s) = true /\ all_digits (skipn n s) = true.
Proof.
  intros H. rewrite <- (firstn_skipn n s) in H. rewrite all_digits_app in H.
  apply andb_true_iff in H. exact H.
Qed.
Lemma all_digits_firstn n s : all_digits s = true -> all_digits (firstn n s) = true.
Proof. intros H. apply (all_digits_firstn_skipn n s H). Qed.
Lemma all_digits_skipn n s : all_digits s = true -> all_digits (skipn n s) = true.
Proof. intros H. apply (all_digits_firstn_skipn n s H). Qed.

Lemma dec_canon_wf neg c e : wf_decimal (dec_canon neg c e) = true.
Proof.
  unfold dec_canon, wf_decimal. pose proof (to_dec_digits c) as D. pose proof (to_dec_length_pos c) as L.
  destruct (0 <=? e)%Z; cbn [dc_int dc_frac].
  - destruct (c =? 0); [reflexivity|]. rewrite all_digits_app, D, all_digits_zeros. cbn [andb].
    rewrite app_length. destruct (length (to_dec c)); [lia|reflexivity].
  - destruct (Nat.ltb_spec (Z.to_nat (- e)) (length (to_dec c))) as [Hk|Hk]; cbn [dc_int dc_frac].
    + rewrite all_digits_firstn, all_digits_skipn by exact D. cbn [andb].
      rewrite firstn_length. replace (Nat.min _ _) with (length (to_dec c) - Z.to_nat (- e))%nat by lia.
      destruct (length (to_dec c) - Z.to_nat (- e))%nat eqn:E; [lia|reflexivity].
    + rewrite all_digits_app, D, all_digits_zeros. reflexivity.
Qed.

Lemma str_val_zeros k : str_val (repeat_chr 48 k) = 0.
Proof. rewrite <- (app_nil_r (repeat_chr 48 k)), str_val_zeros_app. reflexivity. Qed.

Lemma dec_canon_val neg c e :
  val_decimal (dec_canon neg c e) = mk_decnum neg (fst (dec_norm c e)) (snd (dec_norm c e)).
Proof.
  unfold dec_canon, dec_norm, val_decimal, frac_digits.
  assert (Sg : sign_neg (if neg then SgMinus else SgNone) = neg) by (destruct neg; reflexivity).
  destruct (Z.leb_spec 0 e) as [He|He]; cbn [dc_sign dc_int dc_frac].
  - rewrite Sg, app_nil_r. cbn [length Z.of_nat Z.opp].
    destruct (Z.ltb_spec 0 e) as [Hp|Hp]; cbn [fst snd].
    + destruct (N.eqb_spec c 0) as [->|Hc]; [rewrite N.mul_0_l; reflexivity|].
      rewrite str_val_app, str_val_to_dec, str_val_zeros, repeat_chr_length.
      f_equal. rewrite N.add_0_r. f_equal. f_equal. lia.
    + assert (e = 0%Z) by lia. subst e. cbn [Z.to_nat repeat_chr].
      destruct (N.eqb_spec c 0) as [->|Hc]; [reflexivity|].
      rewrite app_nil_r, str_val_to_dec. reflexivity.
  - destruct (Z.ltb_spec 0 e); [lia|]. cbn [fst snd].
    destruct (Nat.ltb_spec (Z.to_nat (- e)) (length (to_dec c))) as [Hk|Hk]; cbn [dc_sign dc_int dc_frac]; rewrite Sg.
    + rewrite firstn_skipn, str_val_to_dec, skipn_length. f_equal. lia.
    + change ([48] ++ repeat_chr 48 (Z.to_nat (- e) - length (to_dec c)) ++ to_dec c)
        with (repeat_chr 48 (S (Z.to_nat (- e) - length (to_dec c))) ++ to_dec c).
      rewrite str_val_zeros_app, str_val_to_dec, app_length, repeat_chr_length. f_equal. lia.
Qed.

Lemma decnum_eq_refl a : decnum_eq a a = true.
Proof. unfold decnum_eq. apply Z.eqb_refl. Qed.

(* the normalised pair denotes the same number *)
Lemma dec_norm_value neg c e :
  decnum_eq (mk_decnum neg (fst (dec_norm c e)) (snd (dec_norm c e))) (mk_decnum neg c e) = true.
Proof.
  unfold dec_norm. destruct (Z.ltb_spec 0 e) as [Hp|Hp]; cbn [fst snd]; [|apply decnum_eq_refl].
  unfold decnum_eq. cbn [dn_neg dn_coeff dn_exp]. rewrite Z.min_l by lia.
  rewrite !Z.sub_0_r, Z.pow_0_r, Z.mul_1_r, N2Z.inj_mul, N2Z.inj_pow, Z2N.id by lia.
  apply Z.eqb_refl.
Qed.

(* the serialized string of a finite Decimal is in the lexical space of xs:decimal
   and denotes the Decimal's number *)
Lemma dec_ser_valid neg c e :
  exists d, wf_decimal d = true /\ lex_decimal d = dec_ser (DFin neg c e)
            /\ decnum_eq (val_decimal d) (mk_decnum neg c e) = true.
Proof.
  exists (dec_canon neg c e). split; [apply dec_canon_wf|]. split; [apply dec_canon_lex|].
  rewrite dec_canon_val. apply dec_norm_value.
Qed.

(* serialize then deserialize: the number is preserved, a non-positive exponent
   (the digits after the point) exactly *)
Lemma dec_roundtrip neg c e :
  dec_fits (fst (dec_norm c e)) (snd (dec_norm c e)) = true ->
  dec_deser (dec_ser (DFin neg c e)) = Some (DFin neg (fst (dec_norm c e)) (snd (dec_norm c e))).
Proof.
  intros Hfit. rewrite <- dec_canon_lex.
  pose proof (dec_accepts_xsd (dec_canon neg c e) [] [] (dec_canon_wf neg c e)) as A.
  unfold dec_sp_fits in A. rewrite dec_canon_val in A. cbn [dn_neg dn_coeff dn_exp] in A.
  specialize (A Hfit eq_refl eq_refl). cbn [app] in A. rewrite app_nil_r in A. exact A.
Qed.

Lemma dec_roundtrip_exact neg c e :
  (e <= 0)%Z -> dec_fits c e = true -> dec_deser (dec_ser (DFin neg c e)) = Some (DFin neg c e).
Proof.
  intros He Hfit. pose proof (dec_roundtrip neg c e) as R. unfold dec_norm in R.
  destruct (Z.ltb_spec 0 e); [lia|]. apply R, Hfit.
Qed.

(* ---- the unguarded statement is false: non-finite Decimals ------------------------ *)
Lemma dec_ser_valid_refuted :
  exists dv, forall d, wf_decimal d = true -> lex_decimal d <> dec_ser dv.
Proof.
  exists (DInf false). intros d Hwf E. pose proof (lex_decimal_chars d Hwf) as C.
  rewrite E in C. vm_compute in C. discriminate.
Qed.

Lemma dec_ser_nan_refuted : forall d, wf_decimal d = true -> lex_decimal d <> dec_ser (DNaN false false 0).
Proof.
  intros d Hwf E. pose proof (lex_decimal_chars d Hwf) as C. rewrite E in C. vm_compute in C. discriminate.
Qed.

(* the converter reads these strings back (so the round trip as such holds): the
   defect is only that they are not xs:decimal *)
Lemma dec_special_roundtrip :
  dec_deser (dec_ser (DInf false)) = Some (DInf false) /\ dec_deser (dec_ser (DInf true)) = Some (DInf true)
  /\ dec_deser (dec_ser (DNaN false false 0)) = Some (DNaN false false 0).
Proof. repeat split; vm_compute; reflexivity. Qed.

Example dec_guard_nonvacuous :
  dec_deser (dec_ser (DFin true 12345 (-3))) = Some (DFin true 12345 (-3))
  /\ dec_ser (DFin true 12345 (-3)) = [45;49;50;46;51;52;53]
  /\ dec_deser (dec_ser (DFin false 15 2)) = Some (DFin false 1500 0).
Proof. repeat split; vm_compute; reflexivity. Qed.
