(* Proofs/ParserInvNs.v — C09(b): other namespace prefixes / default-namespace usage.

   At the level of parser events element and attribute NAMES are already resolved (Clark
   notation): what a different choice of prefixes leaves visible is (1) the prefix map of each
   start event, (2) the spelling of QName-valued CONTENT (xsi:type values, QName-typed text and
   attributes).
   (b1) `prefix_maps_lookup_only` (= Proofs/ReaderAgree.parser_uses_lookup_only): any rewrite that
        keeps every lookup — other order of the declarations, redundant redeclarations,
        declarations moved to an ancestor, xmlns="" spelled out or not — leaves `parse` unchanged.
   (b2) RENAMING a prefix (or adding / dropping a declaration nothing in the document uses) is
        NOT invisible to the faithful model: ParserUtils.parse_any_attribute expands every
        attribute value of the form "p:x" whose p happens to be a declared prefix, for Attributes
        fields and generic elements (`prefix_renaming_refuted`, finding C09-F3).
   (b3) renaming, function level (this file): a QName re-spelled consistently with the renamed
        map resolves to the same name (`qname_respelling`, over property C05's model of
        QNameConverter.resolve), hence the same xsi:type (`xsi_type_respelling`) and the same
        value of a QName-typed text or attribute (`parse_value_respelling`).  The EVENT-LEVEL
        renaming theorem (maps re-bound on a set P of prefixes, xsi:type values re-spelled, all
        other values unchanged and free of the prefixes in P) is `prefix_renaming_invariant` in
        Proofs/ParserCtx.v (generic simulation over related contexts); QName-typed TEXT may not be
        re-spelled there (function level only). *)
From Coq Require Import NArith ZArith List Bool.
From XV Require Import Base.Str Base.Eqb Base.PyInt Model.Bind Model.Parser Model.Reader Model.ReaderCorr
  Proofs.ParserNs Proofs.ReaderMaps Proofs.ReaderAgree Proofs.ReaderConv Proofs.ReaderWitness Proofs.ReaderRefute
  Proofs.ConvQName.
From XV Require Model.ConvQName.
Import ListNotations.

(* ---------------------------------------------------------------- (b1) *)
Theorem prefix_maps_lookup_only : forall cfg c u root evs evs',
  conv_lookup_only c -> Forall2 pevent_equiv evs evs' ->
  parse cfg c u root evs = parse cfg c u root evs'.
Proof. exact parser_uses_lookup_only. Qed.

Lemma ns_equiv_of_get a b : (forall k, ns_get k a = ns_get k b) -> ns_equiv a b.
Proof. intros H k. unfold ns_read. destruct k; rewrite H; reflexivity. Qed.

(* instances: the declarations in another order; a redundant redeclaration *)
Lemma ns_equiv_swap k1 v1 k2 v2 m : k1 <> k2 -> ns_equiv ((k1, v1) :: (k2, v2) :: m) ((k2, v2) :: (k1, v1) :: m).
Proof.
  intros Hne. apply ns_equiv_of_get. intros k.
  cbn [ns_get]. destruct (ostr_eqb k1 k) eqn:E1, (ostr_eqb k2 k) eqn:E2; try reflexivity.
  apply ostr_eqb_eq in E1, E2. congruence.
Qed.

Lemma ns_equiv_redeclare k v m : ns_get k m = Some v -> ns_equiv ((k, v) :: m) m.
Proof.
  intros H. apply ns_equiv_of_get. intros k0.
  cbn [ns_get]. destruct (ostr_eqb k k0) eqn:E1; [|reflexivity]. apply ostr_eqb_eq in E1. subst. symmetry. exact H.
Qed.

Lemma ns_equiv_undeclared_default m : ns_get None m = None -> ns_equiv ((None, []) :: m) m.
Proof.
  intros H k. destruct k as [p|]; cbn [ns_read ns_get ostr_eqb opt_eqb]; [reflexivity|]. rewrite H. reflexivity.
Qed.

(* ---------------------------------------------------------------- (b2) refutation *)
(* <AW xmlns:p="urn:p" k="p:v" .../>  vs the same events with the prefix p renamed to q in the maps *)
Definition rename_prefix (p q : str) (m : nsmap) : nsmap :=
  map (fun kv => (if ostr_eqb (fst kv) (Some p) then Some q else fst kv, snd kv)) m.
Definition rename_event (p q : str) (ev : pevent) : pevent :=
  match ev with PStart n a ns => PStart n a (rename_prefix p q ns) | _ => ev end.

Theorem prefix_renaming_refuted :
  exists cfg c u root evs p q,
    conv_lookup_only c
    /\ parse cfg c u root evs <> parse cfg c u root (map (rename_event p q) evs).
Proof.
  exists strict_cfg, qconv, u_any_attrs, (Some root_any_attrs), (lxml_pump (doc_tokens doc_any_attrs_0)), [112]%N, [122]%N.
  split; [exact qconv_lookup_only|]. vm_compute. discriminate.
Qed.

(* ---------------------------------------------------------------- (b3) re-spelled QNames *)
Lemma lookup_uri_get po m : lookup_uri po (Some m) = ns_get po m.
Proof. unfold lookup_uri. destruct m; [reflexivity|apply cq_ns_get]. Qed.

Theorem qname_respelling : forall po po' local m m' a b a' b',
  good_name local = true ->
  good_prefix po ->
  good_prefix po' ->
  forallb xml_ws a = true -> forallb xml_ws b = true -> forallb xml_ws a' = true -> forallb xml_ws b' = true ->
  (* the two spellings denote the same namespace name *)
  norm_uri (ns_get po m) = norm_uri (ns_get po' m') ->
  (norm_uri (ns_get po m) <> None \/ (po = None /\ po' = None)) ->
  ConvQName.qname_deser (a ++ qlex po local ++ b) (Some m) = ConvQName.qname_deser (a' ++ qlex po' local ++ b') (Some m').
Proof.
  intros po po' local m m' a b a' b' Hl Hp Hp' Ha Hb Ha' Hb' Hn Hq.
  unfold ConvQName.qname_deser.
  rewrite (resolve_qlex po local (Some m) a b Hl Hp Ha Hb), (resolve_qlex po' local (Some m') a' b' Hl Hp' Ha' Hb').
  rewrite !lookup_uri_get.
  rewrite (truthy_norm _ _ Hn).
  destruct Hq as [Hq|[-> ->]].
  - assert (Ht : ConvQName.truthy (ns_get po' m') = true).
    { rewrite <- (truthy_norm _ _ Hn). destruct (ns_get po m) as [[|x r]|]; cbn [norm_uri] in Hq; try contradiction; reflexivity. }
    rewrite Ht. cbn [negb]. rewrite !andb_false_r. f_equal. apply clark_norm. exact Hn.
  - cbn [ConvQName.truthy andb]. f_equal. apply clark_norm. exact Hn.
Qed.

(* the xsi:type of an element whose xsi:type value is re-spelled with the renamed map *)
Theorem xsi_type_respelling : forall po po' local m m' attrs attrs',
  good_name local = true ->
  good_prefix po ->
  good_prefix po' ->
  assoc XSI_TYPE attrs = Some (qlex po local) -> assoc XSI_TYPE attrs' = Some (qlex po' local) ->
  norm_uri (ns_get po m) = norm_uri (ns_get po' m') ->
  (norm_uri (ns_get po m) <> None \/ (po = None /\ po' = None)) ->
  xsi_type_of qconv attrs m = xsi_type_of qconv attrs' m'.
Proof.
  intros po po' local m m' attrs attrs' Hl Hp Hp' E E' Hn Hq. unfold xsi_type_of. rewrite E, E'.
  assert (Hne : forall o, qlex o local <> []).
  { intros o. destruct o as [p|]; cbn [qlex]; [destruct p; discriminate|]. destruct local; [discriminate|discriminate]. }
  assert (Tr : forall o, truthy_str (Some (qlex o local)) = Some (qlex o local)).
  { intros o. specialize (Hne o). destruct (qlex o local); [contradiction|reflexivity]. }
  rewrite !Tr. cbn [qconv c_deser existsb ptype_eqb orb].
  pose proof (qname_respelling po po' local m m' [] [] [] [] Hl Hp Hp' eq_refl eq_refl eq_refl eq_refl Hn Hq) as H.
  cbn [app] in H. rewrite !app_nil_r in H. rewrite H. reflexivity.
Qed.

(* a QName-typed text or attribute value *)
Theorem parse_value_respelling : forall po po' local m m' d fmt a b a' b',
  good_name local = true ->
  good_prefix po ->
  good_prefix po' ->
  forallb xml_ws a = true -> forallb xml_ws b = true -> forallb xml_ws a' = true -> forallb xml_ws b' = true ->
  norm_uri (ns_get po m) = norm_uri (ns_get po' m') ->
  (norm_uri (ns_get po m) <> None \/ (po = None /\ po' = None)) ->
  parse_value qconv (Some (a ++ qlex po local ++ b)) [TQName] d m None fmt
  = parse_value qconv (Some (a' ++ qlex po' local ++ b')) [TQName] d m' None fmt.
Proof.
  intros. unfold parse_value, deser. cbn [qconv c_deser existsb ptype_eqb orb].
  rewrite (qname_respelling po po' local m m' a b a' b'); try assumption. reflexivity.
Qed.

(* the event-level renaming theorem: Proofs/ParserCtx.v (prefix_renaming_invariant) *)
Print Assumptions prefix_maps_lookup_only.
Print Assumptions prefix_renaming_refuted.
Print Assumptions qname_respelling.
Print Assumptions xsi_type_respelling.
