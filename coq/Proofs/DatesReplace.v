(* Proofs/DatesReplace.v — XmlDate/XmlTime/XmlDateTime.replace is a pure field update: nothing given = identity,
   a given field is set and every other field is kept, and a replaced value that is valid prints and re-parses. *)
From Coq Require Import ZArith List Bool.
From XV Require Import Base.Str Model.Dates Model.DatesCorr Spec.XsdDates Proofs.DatesFormat.
Import ListNotations.
Open Scope Z_scope.

Lemma date_replace_nothing v : date_replace v None None None OffKeep = v.
Proof. destruct v; reflexivity. Qed.
Lemma time_replace_nothing v : time_replace v None None None None OffKeep = v.
Proof. destruct v; reflexivity. Qed.
Lemma datetime_replace_nothing v : datetime_replace v None None None None None None None OffKeep = v.
Proof. destruct v; reflexivity. Qed.

(* each argument decides exactly its own field *)
Lemma datetime_replace_fields v y m d h mi s f o :
  let r := datetime_replace v y m d h mi s f o in
  dt_year r = keep_z y (dt_year v) /\ dt_month r = keep_z m (dt_month v) /\ dt_day r = keep_z d (dt_day v)
  /\ dt_hour r = keep_z h (dt_hour v) /\ dt_minute r = keep_z mi (dt_minute v) /\ dt_second r = keep_z s (dt_second v)
  /\ dt_frac r = keep_z f (dt_frac v) /\ dt_offset r = keep_off o (dt_offset v).
Proof. cbn. repeat split. Qed.
Lemma date_replace_fields v y m d o :
  let r := date_replace v y m d o in
  d_year r = keep_z y (d_year v) /\ d_month r = keep_z m (d_month v) /\ d_day r = keep_z d (d_day v)
  /\ d_offset r = keep_off o (d_offset v).
Proof. cbn. repeat split. Qed.
Lemma time_replace_fields v h mi s f o :
  let r := time_replace v h mi s f o in
  t_hour r = keep_z h (t_hour v) /\ t_minute r = keep_z mi (t_minute v) /\ t_second r = keep_z s (t_second v)
  /\ t_frac r = keep_z f (t_frac v) /\ t_offset r = keep_off o (t_offset v).
Proof. cbn. repeat split. Qed.

(* offset=None removes the zone, the sentinel keeps it *)
Lemma replace_offset_none_removes v : dt_offset (datetime_replace v None None None None None None None (OffSet None)) = None.
Proof. reflexivity. Qed.

(* moving a valid value to another real zone (or removing the zone) keeps it valid, and the result still prints
   to a string that parses back to it *)
Lemma datetime_replace_zone_valid v o :
  valid_datetime_value v = true -> real_offset o = true ->
  valid_datetime_value (datetime_replace v None None None None None None None (OffSet o)) = true.
Proof.
  unfold valid_datetime_value. destruct v as [y m d h mi s f o0]. cbn.
  intros H Ho. apply andb_true_iff in H as [H _]. rewrite H, Ho. reflexivity.
Qed.
Lemma datetime_replace_zone_roundtrip v o :
  valid_datetime_value v = true -> real_offset o = true -> year_fits (dt_year v) ->
  let r := datetime_replace v None None None None None None None (OffSet o) in
  datetime_from_string (datetime_str r) = Some r.
Proof.
  intros Hv Ho Hy r. apply datetime_roundtrip.
  - apply datetime_replace_zone_valid; assumption.
  - destruct v; exact Hy.
Qed.
(* in general: whenever the replaced value is valid it prints and re-parses *)
Lemma datetime_replace_roundtrip v y m d h mi s f o :
  let r := datetime_replace v y m d h mi s f o in
  valid_datetime_value r = true -> year_fits (dt_year r) -> datetime_from_string (datetime_str r) = Some r.
Proof. intros r. apply datetime_roundtrip. Qed.
