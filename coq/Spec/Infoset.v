(* Spec/Infoset.v — the specification side of C11 (and of the other XML round-trip
   properties): the XML infoset as a rose tree, the whitespace exception the
   property grants, the event stream an XML reader delivers for a tree (with the
   oracle that says how much of each text/tail is visible when the `end` event is
   delivered), and the meaning of a writer event stream.

   Independent of the implementation: imports nothing from Gen/ or Model/.
   Names are in James Clark's notation, "{uri}local" or "local". *)
From Coq Require Import NArith ZArith List Bool.
From XV Require Import Base.Str Base.Eqb Base.Dec.
Import ListNotations.
Open Scope N_scope.

(* ------------------------------------------------------------------ trees *)
Definition attrs := list (str * str).
(* namespace declarations / in-scope bindings: prefix (None = default) -> uri,
   first match wins (inner declarations are consed in front) *)
Definition nsmap := list (option str * str).

Inductive itree :=
| INode (name : str) (atts : attrs) (nsd : nsmap) (text : str) (kids : list itree) (tail : str).

Definition i_name (t : itree) := let 'INode n _ _ _ _ _ := t in n.
Definition i_atts (t : itree) := let 'INode _ a _ _ _ _ := t in a.
Definition i_nsd (t : itree) := let 'INode _ _ d _ _ _ := t in d.
Definition i_text (t : itree) := let 'INode _ _ _ x _ _ := t in x.
Definition i_kids (t : itree) := let 'INode _ _ _ _ k _ := t in k.
Definition i_tail (t : itree) := let 'INode _ _ _ _ _ l := t in l.
Definition set_tail (t : itree) (l : str) : itree :=
  let 'INode n a d x k _ := t in INode n a d x k l.

(* the induction principle Coq does not generate for a rose tree *)
Section ITreeInd.
  Variable P : itree -> Prop.
  Hypothesis H : forall n a d x ks l, Forall P ks -> P (INode n a d x ks l).
  Fixpoint itree_ind' (t : itree) : P t :=
    match t with
    | INode n a d x ks l =>
        H n a d x ks l
          ((fix go (ks : list itree) : Forall P ks :=
              match ks with
              | [] => Forall_nil P
              | k :: r => Forall_cons k (itree_ind' k) (go r)
              end) ks)
    end.
End ITreeInd.

Fixpoint isize (t : itree) : nat :=
  match t with INode _ _ _ _ ks _ => S (fold_right (fun k n => (isize k + n)%nat) O ks) end.

(* ------------------------------------------------- the whitespace exception *)
Definition all_ws (s : str) : bool := forallb xml_ws s.

(* Removes exactly: whitespace-only text of an element that has child elements,
   and whitespace-only tails.  Everything else is kept. *)
Fixpoint norm_ws (t : itree) : itree :=
  match t with
  | INode n a d x ks l =>
      INode n a d
        (match ks with [] => x | _ => if all_ws x then [] else x end)
        (map norm_ws ks)
        (if all_ws l then [] else l)
  end.

(* the typed element that holds the wildcard has an element-only content model
   when the wildcard is not mixed: its own whitespace-only text is not content *)
Definition norm_ws_root (t : itree) : itree :=
  match norm_ws t with
  | INode n a d x ks l => INode n a d (if all_ws x then [] else x) ks l
  end.

(* -------------------------------------------- QName-valued content: xsi:type *)
Definition xsi_uri_s : str :=
  [104;116;116;112;58;47;47;119;119;119;46;119;51;46;111;114;103;47;50;48;48;49;47;88;77;76;83;99;104;101;109;97;45;105;110;115;116;97;110;99;101].
Definition clark (uri local : str) : str :=
  match uri with [] => local | _ => 123 :: uri ++ 125 :: local end.
Definition xsi_type_q : str := clark xsi_uri_s [116;121;112;101].
Definition xsi_nil_q : str := clark xsi_uri_s [110;105;108].

Fixpoint ns_lookup (p : option str) (m : nsmap) : option str :=
  match m with
  | [] => None
  | (q, u) :: r => if opt_eqb str_eqb p q then Some u else ns_lookup p r
  end.

(* split at the first colon: (prefix, local); no colon -> (None, s) *)
Fixpoint split_colon (s : str) : option str * str :=
  match s with
  | [] => (None, [])
  | c :: r =>
      if N.eqb c 58 then (Some [], r)
      else match split_colon r with
           | (Some p, l) => (Some (c :: p), l)
           | (None, l) => (None, c :: l)
           end
  end.

(* XML Schema: the value space of xs:QName is (namespace name, local part); an
   unprefixed lexical QName takes the default namespace.  The canonical form used
   here is Clark's notation; an unresolvable lexical form is left as it is. *)
Definition resolve_qname (m : nsmap) (v : str) : str :=
  let v' := strip_by xml_ws v in
  match split_colon v' with
  | (Some p, l) => match ns_lookup (Some p) m with
                   | Some u => clark u l
                   | None => v
                   end
  | (None, l) => match ns_lookup None m with
                 | Some u => clark u l
                 | None => l
                 end
  end.

Definition canon_attr (m : nsmap) (kv : str * str) : str * str :=
  if str_eqb (fst kv) xsi_type_q then (fst kv, resolve_qname m (snd kv)) else kv.

(* The infoset proper: namespace *declarations* (prefix choices) are not
   significant and are erased; the QName-valued xsi:type is resolved. *)
Fixpoint canon (m : nsmap) (t : itree) : itree :=
  match t with
  | INode n a d x ks l =>
      let m' := d ++ m in
      INode n (map (canon_attr m') a) [] x (map (canon m') ks) l
  end.

(* attribute order is not significant: equality up to sorting by name *)
Fixpoint str_leb (a b : str) : bool :=
  match a, b with
  | [], _ => true
  | _ :: _, [] => false
  | x :: a', y :: b' => if N.ltb x y then true else if N.ltb y x then false else str_leb a' b'
  end.
Fixpoint attr_insert (kv : str * str) (l : attrs) : attrs :=
  match l with
  | [] => [kv]
  | h :: r => if str_leb (fst kv) (fst h) then kv :: l else h :: attr_insert kv r
  end.
Definition attr_sort (l : attrs) : attrs := fold_right attr_insert [] l.
Definition attrs_eqb (a b : attrs) : bool :=
  list_eqb (pair_eqb str_eqb str_eqb) (attr_sort a) (attr_sort b).
Definition nsmap_eqb : nsmap -> nsmap -> bool := list_eqb (pair_eqb (opt_eqb str_eqb) str_eqb).

Fixpoint itree_eqb (a b : itree) : bool :=
  match a, b with
  | INode n1 a1 d1 x1 k1 l1, INode n2 a2 d2 x2 k2 l2 =>
      str_eqb n1 n2 && attrs_eqb a1 a2 && nsmap_eqb d1 d2 && str_eqb x1 x2 && str_eqb l1 l2 &&
      (fix go (u v : list itree) : bool :=
         match u, v with
         | [], [] => true
         | p :: u', q :: v' => itree_eqb p q && go u' v'
         | _, _ => false
         end) k1 k2
  end.

(* ------------------------------------------------------ reader event stream *)
Inductive pevent :=
| PStart (q : str) (a : attrs) (ns : nsmap)
| PEnd (q : str) (text tail : option str).

(* position of an element: child indices from the element up to the root *)
Definition node_id := list nat.

(* How many characters of an element's text / tail are visible when its `end`
   event is delivered; None = all of it.  Both xsdata handlers read element.text
   and element.tail at the `end` event of iterparse: a tail that straddles a chunk
   boundary (16 KiB native, 32 KiB lxml) is seen truncated or not at all, and the
   lxml tree keeps character data that follows a processing instruction in the
   PI node, so only the part before the PI is seen. *)
Record oracle := mkOracle { o_text : node_id -> option nat; o_tail : node_id -> option nat }.
Definition full_oracle : oracle := mkOracle (fun _ => None) (fun _ => None).
Definition is_full (o : oracle) : Prop := (forall p, o_text o p = None) /\ (forall p, o_tail o p = None).

Definition cut (v : option nat) (s : str) : option str :=
  match (match v with None => s | Some k => firstn k s end) with
  | [] => None
  | s' => Some s'
  end.

Section FlatMapi.
  Context {A B : Type} (f : nat -> A -> list B).
  Fixpoint flat_mapi (i : nat) (l : list A) : list B :=
    match l with [] => [] | x :: r => f i x ++ flat_mapi (S i) r end.
End FlatMapi.

(* `m` = bindings in scope outside the element, `p` = its position *)
Fixpoint pump (o : oracle) (m : nsmap) (p : node_id) (t : itree) : list pevent :=
  match t with
  | INode n a d x ks l =>
      let m' := d ++ m in
      PStart n a m' :: flat_mapi (fun i k => pump o m' (i :: p) k) 0 ks
        ++ [PEnd n (cut (o_text o p) x) (cut (o_tail o p) l)]
  end.

(* ------------------------------------------------------ writer event stream *)
Inductive prim := PStr (s : str) | PInt (z : Z) | PBool (b : bool).
Inductive aval := AVStr (s : str) | AVQName (clark : str).
Inductive wevent :=
| WStart (q : str)
| WAttr (k : str) (v : aval)
| WData (d : option prim)
| WEnd (q : str).

(* XSD canonical lexical forms *)
Definition prim_text (p : prim) : str :=
  match p with
  | PStr s => s
  | PInt z => py_str_of_Z z
  | PBool true => [116;114;117;101]
  | PBool false => [102;97;108;115;101]
  end.
Definition data_text (d : option prim) : str := match d with None => [] | Some p => prim_text p end.
Definition aval_text (v : aval) : str := match v with AVStr s => s | AVQName c => c end.

(* an element under construction; kids newest first *)
Record frame := mkF { f_name : str; f_atts : attrs; f_text : str; f_kids : list itree; f_open : bool }.

Fixpoint attr_set (k v : str) (l : attrs) : attrs :=
  match l with
  | [] => [(k, v)]
  | (k', v') :: r => if str_eqb k k' then (k, v) :: r else (k', v') :: attr_set k v r
  end.

Definition add_text (f : frame) (s : str) : frame :=
  match s with
  | [] => mkF (f_name f) (f_atts f) (f_text f) (f_kids f) false
  | _ =>
      match f_kids f with
      | [] => mkF (f_name f) (f_atts f) (f_text f ++ s) [] false
      | k :: r => mkF (f_name f) (f_atts f) (f_text f) (set_tail k (i_tail k ++ s) :: r) false
      end
  end.
Definition add_kid (f : frame) (t : itree) : frame :=
  mkF (f_name f) (f_atts f) (f_text f) (t :: f_kids f) false.
Definition close_attrs (f : frame) : frame := mkF (f_name f) (f_atts f) (f_text f) (f_kids f) false.
Definition frame_tree (f : frame) : itree := INode (f_name f) (f_atts f) [] (f_text f) (rev (f_kids f)) [].

(* the meaning of the writer protocol: start / attributes / character data / end.
   Character data goes to the text of the open element until its first child is
   closed and to the tail of the last closed child afterwards. *)
Fixpoint wrun (evs : list wevent) (stk : list frame) : option (list frame) :=
  match evs with
  | [] => Some stk
  | e :: r =>
      match e, stk with
      | WStart q, f :: s => wrun r (mkF q [] [] [] true :: close_attrs f :: s)
      | WAttr k v, f :: s =>
          if f_open f then wrun r (mkF (f_name f) (attr_set k (aval_text v) (f_atts f)) (f_text f) (f_kids f) true :: s)
          else None
      | WData d, f :: s => wrun r (add_text f (data_text d) :: s)
      | WEnd q, f :: g :: s => if str_eqb q (f_name f) then wrun r (add_kid g (frame_tree f) :: s) else None
      | _, _ => None
      end
  end.

Definition bottom : frame := mkF [] [] [] [] false.

Definition itree_of_wevents (evs : list wevent) : option itree :=
  match wrun evs [bottom] with
  | Some [f] => match f_kids f, f_text f with
                | [t], [] => Some t
                | _, _ => None
                end
  | _ => None
  end.

(* ---------------------------------------------- XSD wildcard namespace rules *)
(* XML Schema Part 1, 3.10.1/3.10.4 "Wildcard allows Namespace Name":
   ##any: every name; ##other: a namespace name that is present and different
   from the target namespace (an absent target namespace excludes nothing but
   absent names); ##local: absent; ##targetNamespace: the target namespace
   (absent target = absent names); a URI: that namespace. *)
Inductive nskw := KAny | KOther | KLocal | KTarget | KUri (u : str).

(* namespace name of an expanded name: None = absent *)
Definition xsd_allows_kw (target : option str) (k : nskw) (ns : option str) : bool :=
  match k with
  | KAny => true
  | KOther => match ns with
              | None => false
              | Some u => match target with Some t => negb (str_eqb u t) | None => true end
              end
  | KLocal => match ns with None => true | Some _ => false end
  | KTarget => opt_eqb str_eqb ns target
  | KUri u => match ns with Some v => str_eqb u v | None => false end
  end.
Definition xsd_allows (target : option str) (ks : list nskw) (ns : option str) : bool :=
  existsb (fun k => xsd_allows_kw target k ns) ks.
