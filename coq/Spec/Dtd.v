(* Spec/Dtd.v — the DTD as libxml2/lxml presents it (the input of xsdata's DtdParser),
   and its meaning per XML 1.0 section 3.2 / 3.3, read independently of xsdata:
   content model of an element, attribute uses.  Imports neither Gen/ nor Model/. *)
From Coq Require Import NArith List Bool Arith.
From XV Require Import Base.Str Base.Eqb Spec.Cm.
Import ListNotations.
Local Close Scope N_scope.
Local Open Scope nat_scope.

(* ---------------------------------------------------------------- the raw (lxml) view *)
Inductive raw_content :=
| RC (name : option str) (type : str) (occur : str) (lft rgt : option raw_content).

Record raw_attr := mk_raw_attr {
  ra_prefix : option str;
  ra_name : str;
  ra_type : str;                  (* cdata id idref idrefs entity entities nmtoken nmtokens enumeration notation *)
  ra_default : str;               (* none required implied fixed *)
  ra_default_value : option str;
  ra_values : list str            (* enumeration tokens *)
}.

Record raw_element := mk_raw_element {
  re_name : str;
  re_prefix : option str;
  re_type : str;                  (* undefined empty any mixed element *)
  re_content : option raw_content;
  re_attributes : list raw_attr
}.

Definition s (l : list N) : str := l.
Definition S_once : str := [111; 110; 99; 101]%N.
Definition S_opt : str := [111; 112; 116]%N.
Definition S_mult : str := [109; 117; 108; 116]%N.
Definition S_plus : str := [112; 108; 117; 115]%N.
Definition S_pcdata : str := [112; 99; 100; 97; 116; 97]%N.
Definition S_element : str := [101; 108; 101; 109; 101; 110; 116]%N.
Definition S_seq : str := [115; 101; 113]%N.
Definition S_or : str := [111; 114]%N.
Definition S_empty : str := [101; 109; 112; 116; 121]%N.
Definition S_any : str := [97; 110; 121]%N.
Definition S_mixed : str := [109; 105; 120; 101; 100]%N.
Definition S_none : str := [110; 111; 110; 101]%N.
Definition S_required : str := [114; 101; 113; 117; 105; 114; 101; 100]%N.
Definition S_implied : str := [105; 109; 112; 108; 105; 101; 100]%N.
Definition S_fixed : str := [102; 105; 120; 101; 100]%N.
Definition S_enumeration : str := [101; 110; 117; 109; 101; 114; 97; 116; 105; 111; 110]%N.
Definition S_xmlns : str := [120; 109; 108; 110; 115]%N.

(* ---------------------------------------------------------------- content models *)
Definition with_occur (o : str) (c : cm) : option cm :=
  if str_eqb o S_once then Some c
  else if str_eqb o S_opt then Some (opt c)
  else if str_eqb o S_mult then Some (star c)
  else if str_eqb o S_plus then Some (plus c)
  else None.

Definition opt_list {A} (o : option A) : list A := match o with Some x => [x] | None => [] end.

(* children particle of a content declaration; #PCDATA contributes no child *)
Fixpoint cm_of_raw (c : raw_content) : option cm :=
  match c with
  | RC name type occur lft rgt =>
      let kids :=
        match lft, rgt with
        | Some l, Some r => match cm_of_raw l, cm_of_raw r with Some a, Some b => Some [a; b] | _, _ => None end
        | Some l, None => option_map (fun a => [a]) (cm_of_raw l)
        | None, Some r => option_map (fun a => [a]) (cm_of_raw r)
        | None, None => Some []
        end in
      if str_eqb type S_element then
        match name with Some n => with_occur occur (Elem n) | None => None end
      else if str_eqb type S_seq then
        match kids with Some k => with_occur occur (Seq k) | None => None end
      else if str_eqb type S_or then
        match kids with Some k => with_occur occur (Choice k) | None => None end
      else if str_eqb type S_pcdata then Some (Seq [])
      else None
  end.

(* what an element may contain.  ANY: any declared elements and text, given here as a
   wildcard (the per-program validator substitutes the declared names). *)
Definition ctype_of_raw (e : raw_element) : option ctype :=
  if str_eqb (re_type e) S_empty then Some CEmpty
  else if str_eqb (re_type e) S_any then Some (CMixed (star (AnyElem (fun _ => true))))
  else if str_eqb (re_type e) S_element then
    match re_content e with Some c => option_map CElems (cm_of_raw c) | None => None end
  else if str_eqb (re_type e) S_mixed then
    match re_content e with
    | Some (RC _ t _ None None) => if str_eqb t S_pcdata then Some CText else None
    | Some c => option_map CMixed (cm_of_raw c)
    | None => None
    end
  else None.

(* ---------------------------------------------------------------- attribute uses *)
Definition is_xmlns_decl (a : raw_attr) : bool :=
  match ra_prefix a with
  | Some p => str_eqb p S_xmlns
  | None => str_eqb (ra_name a) S_xmlns
  end.

(* libxml2 reports "&" inside the default value of an attribute declaration as the character
   reference "&#38;" (it is expanded once more when the default is applied to an element):
   the value a document presents has it expanded.  Python: value.replace("&#38;", "&"). *)
Fixpoint expand_amp38 (v : str) : str :=
  match v with
  | 38%N :: 35%N :: 51%N :: 56%N :: 59%N :: r => 38%N :: expand_amp38 r
  | c :: r => c :: expand_amp38 r
  | [] => []
  end.

Definition use_of_raw (a : raw_attr) : option attr_use :=
  if str_eqb (ra_default a) S_required then Some AReq
  else if str_eqb (ra_default a) S_implied then Some AImplied
  else if str_eqb (ra_default a) S_fixed then option_map (fun v => AFixed (expand_amp38 v)) (ra_default_value a)
  else if str_eqb (ra_default a) S_none then option_map (fun v => ADefault (expand_amp38 v)) (ra_default_value a)
  else None.

Definition enum_of_raw (a : raw_attr) : option (list str) :=
  if str_eqb (ra_type a) S_enumeration then Some (ra_values a) else None.

(* the attribute's name is left to the caller (it depends on the namespace bindings) *)
Definition attr_decl_of_raw (qn : name) (a : raw_attr) : option attr_decl :=
  option_map (fun u => mk_attr_decl qn u (enum_of_raw a)) (use_of_raw a).
