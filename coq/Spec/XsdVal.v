(* Spec/XsdVal.v — XSD simple types as C02 needs them: which builtin a value belongs to,
   whether a lexical form is in its lexical space, and a canonical form such that two lexical
   forms denote the same value iff their canonical forms are equal (for the lexical variation
   the C02 generator produces; everything else is compared after white-space normalisation only,
   i.e. more strictly).  Specification side: written from XML Schema Part 2, imports no table
   and no model. *)
From Coq Require Import NArith ZArith List Bool Arith.
From XV Require Import Base.Str Base.Eqb Base.Dec.
Import ListNotations.
Open Scope N_scope.

(* ---------------------------------------------------------------- white space *)
Definition ws_replace (s : str) : str := map (fun c => if xml_ws c then 32 else c) s.
Definition ws_collapse (s : str) : str := join [32] (split_ws xml_ws s).
Definition ws_remove (s : str) : str := filter (fun c => negb (xml_ws c)) s.

Inductive wsmode := WsPreserve | WsReplace | WsCollapse.
Definition ws_apply (m : wsmode) (s : str) : str :=
  match m with WsPreserve => s | WsReplace => ws_replace s | WsCollapse => ws_collapse s end.

(* ---------------------------------------------------------------- builtins, by how their values are read *)
Inductive vkind :=
| VText            (* string family: the value is the (white-space-normalised) text itself *)
| VBoolean
| VDecimal         (* decimal and every integer type *)
| VFloat           (* float, double *)
| VDateLike        (* date, time, dateTime, gYear, gYearMonth, gMonthDay, gDay, gMonth *)
| VDuration
| VHex
| VBase64
| VQName
| VUnknown.

Definition s_ (l : list N) : str := l.

(* ASCII names of the builtins *)
Definition B_boolean : str := [98;111;111;108;101;97;110].
Definition B_decimal : str := [100;101;99;105;109;97;108].
Definition B_integer : str := [105;110;116;101;103;101;114].
Definition B_int : str := [105;110;116].
Definition B_long : str := [108;111;110;103].
Definition B_short : str := [115;104;111;114;116].
Definition B_byte : str := [98;121;116;101].
Definition B_nonNegativeInteger : str := [110;111;110;78;101;103;97;116;105;118;101;73;110;116;101;103;101;114].
Definition B_positiveInteger : str := [112;111;115;105;116;105;118;101;73;110;116;101;103;101;114].
Definition B_nonPositiveInteger : str := [110;111;110;80;111;115;105;116;105;118;101;73;110;116;101;103;101;114].
Definition B_negativeInteger : str := [110;101;103;97;116;105;118;101;73;110;116;101;103;101;114].
Definition B_unsignedInt : str := [117;110;115;105;103;110;101;100;73;110;116].
Definition B_unsignedLong : str := [117;110;115;105;103;110;101;100;76;111;110;103].
Definition B_unsignedShort : str := [117;110;115;105;103;110;101;100;83;104;111;114;116].
Definition B_unsignedByte : str := [117;110;115;105;103;110;101;100;66;121;116;101].
Definition B_float : str := [102;108;111;97;116].
Definition B_double : str := [100;111;117;98;108;101].
Definition B_date : str := [100;97;116;101].
Definition B_dateTime : str := [100;97;116;101;84;105;109;101].
Definition B_time : str := [116;105;109;101].
Definition B_duration : str := [100;117;114;97;116;105;111;110].
Definition B_gYear : str := [103;89;101;97;114].
Definition B_gYearMonth : str := [103;89;101;97;114;77;111;110;116;104].
Definition B_gMonthDay : str := [103;77;111;110;116;104;68;97;121].
Definition B_gDay : str := [103;68;97;121].
Definition B_gMonth : str := [103;77;111;110;116;104].
Definition B_hexBinary : str := [104;101;120;66;105;110;97;114;121].
Definition B_base64Binary : str := [98;97;115;101;54;52;66;105;110;97;114;121].
Definition B_QName : str := [81;78;97;109;101].
Definition B_string : str := [115;116;114;105;110;103].
Definition B_normalizedString : str := [110;111;114;109;97;108;105;122;101;100;83;116;114;105;110;103].
Definition B_token : str := [116;111;107;101;110].
Definition B_language : str := [108;97;110;103;117;97;103;101].
Definition B_NMTOKEN : str := [78;77;84;79;75;69;78].
Definition B_Name : str := [78;97;109;101].
Definition B_NCName : str := [78;67;78;97;109;101].
Definition B_ID : str := [73;68].
Definition B_IDREF : str := [73;68;82;69;70].
Definition B_ENTITY : str := [69;78;84;73;84;89].
Definition B_anyURI : str := [97;110;121;85;82;73].
Definition B_anySimpleType : str := [97;110;121;83;105;109;112;108;101;84;121;112;101].

Definition pow2 (k : N) : Z := Z.pow 2 (Z.of_N k).

(* integer types: inclusive bounds *)
Definition int_bounds : list (str * (option Z * option Z)) :=
  [ (B_integer, (None, None));
    (B_int, (Some (- pow2 31)%Z, Some (pow2 31 - 1)%Z));
    (B_long, (Some (- pow2 63)%Z, Some (pow2 63 - 1)%Z));
    (B_short, (Some (- pow2 15)%Z, Some (pow2 15 - 1)%Z));
    (B_byte, (Some (-128)%Z, Some 127%Z));
    (B_nonNegativeInteger, (Some 0%Z, None));
    (B_positiveInteger, (Some 1%Z, None));
    (B_nonPositiveInteger, (None, Some 0%Z));
    (B_negativeInteger, (None, Some (-1)%Z));
    (B_unsignedInt, (Some 0%Z, Some (pow2 32 - 1)%Z));
    (B_unsignedLong, (Some 0%Z, Some (pow2 64 - 1)%Z));
    (B_unsignedShort, (Some 0%Z, Some (pow2 16 - 1)%Z));
    (B_unsignedByte, (Some 0%Z, Some 255%Z)) ].

Fixpoint sassoc {B} (k : str) (l : list (str * B)) : option B :=
  match l with [] => None | (k', v) :: r => if str_eqb k' k then Some v else sassoc k r end.

Definition is_integer_type (b : str) : bool := match sassoc b int_bounds with Some _ => true | None => false end.

Definition text_builtins : list str :=
  [B_string; B_normalizedString; B_token; B_language; B_NMTOKEN; B_Name; B_NCName; B_ID; B_IDREF; B_ENTITY; B_anyURI;
   B_anySimpleType].
Definition date_builtins : list str :=
  [B_date; B_dateTime; B_time; B_gYear; B_gYearMonth; B_gMonthDay; B_gDay; B_gMonth].

Definition vkind_of (b : str) : vkind :=
  if existsb (str_eqb b) text_builtins then VText
  else if str_eqb b B_boolean then VBoolean
  else if str_eqb b B_decimal || is_integer_type b then VDecimal
  else if str_eqb b B_float || str_eqb b B_double then VFloat
  else if existsb (str_eqb b) date_builtins then VDateLike
  else if str_eqb b B_duration then VDuration
  else if str_eqb b B_hexBinary then VHex
  else if str_eqb b B_base64Binary then VBase64
  else if str_eqb b B_QName then VQName
  else VUnknown.

(* ---------------------------------------------------------------- numbers *)
Definition strip_zeros_l (s : str) : str := lstrip_by (N.eqb 48) s.
Definition strip_zeros_r (s : str) : str := rstrip_by (N.eqb 48) s.

(* sign, rest *)
Definition take_sign (s : str) : bool * str :=
  match s with
  | 45 :: r => (true, r)
  | 43 :: r => (false, r)
  | _ => (false, s)
  end.

(* [sign] digits* [ "." digits* ]  with at least one digit: (negative, integer digits, fraction digits) *)
Definition parse_decimal (s : str) : option (bool * str * str) :=
  let (neg, r) := take_sign s in
  let (ip, rest) := span is_ascii_digit r in
  match rest with
  | [] => if (length ip =? 0)%nat then None else Some (neg, ip, [])
  | 46 :: fr =>
      if all_digits fr && negb ((length ip =? 0)%nat && (length fr =? 0)%nat) then Some (neg, ip, fr) else None
  | _ => None
  end.

Definition canon_decimal (s : str) : option str :=
  match parse_decimal s with
  | None => None
  | Some (neg, ip, fr) =>
      let ip' := strip_zeros_l ip in
      let fr' := strip_zeros_r fr in
      let zero := (length ip' =? 0)%nat && (length fr' =? 0)%nat in
      Some ((if neg && negb zero then [45] else []) ++ (match ip' with [] => [48] | _ => ip' end)
            ++ (match fr' with [] => [] | _ => 46 :: fr' end))
  end.

Definition decimal_is_integer (s : str) : option Z :=
  match parse_decimal s with
  | Some (neg, ip, []) =>
      if existsb (N.eqb 46) s then None
      else Some (if neg then (- Z.of_N (str_val ip))%Z else Z.of_N (str_val ip))
  | _ => None
  end.

Definition in_bounds (b : option Z * option Z) (z : Z) : bool :=
  match fst b with Some lo => (lo <=? z)%Z | None => true end &&
  match snd b with Some hi => (z <=? hi)%Z | None => true end.

Definition L_INF : str := [73;78;70].
Definition L_NINF : str := [45;73;78;70].
Definition L_NaN : str := [78;97;78].

(* mantissa [ (e|E) [sign] digits+ ] ; canonical form: sign digits "E" exponent with digits free of
   leading and trailing zeros; positive and negative zero are equal *)
Definition split_exp (s : str) : str * option str :=
  let (m, rest) := span (fun c => negb (N.eqb c 101 || N.eqb c 69)) s in
  match rest with [] => (m, None) | _ :: e => (m, Some e) end.

Definition parse_exp (e : option str) : option Z :=
  match e with
  | None => Some 0%Z
  | Some t =>
      let (neg, d) := take_sign t in
      if all_digits d && negb (length d =? 0)%nat then
        Some (if neg then (- Z.of_N (str_val d))%Z else Z.of_N (str_val d))
      else None
  end.

Definition canon_float (s : str) : option str :=
  if str_eqb s L_INF || str_eqb s L_NINF || str_eqb s L_NaN then Some s else
  let (m, e) := split_exp s in
  match parse_decimal m, parse_exp e with
  | Some (neg, ip, fr), Some ex =>
      let all := strip_zeros_l (ip ++ fr) in
      let d := strip_zeros_r all in
      let tz := Z.of_nat (length all - length d) in
      match d with
      | [] => Some [48]                       (* the two zeros are equal values *)
      | _ => Some ((if neg then [45] else []) ++ d ++ [69] ++ py_str_of_Z (ex - Z.of_nat (length fr) + tz)%Z)
      end
  | _, _ => None
  end.

Definition L_true : str := [116;114;117;101].
Definition L_false : str := [102;97;108;115;101].
Definition canon_boolean (s : str) : option str :=
  if str_eqb s L_true || str_eqb s [49] then Some L_true
  else if str_eqb s L_false || str_eqb s [48] then Some L_false
  else None.

(* ---------------------------------------------------------------- dates and times *)
(* trailing zeros of every fraction ("." digits) removed, an empty fraction dropped;
   a zero time-zone offset written Z *)
Fixpoint trim_fractions (fuel : nat) (s : str) : str :=
  match fuel with
  | O => s
  | S f =>
      match s with
      | [] => []
      | 46 :: r =>
          let (ds, rest) := span is_ascii_digit r in
          let ds' := strip_zeros_r ds in
          (match ds' with [] => [] | _ => 46 :: ds' end) ++ trim_fractions f rest
      | c :: r => c :: trim_fractions f r
      end
  end.

Definition TZ_plus0 : str := [43;48;48;58;48;48].
Definition TZ_minus0 : str := [45;48;48;58;48;48].
Definition canon_tz (s : str) : str :=
  if endswith TZ_plus0 s || endswith TZ_minus0 s then firstn (length s - 6) s ++ [90] else s.

Definition canon_datelike (s : str) : str := canon_tz (trim_fractions (length s) s).

(* shapes: d = digit; the other characters literally.  (year: 4 or more digits, optional "-") *)
Definition is_tz (s : str) : bool :=
  match s with
  | [] => true
  | [90] => true
  | [sg; a; b; 58; c; d] =>
      (N.eqb sg 43 || N.eqb sg 45) && forallb is_ascii_digit [a; b; c; d]
      && (str_val [a; b] <=? 14) && (str_val [c; d] <=? 59)
  | _ => false
  end.

Definition two_digits_upto (lo hi : N) (s : str) : bool :=
  match s with
  | [a; b] => is_ascii_digit a && is_ascii_digit b && (lo <=? str_val s) && (str_val s <=? hi)
  | _ => false
  end.

(* split off a prefix of n characters *)
Definition cut (n : nat) (s : str) : str * str := (firstn n s, skipn n s).

Definition is_year_prefix (s : str) : option str :=     (* remaining text after the year *)
  let s' := match s with 45 :: r => r | _ => s end in
  let (ds, rest) := span is_ascii_digit s' in
  if (4 <=? length ds)%nat then Some rest else None.

Definition is_md (s : str) : option str :=               (* "-MM-DD" then rest *)
  match s with
  | 45 :: m1 :: m2 :: 45 :: d1 :: d2 :: rest =>
      if two_digits_upto 1 12 [m1; m2] && two_digits_upto 1 31 [d1; d2] then Some rest else None
  | _ => None
  end.

Definition is_hms (s : str) : option str :=              (* "hh:mm:ss[.f+]" then rest *)
  match s with
  | h1 :: h2 :: 58 :: m1 :: m2 :: 58 :: s1 :: s2 :: rest =>
      if two_digits_upto 0 24 [h1; h2] && two_digits_upto 0 59 [m1; m2] && two_digits_upto 0 60 [s1; s2] then
        match rest with
        | 46 :: r => let (ds, rest') := span is_ascii_digit r in
                     if (1 <=? length ds)%nat then Some rest' else None
        | _ => Some rest
        end
      else None
  | _ => None
  end.

Definition lex_datelike (b s : str) : bool :=
  if str_eqb b B_date then
    match is_year_prefix s with Some r => match is_md r with Some tz => is_tz tz | None => false end | None => false end
  else if str_eqb b B_dateTime then
    match is_year_prefix s with
    | Some r => match is_md r with
                | Some (84 :: t) => match is_hms t with Some tz => is_tz tz | None => false end
                | _ => false end
    | None => false end
  else if str_eqb b B_time then
    match is_hms s with Some tz => is_tz tz | None => false end
  else if str_eqb b B_gYear then
    match is_year_prefix s with Some tz => is_tz tz | None => false end
  else if str_eqb b B_gYearMonth then
    match is_year_prefix s with
    | Some (45 :: m1 :: m2 :: tz) => two_digits_upto 1 12 [m1; m2] && is_tz tz
    | _ => false end
  else if str_eqb b B_gMonthDay then
    match s with 45 :: r => match is_md r with Some tz => is_tz tz | None => false end | _ => false end
  else if str_eqb b B_gDay then
    match s with 45 :: 45 :: 45 :: d1 :: d2 :: tz => two_digits_upto 1 31 [d1; d2] && is_tz tz | _ => false end
  else if str_eqb b B_gMonth then
    match s with 45 :: 45 :: m1 :: m2 :: tz => two_digits_upto 1 12 [m1; m2] && is_tz tz | _ => false end
  else false.

(* duration: [-]P(nY)?(nM)?(nD)?(T(nH)?(nM)?(n(.n)?S)?)?  — checked loosely: starts with P after an
   optional sign, only digits, the designators and one "." *)
Definition lex_duration (s : str) : bool :=
  let s' := match s with 45 :: r => r | _ => s end in
  match s' with
  | 80 :: r => negb (length r =? 0)%nat
               && forallb (fun c => is_ascii_digit c || existsb (N.eqb c) [89; 77; 68; 84; 72; 83; 46]) r
               && is_ascii_digit (hd 0 (match r with 84 :: t => t | _ => r end))
  | _ => false
  end.

(* ---------------------------------------------------------------- binary *)
Definition is_hex_digit (c : N) : bool :=
  is_ascii_digit c || ((65 <=? c) && (c <=? 70)) || ((97 <=? c) && (c <=? 102)).
Definition lex_hex (s : str) : bool := forallb is_hex_digit s && Nat.even (length s).
Definition canon_hex (s : str) : str := map ascii_upper s.

Definition is_b64_char (c : N) : bool :=
  is_ascii_alpha c || is_ascii_digit c || N.eqb c 43 || N.eqb c 47 || N.eqb c 61.
Definition lex_b64 (s : str) : bool :=
  let t := ws_remove s in forallb is_b64_char t && (Nat.modulo (length t) 4 =? 0)%nat.

(* ---------------------------------------------------------------- names *)
Definition no_ws (s : str) : bool := negb (existsb xml_ws s) && negb (length s =? 0)%nat.
Definition is_name_start (c : N) : bool := is_ascii_alpha c || N.eqb c 95 || N.eqb c 58 || (128 <=? c).
Definition is_name_char (c : N) : bool := is_name_start c || is_ascii_digit c || N.eqb c 45 || N.eqb c 46 || N.eqb c 183.
Definition lex_nmtoken (s : str) : bool := negb (length s =? 0)%nat && forallb is_name_char s.
Definition lex_name (s : str) : bool := match s with c :: r => is_name_start c && forallb is_name_char r | [] => false end.
Definition lex_ncname (s : str) : bool := lex_name s && negb (existsb (N.eqb 58) s).
(* language: [a-zA-Z]{1,8}(-[a-zA-Z0-9]{1,8})* *)
Definition lex_language (s : str) : bool :=
  match split_chr 45 s with
  | [] => false
  | p :: r => forallb is_ascii_alpha p && (1 <=? length p)%nat && (length p <=? 8)%nat
              && forallb (fun x => forallb (fun c => is_ascii_alpha c || is_ascii_digit c) x
                                   && (1 <=? length x)%nat && (length x <=? 8)%nat) r
  end.

(* ---------------------------------------------------------------- simple types *)
Inductive stype :=
| STAtom (b : str) (enum : option (list str)) (ws : wsmode)
| STList (item : stype)
| STUnion (members : list stype).

(* the value of an atomic builtin in canonical form, None when s (already white-space normalised)
   is not in the lexical space *)
Definition canon_builtin (b : str) (s : str) : option str :=
  match vkind_of b with
  | VText =>
      if str_eqb b B_NMTOKEN then (if lex_nmtoken s then Some s else None)
      else if str_eqb b B_Name then (if lex_name s then Some s else None)
      else if str_eqb b B_NCName || str_eqb b B_ID || str_eqb b B_IDREF || str_eqb b B_ENTITY then
        (if lex_ncname s then Some s else None)
      else if str_eqb b B_language then (if lex_language s then Some s else None)
      else Some s
  | VBoolean => canon_boolean s
  | VDecimal =>
      if str_eqb b B_decimal then canon_decimal s
      else match decimal_is_integer s, sassoc b int_bounds with
           | Some z, Some bd => if in_bounds bd z then canon_decimal s else None
           | _, _ => None
           end
  | VFloat => canon_float s
  | VDateLike => if lex_datelike b s then Some (canon_datelike s) else None
  | VDuration => if lex_duration s then Some s else None
  | VHex => if lex_hex s then Some (canon_hex s) else None
  | VBase64 => if lex_b64 s then Some (ws_remove s) else None
  | VQName => if lex_name s then Some s else None
  | VUnknown => Some s
  end.

Definition opt_list_all {A} (l : list (option A)) : option (list A) :=
  fold_right (fun x acc => match x, acc with Some v, Some r => Some (v :: r) | _, _ => None end) (Some []) l.

Fixpoint first_some {A B} (f : A -> option B) (l : list A) : option B :=
  match l with [] => None | x :: r => match f x with Some v => Some v | None => first_some f r end end.

(* canonical form of a lexical form of simple type t (None: not valid).  A union value is read with
   the FIRST member type that accepts it (XSD 1.0 Part 2, 2.5.1.3); the canonical form records which. *)
Fixpoint canon_value (t : stype) (s : str) : option str :=
  match t with
  | STAtom b en ws =>
      let v := ws_apply ws s in
      match canon_builtin b v with
      | None => None
      | Some c =>
          match en with
          | None => Some c
          | Some vals =>
              if existsb (fun e => match canon_builtin b (ws_apply ws e) with Some ce => str_eqb ce c | None => false end) vals
              then Some c else None
          end
      end
  | STList item =>
      match opt_list_all (map (canon_value item) (split_ws xml_ws s)) with
      | Some l => Some (join [32] l)
      | None => None
      end
  | STUnion ms =>
      (fix go (i : N) (ms : list stype) : option str :=
         match ms with
         | [] => None
         | m :: r => match canon_value m s with
                     | Some c => Some (py_str_of_Z (Z.of_N i) ++ [35] ++ c)
                     | None => go (i + 1) r
                     end
         end) 0 ms
  end.

(* the same with the member tag dropped: "equal under some common member reading" *)
Fixpoint canon_value_untagged (t : stype) (s : str) : option str :=
  match t with
  | STUnion ms =>
      (fix go (ms : list stype) : option str :=
         match ms with
         | [] => None
         | m :: r => match canon_value_untagged m s with Some c => Some c | None => go r end
         end) ms
  | STList item =>
      match opt_list_all (map (canon_value_untagged item) (split_ws xml_ws s)) with
      | Some l => Some (join [32] l)
      | None => None
      end
  | _ => canon_value t s
  end.

(* two lexical forms of type t denote the same value; forms outside the lexical space are compared
   after white-space normalisation only *)
Definition ws_of (t : stype) : wsmode :=
  match t with STAtom _ _ ws => ws | _ => WsCollapse end.

Definition value_valid (t : stype) (a : str) : bool :=
  match canon_value t a with Some _ => true | None => false end.

(* a and b denote the same value of type t.  A union value is read with the first member type that
   accepts a; b must be accepted by that member too and denote the same value there ("b read with a's
   type is a's value").  List items are compared pairwise. *)
Fixpoint value_eqb_gen (lenient : bool) (t : stype) (a b : str) : bool :=
  match t with
  | STAtom _ _ ws =>
      match canon_value t a, canon_value t b with
      | Some x, Some y => str_eqb x y
      | None, None => str_eqb (ws_apply ws a) (ws_apply ws b)
      | _, _ => false
      end
  | STList item => list_eqb (value_eqb_gen lenient item) (split_ws xml_ws a) (split_ws xml_ws b)
  | STUnion ms =>
      if lenient then
        (* the same value under SOME member type that accepts both *)
        (fix any (ms : list stype) : bool :=
           match ms with
           | [] => false
           | m :: r => (value_valid m a && value_valid m b && value_eqb_gen lenient m a b) || any r
           end) ms
      else
        (fix go (ms : list stype) : bool :=
           match ms with
           | [] => str_eqb (ws_collapse a) (ws_collapse b)
           | m :: r => if value_valid m a then value_valid m b && value_eqb_gen lenient m a b else go r
           end) ms
  end.
Definition value_eqb := value_eqb_gen false.
