(* Spec/MetaSpec.v — an independent, declarative reading of the documented class / field
   metadata of xsdata binding models (docs/models/classes.md, fields.md, types.md):
   what the user wrote (`mdesc`, mirroring harness/genmodels.py's description dict) and
   the event stream that description prescribes for an instance (`spec_events`).

   Imports Model/Bind.v for the value / event / converter TYPES only; no lookup, metadata
   record or function of the models is used here, and nothing from Gen/.

   Reading of the documentation
   * class: element name = Meta.name, default the class name; namespace = Meta.namespace;
     a class that does not state a namespace inherits the namespace of the class it is
     nested in (XmlContext.fetch: "parent_ns: the inherited parent namespace"; this is what
     the parser and XmlContext.build_recursive pass), none at the root;
     nillable: xsi:nil="true" when the element has no meaningful content;
   * field: name = metadata name, default the field name; Element fields take the class
     namespace unless they state one ("" = explicitly none); Attribute fields are
     unqualified unless they state one; fields are rendered in declaration order,
     attributes first; None / empty-list values are not rendered unless nillable;
     `tokens` = one whitespace separated value; `wrapper` = an enclosing element in the
     element's namespace; `sequence` = fields of a group are rendered round-robin;
     `required` / defaults: with ignore_default_attributes an optional attribute equal to
     its default is omitted;
   * text of a value: str as is, QName resolved by the writer, Enum by its value,
     everything else by its XML Schema lexical form (the converter, property C05);
   * xsi:nil (the writer's documented rule, XmlWriter.flush_start): "pop the xsi:nil
     attribute if the element is not empty" — event streams are compared after `norm_nil`. *)
From Coq Require Import NArith ZArith List Bool.
From XV Require Import Base.Str Base.Eqb Model.Bind.
Import ListNotations.
Open Scope N_scope.

(* ---------------------------------------------------------------- what the user wrote *)
Record fdesc := mk_fdesc {
  fd_name : str;                    (* python field name *)
  fd_kind : vkind;                  (* metadata "type" *)
  fd_xml_name : option str;         (* metadata "name" *)
  fd_namespace : option str;        (* metadata "namespace" *)
  fd_type : ptype;                  (* declared item type (Element / Attribute / Text) *)
  fd_list : bool;                   (* list[T] *)
  fd_optional : bool;               (* Optional[T] = None *)
  fd_tokens : bool;
  fd_nillable : bool;
  fd_sequence : option N;
  fd_wrapper : option str;
  fd_format : option str;
  fd_default : option prim;         (* default=... of a scalar field *)
  fd_required : bool;               (* metadata "required" *)
  fd_mixed : bool;
  fd_choices : list (str * ptype);  (* Elements: choice name, type *)
  fd_gen_name : option str          (* what the element / attribute name generator in force makes of the Python
                                       field name (None: the default, identity) *)
}.

Record cdesc := mk_cdesc {
  cd_id : cls;
  cd_name : str;                    (* python class name *)
  cd_meta_name : option str;        (* Meta.name *)
  cd_meta_ns : option str;          (* Meta.namespace (Some [] = stated, empty) *)
  cd_nillable : bool;               (* Meta.nillable *)
  cd_base : option cls;             (* base model class *)
  cd_fields : list fdesc;           (* own fields, declaration order *)
  cd_gen_name : option str          (* what the element name generator in force makes of the class name *)
}.

Record mdesc := mk_mdesc {
  md_module_ns : option str;        (* module __NAMESPACE__ *)
  md_classes : list cdesc;          (* definition order *)
  md_enums : list enum_def
}.

Definition find_cdesc (D : mdesc) (c : cls) : option cdesc :=
  find (fun d => N.eqb (cd_id d) c) (md_classes D).

(* ---------------------------------------------------------------- names *)
Definition some_ns (o : option str) : option str :=
  match o with Some (_ :: _) => o | _ => None end.

Definition clark (ns : option str) (local : str) : qname :=
  match ns with
  | Some ((_ :: _) as u) => [123] ++ u ++ [125] ++ local
  | _ => local
  end.

(* namespace part of a Clark name *)
Fixpoint upto_brace (s : str) : option (str * str) :=
  match s with
  | [] => None
  | x :: r => if N.eqb x 125 then Some ([], r)
              else match upto_brace r with Some (a, b) => Some (x :: a, b) | None => None end
  end.
Definition ns_of (q : qname) : option str :=
  match q with
  | x :: r => if N.eqb x 123
              then match upto_brace r with Some ((_ :: _) as u, _ :: _) => Some u | _ => None end
              else None
  | [] => None
  end.

Definition spec_xsi_ns : str := [104;116;116;112;58;47;47;119;119;119;46;119;51;46;111;114;103;47;50;48;48;49;47;88;77;76;83;99;104;101;109;97;45;105;110;115;116;97;110;99;101].
Definition spec_xsi_nil : qname := clark (Some spec_xsi_ns) [110;105;108].
Definition spec_xsi_type : qname := clark (Some spec_xsi_ns) [116;121;112;101].
Definition spec_true : str := [116;114;117;101].
Definition nil_marker : wevent := WAttr spec_xsi_nil (WP (PStr spec_true)).
Definition type_marker (q : qname) : wevent := WAttr spec_xsi_type (WP (PQName q)).

(* effective namespace of a class occurring inside an element of namespace `ctx` *)
Definition class_ns (c : cdesc) (ctx : option str) : option str :=
  match cd_meta_ns c with Some n => some_ns (Some n) | None => ctx end.
(* explicit names (Meta.name, metadata "name", "wrapper") are used verbatim; the name generators
   apply only to names derived from the Python class / field name *)
Definition derived_class_name (c : cdesc) : str :=
  match cd_gen_name c with Some ((_ :: _) as g) => g | _ => cd_name c end.
Definition derived_field_name (f : fdesc) : str :=
  match fd_gen_name f with Some ((_ :: _) as g) => g | _ => fd_name f end.
Definition class_local (c : cdesc) : str :=
  match cd_meta_name c with Some ((_ :: _) as n) => n | _ => derived_class_name c end.
Definition field_local (f : fdesc) : str :=
  match fd_xml_name f with Some ((_ :: _) as n) => n | _ => derived_field_name f end.
(* namespace of a field's element / attribute, `cns` = effective class namespace *)
Definition field_ns (f : fdesc) (cns : option str) : option str :=
  match fd_kind f with
  | KAttribute => some_ns (fd_namespace f)
  | _ => match fd_namespace f with Some n => some_ns (Some n) | None => cns end
  end.
Definition field_qname (f : fdesc) (cns : option str) : qname := clark (field_ns f cns) (field_local f).
Definition wrapper_qname (f : fdesc) (cns : option str) : option qname :=
  match fd_wrapper f with Some ((_ :: _) as w) => Some (clark (field_ns f cns) w) | _ => None end.

(* all fields of a class, inherited first (dataclass field order); fuel = number of classes *)
Fixpoint all_fields (fuel : nat) (D : mdesc) (c : cdesc) : list (cdesc * fdesc) :=
  let own := map (fun f => (c, f)) (cd_fields c) in
  match fuel with
  | O => own
  | S k =>
      match cd_base c with
      | Some b =>
          match find_cdesc D b with
          | Some bd =>
              (* a redeclared field keeps the position of the base declaration *)
              let inherited := all_fields k D bd in
              let redeclared := fun n => existsb (fun f => str_eqb (fd_name f) n) (cd_fields c) in
              map (fun cf => if redeclared (fd_name (snd cf))
                             then match find (fun f => str_eqb (fd_name f) (fd_name (snd cf))) (cd_fields c) with
                                  | Some f => (c, f) | None => cf end
                             else cf) inherited
              ++ filter (fun cf => negb (existsb (fun x => str_eqb (fd_name (snd x)) (fd_name (snd cf))) inherited)) own
          | None => own
          end
      | None => own
      end
  end.

(* ---------------------------------------------------------------- text of values *)
Definition spec_enum_value (D : mdesc) (e m : N) : option prim :=
  match find (fun d => N.eqb (en_id d) e) (md_enums D) with
  | Some d => option_map snd (nth_error (en_members d) (N.to_nat m))
  | None => None
  end.

Definition text_of_prim (c : conv) (D : mdesc) (fmt : option str) (p : prim) : wval :=
  let lex := fun p => match p with
                      | PStr _ | PQName _ => WP p
                      | _ => WP (PStr (c_ser c fmt p))
                      end in
  match p with
  | PEnum e m => match spec_enum_value D e m with Some v => lex v | None => WNone end
  | _ => lex p
  end.

(* a scalar, or a token list *)
Definition text_of (c : conv) (D : mdesc) (fmt : option str) (v : value) : wval :=
  match v with
  | VP p => text_of_prim c D fmt p
  | VList _ l => WL (map (fun x => match x with VP p => text_of_prim c D fmt p | _ => WNone end) l)
  | _ => WNone
  end.

(* ---------------------------------------------------------------- equality with a default *)
Definition spec_default_eq (d : prim) (v : value) : bool :=
  match v with VP p => prim_eqb d p | _ => false end.

(* ---------------------------------------------------------------- the events *)
Definition is_content_kind (k : vkind) : bool :=
  match k with KText | KElement | KElements | KWildcard => true | _ => false end.

(* an element "has no meaningful content": nothing, or an absent / empty text first *)
Definition no_content (evs : list wevent) : bool :=
  match evs with
  | [] => true
  | WData WNone :: _ | WData (WL []) :: _ => true
  | _ => false
  end.

Definition with_wrapper (w : option qname) (evs : list wevent) : list wevent :=
  match w with Some q => [WStart q] ++ evs ++ [WEnd q] | None => evs end.

Fixpoint take_while {A} (p : A -> bool) (l : list A) : list A :=
  match l with
  | x :: r => if p x then x :: take_while p r else []
  | [] => []
  end.

Section Spec.
  Variable cv : conv.
  Variable D : mdesc.
  Variable ignore_defaults : bool.

  (* attributes of an object, declaration order *)
  Definition spec_attribute (f : fdesc) (cns : option str) (v : value) : list wevent :=
    match v with
    | VNone => []
    | VList _ [] => []
    | _ =>
        if ignore_defaults && negb (fd_required f)
           && match fd_default f with Some d => spec_default_eq d v | None => false end then []
        else [WAttr (field_qname f cns) (text_of cv D (fd_format f) v)]
    end.

  (* one primitive (or token list) element *)
  Definition spec_simple_element (f : fdesc) (q : qname) (v : value) : list wevent :=
    match v with
    | VNone => [WStart q] ++ (if fd_nillable f then [nil_marker] else []) ++ [WData WNone; WEnd q]
    | VList _ [] => [WStart q] ++ (if fd_nillable f then [nil_marker] else []) ++ [WData (WL []); WEnd q]
    | _ => [WStart q; WData (text_of cv D (fd_format f) v); WEnd q]
    end.

  Definition lookup (fs : list (str * value)) (n : str) : value :=
    match find (fun kv => str_eqb (fst kv) n) fs with Some kv => snd kv | None => VNone end.

  (* a field's namespace defaults to the namespace of the class that declares it *)
  Definition decl_ns (cns : option str) (cf : cdesc * fdesc) : option str :=
    match cd_meta_ns (fst cf) with
    | Some n => some_ns (Some n)
    | None => cns
    end.

  (* one occurrence of a content field; `rec` renders a nested object under the field's name *)
  Definition spec_item (rec : option qname -> bool -> value -> list wevent) (cns : option str)
             (cf : cdesc * fdesc) (x : value) : list wevent :=
    let f := snd cf in
    let fq := field_qname f (decl_ns cns cf) in
    match fd_kind f with
    | KText => [WData (text_of cv D (fd_format f) x)]
    | _ =>
        match x with
        | VObj _ _ => rec (Some fq) (fd_nillable f) x
        | _ => spec_simple_element f fq x
        end
    end.

  (* the occurrences of a field's value, in order *)
  Definition spec_occurrences (f : fdesc) (x : value) : list value :=
    match x with
    | VNone => if fd_nillable f then [x] else []
    | VList _ l =>
        if fd_tokens f then
          (if fd_list f then l                       (* list of token lists *)
           else match l with [] => if fd_nillable f then [x] else [] | _ => [x] end)
        else l
    | _ => [x]
    end.

  (* a field outside a sequence group *)
  Definition spec_plain (rec : option qname -> bool -> value -> list wevent) (cns : option str)
             (fs : list (str * value)) (cf : cdesc * fdesc) : list wevent :=
    let f := snd cf in
    match lookup fs (fd_name f), fd_kind f with
    | VNone, _ => if fd_nillable f then spec_item rec cns cf VNone else []
    | x, KText => spec_item rec cns cf x
    | x, _ => with_wrapper (wrapper_qname f (decl_ns cns cf)) (flat_map (spec_item rec cns cf) (spec_occurrences f x))
    end.

  (* a sequence group: round-robin over its members *)
  Definition spec_rounds (rec : option qname -> bool -> value -> list wevent) (cns : option str)
             (fs : list (str * value)) (grp : list (cdesc * fdesc)) : list wevent :=
    let cols := map (fun cf => (cf, spec_occurrences (snd cf) (lookup fs (fd_name (snd cf))))) grp in
    let n := fold_right (fun col acc => Nat.max (length (snd col)) acc) O cols in
    flat_map (fun j => flat_map (fun col => match nth_error (snd col) j with
                                            | Some x => spec_item rec cns (fst col) x
                                            | None => []
                                            end) cols) (seq 0 n).

  Fixpoint spec_walk (plain : cdesc * fdesc -> list wevent) (rounds : list (cdesc * fdesc) -> list wevent)
           (fuel : nat) (l : list (cdesc * fdesc)) : list wevent :=
    match fuel, l with
    | S k2, cf :: r =>
        match fd_sequence (snd cf) with
        | None => plain cf ++ spec_walk plain rounds k2 r
        | Some s =>
            let same := fun x => match fd_sequence (snd x) with Some s' => N.eqb s s' | None => false end in
            let n := length (take_while same r) in                 (* the following members *)
            rounds (cf :: firstn n r) ++ spec_walk plain rounds k2 (skipn n r)
        end
    | _, _ => []
    end.

  Definition is_attribute_field (cf : cdesc * fdesc) : bool :=
    match fd_kind (snd cf) with KAttribute => true | _ => false end.

  (* fuel: nesting depth of the instance *)
  Fixpoint spec_object (fuel : nat) (ctx : option str) (over : option qname) (fnil : bool) (v : value)
    : list wevent :=
    match fuel, v with
    | S k, VObj c fs =>
        match find_cdesc D c with
        | None => []
        | Some cd =>
            let cns := class_ns cd ctx in
            let q := match over with Some q => q | None => clark cns (class_local cd) end in
            (* nested classes inherit the parent CLASS namespace *)
            let rec := spec_object k cns in
            let fields := all_fields (length (md_classes D)) D cd in
            let attrs := flat_map (fun cf => if is_attribute_field cf
                                             then spec_attribute (snd cf) (decl_ns cns cf) (lookup fs (fd_name (snd cf)))
                                             else []) fields in
            let content_fields := filter (fun cf => is_content_kind (fd_kind (snd cf))) fields in
            let content := spec_walk (spec_plain rec cns fs) (spec_rounds rec cns fs)
                                     (S (length content_fields)) content_fields in
            let nil := if (fnil || cd_nillable cd) && no_content content then [nil_marker] else [] in
            [WStart q] ++ attrs ++ nil ++ content ++ [WEnd q]
        end
    | _, _ => []
    end.

End Spec.

Fixpoint sdepth (v : value) : nat :=
  let fix dl (l : list value) : nat := match l with [] => O | x :: r => Nat.max (sdepth x) (dl r) end in
  let fix df (l : list (str * value)) : nat := match l with [] => O | (_, x) :: r => Nat.max (sdepth x) (df r) end in
  match v with
  | VList _ l => S (dl l)
  | VObj _ fs => S (df fs)
  | _ => O
  end.

Definition spec_events (cv : conv) (D : mdesc) (ignore_defaults : bool) (v : value) : list wevent :=
  spec_object cv D ignore_defaults (S (sdepth v)) None None false v.

(* ---------------------------------------------------------------- the writer's xsi:nil rule *)
Definition is_nil_attr (e : wevent) : bool :=
  match e with WAttr q _ => str_eqb q spec_xsi_nil | _ => false end.

(* does the element whose pending attributes are followed by `rest` stay empty? *)
Fixpoint stays_empty (rest : list wevent) : bool :=
  match rest with
  | WAttr _ _ :: r => stays_empty r
  | WData WNone :: _ | WData (WL []) :: _ => true
  | WEnd _ :: _ => true
  | [] => true
  | _ => false
  end.

Fixpoint norm_nil (evs : list wevent) : list wevent :=
  match evs with
  | [] => []
  | e :: r => if is_nil_attr e && negb (stays_empty r) then norm_nil r else e :: norm_nil r
  end.

(* ================================================================ guards (slice F1) *)
(* Slice F1 of the description language: Text / Element / Attribute fields of primitive,
   enum or (exact) class type; optional, list, tokens, nillable, sequence, wrapper,
   namespaces, attribute defaults.  No inheritance, wildcards or compound fields. *)

Definition plain_ns (n : str) : bool :=
  negb (match n with x :: _ => N.eqb x 35 || N.eqb x 33 | [] => false end)     (* ##any & co, !other *)
  && negb (existsb (fun c => xml_ws c || N.eqb c 123 || N.eqb c 125) n).
Definition plain_name (n : str) : bool :=
  match n with [] => false | _ => negb (existsb (fun c => N.eqb c 123 || N.eqb c 125) n) end.
Definition oplain_ns (o : option str) : bool := match o with Some n => plain_ns n | None => true end.
Definition oplain_name (o : option str) : bool := match o with Some n => plain_name n | None => true end.

Definition is_kind (k : vkind) (f : fdesc) : bool :=
  match k, fd_kind f with
  | KText, KText | KElement, KElement | KAttribute, KAttribute | KElements, KElements
  | KWildcard, KWildcard | KAttributes, KAttributes => true
  | _, _ => false
  end.

Fixpoint distinct (l : list str) : bool :=
  match l with [] => true | x :: r => negb (existsb (str_eqb x) r) && distinct r end.

Definition enum_ok (D : mdesc) (e : N) : bool :=
  match find (fun d => N.eqb (en_id d) e) (md_enums D) with
  | Some d => forallb (fun m => match snd m with PEnum _ _ => false | _ => true end) (en_members d)
  | None => false
  end.

Definition ftype_ok (D : mdesc) (f : fdesc) : bool :=
  match fd_type f with
  | TClass c => is_kind KElement f && negb (fd_tokens f)
                && match find_cdesc D c with Some _ => true | None => false end
  | TEnum e => enum_ok D e
  | TObject => false
  | _ => true
  end.

(* a stated default is a str / int / bool of the field's type (equality with it is then structural) *)
Definition default_ok (f : fdesc) : bool :=
  match fd_default f, fd_type f with
  | None, _ => true
  | Some (PStr _), TStr | Some (PInt _), TInt | Some (PBool _), TBool => true
  | _, _ => false
  end.

Definition wf_field (D : mdesc) (f : fdesc) : bool :=
  (is_kind KText f || is_kind KElement f || is_kind KAttribute f)
  && plain_name (fd_name f) && plain_name (derived_field_name f) && oplain_name (fd_xml_name f) && oplain_ns (fd_namespace f)
  && ftype_ok D f && default_ok f
  && negb (fd_mixed f)
  && match fd_choices f with [] => true | _ => false end
  (* list only on elements; a scalar is Optional or has a default *)
  && (negb (fd_list f) || is_kind KElement f)
  && (fd_tokens f || fd_list f || fd_optional f || match fd_default f with Some _ => true | None => false end)
  && (match fd_default f with Some d => negb (fd_tokens f || fd_list f || fd_optional f) | None => true end)
  (* wrapper: on plain (non token, non sequence) list elements *)
  && (match fd_wrapper f with
      | Some w => plain_name w && is_kind KElement f && fd_list f && negb (fd_tokens f)
                  && match fd_sequence f with None => true | Some _ => false end
      | None => true
      end)
  && (match fd_sequence f with Some _ => is_kind KElement f | None => true end).

(* members of one sequence group are adjacent among the content fields *)
Fixpoint seq_contiguous (seen : list N) (prev : option N) (l : list fdesc) : bool :=
  match l with
  | [] => true
  | f :: r =>
      match fd_sequence f with
      | None => seq_contiguous seen None r
      | Some s =>
          if opt_eqb N.eqb prev (Some s) then seq_contiguous seen prev r
          else negb (existsb (N.eqb s) seen) && seq_contiguous (s :: seen) (Some s) r
      end
  end.

Definition reserved_attr (q : qname) : bool := str_eqb q spec_xsi_nil || str_eqb q spec_xsi_type.

Definition wf_class (D : mdesc) (c : cdesc) : bool :=
  plain_name (cd_name c) && plain_name (derived_class_name c) && oplain_name (cd_meta_name c) && oplain_ns (cd_meta_ns c)
  && match cd_base c with None => true | Some _ => false end
  && forallb (wf_field D) (cd_fields c)
  && distinct (map fd_name (cd_fields c))
  (* element names are distinct (the theorem's reading of "order by field declaration" needs no
     tie-break between equally named elements) *)
  && distinct (map field_local (filter (is_kind KElement) (cd_fields c)))
  && (length (filter (is_kind KText) (cd_fields c)) <=? 1)%nat
  && seq_contiguous [] None (filter (fun f => is_content_kind (fd_kind f)) (cd_fields c))
  (* attribute names are distinct whatever the class namespace, and not the xsi markers *)
  && distinct (map (fun f => field_qname f None) (filter (is_kind KAttribute) (cd_fields c)))
  && forallb (fun f => negb (reserved_attr (field_qname f None))) (filter (is_kind KAttribute) (cd_fields c)).

Fixpoint distinctN (l : list N) : bool :=
  match l with [] => true | x :: r => negb (existsb (N.eqb x) r) && distinctN r end.

(* the part of slice F1 the theorem covers: no sequence groups (those are under correspondence and
   the specification oracle) *)
Definition no_sequences (D : mdesc) : bool :=
  forallb (fun c => forallb (fun f => match fd_sequence f with None => true | Some _ => false end) (cd_fields c)) (md_classes D).

Definition wf_desc (D : mdesc) : bool :=
  forallb (wf_class D) (md_classes D)
  && distinctN (map cd_id (md_classes D))
  && distinctN (map en_id (md_enums D)).

(* ---------------------------------------------------------------- typed instances *)
Definition prim_has_type (D : mdesc) (t : ptype) (p : prim) : bool :=
  match t, p with
  | TStr, PStr _ | TInt, PInt _ | TBool, PBool _ | TFloat, PFloat _ | TDecimal, PDecimal _
  | TBytes, PBytes _ | TQName, PQName _ => true
  | TEnum e, PEnum e' m =>
      N.eqb e e' && match spec_enum_value D e m with Some _ => true | None => false end
  | t, PXml t' _ =>
      match t with
      | TXmlDate | TXmlTime | TXmlDateTime | TXmlDuration | TXmlPeriod => ptype_eqb t t'
      | _ => false
      end
  | _, _ => false
  end.

Fixpoint typed_value (D : mdesc) (fuel : nat) (v : value) {struct fuel} : bool :=
  match fuel, v with
  | S k, VObj c fs =>
      match find_cdesc D c with
      | None => false
      | Some cd =>
          let item := fun (f : fdesc) (x : value) =>
            match fd_type f, x with
            | TClass c', VObj c'' _ => N.eqb c' c'' && typed_value D k x
            | TClass _, _ => false
            | t, VP p => prim_has_type D t p
            | _, _ => false
            end in
          let tokens := fun (f : fdesc) (x : value) =>
            match x with VList _ l => forallb (item f) l | _ => false end in
          list_eqb str_eqb (map fst fs) (map fd_name (cd_fields cd))
          && forallb (fun f =>
                match lookup fs (fd_name f) with
                | VNone => negb (fd_tokens f || fd_list f)
                | VList _ l =>
                    if fd_tokens f then (if fd_list f then forallb (tokens f) l else forallb (item f) l)
                    else fd_list f && forallb (item f) l
                | x => negb (fd_tokens f || fd_list f) && item f x
                end) (cd_fields cd)
      end
  | _, _ => false
  end.

(* ---------------------------------------------------------------- inherited namespaces *)
(* One excluded class (refuted in Properties/C03b.v), about a class that states no namespace of
   its own: XmlContext.cache is keyed by the class alone.  `pns c` is the parent namespace under
   which class c's metadata was first built; every occurrence of c must sit in a class of that
   same namespace (the serializer, like the parser, hands down the enclosing CLASS namespace). *)
Fixpoint cache_consistent (D : mdesc) (pns : cls -> option str) (fuel : nat) (ctx : option str)
         (v : value) {struct fuel} : bool :=
  match fuel, v with
  | S k, VObj c fs =>
      match find_cdesc D c with
      | None => false
      | Some cd =>
          (match cd_meta_ns cd with Some _ => true | None => ostr_eqb (some_ns (pns c)) ctx end)
          && let cns := class_ns cd ctx in
             forallb (fun f =>
                let sub := fun x => match x with VObj _ _ => cache_consistent D pns k cns x | _ => true end in
                match lookup fs (fd_name f) with
                | VList _ l => forallb sub l
                | x => sub x
                end) (cd_fields cd)
      end
  | _, _ => false
  end.
