(* Spec/WsdlSpec.v — specification side of C17 (imports nothing from Gen/ or Model/).

   1. A Gallina representation of a WSDL 1.1 `definitions` document in the supported
      fragment (messages/parts, portTypes, SOAP 1.1 bindings, services/ports), at the
      level of the *document*: QName-valued attributes are kept as written ("tns:Foo")
      together with the namespace declarations in scope at the element carrying them.
   2. `expected : definitions -> list service_desc` — what WSDL 1.1 (W3C Note, 15 March
      2001, sections 2 and 3) and SOAP 1.1 (W3C Note, 8 May 2000, sections 4, 6, 7) say a
      client needs per port x operation: style, endpoint, transport, SOAPAction and the
      SHAPE of the request and response envelopes.
   3. `item_accepts` — does a concrete XML element tree have a given shape (used to judge
      the bytes the real client posts), and the HTTP-level oracle.
   4. `wf_definitions` — the supported fragment, as a computable predicate on the document.

   The specification is hand-written from the two Notes (plus WS-I Basic Profile 1.1
   R2729 / R2735 for the two places where the Notes only state a convention: the name of
   the rpc response wrapper and the namespace of rpc part accessors).  Agreement of the
   implementation with `expected` therefore shows consistency with this reading. *)
From Coq Require Import NArith List Bool.
From XV Require Import Base.Str Base.Eqb.
Import ListNotations.
Open Scope N_scope.

(* ------------------------------------------------------------------ constants *)
Definition SOAP_ENV : str := [104;116;116;112;58;47;47;115;99;104;101;109;97;115;46;120;109;108;115;111;97;112;46;111;114;103;47;115;111;97;112;47;101;110;118;101;108;111;112;101;47].  (* 'http://schemas.xmlsoap.org/soap/envelope/' *)
Definition SOAP_HTTP : str := [104;116;116;112;58;47;47;115;99;104;101;109;97;115;46;120;109;108;115;111;97;112;46;111;114;103;47;115;111;97;112;47;104;116;116;112].  (* 'http://schemas.xmlsoap.org/soap/http' *)
Definition XSD_NS : str := [104;116;116;112;58;47;47;119;119;119;46;119;51;46;111;114;103;47;50;48;48;49;47;88;77;76;83;99;104;101;109;97].  (* 'http://www.w3.org/2001/XMLSchema' *)
Definition s_Envelope : str := [69;110;118;101;108;111;112;101].
Definition s_Header : str := [72;101;97;100;101;114].
Definition s_Body : str := [66;111;100;121].
Definition s_Fault : str := [70;97;117;108;116].
Definition s_faultcode : str := [102;97;117;108;116;99;111;100;101].
Definition s_faultstring : str := [102;97;117;108;116;115;116;114;105;110;103].
Definition s_faultactor : str := [102;97;117;108;116;97;99;116;111;114].
Definition s_detail : str := [100;101;116;97;105;108].
Definition s_Response : str := [82;101;115;112;111;110;115;101].
Definition s_document : str := [100;111;99;117;109;101;110;116].
Definition s_rpc : str := [114;112;99].
Definition s_string : str := [115;116;114;105;110;103].
Definition s_underscore : str := [95].
Definition s_content_type : str := [99;111;110;116;101;110;116;45;116;121;112;101].  (* 'content-type' *)
Definition s_text_xml : str := [116;101;120;116;47;120;109;108].                     (* 'text/xml' *)
Definition s_SOAPAction : str := [83;79;65;80;65;99;116;105;111;110].                (* 'SOAPAction' *)
Definition s_literal : str := [108;105;116;101;114;97;108].

(* ------------------------------------------------------------------ the document *)
(* namespace declarations in scope: prefix (None = default namespace) |-> URI *)
Definition nsmap := list (option str * str).

Record part := mk_part {
  part_name : str;
  part_element : option str;     (* QName as written *)
  part_type : option str;        (* QName as written *)
  part_ns : nsmap }.

Record message := mk_message { msg_name : str; msg_ns : nsmap; msg_parts : list part }.

(* wsdl:input / wsdl:output / wsdl:fault of a portType operation *)
Record pt_msg := mk_pt_msg { ptm_name : option str; ptm_message : str; ptm_ns : nsmap }.

Record pt_operation := mk_pt_operation {
  pto_name : str; pto_input : option pt_msg; pto_output : option pt_msg; pto_faults : list pt_msg }.

Record port_type := mk_port_type { pt_name : str; pt_operations : list pt_operation }.

(* SOAP 1.1 binding extension elements inside wsdl:input / wsdl:output, in document order *)
Inductive soap_ext :=
| SoapBody (use : option str) (namespace : option str) (parts : option str)
| SoapHeader (message : str) (part : str) (use : option str).

Record b_msg := mk_b_msg { bm_exts : list soap_ext; bm_ns : nsmap }.

Record soap_operation := mk_soap_operation { so_action : option str; so_style : option str }.

Record b_operation := mk_b_operation {
  bo_name : str; bo_soap : option soap_operation;
  bo_input : option b_msg; bo_output : option b_msg;
  bo_faults : list str }.           (* names of the bound wsdl:fault elements *)

Record soap_binding := mk_soap_binding { sb_style : option str; sb_transport : option str }.

Record binding := mk_binding {
  b_name : str; b_type : str; b_ns : nsmap; b_soap : option soap_binding; b_operations : list b_operation }.

Record port := mk_port { port_name : str; port_binding : str; port_ns : nsmap; port_address : option str }.

Record service := mk_service { svc_name : str; svc_ports : list port }.

Record definitions := mk_definitions {
  d_tns : option str;
  d_messages : list message;
  d_port_types : list port_type;
  d_bindings : list binding;
  d_services : list service }.

(* ------------------------------------------------------------------ QNames (XML Namespaces 1.0 / XSD QName) *)
Fixpoint ns_lookup (m : nsmap) (p : option str) : option str :=
  match m with
  | [] => None
  | (k, u) :: r => if ostr_eqb k p then Some u else ns_lookup r p
  end.

(* prefix and local part around the first colon; None when there is no colon *)
Fixpoint split_colon (s : str) : option (str * str) :=
  match s with
  | [] => None
  | c :: r =>
      if c =? 58 then Some ([], r)
      else match split_colon r with Some (a, b) => Some (c :: a, b) | None => None end
  end.

Definition has_colon (s : str) : bool := existsb (N.eqb 58) s.
Definition has_slash (s : str) : bool := existsb (N.eqb 47) s.

(* a lexically sane QName: "local" or "prefix:local", both non-empty, one colon at most,
   no "/" in the local part (NCNames have none) *)
Definition qname_lexical (s : str) : bool :=
  match split_colon s with
  | None => negb (match s with [] => true | _ => false end) && negb (has_slash s)
  | Some (p, l) => negb (match p with [] => true | _ => false end)
                   && negb (match l with [] => true | _ => false end) && negb (has_colon l) && negb (has_slash l)
  end.

(* expanded name (namespace URI, local); an unprefixed QName takes the default namespace
   ("" when there is none); an undeclared prefix does not resolve *)
Definition resolve_qname (m : nsmap) (s : str) : option (str * str) :=
  if negb (qname_lexical s) then None else
  match split_colon s with
  | Some (p, l) => match ns_lookup m (Some p) with Some u => Some (u, l) | None => None end
  | None => Some (match ns_lookup m None with Some u => u | None => [] end, s)
  end.

Definition find_by {A} (name : A -> str) (l : list A) (n : str) : option A :=
  find (fun x => str_eqb (name x) n) l.

(* a reference to a WSDL component of this document: must be in the target namespace *)
Definition resolve_local (d : definitions) (m : nsmap) (s : str) : option str :=
  match resolve_qname m s, d_tns d with
  | Some (u, l), Some t => if str_eqb u t then Some l else None
  | _, _ => None
  end.

Definition find_message (d : definitions) (m : nsmap) (s : str) : option message :=
  match resolve_local d m s with Some l => find_by msg_name (d_messages d) l | None => None end.

(* ------------------------------------------------------------------ shapes *)
(* what a leaf element is declared by: an XSD builtin, or a global schema component *)
Inductive tref := TNative (local : str) | TRef (ns local : str).

(* an envelope shape: element particles with their expanded name ("" = no namespace),
   whether they must occur (max occurrence is 1 throughout), and either the component
   that declares their content (Leaf) or their children in order (Node).  `Content t`
   stands for "the content of type t appears here directly, without an accessor element"
   (WSDL 1.1 section 3.5, document style with a part given by type). *)
Inductive item :=
| Leaf (ns local : str) (required : bool) (t : tref)
| Node (ns local : str) (required : bool) (children : list item)
| Content (t : tref).

Record service_desc := mk_sd {
  sd_name : str;                    (* <portType name>_<operation name>: the key under which
                                       the generated service class is published *)
  sd_style : option str;
  sd_location : option str;
  sd_transport : option str;
  sd_soap_action : option str;
  sd_input : option item;
  sd_output : option item }.

Definition tref_eqb (a b : tref) : bool :=
  match a, b with
  | TNative x, TNative y => str_eqb x y
  | TRef n x, TRef m y => str_eqb n m && str_eqb x y
  | _, _ => false
  end.

Fixpoint item_eqb (a b : item) : bool :=
  match a, b with
  | Leaf n l r t, Leaf n' l' r' t' => str_eqb n n' && str_eqb l l' && Bool.eqb r r' && tref_eqb t t'
  | Node n l r c, Node n' l' r' c' =>
      str_eqb n n' && str_eqb l l' && Bool.eqb r r' &&
      (fix go (x y : list item) : bool :=
         match x, y with
         | [], [] => true
         | i :: x', j :: y' => item_eqb i j && go x' y'
         | _, _ => false
         end) c c'
  | Content t, Content t' => tref_eqb t t'
  | _, _ => false
  end.

Definition sd_eqb (a b : service_desc) : bool :=
  str_eqb (sd_name a) (sd_name b) && ostr_eqb (sd_style a) (sd_style b)
  && ostr_eqb (sd_location a) (sd_location b) && ostr_eqb (sd_transport a) (sd_transport b)
  && ostr_eqb (sd_soap_action a) (sd_soap_action b)
  && opt_eqb item_eqb (sd_input a) (sd_input b) && opt_eqb item_eqb (sd_output a) (sd_output b).

(* ------------------------------------------------------------------ expected *)
Definition obind {A B} (o : option A) (f : A -> option B) : option B :=
  match o with Some x => f x | None => None end.
Definition olist {A} (o : option A) : list A := match o with Some x => [x] | None => [] end.

(* XSD: an element whose type is a user-defined simple type carries text of the builtin the
   type restricts, and a data-binding tool may represent it by that builtin.  `simple_types`
   lists the global simple types of the schemas: (namespace, name, builtin base | None when
   the binding keeps the type, e.g. an enumeration). *)
Definition simple_types := list (str * str * option str).
Fixpoint simple_base (e : simple_types) (u l : str) : option str :=
  match e with
  | [] => None
  | (u', l', b) :: r => if str_eqb u' u && str_eqb l' l then b else simple_base r u l
  end.

(* the component a part given by type refers to *)
Definition mk_tref (e : simple_types) (u l : str) : tref :=
  if str_eqb u XSD_NS then TNative l
  else match simple_base e u l with Some b => TNative b | None => TRef u l end.

(* WSDL 1.1 3.3 / 3.4: soap:operation style, else soap:binding style, else "document" *)
Definition effective_style (b : binding) (bo : b_operation) : str :=
  match obind (bo_soap bo) so_style with
  | Some s => s
  | None => match obind (b_soap b) sb_style with Some s => s | None => s_document end
  end.

(* WSDL 1.1 3.5: soap:body parts (NMTOKENS) selects parts of the message; omitted = all *)
Definition select_parts (m : message) (parts : option str) : list part :=
  match parts with
  | None => msg_parts m
  | Some s => let names := split_ws xml_ws s in
              filter (fun p => existsb (str_eqb (part_name p)) names) (msg_parts m)
  end.

(* a part appearing directly under Body (document style), Header or detail:
   by element -> that element; by type -> the type is the type of the enclosing element *)
Definition direct_part_item (st : simple_types) (req : bool) (p : part) : option item :=
  match part_element p, part_type p with
  | Some e, _ => match resolve_qname (part_ns p) e with
                 | Some (u, l) => Some (Leaf u l req (TRef u l)) | None => None end
  | None, Some t => match resolve_qname (part_ns p) t with
                    | Some (u, l) => Some (Content (mk_tref st u l)) | None => None end
  | None, None => None
  end.

(* a part of an rpc message: an accessor named after the part, in no namespace
   (WSDL 1.1 3.5; WS-I BP 1.1 R2735), of the part's type / containing the part's element *)
Definition rpc_part_item (st : simple_types) (p : part) : option item :=
  match part_element p, part_type p with
  | Some e, _ => match resolve_qname (part_ns p) e with
                 | Some (u, l) => Some (Node [] (part_name p) true [Leaf u l true (TRef u l)]) | None => None end
  | None, Some t => match resolve_qname (part_ns p) t with
                    | Some (u, l) => Some (Leaf [] (part_name p) true (mk_tref st u l)) | None => None end
  | None, None => None
  end.

Definition header_items (st : simple_types) (d : definitions) (bm : b_msg) : list item :=
  flat_map (fun x =>
    match x with
    | SoapHeader msg prt _ =>
        match find_message d (bm_ns bm) msg with
        | Some m => flat_map (fun p => olist (direct_part_item st true p))
                             (filter (fun p => str_eqb (part_name p) prt) (msg_parts m))
        | None => []
        end
    | SoapBody _ _ _ => []
    end) (bm_exts bm).

Definition has_header (bm : b_msg) : bool :=
  existsb (fun e => match e with SoapHeader _ _ _ => true | _ => false end) (bm_exts bm).

Definition the_body (bm : b_msg) : option (option str * option str * option str) :=
  match filter (fun e => match e with SoapBody _ _ _ => true | _ => false end) (bm_exts bm) with
  | [SoapBody u n p] => Some (u, n, p)
  | _ => None
  end.

(* SOAP 1.1 4.4: faultcode, faultstring (required), faultactor, detail (optional), all
   unqualified; detail entries = the element parts of the declared fault messages
   (WSDL 1.1 3.6), each optional because one fault carries one of them.  With no declared
   fault the content of detail is not prescribed by the WSDL; the weakest reading (text)
   is recorded here, see design.d/C17.md "undeclared detail entries". *)
Definition fault_details (st : simple_types) (d : definitions) (faults : list pt_msg) : list item :=
  flat_map (fun f =>
    match find_message d (ptm_ns f) (ptm_message f) with
    | Some m => flat_map (fun p => olist (direct_part_item st false p)) (msg_parts m)
    | None => []
    end) faults.

Definition fault_item (details : list item) : item :=
  Node SOAP_ENV s_Fault false
    [Leaf [] s_faultcode true (TNative s_string);
     Leaf [] s_faultstring true (TNative s_string);
     Leaf [] s_faultactor false (TNative s_string);
     match details with
     | [] => Leaf [] s_detail false (TNative s_string)
     | _ => Node [] s_detail false details
     end].

(* SOAP 1.1 section 4: Envelope { Header? ; Body }, the Header first.
   `wrapper` = name of the rpc wrapper element: the operation name for the request
   (WSDL 1.1 3.5), operation name + "Response" for the response (SOAP 1.1 7.1 convention,
   WS-I BP 1.1 R2729).  In a response every Body child is optional: either they or the
   Fault appear; so is the Header of a response (a Fault response need not carry it). *)
Definition envelope (st : simple_types) (d : definitions) (style : str) (wrapper : str) (is_output : bool)
           (obm : option b_msg) (optm : option pt_msg) (faults : list pt_msg) : option item :=
  match obm, optm with
  | Some bm, Some ptm =>
      match the_body bm, find_message d (ptm_ns ptm) (ptm_message ptm) with
      | Some (_, bodyns, parts), Some m =>
          let sel := select_parts m parts in
          let children :=
            if str_eqb style s_rpc then
              [Node (match bodyns with Some u => u | None => [] end) wrapper (negb is_output)
                    (flat_map (fun p => olist (rpc_part_item st p)) sel)]
            else flat_map (fun p => olist (direct_part_item st (negb is_output) p)) sel in
          let body := Node SOAP_ENV s_Body true
                        (children ++ (if is_output then [fault_item (fault_details st d faults)] else [])) in
          let header := if has_header bm then [Node SOAP_ENV s_Header (negb is_output) (header_items st d bm)] else [] in
          Some (Node SOAP_ENV s_Envelope true (header ++ [body]))
      | _, _ => None
      end
  | _, _ => None
  end.

Definition expected_op (st : simple_types) (d : definitions) (p : port) (b : binding) (pt : port_type) (bo : b_operation)
  : list service_desc :=
  match find_by pto_name (pt_operations pt) (bo_name bo) with
  | Some po =>
      let style := effective_style b bo in
      [mk_sd (pt_name pt ++ s_underscore ++ bo_name bo)
             (Some style) (port_address p) (obind (b_soap b) sb_transport) (obind (bo_soap bo) so_action)
             (envelope st d style (bo_name bo) false (bo_input bo) (pto_input po) [])
             (envelope st d style (bo_name bo ++ s_Response) true (bo_output bo) (pto_output po) (pto_faults po))]
  | None => []
  end.

Definition expected_port (st : simple_types) (d : definitions) (p : port) : list service_desc :=
  match obind (resolve_local d (port_ns p) (port_binding p)) (find_by b_name (d_bindings d)) with
  | Some b =>
      match obind (resolve_local d (b_ns b) (b_type b)) (find_by pt_name (d_port_types d)) with
      | Some pt => flat_map (expected_op st d p b pt) (b_operations b)
      | None => []
      end
  | None => []
  end.

(* one description per service x port x bound operation, in document order *)
Definition expected (st : simple_types) (d : definitions) : list service_desc :=
  flat_map (fun s => flat_map (expected_port st d) (svc_ports s)) (d_services d).

(* ------------------------------------------------------------------ concrete XML vs shape *)
(* element tree of a posted payload as read by an independent XML parser: expanded name
   and element children (text and attributes are not part of the shape) *)
Inductive xtree := XElem (ns local : str) (children : list xtree).

Definition x_name_is (n l : str) (x : xtree) : bool :=
  match x with XElem n' l' _ => str_eqb n n' && str_eqb l l' end.

(* children of a Node must be, in order: each required particle once, each optional one at
   most once, nothing else.  Below a Leaf (a schema component) anything goes: validity of
   the component's own content is C02's subject.  `Content` is not judged. *)
Fixpoint item_accepts (fuel : nat) (i : item) (x : xtree) : bool :=
  match fuel with
  | O => false
  | S fuel' =>
      match i, x with
      | Leaf n l _ _, _ => x_name_is n l x
      | Node n l _ cs, XElem n' l' xs =>
          str_eqb n n' && str_eqb l l' &&
          (fix seq (cs : list item) (xs : list xtree) : bool :=
             match cs with
             | [] => match xs with [] => true | _ => false end
             | Content _ :: _ => true
             | c :: cs' =>
                 let req := match c with Leaf _ _ r _ => r | Node _ _ r _ => r | Content _ => false end in
                 match xs with
                 | x1 :: xs' =>
                     if item_accepts fuel' c x1 then seq cs' xs'
                     else if req then false else seq cs' xs
                 | [] => if req then false else seq cs' []
                 end
             end) cs xs
      | Content _, _ => true
      end
  end.

(* HTTP level (SOAP 1.1 section 6): POST to the port's address, content-type text/xml,
   SOAPAction header carrying the declared soapAction (present iff declared, 6.1.1) *)
Fixpoint hdr_lookup (h : list (str * str)) (k : str) : option str :=
  match h with
  | [] => None
  | (k', v) :: r => if str_eqb k' k then Some v else hdr_lookup r k
  end.

Definition http_ok (sd : service_desc) (url : str) (headers : list (str * str)) : bool :=
  ostr_eqb (Some url) (sd_location sd)
  && ostr_eqb (hdr_lookup headers s_content_type) (Some s_text_xml)
  && ostr_eqb (hdr_lookup headers s_SOAPAction) (sd_soap_action sd).

(* ------------------------------------------------------------------ the supported fragment *)
Definition nonempty (s : str) : bool := match s with [] => false | _ => true end.
(* a namespace name: non-empty and not a bare fragment ("#...") *)
Definition uri_ok (u : str) : bool := match u with [] => false | c :: _ => negb (c =? 35) end.
(* NMTOKENS as written in practice: printable ASCII separated by XML white space *)
Definition tokens_ascii (s : str) : bool := forallb (fun c => xml_ws c || ((33 <=? c) && (c <=? 126))) s.
Definition is_some {A} (o : option A) : bool := match o with Some _ => true | None => false end.

Fixpoint nodup_str (l : list str) : bool :=
  match l with
  | [] => true
  | x :: r => negb (existsb (str_eqb x) r) && nodup_str r
  end.

Definition style_ok (o : option str) : bool :=
  match o with None => true | Some s => str_eqb s s_document || str_eqb s s_rpc end.

(* a part refers to a schema component by exactly one of element / type, and the QName
   resolves to a non-empty namespace *)
Definition part_ok (p : part) : bool :=
  nonempty (part_name p) &&
  match part_element p, part_type p with
  | Some e, None => match resolve_qname (part_ns p) e with
                    | Some (u, l) => uri_ok u && negb (str_eqb u XSD_NS)   (* no global element lives in the XSD namespace *)
                    | None => false end
  | None, Some t => match resolve_qname (part_ns p) t with Some (u, l) => uri_ok u | None => false end
  | _, _ => false
  end.

Definition message_ok (m : message) : bool :=
  nonempty (msg_name m) && forallb part_ok (msg_parts m) && nodup_str (map part_name (msg_parts m)).

Definition element_part (p : part) : bool := is_some (part_element p).

(* wsdl:input / wsdl:output of a binding operation: exactly one soap:body, use literal,
   its parts list (if given) non-empty (NMTOKENS) and naming parts of the message;
   every soap:header names an element part of a message of this document; rpc needs the
   namespace attribute (WSDL 1.1 3.5, BP R2717) *)
Definition b_msg_ok (d : definitions) (style : str) (bm : b_msg) (ptm : pt_msg) : bool :=
  match the_body bm, find_message d (ptm_ns ptm) (ptm_message ptm) with
  | Some (use, bodyns, parts), Some m =>
      ostr_eqb use (Some s_literal)
      && (negb (str_eqb style s_rpc)
          || (match bodyns with Some u => uri_ok u | None => false end
              (* the QName naming the message also resolves in the scope of the wsdl:message itself *)
              && ostr_eqb (resolve_local d (msg_ns m) (ptm_message ptm)) (Some (msg_name m))))
      && match parts with
         | None => true
         | Some s => let names := split_ws xml_ws s in
                     tokens_ascii s && nonempty (concat names)
                     && forallb (fun n => existsb (fun p => str_eqb (part_name p) n) (msg_parts m)) names
         end
      && forallb (fun e =>
           match e with
           | SoapBody _ _ _ => true
           | SoapHeader msg prt use' =>
               ostr_eqb use' (Some s_literal) &&
               match find_message d (bm_ns bm) msg with
               | Some hm => existsb (fun p => str_eqb (part_name p) prt) (msg_parts hm)
                            && forallb (fun p => negb (str_eqb (part_name p) prt) || element_part p) (msg_parts hm)
               | None => false
               end
           end) (bm_exts bm)
  | _, _ => false
  end.

Definition b_operation_ok (d : definitions) (b : binding) (pt : port_type) (bo : b_operation) : bool :=
  nonempty (bo_name bo) &&
  style_ok (obind (bo_soap bo) so_style) &&
  match find_by pto_name (pt_operations pt) (bo_name bo) with
  | Some po =>
      let style := effective_style b bo in
      match bo_input bo, pto_input po, bo_output bo, pto_output po with
      | Some bi, Some pi, Some bo', Some po' =>
          b_msg_ok d style bi pi && b_msg_ok d style bo' po'
      | _, _, _, _ => false
      end
      && forallb (fun f => match find_message d (ptm_ns f) (ptm_message f) with
                           | Some m => forallb element_part (msg_parts m)
                           | None => false end) (pto_faults po)
  | None => false
  end.

Definition binding_ok (d : definitions) (b : binding) : bool :=
  match b_soap b with
  | Some sb => ostr_eqb (sb_transport sb) (Some SOAP_HTTP) && style_ok (sb_style sb)
  | None => false
  end &&
  nodup_str (map bo_name (b_operations b)) &&
  match obind (resolve_local d (b_ns b) (b_type b)) (find_by pt_name (d_port_types d)) with
  | Some pt => nonempty (pt_name pt) && forallb (b_operation_ok d b pt) (b_operations b)
  | None => false
  end.

Definition port_ok (d : definitions) (p : port) : bool :=
  match port_address p with Some a => nonempty a | None => false end &&
  match obind (resolve_local d (port_ns p) (port_binding p)) (find_by b_name (d_bindings d)) with
  | Some b => binding_ok d b
  | None => false
  end.

Definition wf_definitions (d : definitions) : bool :=
  match d_tns d with Some t => nonempty t | None => false end
  && forallb message_ok (d_messages d)
  && forallb (fun s => forallb (port_ok d) (svc_ports s)) (d_services d).
