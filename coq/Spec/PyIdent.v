(* Spec/PyIdent.v — what "a Python identifier that is not a keyword" means.
   Specification side: imports neither Gen/ nor Model/.

   ASCII level (the level of the theorems about the split_words-based naming
   conventions, whose output is ASCII by construction):
       identifier ::= [A-Za-z_][A-Za-z0-9_]*
   Non-ASCII: Python accepts XID_Start XID_Continue* (after NFKC normalisation).
   That set is interpreter data, not something to re-derive here; `identifier_with`
   is the same definition parameterised by the two character classes, so that a
   model can instantiate it with tables read from the interpreter.  NFKC folding
   (two spellings denoting the same identifier) is NOT modelled; it cannot arise
   from ASCII-only output.
   The keyword list is written out by hand from the Python 3.12 language reference
   (section 2.3.1); soft keywords (match, case, type, _) are valid identifiers. *)
From Coq Require Import NArith List Bool String Ascii.
From XV Require Import Base.Str.
Import ListNotations.
Open Scope N_scope.

(* ASCII string literal -> code points *)
Definition lit (s : string) : str := map N_of_ascii (list_ascii_of_string s).

Definition id_start (c : N) : bool := is_ascii_alpha c || (c =? 95).
Definition id_continue (c : N) : bool := id_start c || is_ascii_digit c.

Definition ascii_identifier (s : str) : bool :=
  match s with
  | [] => false
  | c :: r => id_start c && forallb id_continue r
  end.

Definition identifier_with (xid_start xid_continue : N -> bool) (s : str) : bool :=
  match s with
  | [] => false
  | c :: r => (id_start c || xid_start c) && forallb (fun d => id_continue d || xid_continue d) r
  end.

Definition keywords : list str := map lit
  ["False"; "None"; "True"; "and"; "as"; "assert"; "async"; "await"; "break"; "class";
   "continue"; "def"; "del"; "elif"; "else"; "except"; "finally"; "for"; "from"; "global";
   "if"; "import"; "in"; "is"; "lambda"; "nonlocal"; "not"; "or"; "pass"; "raise";
   "return"; "try"; "while"; "with"; "yield"]%string.

Definition is_keyword (s : str) : bool := existsb (str_eqb s) keywords.

Definition is_identifier (s : str) : Prop := ascii_identifier s = true.
Definition keyword (s : str) : Prop := is_keyword s = true.

(* a usable name: identifier and not keyword *)
Definition usable_name (s : str) : Prop := is_identifier s /\ ~ keyword s.

Lemma ascii_identifier_with xs xc s : ascii_identifier s = true -> identifier_with xs xc s = true.
Proof.
  destruct s as [|c r]; cbn; [discriminate|].
  intros H. apply andb_true_iff in H as [Hc Hr]. rewrite Hc. cbn.
  rewrite forallb_forall in *. intros d Hd. rewrite (Hr d Hd). reflexivity.
Qed.
