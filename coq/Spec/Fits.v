(* Spec/Fits.v — specification side of property C01 (XML round trip).

   Imports Spec/XmlNs.v (the writer-side reading of an event list: `itree_of_events`,
   the expected tree `enode`) and Model/Bind.v for the TYPES of values, metadata and
   parser events (and its association-list / `get_*_vars` accessors of the metadata
   record); nothing from Gen/, no function of EventGen.v / Parser.v / Writer.v.

   Contents
   * `clark_of`       : (uri, local) -> "{uri}local", the name an XML reader reports;
   * `reads e pevs`   : the parser event stream `pevs` is what an XML reader may deliver
                        for a document that says `e` (C03: `doc_says e t`): attributes in
                        any order, any in-scope prefix map, whitespace-only text in
                        elements that have child elements (indentation) and
                        whitespace-only tails;
   * `pump_e`         : the canonical such stream (`reads e (pump_e e)`);
   * `pump_doc`       : the stream an XML reader delivers for an infoset tree (`inode`,
                        what C03's `resolve` returns), `reads_says` connects the two
                        (Proofs/RoundtripDoc.v);
   * the guards of the round-trip theorem: `wf_model u cls` (metadata fragment),
     `fits ...` (the instance is typed by the metadata and representable). *)
From Coq Require Import NArith ZArith List Bool.
From XV Require Import Base.Str Base.Eqb Spec.XmlNs Model.Bind.
Import ListNotations.
Open Scope N_scope.

(* ================================================================== names, text *)
Definition clark_of (q : XmlNs.qname) : str :=
  match fst q with
  | Some u => [123] ++ u ++ [125] ++ snd q
  | None => snd q
  end.

(* the character data / attribute value a list of atoms is written as; QName atoms are
   rendered with a prefix chosen by the writer: outside this reading (None) *)
Definition atom_text (a : atom) : option str :=
  match a with AText s => Some s | AQName _ => None end.
Definition atoms_text (l : list atom) : option str :=
  option_map (join [32]) (map_opt atom_text l).

(* QName values: how the prefix map an XML reader reports resolves the lexical form `p:local` /
   `local` (XML Schema: an unprefixed QName takes the default namespace when there is one) *)
Definition resolve_qname (ns : nsmap) (s : str) : option XmlNs.qname :=
  match split_colon s with
  | (None, l) => Some (default_ns ns, l)
  | (Some p, l) => match env_get ns (Some p) with
                   | Some ((_ :: _) as uri) => Some (Some uri, l)
                   | _ => None
                   end
  end.
(* character data `s`, reported with the prefix map `ns` in scope, reads as the atoms: plain text
   literally; ONE QName atom through the prefix map (lists with QName atoms: not read) *)
Definition atoms_read (ns : nsmap) (l : list atom) (s : str) : Prop :=
  match l with
  | [AQName q] => resolve_qname ns s = Some q
  | _ => atoms_text l = Some s
  end.

Definition blank (s : str) : bool := forallb xml_ws s.
Definition blank_o (o : option str) : bool := match o with Some s => blank s | None => true end.

(* ================================================================== reads *)
(* `ord`: the attributes are reported in the order of the tree (document order).  Attribute order is not
   part of the infoset: the theorems for binding models without attribute MAPS hold for every order
   (ord = false); a map field (xs:anyAttribute, a Python dict) comes back in the order the attributes
   were reported, so the theorems for models with such fields speak about the readings that keep the
   order (ord = true: what the real readers deliver) *)
Definition reads_attrs (ord : bool) (ns : nsmap) (eats : list (XmlNs.qname * list atom)) (attrs : list (str * str)) : Prop :=
  NoDup (map fst attrs) /\ length attrs = length eats /\
  (forall ea, In ea eats -> exists v, atoms_read ns (snd ea) v /\ In (clark_of (fst ea), v) attrs)
  /\ (ord = true -> map fst attrs = map (fun ea => clark_of (fst ea)) eats).

Fixpoint reads_o (ord : bool) (e : XmlNs.enode) (pevs : list pevent) {struct e} : Prop :=
  match e with
  | EData _ => False
  | EElem q eats ekids =>
      exists attrs ns text tail kes,
        pevs = PStart (clark_of q) attrs ns :: kes ++ [PEnd (clark_of q) text tail]
        /\ reads_attrs ord ns eats attrs /\ blank_o tail = true
        /\ match ekids with
           | [] => text = None /\ kes = []
           | [EData atoms] => exists s, atoms_read ns atoms s /\ s <> [] /\ text = Some s /\ kes = []
           | _ =>
               blank_o text = true
               /\ (fix rk (ks : list XmlNs.enode) (kes : list pevent) {struct ks} : Prop :=
                     match ks with
                     | [] => kes = []
                     | k :: r => exists a b, kes = a ++ b /\ reads_o ord k a /\ rk r b
                     end) ekids kes
           end
  end.

Definition reads_kids_o (ord : bool) : list XmlNs.enode -> list pevent -> Prop :=
  fix rk (ks : list XmlNs.enode) (kes : list pevent) {struct ks} : Prop :=
    match ks with
    | [] => kes = []
    | k :: r => exists a b, kes = a ++ b /\ reads_o ord k a /\ rk r b
    end.

(* every attribute order *)
Notation reads := (reads_o false).
Notation reads_kids := (reads_kids_o false).

(* a reading that keeps the order is a reading *)
Lemma reads_attrs_weaken ord ns eats attrs : reads_attrs ord ns eats attrs -> reads_attrs false ns eats attrs.
Proof. intros [H1 [H2 [H3 _]]]. repeat split; try assumption. discriminate. Qed.

(* ================================================================== the canonical pump *)
Definition atoms_str (l : list atom) : str :=
  join [32] (map (fun a => match a with AText s => s | AQName q => clark_of q end) l).

Fixpoint pump_e (e : XmlNs.enode) : list pevent :=
  match e with
  | EData _ => []
  | EElem q eats ekids =>
      PStart (clark_of q) (map (fun a => (clark_of (fst a), atoms_str (snd a))) eats) []
      :: flat_map pump_e ekids
      ++ [PEnd (clark_of q) (match ekids with [EData atoms] => Some (atoms_str atoms) | _ => None end) None]
  end.

Definition pump (o : option XmlNs.enode) : list pevent :=
  match o with Some e => pump_e e | None => [] end.

(* the fragment of expected trees `reads` speaks about: text-only or element-only content,
   no QName atoms, distinct attribute names *)
Definition atoms_plain (l : list atom) : bool :=
  forallb (fun a => match a with AText _ => true | AQName _ => false end) l.
Fixpoint plain_tree (e : XmlNs.enode) : bool :=
  match e with
  | EData _ => false
  | EElem q eats ekids =>
      forallb (fun a => atoms_plain (snd a)) eats
      && nodup_by str_eqb (map (fun a => clark_of (fst a)) eats)
      && match ekids with
         | [] => true
         | [EData atoms] => atoms_plain atoms && negb (match atoms_str atoms with [] => true | _ => false end)
         | _ => forallb plain_tree ekids
         end
  end.

(* ================================================================== the XML reader on an infoset tree *)
(* what both handlers deliver for the infoset tree `t` (ElementTree view: text = the
   character data before the first child, tail = the character data after the element);
   `m` = prefix bindings in scope outside the element (innermost first) *)
Definition lead_text (ks : list inode) : option str :=
  match ks with IText s :: _ => Some s | _ => None end.
Definition tail_of (after : list inode) : option str := lead_text after.

Fixpoint pump_doc (m : nsmap) (t : inode) (tail : option str) {struct t} : list pevent :=
  match t with
  | IText _ => []
  | IElem q ds ats ks =>
      let m' := rev ds ++ m in
      PStart (clark_of q) (map (fun a => (clark_of (fst a), snd a)) ats) m'
      :: (fix go (ks : list inode) : list pevent :=
            match ks with
            | [] => []
            | k :: r => pump_doc m' k (tail_of r) ++ go r
            end) ks
      ++ [PEnd (clark_of q) (lead_text ks) tail]
  end.

Fixpoint pump_kids (pd : inode -> option str -> list pevent) (ks : list inode) : list pevent :=
  match ks with
  | [] => []
  | k :: r => pd k (tail_of r) ++ pump_kids pd r
  end.

(* an XML reader never reports two attributes with the same expanded name on one element *)
Fixpoint wf_doc (t : inode) : bool :=
  match t with
  | IText _ => true
  | IElem _ _ ats ks => nodup_by str_eqb (map (fun a => clark_of (fst a)) ats) && forallb wf_doc ks
  end.

(* indentation: whitespace-only text nodes inside an element that has child elements *)
Definition is_elem (k : inode) : bool := match k with IElem _ _ _ _ => true | IText _ => false end.
Fixpoint strip_indent (t : inode) : inode :=
  match t with
  | IText s => IText s
  | IElem q ds ats ks =>
      let ks' := map strip_indent ks in
      IElem q ds ats
        (if existsb is_elem ks
         then filter (fun k => match k with IText s => negb (blank s) | IElem _ _ _ _ => true end) ks'
         else ks')
  end.

(* ================================================================== guards *)
(* ---- primitive leaves ------------------------------------------------------------ *)
Definition enum_member (u : universe) (e m : N) : option prim :=
  match find (fun d => N.eqb (en_id d) e) (u_enums u) with
  | Some d => option_map snd (nth_error (en_members d) (N.to_nat m))
  | None => None
  end.

(* the text a primitive is written as (str as is, an Enum by its value, everything else by
   the converter); QName values are rendered by the WRITER with a prefix of its choice and
   read back through the prefix map in scope: outside this fragment (None) *)
Definition plain_text (c : conv) (fmt : option str) (p : prim) : option str :=
  match p with
  | PStr s => Some s
  | PQName _ | PEnum _ _ => None
  | _ => Some (c_ser c fmt p)
  end.
Definition ptext (c : conv) (u : universe) (fmt : option str) (p : prim) : option str :=
  match p with
  | PEnum e m => match enum_member u e m with Some pv => plain_text c fmt pv | None => None end
  | _ => plain_text c fmt p
  end.

Definition prim_ptype (p : prim) : ptype :=
  match p with
  | PStr _ => TStr | PInt _ => TInt | PBool _ => TBool | PFloat _ => TFloat | PDecimal _ => TDecimal
  | PBytes _ => TBytes | PQName _ => TQName | PEnum e _ => TEnum e | PXml t _ => t
  end.

(* THE CONVERTER LAW (hypothesis of the theorems, discharged per type by property C05:
   C05_bool_roundtrip, C05_int_roundtrip, C05_hex_roundtrip, C05_base64_roundtrip,
   C05_decimal_roundtrip, C05_float_roundtrip, C05_enum_roundtrip ...; C06 for the date
   and time types): on the values `ok` accepts, deserializing the written text under the
   value's own type gives the value back, whatever prefix map is in scope; a QName value comes
   back from every lexical form that resolves to it under the prefix map in scope. *)
Definition conv_roundtrips (c : conv) (u : universe) (ok : prim -> bool) : Prop :=
  (forall fmt ns p s,
     ok p = true -> ptext c u fmt p = Some s ->
     c_deser c [prim_ptype p] fmt ns s = Some p)
  /\ (forall fmt ns q s,
        ok (PQName q) = true -> resolve_qname ns s = Some (split_qname q) ->
        c_deser c [TQName] fmt ns s = Some (PQName q)).

Definition nonempty_s (s : str) : bool := match s with [] => false | _ => true end.
Definition no_space (s : str) : bool := negb (existsb (fun ch => xml_ws ch) s).

Section Guards.
  Variable c : conv.
  Variable u : universe.
  Variable ok : prim -> bool.
  Variable pyspace : N -> bool.       (* Python's str.isspace (tokens are split with str.split()) *)
  Variable ign : bool.                (* SerializerConfig.ignore_default_attributes *)

  Definition simple_type (t : ptype) : bool :=
    match t with TClass _ | TObject | TQName => false | _ => true end.

  (* ---- one primitive leaf of type t in a field with format fmt *)
  Definition leaf_ok (t : ptype) (fmt : option str) (p : prim) : bool :=
    ok p && ptype_eqb (prim_ptype p) t
    && match ptext c u fmt p with Some _ => true | None => false end.
  Definition leaf_text (fmt : option str) (p : prim) : str :=
    match ptext c u fmt p with Some s => s | None => [] end.
  (* a token: non-empty, free of (Python) white space *)
  Definition token_ok (t : ptype) (fmt : option str) (x : value) : bool :=
    match x with
    | VP p => leaf_ok t fmt p && nonempty_s (leaf_text fmt p)
              && negb (existsb pyspace (leaf_text fmt p))
    | _ => false
    end.

  (* a QName value (element fields only): an NCName local part; rendered by the writer with a
     prefix of its choice, read back through the prefix map in scope (resolve_qname) *)
  Definition qname_ok (q : qname) : bool := is_ncname (snd (split_qname q)).
  Definition qleaf_ok (p : prim) : bool :=
    ok p && match p with PQName q => qname_ok q | _ => false end.

  Definition is_tuple (f : factory) : bool := match f with FTuple => true | FList => false end.
  Definition factory_default (f : factory) (d : vdefault) : bool :=
    match f, d with FList, DFactoryList | FTuple, DFactoryTuple => true | _, _ => false end.

  (* ---- metadata of one field ------------------------------------------------------ *)
  (* XmlVar.any_type (`object in types`): only the xs:anyType element fields of wf_elem *)
  Definition is_object (v : xvar) : bool := match v_types v with [TObject] => true | _ => false end.
  Definition var_common (v : xvar) : bool :=
    v_init v && negb (v_mixed v) && Bool.eqb (v_any_type v) (is_object v)
    && match v_elements v with [] => true | _ => false end
    && match v_wildcards v with [] => true | _ => false end
    && negb (v_index v =? 0).

  Definition var_type (v : xvar) : option ptype :=
    match v_types v with [t] => Some t | _ => None end.

  Definition simple_default (t : ptype) (d : vdefault) : bool :=
    match d with
    | DNone => true
    | DValue (VP (PStr s)) => ptype_eqb t TStr
    | DValue (VP (PInt z)) => ptype_eqb t TInt
    | DValue (VP (PBool b)) => ptype_eqb t TBool
    | _ => false
    end.

  Definition reserved_name (q : qname) : bool := str_eqb q XSI_NIL || str_eqb q XSI_TYPE.

  Definition no_wrapper (v : xvar) : bool := match v_wrapper_qname v with None => true | Some _ => false end.

  Definition wf_attr (v : xvar) : bool :=
    v_is KAttribute v && var_common v && negb (v_nillable v) && no_wrapper v
    && match v_clazz v with None => true | Some _ => false end
    && match v_factory v with None => true | Some _ => false end
    && negb (reserved_name (v_qname v))
    && match var_type v with
       | Some TQName =>
           match v_tokens_factory v with None => true | Some _ => false end
           && match v_default v with DNone => true | _ => false end
       | Some t =>
           simple_type t
           && match v_tokens_factory v with
              | None => simple_default t (v_default v)
              | Some f => factory_default f (v_default v)
              end
       | None => false
       end.

  (* an attribute map (xs:anyAttribute, `dict[str, str]`, slice S5 partial): the attributes no declared
     field claims, by qualified name, in the order they are reported *)
  Definition wf_anyattr (v : xvar) : bool :=
    v_is KAttributes v && var_common v && negb (v_nillable v) && no_wrapper v
    && match v_clazz v with None => true | Some _ => false end
    && match v_factory v with None => true | Some _ => false end
    && match v_tokens_factory v with None => true | Some _ => false end
    && match v_default v with DFactoryDict => true | _ => false end.

  (* a wildcard field (xs:any, `Optional[object]` / `list[object]`, slice S5 partial) holding generic
     elements (AnyElement trees): not mixed, not nillable, no choices (it may be a member of a sequence group); its own
     qualified name is admitted by its namespace constraint (the parser looks the bound objects up under it) *)
  Definition var_common_w (v : xvar) : bool :=      (* XmlVar.any_type is not set on wildcard fields *)
    v_init v && negb (v_mixed v)
    && match v_elements v with [] => true | _ => false end
    && match v_wildcards v with [] => true | _ => false end
    && negb (v_index v =? 0).
  Definition wf_wild (v : xvar) : bool :=
    v_is KWildcard v && var_common_w v && negb (v_nillable v) && no_wrapper v
    && match v_clazz v with None => true | Some _ => false end
    && match v_tokens_factory v with None => true | Some _ => false end
    && match_namespace v (v_qname v)
    && match v_factory v with
       | None => match v_default v with DNone => true | _ => false end
       | Some FList => match v_default v with DFactoryList => true | _ => false end
       | Some FTuple => false
       end.

  Definition wf_text (v : xvar) : bool :=
    v_is KText v && var_common v && negb (v_nillable v) && no_wrapper v
    && match v_clazz v with None => true | Some _ => false end
    && match v_factory v with None => true | Some _ => false end
    && match var_type v with
       | Some TQName =>
           match v_tokens_factory v with None => true | Some _ => false end
           && match v_default v with DNone => true | _ => false end
       | Some t =>
           simple_type t
           && match v_tokens_factory v with
              | None => match v_default v with DNone => true | _ => false end
              | Some f => factory_default f (v_default v)
              end
       | None => false
       end
    (* `sequence` on a Text field: not modelled (a class with a Text field has no element fields) *)
    && match v_sequence v with None => true | Some _ => false end.

  (* wrapper: documented for plain (non token) list elements *)
  Definition wrapper_ok (v : xvar) : bool :=
    match v_wrapper_qname v with
    | None => true
    | Some w => nonempty_s w
                && match v_factory v with Some _ => true | None => false end
                && match v_tokens_factory v with None => true | Some _ => false end
    end.

  (* nillable (xsi:nil): inside the fragment for fields of a simple type (scalar or list, no tokens, no value
     default) HOLDING VALUES WITH A NON-EMPTY TEXT (fits): the serializer adds xsi:nil="true" to falsy values
     (0, false), the writer drops it again because the element has content; None in a nillable scalar field is
     written <f xsi:nil="true"/> and read back as None.  A class-typed nillable field and a nillable class
     are inside when the instance HAS CONTENT (has_content below: the serializer always adds xsi:nil="true",
     the writer drops it because the element has content); None in a class-typed nillable field is inside
     when the class itself is not nillable.  An empty text and an instance without content in a nillable
     field are refuted (C01_nil_conflation_refuted, finding C01-F1) *)
  Definition wf_elem (v : xvar) : bool :=
    v_is KElement v && var_common v && nonempty_s (v_qname v) && wrapper_ok v
    && match var_type v with
       | Some (TClass k) =>
           opt_eqb N.eqb (v_clazz v) (Some k)
           && match v_tokens_factory v with None => true | Some _ => false end
           && match v_factory v with
              | None => match v_default v with DNone => true | _ => false end
              | Some f => factory_default f (v_default v)
              end
       | Some TQName =>
           match v_clazz v with None => true | Some _ => false end
           && match v_tokens_factory v with None => true | Some _ => false end
           && match v_factory v with
              | None => match v_default v with DNone => true | _ => false end
              | Some f => factory_default f (v_default v)
              end
       | Some TObject =>
           (* xs:anyType element (Optional[object]) holding a str: written as plain text without xsi:type,
              read by a WildcardNode that hands the raw text back (slice S5, partial).  No class may be
              named like the element (the parser would build that class, XmlContext.find_type: clause
              any_names_free of closed_ok) *)
           negb (v_nillable v)
           && match v_clazz v with None => true | Some _ => false end
           && match v_tokens_factory v with None => true | Some _ => false end
           && match v_factory v with None => true | Some _ => false end
           && match v_default v with DNone => true | _ => false end
       | Some t =>
           simple_type t
           && match v_clazz v with None => true | Some _ => false end
           && match v_factory v, v_tokens_factory v with
              | None, None => match v_default v with
                              | DNone => true
                              | DValue (VP _) => negb (v_nillable v)
                              | _ => false
                              end
              | Some f, None => factory_default f (v_default v)
              | Some f, Some _ => factory_default f (v_default v)
              | None, Some f => factory_default f (v_default v)
              end
       | None => false
       end.

  (* ---- sequence groups ----------------------------------------------------------- *)
  (* 1 + index of the last field of l with the sequence number s, 0 if there is none
     (next_value: `end = next(i for i in indices[::-1] if attrs[i].sequence == var.sequence) + 1`) *)
  Fixpoint last_same (s : option N) (l : list xvar) : nat :=
    match l with
    | [] => O
    | x :: r => match last_same s r with
                | O => if opt_eqb N.eqb (v_sequence x) s then 1%nat else O
                | S k => S (S k)
                end
    end.
  (* the fields inside the span of a sequence group (whatever their own `sequence`) are rendered by
     the rolling loop, a list item by item: no token lists there (refuted: a token list is split,
     C01_sequence_tokens_refuted), no wrapper element (modelling rule: every item gets its own
     wrapper element, which reads back but is not proved) *)
  Definition seq_member (v : xvar) : bool :=
    no_wrapper v && match v_tokens_factory v with None => true | Some _ => false end.
  Fixpoint seq_spans_ok (fuel : nat) (vars : list xvar) : bool :=
    match fuel with
    | O => false
    | S f =>
        match vars with
        | [] => true
        | v :: rest =>
            match v_sequence v with
            | None => seq_spans_ok f rest
            | Some _ =>
                let n := last_same (v_sequence v) rest in
                forallb seq_member (v :: firstn n rest) && seq_spans_ok f (skipn n rest)
            end
        end
    end.

  (* ---- metadata of one class ------------------------------------------------------ *)
  Definition distinct_s (l : list str) : bool := nodup_by str_eqb l.
  Definition distinct_n (l : list N) : bool := nodup_by N.eqb l.

  Definition wf_class (m : xmeta) : bool :=
    match m_choices m with [] => true | _ => false end
    && match m_wildcards m with
       | [] => true
       | [wv] => wf_wild wv
                 && match assoc (v_qname wv) (m_elements m) with None => true | Some _ => false end
                 && match assoc (v_qname wv) (m_wrappers m) with None => true | Some _ => false end
                 && match m_text m with None => true | Some _ => false end
       | _ => false
       end
    && match m_any_attributes m with [] => true | [av] => wf_anyattr av | _ => false end
    (* the wrapper table knows every wrapper element, and no element field is named like a wrapper *)
    && forallb (fun e => negb (match assoc (fst e) (m_wrappers m) with Some _ => true | None => false end)
                         && forallb (fun v => match v_wrapper_qname v with
                                              | Some w => match assoc w (m_wrappers m) with Some _ => true | None => false end
                                              | None => true
                                              end) (snd e)) (m_elements m)
    && negb (m_mixed_content m)
    (* the element table: one field per name (qnames of element fields pairwise distinct) *)
    && forallb (fun e => match snd e with [v] => str_eqb (v_qname v) (fst e) && wf_elem v | _ => false end) (m_elements m)
    && distinct_s (map fst (m_elements m))
    && forallb (fun e => str_eqb (v_qname (snd e)) (fst e) && wf_attr (snd e)) (m_attributes m)
    && distinct_s (map fst (m_attributes m))
    (* a Text field never sits next to element fields *)
    && match m_text m with
       | None => true
       | Some t => wf_text t && match m_elements m with [] => true | _ => false end
       end
    && distinct_s (map v_name (get_all_vars m))
    && distinct_n (map v_index (get_all_vars m))
    && seq_spans_ok (S (length (get_element_vars m))) (get_element_vars m).

  (* every class reachable from cl through class-typed element fields is in the fragment.  `reach`
     collects the reachable classes (work list with a visited set; recursive class graphs - trees,
     linked lists - are fine); the guard then CHECKS that the collected set contains cl, is closed
     under the class-typed fields, and that every member is in the fragment, so nothing rests on how
     the set was computed (a wrong or truncated set makes the guard false) *)
  (* a class-typed field may hold an instance of any strict subclass of the declared class (xsi:type) *)
  Definition strict_subclasses (kd : cls) : list cls :=
    filter (fun k => negb (N.eqb k kd) && is_subclass u k kd) (map fst (u_metas u)).
  Definition class_children (m : xmeta) : list cls :=
    flat_map (fun e => flat_map (fun v => match v_clazz v with Some k => k :: strict_subclasses k | None => [] end) (snd e))
             (m_elements m).
  Fixpoint reach (fuel : nat) (todo seen : list cls) : list cls :=
    match fuel with
    | O => seen
    | S f =>
        match todo with
        | [] => seen
        | k :: r =>
            if existsb (N.eqb k) seen then reach f r seen
            else match u_meta u k with
                 | Some m => reach f (class_children m ++ r) (k :: seen)
                 | None => reach f r (k :: seen)
                 end
        end
    end.
  (* no class is registered under the name of an xs:anyType element field (ElementNode.build_node asks
     XmlContext.find_type(qname) before it falls back to the WildcardNode) *)
  Definition any_names_free (m : xmeta) : bool :=
    forallb (fun e => forallb (fun v => negb (is_object v)
                                        || match find_types u (v_qname v) with [] => true | _ => false end) (snd e))
            (m_elements m).
  Definition closed_ok (R : list cls) : bool :=
    forallb (fun k => match u_meta u k with
                      | Some m =>
                          N.eqb (m_clazz m) k && wf_class m && any_names_free m
                          && forallb (fun k' => existsb (N.eqb k') R) (class_children m)
                      | None => false
                      end) R.
  Definition reach_fuel : nat :=
    S (length (u_metas u)) * S (fold_right (fun km acc => length (class_children (snd km)) + acc)%nat O (u_metas u)).
  Definition wf_model (cl : cls) : bool :=
    let R := reach reach_fuel [cl] [] in
    existsb (N.eqb cl) R && closed_ok R.

  (* ---- instances ------------------------------------------------------------------- *)
  Definition vtype (v : xvar) : ptype := match v_types v with [t] => t | _ => TObject end.

  Definition default_value (d : vdefault) : value :=
    match d with
    | DNone => VNone
    | DValue v => v
    | DFactoryList => VList false []
    | DFactoryTuple => VList true []
    | DFactoryDict => VMap []
    end.

  (* the value of an attribute map: distinct keys that the namespace constraint of the field admits,
     that no declared attribute of the class claims and that are not the parser's own xsi:nil / xsi:type;
     values the parser takes literally (ParserUtils.parse_any_attribute resolves `prefix:local` values
     through the prefix map in scope: values without a colon are outside that rule) *)
  Definition map_value_ok (s : str) : bool := ok (PStr s) && negb (existsb (N.eqb 58) s).
  Definition fits_map (m : xmeta) (v : xvar) (x : value) : bool :=
    match x with
    | VMap mm =>
        nodup_by str_eqb (map fst mm)
        && forallb (fun kv => match_namespace v (fst kv)
                              && match assoc (fst kv) (m_attributes m) with None => true | Some _ => false end
                              && negb (reserved_name (fst kv))
                              && map_value_ok (snd kv)) mm
    | _ => false
    end.

  (* an attribute equal to its default is omitted under ignore_default_attributes: nothing
     to check (the default comes back); a None is only representable when the default is None *)
  Definition fits_attr (v : xvar) (x : value) : bool :=
    match v_tokens_factory v with
    | None =>
        match x with
        | VNone => match v_default v with DNone => true | _ => false end
        | VP p => if ptype_eqb (vtype v) TQName then qleaf_ok p else leaf_ok (vtype v) (v_format v) p
        | _ => false
        end
    | Some f =>
        match x with
        | VList t l => Bool.eqb t (is_tuple f) && forallb (token_ok (vtype v) (v_format v)) l
        | _ => false
        end
    end.

  (* Text: '' is indistinguishable from absence *)
  Definition fits_text (v : xvar) (x : value) : bool :=
    match v_tokens_factory v with
    | None =>
        match x with
        | VNone => true
        | VP p => if ptype_eqb (vtype v) TQName then qleaf_ok p
                  else leaf_ok (vtype v) (v_format v) p && nonempty_s (leaf_text (v_format v) p)
        | _ => false
        end
    | Some f =>
        match x with
        | VList t l => Bool.eqb t (is_tuple f) && forallb (token_ok (vtype v) (v_format v)) l
        | _ => false
        end
    end.

  (* an element whose text is empty reads back as the field default when there is one, as
     '' / b'' otherwise *)
  Definition empty_ok (v : xvar) (p : prim) : bool :=
    nonempty_s (leaf_text (v_format v) p)
    || (negb (v_nillable v)
        && match v_default v with DValue _ => false | _ => true end
        && match p with PStr [] => true | PBytes [] => ptype_eqb (vtype v) TBytes | _ => false end).

  Definition nonempty {A} (l : list A) : bool := match l with [] => false | _ => true end.

  (* ---- an instance of a subclass in a field of the base class: written with xsi:type ---- *)
  (* XmlContext.find_subclass on the type registry (xsi_cache) *)
  Definition sub_lookup (kd : cls) (t : qname) : option cls :=
    find (fun tp => negb (is_subclass u kd tp)
                    && existsb (fun x => existsb (N.eqb x) (u_mro_of u kd)) (u_mro_of u tp))
         (find_types u t).
  (* k is a strict subclass of the declared class kd; its metadata names a type qname t
     - that differs from the element name of the field (refuted: the serializer then drops xsi:type,
       C01_xsi_type_dropped_refuted) and from the type qname of kd itself,
     - that the type registry resolves, below kd, to k,
     - that is not the name of a built-in datatype and that the QName converter round-trips *)
  Definition derived_ok (v : xvar) (kd k : cls) : bool :=
    negb (N.eqb k kd) && is_subclass u k kd
    && match u_meta u k, u_meta u kd with
       | Some mk, Some mkd =>
           match m_target_qname mk with
           | Some ((_ :: _) as t) =>
               (* an attribute map of the subclass would capture the xsi:type attribute (finding C01-F2) *)
               match find_any_attributes mk XSI_TYPE with None => true | Some _ => false end
               && negb (str_eqb t (v_qname v))
               && negb (ostr_eqb (m_target_qname mkd) (Some t))
               && match sub_lookup kd t with Some k' => N.eqb k' k | None => false end
               && match c_from_qname c t with None => true | Some _ => false end
               && ok (PQName t) && qname_ok t
           | _ => false
           end
       | _, _ => false
       end.

  Definition field_of (fs : list (str * value)) (v : xvar) : value :=
    match assoc (v_name v) fs with Some x => x | None => VNone end.

  (* the element written for an instance is not empty: some field yields a child element (a value that
     is not None - or None in a nillable field - and not an empty list; an empty wrapped list is not
     counted) or the Text field holds a value.  Asked of instances in a nillable position (nillable field
     or nillable class): the serializer marks them xsi:nil="true" whatever they hold, the writer drops the
     mark only when the element has content; without content the parser reads None for a nillable field
     (refuted: C01_nil_conflation_refuted) *)
  Definition emits (v : xvar) (x : value) : bool :=
    match x with
    | VNone => v_nillable v
    | VList _ [] => false
    | _ => true
    end.
  Definition has_content (o : value) : bool :=
    match o with
    | VObj cl fs =>
        match u_meta u cl with
        | Some m => existsb (fun v => emits v (field_of fs v)) (get_element_vars m)
        | None => false
        end
    | _ => false
    end.
  Definition cls_nillable (k : cls) : bool :=
    match u_meta u k with Some m => m_nillable m | None => false end.
  (* the element written for an instance is empty: no field yields a child element (None outside nillable
     fields, empty lists without wrapper) and there is no Text value.  An instance of a nillable CLASS that
     is empty keeps xsi:nil="true" (the element has no content) and the parser builds the instance from its
     attributes all the same (ElementNode.bind: `not self.xsi_nil or self.meta.nillable`), provided no attribute
     map of the class captures xsi:nil (finding C01-F2).  The Text field must hold None: under xsi:nil
     ElementNode.bind_text stores None, so an empty token list of a Text field comes back as None (finding C01-F10) *)
  Definition strict_empty (o : value) : bool :=
    match o with
    | VObj cl fs =>
        match u_meta u cl with
        | Some m => forallb (fun v => match field_of fs v with
                                      | VNone => negb (v_nillable v)
                                      | VList _ [] => match v_wrapper_qname v with None => negb (v_is KText v) | Some _ => false end
                                      | _ => false
                                      end) (get_element_vars m)
        | None => false
        end
    | _ => false
    end.
  Definition nil_free (m : xmeta) : bool :=
    match find_any_attributes m XSI_NIL with None => true | Some _ => false end.

  Definition fits_item (rec : cls -> value -> bool) (v : xvar) (x : value) : bool :=
    match vtype v with
    | TClass k => match x with
                  | VObj cl' _ => (negb (v_nillable v) || has_content x || cls_nillable cl')
                                  && (if N.eqb cl' k then rec k x else derived_ok v k cl' && rec cl' x)
                  | _ => false
                  end
    | TQName => match x with VP p => qleaf_ok p | _ => false end
    | TObject =>
        (* a str in an xs:anyType field: DataType.from_value(str) is xs:string, no xsi:type is written *)
        match x with
        | VP (PStr s) => leaf_ok TStr (v_format v) (PStr s) && snd (c_datatype c (PStr s))
        | _ => false
        end
    | t => match x with VP p => leaf_ok t (v_format v) p && empty_ok v p | _ => false end
    end.
  Definition fits_tokens (v : xvar) (f : factory) (x : value) : bool :=
    match x with
    | VList t l => Bool.eqb t (is_tuple f) && nonempty l && forallb (token_ok (vtype v) (v_format v)) l
    | _ => false
    end.

  (* a generic element (AnyElement): a name, attributes with distinct names that are not xsi:nil / xsi:type
     and values the parser takes literally, no tail (mixed content is outside), a text (never None: an
     element without text is read back with text "") that is empty when there are child elements
     (white space next to children is dropped by design), generic children *)
  Definition any_attr_ok (kv : qname * str) : bool :=
    negb (reserved_name (fst kv)) && negb (existsb (N.eqb 58) (snd kv)).
  Fixpoint fits_anyel (x : value) : bool :=
    let fix fl (l : list value) : bool := match l with [] => true | y :: r => fits_anyel y && fl r end in
    match x with
    | VAny (Some ((_ :: _) as q)) (Some s) None attrs children =>
        nodup_by str_eqb (map fst attrs) && forallb any_attr_ok attrs
        && match children with [] => true | _ => match s with [] => true | _ => false end end
        && fl children
    | _ => false
    end.
  (* at the top: the name is admitted by the namespace constraint of the wildcard, it is not the name of an
     element field or of a wrapper of the class, and no class is registered under it (the parser would
     build that class: XmlContext.find_type) *)
  Definition fits_any_top (m : xmeta) (wv : xvar) (x : value) : bool :=
    fits_anyel x
    && match x with
       | VAny (Some q) _ _ _ _ =>
           match_namespace wv q
           && match assoc q (m_elements m) with None => true | Some _ => false end
           && match assoc q (m_wrappers m) with None => true | Some _ => false end
           && match find_types u q with [] => true | _ => false end
       | _ => false
       end.
  Definition fits_wild (m : xmeta) (wv : xvar) (x : value) : bool :=
    match v_factory wv with
    | None => match x with VNone => true | _ => fits_any_top m wv x end
    | Some _ => match x with VList false l => forallb (fits_any_top m wv) l | _ => false end
    end.

  Definition fits_elem (rec : cls -> value -> bool) (v : xvar) (x : value) : bool :=
    match v_factory v, v_tokens_factory v with
    | None, None =>
        match x with
        | VNone => match v_default v with
                   | DNone => match vtype v with
                              | TClass k => negb (v_nillable v && cls_nillable k)
                              | _ => true
                              end
                   | _ => false
                   end
        | _ => fits_item rec v x
        end
    | Some f, None =>
        match x with
        | VList t l => Bool.eqb t (is_tuple f) && forallb (fits_item rec v) l
        | _ => false
        end
    | None, Some tf =>
        match x with
        | VList t [] => Bool.eqb t (is_tuple tf) && negb (v_nillable v)   (* [] in a nillable field: <f xsi:nil="true"/> reads None (C01-F1) *)
        | _ => fits_tokens v tf x
        end
    | Some f, Some tf =>
        match x with
        | VList t l => Bool.eqb t (is_tuple f) && forallb (fits_tokens v tf) l
        | _ => false
        end
    end.

  (* fuel = nesting depth of the instance *)
  Fixpoint fits (n : nat) (cl : cls) (o : value) {struct n} : bool :=
    match n, o with
    | S k, VObj cl' fs =>
        N.eqb cl' cl
        && match u_meta u cl with
           | None => false
           | Some m =>
               list_eqb str_eqb (map fst fs) (map v_name (get_all_vars m))
               && (negb (m_nillable m) || has_content o || (strict_empty o && nil_free m))
               && forallb (fun e => fits_attr (snd e) (field_of fs (snd e))) (m_attributes m)
               && forallb (fun e => forallb (fun v => fits_elem (fits k) v (field_of fs v)) (snd e)) (m_elements m)
               && match m_text m with Some t => fits_text t (field_of fs t) | None => true end
               && match m_any_attributes m with [av] => fits_map m av (field_of fs av) | _ => true end
               && match m_wildcards m with [wv] => fits_wild m wv (field_of fs wv) | _ => true end
           end
    | _, _ => false
    end.
End Guards.

(* no class of the fragment has an attribute map or a wildcard field: the hypothesis of the theorems that
   speak about EVERY attribute order (a map - and the attributes of a generic element - come back in the
   order the attributes were reported) *)
Definition nomaps_u (u : universe) : bool :=
  forallb (fun km => negb (wf_class (snd km))
                     || (match m_any_attributes (snd km) with [] => true | _ => false end
                         && match m_wildcards (snd km) with [] => true | _ => false end)) (u_metas u).

(* no QName value anywhere in the instance (the canonical reader stream `pump` and the text-level
   theorems are stated for these: a QName needs a prefix binding) *)
Fixpoint noq (v : value) : bool :=
  let fix nl (l : list value) : bool := match l with [] => true | x :: r => noq x && nl r end in
  let fix nf (l : list (str * value)) : bool := match l with [] => true | (_, x) :: r => noq x && nf r end in
  match v with
  | VP (PQName _) => false
  | VList _ l => nl l
  | VObj _ fs => nf fs
  | _ => true
  end.

(* every nested instance is of the class its field declares: no xsi:type attribute is written
   (with noq: the hypothesis of the pump / document forms of the theorem) *)
Fixpoint exact_classes (u : universe) (n : nat) (cl : cls) (o : value) {struct n} : bool :=
  match n, o with
  | S k, VObj cl' fs =>
      N.eqb cl' cl
      && match u_meta u cl with
         | Some m =>
             forallb (fun e => forallb (fun v =>
                        match v_clazz v with
                        | Some kd => match field_of fs v with
                                     | VList _ l => forallb (exact_classes u k kd) l
                                     | VNone => true
                                     | x => exact_classes u k kd x
                                     end
                        | None => true
                        end) (snd e)) (m_elements m)
         | None => false
         end
  | _, _ => false
  end.

Fixpoint odepth (v : value) : nat :=
  let fix dl (l : list value) : nat := match l with [] => O | x :: r => Nat.max (odepth x) (dl r) end in
  let fix df (l : list (str * value)) : nat := match l with [] => O | (_, x) :: r => Nat.max (odepth x) (df r) end in
  match v with
  | VList _ l => dl l
  | VObj _ fs => S (df fs)
  | VAny _ _ _ _ ch => S (dl ch)
  | _ => O
  end.
