(* Spec/Cm.v — content models, their language, and an abstract of the binding
   metadata as xsdata's XmlParser uses it (which child element goes to which field).
   SHARED by C02 / C13 / C16 / C17.  Specification side: imports neither Gen/ nor Model/.
   Definitions only; the theorems are in Proofs/Cm.v.

   Names are Clark-notation qualified names ("{uri}local" or "local") as `str`. *)
From Coq Require Import NArith List Bool Arith Permutation.
From XV Require Import Base.Str Base.Eqb.
Import ListNotations.
Local Close Scope N_scope.
Local Open Scope nat_scope.

Definition name := str.
Definition name_eqb : name -> name -> bool := str_eqb.

(* ---------------------------------------------------------------- extended naturals *)
Definition enat := option nat.                     (* None = unbounded *)
Definition eadd (a b : enat) : enat := match a, b with Some x, Some y => Some (x + y) | _, _ => None end.
Definition emax (a b : enat) : enat := match a, b with Some x, Some y => Some (Nat.max x y) | _, _ => None end.
Definition emul (k a : enat) : enat :=
  match k, a with Some 0, _ => Some 0 | _, Some 0 => Some 0 | Some x, Some y => Some (x * y) | _, _ => None end.
Definition ele (n : nat) (a : enat) : Prop := match a with None => True | Some x => n <= x end.
Definition eleb (n : nat) (a : enat) : bool := match a with None => true | Some x => n <=? x end.
Definition enat_leb (a b : enat) : bool :=
  match a, b with _, None => true | None, Some _ => false | Some x, Some y => x <=? y end.

(* ---------------------------------------------------------------- content models *)
Inductive cm :=
| Elem (q : name)                          (* one element named q *)
| Seq (l : list cm)                        (* sequence  (DTD ","  / xs:sequence) *)
| Choice (l : list cm)                     (* choice    (DTD "|"  / xs:choice)   *)
| All (l : list cm)                        (* xs:all: every member once, in any order *)
| AnyElem (allow : name -> bool)           (* wildcard: one element whose name satisfies `allow` *)
| Occ (mn : nat) (mx : enat) (c : cm).     (* occurrence range; DTD ? = 0..1, * = 0..inf, + = 1..inf *)

(* what an element may contain *)
Inductive ctype :=
| CEmpty                      (* EMPTY *)
| CText                       (* character data only *)
| CElems (c : cm)             (* element content *)
| CMixed (c : cm).            (* text interleaved with the children word of c *)

Definition opt := Occ 0 (Some 1).
Definition star := Occ 0 None.
Definition plus := Occ 1 None.

Inductive lang : cm -> list name -> Prop :=
| L_elem q : lang (Elem q) [q]
| L_seq_nil : lang (Seq []) []
| L_seq_cons c r w1 w2 : lang c w1 -> lang (Seq r) w2 -> lang (Seq (c :: r)) (w1 ++ w2)
| L_choice_here c r w : lang c w -> lang (Choice (c :: r)) w
| L_choice_there c r w : lang (Choice r) w -> lang (Choice (c :: r)) w
| L_all l l' w : Permutation l l' -> lang (Seq l') w -> lang (All l) w
| L_any allow q : allow q = true -> lang (AnyElem allow) [q]
| L_occ mn mx c ws : mn <= length ws -> ele (length ws) mx -> Forall (lang c) ws -> lang (Occ mn mx c) (concat ws).

(* ---------------------------------------------------------------- counting *)
Definition countP (P : name -> bool) (w : list name) : nat := length (filter P w).
Definition count (q : name) : list name -> nat := countP (name_eqb q).

Definition esum (l : list enat) : enat := fold_right eadd (Some 0) l.
Definition emaxl (l : list enat) : enat := fold_right emax (Some 0) l.
Definition nsum (l : list nat) : nat := fold_right Nat.add 0 l.
Definition nminl (l : list nat) : nat := match l with [] => 0 | x :: r => fold_right Nat.min x r end.

(* the largest / smallest number of children satisfying P in any word of the model *)
Fixpoint maxcountP (P : name -> bool) (c : cm) : enat :=
  match c with
  | Elem q => if P q then Some 1 else Some 0
  | Seq l => esum (map (maxcountP P) l)
  | Choice l => emaxl (map (maxcountP P) l)
  | All l => esum (map (maxcountP P) l)
  | AnyElem _ => Some 1
  | Occ _ mx c => emul mx (maxcountP P c)
  end.

Fixpoint mincountP (P : name -> bool) (c : cm) : nat :=
  match c with
  | Elem q => if P q then 1 else 0
  | Seq l => nsum (map (mincountP P) l)
  | Choice l => nminl (map (mincountP P) l)
  | All l => nsum (map (mincountP P) l)
  | AnyElem _ => 0
  | Occ mn _ c => mn * mincountP P c
  end.

Definition maxcount (c : cm) (q : name) : enat := maxcountP (name_eqb q) c.
Definition mincount (c : cm) (q : name) : nat := mincountP (name_eqb q) c.

(* element names mentioned by the model; whether it has a wildcard *)
Fixpoint alphabet (c : cm) : list name :=
  match c with
  | Elem q => [q]
  | Seq l | Choice l | All l => concat (map alphabet l)
  | AnyElem _ => []
  | Occ _ _ c => alphabet c
  end.

Fixpoint has_any (c : cm) : bool :=
  match c with
  | Elem _ => false
  | Seq l | Choice l | All l => existsb has_any l
  | AnyElem _ => true
  | Occ _ _ c => has_any c
  end.

(* well-formed: no empty choice (empty language), min <= max *)
Fixpoint cm_wf (c : cm) : bool :=
  match c with
  | Elem _ | AnyElem _ => true
  | Seq l | All l => forallb cm_wf l
  | Choice l => negb (match l with [] => true | _ => false end) && forallb cm_wf l
  | Occ mn mx c => eleb mn mx && cm_wf c
  end.

(* ---------------------------------------------------------------- a decidable matcher (Brzozowski derivatives) *)
Fixpoint nullable (c : cm) : bool :=
  match c with
  | Elem _ | AnyElem _ => false
  | Seq l | All l => forallb nullable l
  | Choice l => existsb nullable l
  | Occ mn _ c => (mn =? 0) || nullable c
  end.

Definition epred (mx : enat) : enat := match mx with Some n => Some (pred n) | None => None end.
Definition ezero (mx : enat) : bool := match mx with Some 0 => true | _ => false end.

(* all ways of taking one member out of a list *)
Fixpoint picks {A} (l : list A) : list (A * list A) :=
  match l with
  | [] => []
  | x :: r => (x, r) :: map (fun p => (fst p, x :: snd p)) (picks r)
  end.

Definition Empty : cm := Choice [].
Definition Eps : cm := Seq [].

(* smart constructors: dead branches (the empty language) are pruned, so that the derivative of a
   deterministic model stays small *)
Definition is_empty (c : cm) : bool := match c with Choice [] => true | _ => false end.
Definition mk_seq (a : cm) (r : list cm) : cm := if is_empty a then Empty else Seq (a :: r).
Definition mk_choice (l : list cm) : cm := Choice (filter (fun c => negb (is_empty c)) l).

Fixpoint deriv (a : name) (c : cm) : cm :=
  match c with
  | Elem q => if name_eqb q a then Eps else Empty
  | AnyElem allow => if allow a then Eps else Empty
  | Seq l =>
      (fix dseq (l : list cm) : cm :=
         match l with
         | [] => Empty
         | c :: r => if nullable c then mk_choice [mk_seq (deriv a c) r; dseq r] else mk_seq (deriv a c) r
         end) l
  | Choice l => mk_choice (map (deriv a) l)
  | All l =>
      (* d(All l) = U_i  d(l_i) . All (l minus i) *)
      (fix dall (pre l : list cm) : cm :=
         match l with
         | [] => Empty
         | c :: r => mk_choice [mk_seq (deriv a c) [All (rev pre ++ r)]; dall (c :: pre) r]
         end) [] l
  | Occ mn mx c => if ezero mx then Empty else mk_seq (deriv a c) [Occ (pred mn) (epred mx) c]
  end.

Fixpoint matches (c : cm) (w : list name) : bool :=
  match w with
  | [] => nullable c
  | a :: r => matches (deriv a c) r
  end.

(* ---------------------------------------------------------------- binding metadata, as the parser uses it
   One `efield` per element-bearing field of the generated class, in the order in which
   XmlMeta.find_children offers them (plain element vars by index, then compound choices,
   then wildcards).  ElementNode.child takes, for a child named q, the first field that
   matches q and is still available: a list field and a wildcard are always available, any
   other field holds one item ("unique" index in `assigned`). *)
Record efield := mk_efield {
  ef_names : list name;      (* qnames routed to this field: [q] for an Element var, the choice qnames for a compound Elements var *)
  ef_wild : bool;            (* wildcard var (or compound with a wildcard choice): matches every name *)
  ef_bounded : bool;         (* holds at most one item: an element / compound var that is not a list *)
  ef_required : bool;        (* constructor argument without default: must be assigned for the object to be built *)
  ef_rank : nat              (* position in serialization order (XmlVar.index) *)
}.

Definition fmatch (f : efield) (q : name) : bool := ef_wild f || existsb (name_eqb q) (ef_names f).

Record meta := mk_meta {
  m_fields : list efield;
  m_text : bool;             (* a Text var exists (simple content) *)
  m_mixed : bool             (* a mixed wildcard exists: text chunks between children are kept *)
}.

(* capacity of the metadata for children named q: unbounded if a list/wildcard field
   matches, else the number of one-item fields for q *)
Definition capacity (m : meta) (q : name) : enat :=
  if existsb (fun f => fmatch f q && negb (ef_bounded f)) (m_fields m) then None
  else Some (length (filter (fun f => fmatch f q) (m_fields m))).

(* --- the greedy slot assignment of ElementNode.child over a word of child names --- *)
Definition slots := list (efield * bool).              (* field, already assigned? *)
Definition init_slots (fs : list efield) : slots := map (fun f => (f, false)) fs.

Fixpoint take_slot (st : slots) (q : name) : option slots :=
  match st with
  | [] => None                                            (* ParserError: Unknown property *)
  | (f, a) :: r =>
      if fmatch f q then
        if negb (ef_bounded f) then Some ((f, a) :: r)
        else if a then option_map (cons (f, a)) (take_slot r q)
        else Some ((f, true) :: r)
      else option_map (cons (f, a)) (take_slot r q)
  end.

Fixpoint run_slots (st : slots) (w : list name) : option slots :=
  match w with
  | [] => Some st
  | q :: r => match take_slot st q with Some st' => run_slots st' r | None => None end
  end.

(* every constructor argument without default got a value (else TypeError from the dataclass constructor) *)
Definition required_ok (st : slots) : bool :=
  forallb (fun p => negb (ef_required (fst p)) || negb (ef_bounded (fst p)) || snd p) st.

Definition accepts_word (m : meta) (w : list name) : bool :=
  match run_slots (init_slots (m_fields m)) w with
  | Some st => required_ok st
  | None => false
  end.

(* ---------------------------------------------------------------- the validator *)
(* fields competing for q, and every name any of them takes *)
Definition fields_for (fs : list efield) (q : name) : list efield := filter (fun f => fmatch f q) fs.
Definition cover (g : list efield) (x : name) : bool := existsb (fun f => fmatch f x) g.
Definition has_unbounded (fs : list efield) (q : name) : bool :=
  existsb (fun f => fmatch f q && negb (ef_bounded f)) fs.

Definition check_name (c : cm) (fs : list efield) (q : name) : bool :=
  has_unbounded fs q ||
  (let g := fields_for fs q in
   negb (match g with [] => true | _ => false end) && enat_leb (maxcountP (cover g) c) (Some (length g))).

Definition check_capacity (c : cm) (fs : list efield) : bool :=
  forallb (check_name c fs) (alphabet c)
  && (negb (has_any c) || existsb (fun f => ef_wild f && negb (ef_bounded f)) fs).

(* index of the first field matching q *)
Fixpoint first_idx (fs : list efield) (q : name) : option nat :=
  match fs with
  | [] => None
  | f :: r => if fmatch f q then Some 0 else option_map S (first_idx r q)
  end.

(* a required field is safe if some name that every valid word contains goes to it first *)
Definition required_field_ok (c : cm) (fs : list efield) (i : nat) (f : efield) : bool :=
  negb (ef_required f) || negb (ef_bounded f) ||
  existsb (fun q => match first_idx fs q with Some j => (j =? i) | None => false end && (1 <=? mincount c q))
          (alphabet c).

Fixpoint check_required_from (c : cm) (fs : list efield) (i : nat) (l : list efield) : bool :=
  match l with
  | [] => true
  | f :: r => required_field_ok c fs i f && check_required_from c fs (S i) r
  end.
Definition check_required (c : cm) (fs : list efield) : bool := check_required_from c fs 0 fs.

Definition check_children (c : cm) (m : meta) : bool :=
  check_capacity c (m_fields m) && check_required c (m_fields m).

Definition no_required (fs : list efield) : bool :=
  forallb (fun f => negb (ef_required f) || negb (ef_bounded f)) fs.

Definition check (t : ctype) (m : meta) : bool :=
  match t with
  | CEmpty => no_required (m_fields m)
  | CText => m_text m && no_required (m_fields m)
  | CElems c => check_children c m
  | CMixed c => check_children c m && m_mixed m
  end.

(* --- witnesses for a failed check: a word with few / many children satisfying P --- *)
Definition shortest (l : list (list name)) : list name :=
  match l with [] => [] | x :: r => fold_right (fun a b => if length a <? length b then a else b) x r end.
Definition pick_by (key : list name -> nat) (better : nat -> nat -> bool) (l : list (list name)) : list name :=
  match l with [] => [] | x :: r => fold_right (fun a b => if better (key a) (key b) then a else b) x r end.

Fixpoint repeat_word (n : nat) (w : list name) : list name :=
  match n with O => [] | S k => w ++ repeat_word k w end.

(* a word of the model with as few P-children as possible *)
Fixpoint min_word (P : name -> bool) (c : cm) : list name :=
  match c with
  | Elem q => [q]
  | Seq l | All l => concat (map (min_word P) l)
  | Choice l => pick_by (countP P) Nat.leb (map (min_word P) l)
  | AnyElem _ => []          (* no canonical name: callers treat models with wildcards separately *)
  | Occ mn _ c => repeat_word mn (min_word P c)
  end.

(* a word of the model with many P-children: unbounded repetitions unrolled `k` times *)
Fixpoint max_word (P : name -> bool) (k : nat) (c : cm) : list name :=
  match c with
  | Elem q => [q]
  | Seq l | All l => concat (map (max_word P k) l)
  | Choice l => pick_by (countP P) (fun a b => b <=? a) (map (max_word P k) l)
  | AnyElem _ => []
  | Occ mn mx c =>
      let n := match mx with Some n => n | None => Nat.max mn k end in
      if countP P (max_word P k c) =? 0 then repeat_word mn (max_word P k c) else repeat_word n (max_word P k c)
  end.

(* a valid word the metadata rejects, if one of the two canonical candidates per name does *)
Definition rejected_word (c : cm) (m : meta) : option (list name) :=
  let cands := concat (map (fun q => [min_word (name_eqb q) c;
                                      max_word (name_eqb q) 2 c;
                                      max_word (cover (fields_for (m_fields m) q)) 2 c]) (alphabet c))
               ++ [min_word (fun _ => true) c] in
  match filter (fun w => matches c w && negb (accepts_word m w)) cands with
  | [] => None
  | l => Some (shortest l)
  end.

(* ---------------------------------------------------------------- order preservation
   The serializer emits the fields in rank order, the items of a list field together.
   So the children come out as the stable sort of the input word by the rank of the
   field each child went to; the order is preserved iff that rank sequence is already
   non-decreasing for every word of the model. *)
Definition dflt_field : efield := mk_efield [] false false false 0.
Definition rank_of (fs : list efield) (q : name) : nat :=
  match first_idx fs q with
  | Some i => ef_rank (nth i fs dflt_field)
  | None => match fs with f :: _ => ef_rank f | [] => 0 end
  end.

Fixpoint ranks (rk : name -> nat) (c : cm) : list nat :=
  match c with
  | Elem q => [rk q]
  | Seq l | Choice l | All l => concat (map (ranks rk) l)
  | AnyElem _ => []
  | Occ _ _ c => ranks rk c
  end.

Definition all_le (xs ys : list nat) : bool := forallb (fun x => forallb (Nat.leb x) ys) xs.

Fixpoint osafe (rk : name -> nat) (c : cm) : bool :=
  match c with
  | Elem _ => true
  | AnyElem _ => false
  | Seq l =>
      (fix go (l : list cm) : bool :=
         match l with
         | [] => true
         | c :: r => osafe rk c && all_le (ranks rk c) (concat (map (ranks rk) r)) && go r
         end) l
  | Choice l => forallb (osafe rk) l
  | All l => negb (existsb has_any l) && all_le (concat (map (ranks rk) l)) (concat (map (ranks rk) l))
  | Occ _ mx c =>
      negb (has_any c) &&
      (all_le (ranks rk c) (ranks rk c) || (osafe rk c && enat_leb mx (Some 1)))
  end.

(* every name of the model has exactly one field to go to, so that the rank of a child
   does not depend on how many siblings came before it *)
Definition single_field (fs : list efield) (q : name) : bool := length (fields_for fs q) =? 1.

(* all fields share one rank (e.g. a single wildcard list): any order is kept *)
Definition const_rank (fs : list efield) : bool :=
  match fs with [] => true | f :: r => forallb (fun g => ef_rank g =? ef_rank f) r end.

Definition order_safe (c : cm) (m : meta) : bool :=
  let fs := m_fields m in
  const_rank fs || (osafe (rank_of fs) c && forallb (single_field fs) (alphabet c)).

Fixpoint nondecr (l : list nat) : Prop :=
  match l with [] => True | x :: r => Forall (le x) r /\ nondecr r end.

(* stable insertion sort by rank: the order in which the serializer emits the children *)
Fixpoint insert_by (rk : name -> nat) (q : name) (l : list name) : list name :=
  match l with
  | [] => [q]
  | x :: r => if rk q <=? rk x then q :: x :: r else x :: insert_by rk q r
  end.
Definition emit_order (rk : name -> nat) (w : list name) : list name :=
  fold_right (insert_by rk) [] w.

(* ---------------------------------------------------------------- attribute uses *)
Inductive attr_use := AReq | AImplied | AFixed (v : str) | ADefault (v : str).

Record attr_decl := mk_attr_decl {
  ad_name : name;
  ad_use : attr_use;
  ad_enum : option (list str)          (* enumerated type: the allowed tokens *)
}.

(* the value the attribute has for a DTD/XSD-aware reader: defaults and fixed values materialise *)
Definition effective (d : attr_decl) (present : option str) : option str :=
  match present with
  | Some v => Some v
  | None => match ad_use d with AFixed v | ADefault v => Some v | _ => None end
  end.

Definition in_enum (e : option (list str)) (v : str) : bool :=
  match e with None => true | Some l => existsb (str_eqb v) l end.

Definition valid_attr (d : attr_decl) (present : option str) : bool :=
  match present with
  | None => match ad_use d with AReq => false | _ => true end
  | Some v => in_enum (ad_enum d) v && match ad_use d with AFixed f => str_eqb v f | _ => true end
  end.

(* binding side: an attribute field *)
Record afield := mk_afield {
  af_name : name;
  af_required : bool;                  (* constructor argument without default *)
  af_default : option str;             (* textual form of the field default *)
  af_fixed : bool;                     (* init=False: the value is always the default; other values are refused *)
  af_enum : option (list str)          (* Enum-typed: the member values *)
}.

(* parse then serialize: None = parse fails; Some x = the attribute in the output (x = None: absent) *)
Definition afield_roundtrip (f : afield) (present : option str) : option (option str) :=
  match present with
  | Some v =>
      if negb (in_enum (af_enum f) v) then None
      else if af_fixed f then
             match af_default f with Some d => if str_eqb v d then Some (Some d) else None | None => None end
           else Some (Some v)
  | None => if af_required f then None else Some (af_default f)
  end.

Definition enum_eqb (a b : option (list str)) : bool :=
  match a, b with
  | None, None => true
  | Some x, Some y => forallb (fun v => existsb (str_eqb v) y) x && forallb (fun v => existsb (str_eqb v) x) y
  | _, _ => false
  end.

Definition attr_compat (d : attr_decl) (f : afield) : bool :=
  name_eqb (ad_name d) (af_name f) && enum_eqb (ad_enum d) (af_enum f) &&
  match ad_use d with
  | AReq => match af_default f with None => negb (af_fixed f) | Some _ => false end
  | AImplied => negb (af_required f) && negb (af_fixed f) && match af_default f with None => true | Some _ => false end
  | AFixed v => negb (af_required f) && match af_default f with Some x => str_eqb x v | None => false end
  | ADefault v => negb (af_required f) && negb (af_fixed f) && match af_default f with Some x => str_eqb x v | None => false end
  end.

Definition find_afield (fs : list afield) (n : name) : option afield := find (fun f => name_eqb n (af_name f)) fs.

Definition check_attrs (ds : list attr_decl) (fs : list afield) : bool :=
  forallb (fun d => match find_afield fs (ad_name d) with Some f => attr_compat d f | None => false end) ds
  && forallb (fun f => negb (af_required f) || existsb (fun d => name_eqb (ad_name d) (af_name f)) ds) fs.
