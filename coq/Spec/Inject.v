(* Spec/Inject.v — specification side of C10: what "adding unknown elements (with any
   subtree) and unknown attributes to a document" means on the stream of parser events.

   Imports only the shared vocabulary of Model/Bind.v (event type, metadata records and
   the metadata lookups of xsdata/formats/dataclass/models/elements.py); nothing from the
   parser model and nothing from Gen/.

   Document-level reading.  Inserting an element into a document at a position that
   follows no character data of the parent (immediately before a child's start tag or
   before the parent's end tag, after the preceding text run) changes no `text`/`tail`
   of any other element; on the event stream it inserts the events of the new subtree
   as one contiguous block between two events and leaves all other events untouched.
   That is the insertion modelled here.  (Inserting in the middle of a text run moves
   the rest of the run into the new element's tail, i.e. it also edits the parent's
   character data; that is a different edit.) *)
From Coq Require Import NArith List Bool Arith.
From XV Require Import Base.Str Base.Eqb Model.Bind.
Import ListNotations.

(* ---------------------------------------------------------------- balanced subtrees *)
(* the events after the root start of a subtree: d = number of open elements *)
Fixpoint tree_rest (d : nat) (evs : list pevent) : bool :=
  match evs with
  | [] => false
  | PStart _ _ _ :: r => tree_rest (S d) r
  | PEnd _ _ _ :: r =>
      match d with
      | O => false
      | S O => match r with [] => true | _ => false end
      | S d' => tree_rest d' r
      end
  | PStartNs _ _ :: r => tree_rest d r
  end.

(* one element with arbitrary attributes, arbitrary text/tail and an arbitrary balanced
   forest of descendants (end names need not even repeat the start names) *)
Definition is_tree (evs : list pevent) : bool :=
  match evs with
  | PStart _ _ _ :: r => tree_rest 1 r
  | _ => false
  end.

Definition tree_root (evs : list pevent) : option qname :=
  match evs with PStart q _ _ :: _ => Some q | _ => None end.

(* ---------------------------------------------------------------- unknown names *)
(* the element name matches no field, no compound-field choice and no wildcard of the
   class (under a wrapper element: none of the fields of that wrapper), and is not a
   wrapper name itself *)
Definition unknown_child (m : xmeta) (wrapper : option qname) (q : qname) : bool :=
  match wrapper with
  | Some ((_ :: _) as w) =>
      forallb (fun v => negb (ostr_eqb (v_wrapper_qname v) (Some w))) (find_children m q)
  | _ =>
      match assoc q (m_wrappers m), find_children m q with
      | None, [] => true
      | _, _ => false
      end
  end.

(* the attribute matches no attribute field and no any-attribute field of the class, and
   is not one of the two xsi attributes the parser itself interprets *)
Definition unknown_attr (m : xmeta) (a : qname) : bool :=
  match find_attribute m a, find_any_attributes m a with
  | None, None => negb (str_eqb a XSI_TYPE) && negb (str_eqb a XSI_NIL)
  | _, _ => false
  end.

Definition in_xsi_namespace (a : qname) : bool := ostr_eqb (target_uri a) (Some XSI_NS).

(* ---------------------------------------------------------------- single injections *)
(* described from the injected stream d': which block / which attribute to remove to get
   the stream before the injection *)
Inductive undo :=
| UndoSub (i n : nat)      (* events i .. i+n-1 of d' are the injected subtree *)
| UndoAttr (i k : nat).    (* attribute number k of the start event number i was injected *)

Fixpoint remove_nth {A} (k : nat) (l : list A) : list A :=
  match l, k with
  | [], _ => []
  | _ :: r, O => r
  | x :: r, S k' => x :: remove_nth k' r
  end.

Definition undo_step (d' : list pevent) (s : undo) : option (list pevent) :=
  match s with
  | UndoSub i n =>
      if (i + n <=? length d')%nat then Some (firstn i d' ++ skipn (i + n)%nat d') else None
  | UndoAttr i k =>
      match nth_error d' i with
      | Some (PStart q attrs ns) =>
          if (k <? length attrs)%nat then Some (firstn i d' ++ PStart q (remove_nth k attrs) ns :: skipn (S i) d')
          else None
      | _ => None
      end
  end.

Definition injected_block (d' : list pevent) (i n : nat) : list pevent := firstn n (skipn i d').
