(* Spec/PyEval.v — specification side of C18: Python values of binding models, class
   descriptions ("world"), the expression subset that PycodeSerializer emits, and an
   evaluator for it (what CPython does with such source in a fresh namespace after
   the `from m import n` lines).  Independent of Model/ and Gen/.

   Observation level:
   * floats are IEEE binary64 bit patterns (all NaNs canonicalised to one pattern);
     text <-> float conversion is CPython's and is not modelled (the expression AST
     carries the bits);
   * a Decimal is identified with str(d) (lossless in CPython); numeric comparison
     parses that text exactly;
   * Python `==` is [veq false]; the NaN-tolerant equality of the property's oracle is
     [veq true]. *)
From Coq Require Import NArith ZArith List Bool String Ascii.
From XV Require Import Base.Str Base.Dec Base.Eqb.
Import ListNotations.
Open Scope Z_scope.

Definition lit (x : string) : str :=
  map (fun a => N.of_nat (nat_of_ascii a)) (list_ascii_of_string x).
Arguments lit x%string.
Notation length := List.length.

(* ---------------------------------------------------------------- values *)
Notation path := (list str) (only parsing).
Definition path_eqb : path -> path -> bool := list_eqb str_eqb.
Definition cref := (str * path)%type.            (* __module__, __qualname__ split on "." *)
Definition cref_eqb (a b : cref) : bool := str_eqb (fst a) (fst b) && path_eqb (snd a) (snd b).

Inductive bkind := BPlain | BHex | BB64.          (* bytes, XmlHexBinary, XmlBase64Binary *)
Inductive xkind := KDate | KTime | KDateTime.     (* XmlDate, XmlTime, XmlDateTime *)
Inductive skind := SDate | STime | SDateTime.     (* naive datetime.date / .time / .datetime *)

Inductive value :=
| VNone
| VBool (b : bool)
| VInt (z : Z)
| VFloat (bits : Z)
| VStr (s : str)
| VBytes (k : bkind) (b : str)
| VDecimal (s : str)
| VQName (t : str)
| VXml (k : xkind) (args : list Z) (off : option Z)
| VDuration (d : str)
| VPeriod (d : str)
| VStd (k : skind) (args : list Z)        (* all components: 3 / 4 / 7 *)
| VEnum (c : cref) (m : str)
| VFlag (c : cref) (z : Z)                 (* a value of a Flag class that is not a named member *)
| VList (l : list value)
| VTuple (l : list value)
| VSet (frozen : bool) (l : list value)
| VDict (kv : list (value * value))
| VObj (c : cref) (fs : list (str * value)).

Inductive fdefault := DMissing | DValue (v : value) | DFactory (v : value).
Record fdesc := { f_name : str; f_init : bool; f_default : fdefault }.
(* KEnum: member names (aliases included); for Flag classes the members' values, aligned *)
Inductive ckind := KData (frozen : bool) (fds : list fdesc) | KEnum (members : list str) (flags : option (list Z)).
Record cdesc := { c_ref : cref; c_kind : ckind }.
Definition world := list cdesc.

Definition find_class (W : world) (c : cref) : option ckind :=
  option_map c_kind (find (fun d => cref_eqb (c_ref d) c) W).
Definition find_data (W : world) (c : cref) : option (list fdesc) :=
  match find_class W c with Some (KData _ fds) => Some fds | _ => None end.
Definition enum_has (W : world) (c : cref) (m : str) : bool :=
  match find_class W c with Some (KEnum ms _) => existsb (str_eqb m) ms | _ => false end.
(* P(z) for a Flag class P: the (first) member with that value, else the unnamed combination *)
Fixpoint flag_member (ms : list str) (vals : list Z) (z : Z) : option str :=
  match ms, vals with
  | m :: ms', v :: vals' => if Z.eqb v z then Some m else flag_member ms' vals' z
  | _, _ => None
  end.
Definition default_of (fd : fdesc) : option value :=
  match f_default fd with DMissing => None | DValue v => Some v | DFactory v => Some v end.

(* ---------------------------------------------------------------- numbers *)
(* n * 2^e2 * 10^e10, the infinities, NaN *)
Inductive numc := NFin (n e2 e10 : Z) | NInf (neg : bool) | NNan.

Definition numc_eq (a b : numc) : bool :=
  match a, b with
  | NFin n1 a1 b1, NFin n2 a2 b2 =>
      let am := Z.min a1 a2 in let bm := Z.min b1 b2 in
      (n1 * 2 ^ (a1 - am) * 10 ^ (b1 - bm)) =? (n2 * 2 ^ (a2 - am) * 10 ^ (b2 - bm))
  | NInf s1, NInf s2 => Bool.eqb s1 s2
  | _, _ => false
  end.

Definition fl_exp (bits : Z) : Z := (bits / 2 ^ 52) mod 2048.
Definition fl_isfinite (bits : Z) : bool := negb (fl_exp bits =? 2047).
Definition fl_num (bits : Z) : numc :=
  let sg := bits / 2 ^ 63 in
  let e := fl_exp bits in
  let m := bits mod 2 ^ 52 in
  if e =? 2047 then (if m =? 0 then NInf (sg =? 1) else NNan)
  else
    let mm := if e =? 0 then m else m + 2 ^ 52 in
    let ee := if e =? 0 then -1074 else e - 1075 in
    NFin (if sg =? 1 then - mm else mm) ee 0.
Definition fl_pos_inf : Z := 9218868437227405312.   (* 0x7FF0000000000000 *)
Definition fl_neg_inf : Z := 18442240474082181120.  (* 0xFFF0000000000000 *)
Definition fl_nan : Z := 9221120237041090560.       (* 0x7FF8000000000000 *)

(* Decimal(text) for the texts str(Decimal) produces (signalling NaNs excluded) *)
Definition dec_parse (s : str) : option numc :=
  let '(neg, r) := match s with
                   | 45%N :: r => (true, r)
                   | 43%N :: r => (false, r)
                   | _ => (false, s)
                   end in
  if str_eqb r (lit "Infinity") || str_eqb r (lit "Inf") then Some (NInf neg)
  else if startswith (lit "NaN") r && all_digits (skipn 3 r) then Some NNan
  else
    let '(ip, r1) := span is_ascii_digit r in
    let '(fp, r2) := match r1 with
                     | 46%N :: t => span is_ascii_digit t
                     | _ => ([], r1)
                     end in
    match ip ++ fp with
    | [] => None
    | ds =>
        let n := Z.of_N (str_val ds) in
        let n := if neg then - n else n in
        let nf := Z.of_nat (length fp) in
        match r2 with
        | [] => Some (NFin n 0 (- nf))
        | c :: t =>
            if N.eqb c 69 || N.eqb c 101 then
              let '(eneg, t') := match t with
                                 | 45%N :: u => (true, u)
                                 | 43%N :: u => (false, u)
                                 | _ => (false, t)
                                 end in
              match t' with
              | [] => None
              | _ => if all_digits t'
                     then let e := Z.of_N (str_val t') in
                          Some (NFin n 0 ((if eneg then - e else e) - nf))
                     else None
              end
            else None
        end
    end.

Definition num_of (v : value) : option numc :=
  match v with
  | VBool b => Some (NFin (if b then 1 else 0) 0 0)
  | VInt z => Some (NFin z 0 0)
  | VFloat b => Some (fl_num b)
  | VDecimal s => dec_parse s
  | _ => None
  end.

Definition same_num_ctor (a b : value) : bool :=
  match a, b with
  | VFloat _, VFloat _ => true
  | VDecimal _, VDecimal _ => true
  | _, _ => false
  end.

(* Python == between bool/int/float/Decimal (exact), optionally NaN-tolerant *)
Definition num_eq (nan_ok : bool) (a b : value) : bool :=
  match num_of a, num_of b with
  | Some NNan, Some NNan => nan_ok && same_num_ctor a b
  | Some x, Some y => numc_eq x y
  | None, None => nan_ok && match a, b with VDecimal s, VDecimal t => str_eqb s t | _, _ => false end
  | _, _ => false
  end.

(* str, QName (compares its text with a str) and XmlDuration (UserString) *)
Definition text_of (v : value) : option str :=
  match v with VStr s => Some s | VQName s => Some s | VDuration s => Some s | _ => None end.

Definition xkind_eqb (a b : xkind) : bool :=
  match a, b with KDate, KDate => true | KTime, KTime => true | KDateTime, KDateTime => true | _, _ => false end.
Definition skind_eqb (a b : skind) : bool :=
  match a, b with SDate, SDate => true | STime, STime => true | SDateTime, SDateTime => true | _, _ => false end.
Definition bkind_eqb (a b : bkind) : bool :=
  match a, b with BPlain, BPlain => true | BHex, BHex => true | BB64, BB64 => true | _, _ => false end.

(* ---------------------------------------------------------------- equality *)
(* [veq false] : Python's ==  (dict comparison is order-sensitive here, which is finer
   than Python's; XmlTime/XmlDateTime/XmlPeriod compare structurally, which is finer
   than their __eq__).  [veq true] : the same with NaN = NaN. *)
Fixpoint veq (nan_ok : bool) (a b : value) {struct a} : bool :=
  match a with
  | VNone => match b with VNone => true | _ => false end
  | VBool _ | VInt _ | VFloat _ | VDecimal _ => num_eq nan_ok a b
  | VStr _ | VQName _ | VDuration _ =>
      match text_of a, text_of b with Some s, Some t => str_eqb s t | _, _ => false end
  | VBytes _ x => match b with VBytes _ y => str_eqb x y | _ => false end
  | VXml k args off =>
      match b with
      | VXml k' args' off' => xkind_eqb k k' && lZ_eqb args args' && oZ_eqb off off'
      | _ => false
      end
  | VPeriod d => match b with VPeriod d' => str_eqb d d' | _ => false end
  | VStd k args => match b with VStd k' args' => skind_eqb k k' && lZ_eqb args args' | _ => false end
  | VEnum c m => match b with VEnum c' m' => cref_eqb c c' && str_eqb m m' | _ => false end
  | VFlag c z => match b with VFlag c' z' => cref_eqb c c' && Z.eqb z z' | _ => false end
  | VList l =>
      match b with
      | VList l' =>
          (fix go (l l' : list value) : bool :=
             match l, l' with
             | [], [] => true
             | x :: r, y :: r' => veq nan_ok x y && go r r'
             | _, _ => false
             end) l l'
      | _ => false
      end
  | VTuple l =>
      match b with
      | VTuple l' =>
          (fix go (l l' : list value) : bool :=
             match l, l' with
             | [], [] => true
             | x :: r, y :: r' => veq nan_ok x y && go r r'
             | _, _ => false
             end) l l'
      | _ => false
      end
  | VSet _ l =>
      (* set == frozenset; the listed order is the iteration order and does not matter *)
      match b with
      | VSet _ l' => Nat.eqb (List.length l) (List.length l') && forallb (fun x => existsb (veq nan_ok x) l') l
      | _ => false
      end
  | VDict kv =>
      match b with
      | VDict kv' =>
          (fix go (l : list (value * value)) (l' : list (value * value)) : bool :=
             match l, l' with
             | [], [] => true
             | (k, x) :: r, (k', x') :: r' => veq nan_ok k k' && veq nan_ok x x' && go r r'
             | _, _ => false
             end) kv kv'
      | _ => false
      end
  | VObj c fs =>
      match b with
      | VObj c' fs' =>
          cref_eqb c c' &&
          (fix go (l : list (str * value)) (l' : list (str * value)) : bool :=
             match l, l' with
             | [], [] => true
             | (n, x) :: r, (n', x') :: r' => str_eqb n n' && veq nan_ok x x' && go r r'
             | _, _ => false
             end) fs fs'
      | _ => false
      end
  end.

(* structural identity (used to compare the evaluator with CPython's exec) *)
Fixpoint value_eqb (a b : value) {struct a} : bool :=
  match a with
  | VNone => match b with VNone => true | _ => false end
  | VBool x => match b with VBool y => Bool.eqb x y | _ => false end
  | VInt x => match b with VInt y => x =? y | _ => false end
  | VFloat x => match b with VFloat y => x =? y | _ => false end
  | VStr x => match b with VStr y => str_eqb x y | _ => false end
  | VBytes k x => match b with VBytes k' y => bkind_eqb k k' && str_eqb x y | _ => false end
  | VDecimal x => match b with VDecimal y => str_eqb x y | _ => false end
  | VQName x => match b with VQName y => str_eqb x y | _ => false end
  | VXml k args off =>
      match b with
      | VXml k' args' off' => xkind_eqb k k' && lZ_eqb args args' && oZ_eqb off off'
      | _ => false
      end
  | VDuration x => match b with VDuration y => str_eqb x y | _ => false end
  | VPeriod x => match b with VPeriod y => str_eqb x y | _ => false end
  | VStd k args => match b with VStd k' args' => skind_eqb k k' && lZ_eqb args args' | _ => false end
  | VEnum c m => match b with VEnum c' m' => cref_eqb c c' && str_eqb m m' | _ => false end
  | VFlag c z => match b with VFlag c' z' => cref_eqb c c' && Z.eqb z z' | _ => false end
  | VList l =>
      match b with
      | VList l' =>
          (fix go (l l' : list value) : bool :=
             match l, l' with
             | [], [] => true
             | x :: r, y :: r' => value_eqb x y && go r r'
             | _, _ => false
             end) l l'
      | _ => false
      end
  | VTuple l =>
      match b with
      | VTuple l' =>
          (fix go (l l' : list value) : bool :=
             match l, l' with
             | [], [] => true
             | x :: r, y :: r' => value_eqb x y && go r r'
             | _, _ => false
             end) l l'
      | _ => false
      end
  | VSet f l =>
      match b with
      | VSet f' l' =>
          Bool.eqb f f' && Nat.eqb (List.length l) (List.length l')
          && forallb (fun x => existsb (value_eqb x) l') l
      | _ => false
      end
  | VDict kv =>
      match b with
      | VDict kv' =>
          (fix go (l : list (value * value)) (l' : list (value * value)) : bool :=
             match l, l' with
             | [], [] => true
             | (k, x) :: r, (k', x') :: r' => value_eqb k k' && value_eqb x x' && go r r'
             | _, _ => false
             end) kv kv'
      | _ => false
      end
  | VObj c fs =>
      match b with
      | VObj c' fs' =>
          cref_eqb c c' &&
          (fix go (l : list (str * value)) (l' : list (str * value)) : bool :=
             match l, l' with
             | [], [] => true
             | (n, x) :: r, (n', x') :: r' => str_eqb n n' && value_eqb x x' && go r r'
             | _, _ => false
             end) fs fs'
      | _ => false
      end
  end.

(* hash(v) succeeds *)
Fixpoint hashable (W : world) (v : value) {struct v} : bool :=
  match v with
  | VList _ | VDict _ | VPeriod _ => false
  | VSet fz _ => fz
  | VTuple l => forallb (hashable W) l
  | VObj c fs =>
      match find_class W c with
      | Some (KData true _) =>
          (fix go (l : list (str * value)) : bool :=
             match l with [] => true | (_, x) :: r => hashable W x && go r end) fs
      | _ => false
      end
  | _ => true
  end.

(* ---------------------------------------------------------------- expressions *)
Inductive pyexpr :=
| ENone
| EBool (b : bool)
| EInt (z : Z)
| EFloat (bits : Z)
| EStr (s : str)
| EBytes (b : str)
| EGarbled (s : str)        (* a "..." literal whose content was pasted in unescaped *)
| EName (p : path)          (* a.b.c *)
| ECall (f : path) (args : list pyexpr) (kws : list (str * pyexpr))
| EList (l : list pyexpr)
| ETuple (l : list pyexpr)
| ESet (l : list pyexpr)    (* {a, b} with at least one element *)
| EDict (kv : list (pyexpr * pyexpr)).

(* ---------------------------------------------------------------- environment *)
(* (m, Some n) : from m import n        (m, None) : import m   (m without dots) *)
Definition import_line := (str * option str)%type.
Definition env := list import_line.                (* in execution order *)
Definition env_of_imports (l : list import_line) : env := l.
Definition bound_name (p : import_line) : str := match snd p with Some n => n | None => fst p end.
Definition is_from (p : import_line) : bool := match snd p with Some _ => true | None => false end.

(* the binding in force after all the import lines ran (the last one wins):
   (m, true) = the attribute of module m with that name, (m, false) = module m itself *)
Fixpoint env_lookup (E : env) (n : str) : option (str * bool) :=
  match E with
  | [] => None
  | p :: r =>
      match env_lookup r n with
      | Some b => Some b
      | None => if str_eqb (bound_name p) n then Some (fst p, is_from p) else None
      end
  end.

Definition resolve (E : env) (p : path) : option cref :=
  match p with
  | n :: rest =>
      match env_lookup E n with
      | Some (m, true) => Some (m, p)
      | Some (m, false) => Some (m, rest)
      | None => None
      end
  | [] => None
  end.

Fixpoint unsnoc {A} (l : list A) : option (list A * A) :=
  match l with
  | [] => None
  | x :: r => match unsnoc r with
              | Some (i, la) => Some (x :: i, la)
              | None => Some ([], x)
              end
  end.

(* ---------------------------------------------------------------- library classes *)
Inductive libk := LDecimal | LQName | LDate | LTime | LDateTime | LDuration | LPeriod
                | LSDate | LSTime | LSDateTime.     (* datetime.date / .time / .datetime *)

Definition m_datatype : str := lit "xsdata.models.datatype".
Definition lib_table : list (cref * libk) :=
  [ ((lit "decimal", [lit "Decimal"]), LDecimal);
    ((lit "xml.etree.ElementTree", [lit "QName"]), LQName);
    ((m_datatype, [lit "XmlDate"]), LDate);
    ((m_datatype, [lit "XmlTime"]), LTime);
    ((m_datatype, [lit "XmlDateTime"]), LDateTime);
    ((m_datatype, [lit "XmlDuration"]), LDuration);
    ((m_datatype, [lit "XmlPeriod"]), LPeriod);
    ((lit "datetime", [lit "date"]), LSDate);
    ((lit "datetime", [lit "time"]), LSTime);
    ((lit "datetime", [lit "datetime"]), LSDateTime) ].

Definition lib_kind (c : cref) : option libk :=
  option_map snd (find (fun e => cref_eqb (fst e) c) lib_table).

Definition ints_of (l : list value) : option (list Z) :=
  fold_right (fun v acc => match v, acc with VInt z, Some r => Some (z :: r) | _, _ => None end) (Some []) l.

Definition lib_call (k : libk) (args : list value) (kws : list (str * value)) : option value :=
  match kws with
  | _ :: _ => None
  | [] =>
      match k with
      | LDecimal => match args with
                    | [] => Some (VDecimal (lit "0"))       (* Decimal() *)
                    | [VStr s] => match dec_parse s with Some _ => Some (VDecimal s) | None => None end
                    | _ => None end
      | LQName => match args with [VStr s] => Some (VQName s) | _ => None end
      | LDuration => match args with [VStr s] => Some (VDuration s) | _ => None end
      | LPeriod => match args with [VStr s] => Some (VPeriod s) | _ => None end
      | LDate => match ints_of args with
                 | Some [y; m; d] => Some (VXml KDate [y; m; d] None)
                 | Some [y; m; d; o] => Some (VXml KDate [y; m; d] (Some o))
                 | _ => None end
      | LTime => match ints_of args with
                 | Some [h; mi; s] => Some (VXml KTime [h; mi; s; 0] None)
                 | Some [h; mi; s; f] => Some (VXml KTime [h; mi; s; f] None)
                 | Some [h; mi; s; f; o] => Some (VXml KTime [h; mi; s; f] (Some o))
                 | _ => None end
      | LDateTime => match ints_of args with
                     | Some [y; m; d; h; mi; s] => Some (VXml KDateTime [y; m; d; h; mi; s; 0] None)
                     | Some [y; m; d; h; mi; s; f] => Some (VXml KDateTime [y; m; d; h; mi; s; f] None)
                     | Some [y; m; d; h; mi; s; f; o] => Some (VXml KDateTime [y; m; d; h; mi; s; f] (Some o))
                     | _ => None end
      | LSDate => match ints_of args with
                  | Some [y; m; d] => Some (VStd SDate [y; m; d])
                  | _ => None end
      | LSTime => match ints_of args with
                  | Some [h; mi] => Some (VStd STime [h; mi; 0; 0])
                  | Some [h; mi; s] => Some (VStd STime [h; mi; s; 0])
                  | Some [h; mi; s; us] => Some (VStd STime [h; mi; s; us])
                  | _ => None end
      | LSDateTime => match ints_of args with
                      | Some [y; m; d; h; mi] => Some (VStd SDateTime [y; m; d; h; mi; 0; 0])
                      | Some [y; m; d; h; mi; s] => Some (VStd SDateTime [y; m; d; h; mi; s; 0])
                      | Some [y; m; d; h; mi; s; us] => Some (VStd SDateTime [y; m; d; h; mi; s; us])
                      | _ => None end
      end
  end.

(* builtins reachable without an import *)
Definition is_builtin (n : str) : bool :=
  str_eqb n (lit "float") || str_eqb n (lit "set") || str_eqb n (lit "frozenset").

Definition builtin_call (n : str) (args : list value) (kws : list (str * value)) : option value :=
  match kws with
  | _ :: _ => None
  | [] =>
      if str_eqb n (lit "float") then
        match args with
        | [VStr s] =>
            if str_eqb s (lit "inf") then Some (VFloat fl_pos_inf)
            else if str_eqb s (lit "-inf") then Some (VFloat fl_neg_inf)
            else if str_eqb s (lit "nan") then Some (VFloat fl_nan)
            else None
        | _ => None
        end
      else if str_eqb n (lit "set") then match args with [] => Some (VSet false []) | _ => None end
      else if str_eqb n (lit "frozenset") then
        match args with
        | [] => Some (VSet true [])
        | [VSet _ l] => Some (VSet true l)
        | _ => None
        end
      else None
  end.

(* ---------------------------------------------------------------- dataclass __init__ *)
Fixpoint assoc {A} (n : str) (l : list (str * A)) : option A :=
  match l with
  | [] => None
  | (k, v) :: r => if str_eqb k n then Some v else assoc n r
  end.

Fixpoint construct (fds : list fdesc) (kws : list (str * value)) : option (list (str * value)) :=
  match fds with
  | [] => Some []
  | fd :: r =>
      let ov := if f_init fd
                then match assoc (f_name fd) kws with Some v => Some v | None => default_of fd end
                else default_of fd in
      match ov, construct r kws with
      | Some v, Some rest => Some ((f_name fd, v) :: rest)
      | _, _ => None
      end
  end.

(* every keyword names an init field; no keyword is repeated *)
Definition kw_known (fds : list fdesc) (kws : list (str * value)) : bool :=
  forallb (fun kw => existsb (fun fd => f_init fd && str_eqb (f_name fd) (fst kw)) fds) kws.
Fixpoint names_nodup (l : list str) : bool :=
  match l with [] => true | x :: r => negb (existsb (str_eqb x) r) && names_nodup r end.

(* calling a Flag class with an int *)
Definition flag_call (W : world) (c : cref) (args : list value) (kws : list (str * value)) : option value :=
  match find_class W c, args, kws with
  | Some (KEnum ms (Some vals)), [VInt z], [] =>
      match flag_member ms vals z with
      | Some m => Some (VEnum c m)
      | None => Some (VFlag c z)
      end
  | _, _, _ => None
  end.

Definition class_call (W : world) (c : cref) (args : list value) (kws : list (str * value)) : option value :=
  match lib_kind c with
  | Some k => lib_call k args kws
  | None =>
      match find_data W c with
      | Some fds =>
          match args with
          | [] => if kw_known fds kws && names_nodup (map fst kws)
                  then option_map (VObj c) (construct fds kws) else None
          | _ => None
          end
      | None => flag_call W c args kws
      end
  end.

Definition apply_call (W : world) (E : env) (f : path) (args : list value) (kws : list (str * value)) : option value :=
  match f with
  | [] => None
  | n :: rest =>
      match env_lookup E n with
      | Some (m, true) => class_call W (m, f) args kws
      | Some (m, false) => class_call W (m, rest) args kws
      | None => match rest with [] => builtin_call n args kws | _ => None end
      end
  end.

(* dict display: later duplicates overwrite the value, the first key object stays *)
Fixpoint dict_put (k v : value) (d : list (value * value)) : list (value * value) :=
  match d with
  | [] => [(k, v)]
  | (k', v') :: r => if veq false k' k then (k', v) :: r else (k', v') :: dict_put k v r
  end.
Definition dict_of (ps : list (value * value)) : list (value * value) :=
  fold_left (fun d p => dict_put (fst p) (snd p) d) ps [].
(* set display: an element equal to an earlier one is dropped *)
Definition set_add (s : list value) (x : value) : list value :=
  if existsb (fun y => veq false y x) s then s else s ++ [x].
Definition set_of (vs : list value) : list value := fold_left set_add vs [].

(* ---------------------------------------------------------------- the evaluator *)
Fixpoint eval (W : world) (E : env) (e : pyexpr) {struct e} : option value :=
  match e with
  | ENone => Some VNone
  | EBool b => Some (VBool b)
  | EInt z => Some (VInt z)
  | EFloat b => Some (VFloat b)
  | EStr s => Some (VStr s)
  | EBytes b => Some (VBytes BPlain b)
  | EGarbled _ => None
  | EName p =>
      match unsnoc p with
      | Some (cp, m) =>
          match resolve E cp with
          | Some c => if enum_has W c m then Some (VEnum c m) else None
          | None => None
          end
      | None => None
      end
  | EList l =>
      option_map VList
        ((fix go (l : list pyexpr) : option (list value) :=
            match l with
            | [] => Some []
            | x :: r => match eval W E x, go r with Some v, Some vs => Some (v :: vs) | _, _ => None end
            end) l)
  | ETuple l =>
      option_map VTuple
        ((fix go (l : list pyexpr) : option (list value) :=
            match l with
            | [] => Some []
            | x :: r => match eval W E x, go r with Some v, Some vs => Some (v :: vs) | _, _ => None end
            end) l)
  | ESet l =>
      match (fix go (l : list pyexpr) : option (list value) :=
               match l with
               | [] => Some []
               | x :: r => match eval W E x, go r with Some v, Some vs => Some (v :: vs) | _, _ => None end
               end) l with
      | Some vs => if forallb (hashable W) vs then Some (VSet false (set_of vs)) else None
      | None => None
      end
  | EDict kv =>
      match (fix go (l : list (pyexpr * pyexpr)) : option (list (value * value)) :=
               match l with
               | [] => Some []
               | (k, x) :: r =>
                   match eval W E k, eval W E x, go r with
                   | Some vk, Some vx, Some vs => Some ((vk, vx) :: vs)
                   | _, _, _ => None
                   end
               end) kv with
      | Some ps => if forallb (fun p => hashable W (fst p)) ps then Some (VDict (dict_of ps)) else None
      | None => None
      end
  | ECall f args kws =>
      match (fix go (l : list pyexpr) : option (list value) :=
               match l with
               | [] => Some []
               | x :: r => match eval W E x, go r with Some v, Some vs => Some (v :: vs) | _, _ => None end
               end) args,
            (fix gk (l : list (str * pyexpr)) : option (list (str * value)) :=
               match l with
               | [] => Some []
               | (n, x) :: r => match eval W E x, gk r with Some v, Some vs => Some ((n, v) :: vs) | _, _ => None end
               end) kws with
      | Some vargs, Some vkws => apply_call W E f vargs vkws
      | _, _ => None
      end
  end.

(* names an expression needs from its namespace *)
Fixpoint heads (e : pyexpr) {struct e} : list str :=
  match e with
  | EName p => match p with n :: _ => [n] | [] => [] end
  | ECall f args kws =>
      (match f with n :: _ => [n] | [] => [] end)
      ++ flat_map heads args
      ++ (fix gk (l : list (str * pyexpr)) : list str :=
            match l with [] => [] | (_, x) :: r => heads x ++ gk r end) kws
  | EList l => flat_map heads l
  | ETuple l => flat_map heads l
  | ESet l => flat_map heads l
  | EDict kv =>
      (fix go (l : list (pyexpr * pyexpr)) : list str :=
         match l with [] => [] | (k, x) :: r => heads k ++ heads x ++ go r end) kv
  | _ => []
  end.
