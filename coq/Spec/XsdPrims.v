(* Spec/XsdPrims.v — SPECIFICATION side for C05, written from XML Schema 1.1 part 2
   (§3.3.2 boolean, §3.3.3 decimal, §3.3.13 integer, §3.3.15 hexBinary,
   §3.3.16 base64Binary, §3.3.18 QName, §3.3.5 double) and Namespaces in XML.
   Deliberately imports nothing from Gen/ or Model/.

   Lexical spaces are given either generatively (a "spelling" record, `lex_*`
   prints it, `wf_*` is the side condition, `val_*` the value XSD assigns), or as
   a boolean recogniser plus a value function. *)
From Coq Require Import NArith ZArith List Bool Lia.
From XV Require Import Base.Str Base.Dec.
Import ListNotations.
Open Scope N_scope.

(* ---- boolean:  'true' | 'false' | '1' | '0' ---------------------------- *)
Definition xsd_boolean (s : str) : option bool :=
  if str_eqb s [116;114;117;101] then Some true
  else if str_eqb s [49] then Some true
  else if str_eqb s [102;97;108;115;101] then Some false
  else if str_eqb s [48] then Some false
  else None.

(* ---- integer:  [\-+]? [0-9]+ ------------------------------------------ *)
Inductive sign_sp := SgNone | SgPlus | SgMinus.
Definition lex_sign (s : sign_sp) : str :=
  match s with SgNone => [] | SgPlus => [43] | SgMinus => [45] end.
Definition sign_neg (s : sign_sp) : bool := match s with SgMinus => true | _ => false end.

Record integer_sp := mk_integer_sp { i_sign : sign_sp; i_digits : str }.
Definition wf_integer (i : integer_sp) : bool :=
  all_digits (i_digits i) && negb (length (i_digits i) =? 0)%nat.
Definition lex_integer (i : integer_sp) : str := lex_sign (i_sign i) ++ i_digits i.
Definition val_integer (i : integer_sp) : Z :=
  if sign_neg (i_sign i) then (- Z.of_N (str_val (i_digits i)))%Z else Z.of_N (str_val (i_digits i)).

(* ---- decimal:  sign? (digit+ ('.' digit* )? | '.' digit+) ---------------- *)
(* dc_frac = None: no decimal point *)
Record decimal_sp := mk_decimal_sp { dc_sign : sign_sp; dc_int : str; dc_frac : option str }.
Definition wf_decimal (d : decimal_sp) : bool :=
  all_digits (dc_int d)
  && match dc_frac d with
     | None => negb (length (dc_int d) =? 0)%nat
     | Some f => all_digits f && negb ((length (dc_int d) =? 0)%nat && (length f =? 0)%nat)
     end.
Definition lex_decimal (d : decimal_sp) : str :=
  lex_sign (dc_sign d) ++ dc_int d ++ match dc_frac d with None => [] | Some f => 46 :: f end.
(* the denoted number is (-1)^neg * coeff * 10^exp *)
Record decnum := mk_decnum { dn_neg : bool; dn_coeff : N; dn_exp : Z }.
Definition frac_digits (d : decimal_sp) : str := match dc_frac d with None => [] | Some f => f end.
Definition val_decimal (d : decimal_sp) : decnum :=
  mk_decnum (sign_neg (dc_sign d)) (str_val (dc_int d ++ frac_digits d)) (- Z.of_nat (length (frac_digits d))).

(* numeric equality of two such numbers (sign of zero is immaterial) *)
Definition decnum_eq (a b : decnum) : bool :=
  let m := Z.min (dn_exp a) (dn_exp b) in
  let va := (Z.of_N (dn_coeff a) * 10 ^ (dn_exp a - m))%Z in
  let vb := (Z.of_N (dn_coeff b) * 10 ^ (dn_exp b - m))%Z in
  Z.eqb (if dn_neg a then - va else va) (if dn_neg b then - vb else vb).

(* ---- hexBinary:  pairs of hex digits, either case ----------------------- *)
Definition xsd_hex_digit (c : N) : option N :=
  if (48 <=? c) && (c <=? 57) then Some (c - 48)
  else if (65 <=? c) && (c <=? 70) then Some (c - 65 + 10)
  else if (97 <=? c) && (c <=? 102) then Some (c - 97 + 10)
  else None.

(* Some octets if the string is in the lexical space, None otherwise *)
Fixpoint xsd_hexBinary (s : str) : option (list N) :=
  match s with
  | [] => Some []
  | [_] => None
  | a :: b :: r =>
      match xsd_hex_digit a, xsd_hex_digit b with
      | Some x, Some y => option_map (cons (16 * x + y)) (xsd_hexBinary r)
      | _, _ => None
      end
  end.

(* ---- base64Binary ------------------------------------------------------ *)
(* B64 ::= [A-Za-z0-9+/] ; value of a B64 character *)
Definition xsd_b64_char (c : N) : option N :=
  if (65 <=? c) && (c <=? 90) then Some (c - 65)
  else if (97 <=? c) && (c <=? 122) then Some (c - 97 + 26)
  else if (48 <=? c) && (c <=? 57) then Some (c - 48 + 52)
  else if c =? 43 then Some 62
  else if c =? 47 then Some 63
  else None.

(* the grammar with the optional single spaces removed:
     quad* (quad | B64 B64 B16 '=' | B64 B04 '=' '=')?   with quad = B64 B64 B64 B64
   B16 = characters whose value is a multiple of 4, B04 = multiple of 16 *)
Fixpoint xsd_b64_nows (t : str) : option (list N) :=
  match t with
  | [] => Some []
  | a :: b :: c :: d :: r =>
      match xsd_b64_char a, xsd_b64_char b with
      | Some ka, Some kb =>
          if (c =? 61) && (d =? 61) then
            match r with
            | [] => if kb mod 16 =? 0 then Some [(ka * 64 + kb) / 16] else None
            | _ :: _ => None
            end
          else match xsd_b64_char c with
          | None => None
          | Some kc =>
              if d =? 61 then
                match r with
                | [] => if kc mod 4 =? 0
                        then let v := (ka * 64 + kb) * 64 + kc in Some [v / 1024; (v / 4) mod 256]
                        else None
                | _ :: _ => None
                end
              else match xsd_b64_char d with
              | None => None
              | Some kd =>
                  let v := ((ka * 64 + kb) * 64 + kc) * 64 + kd in
                  option_map (fun l => v / 65536 :: (v / 256) mod 256 :: v mod 256 :: l) (xsd_b64_nows r)
              end
          end
      | _, _ => None
      end
  | _ => None
  end.

(* base64Binary has whiteSpace = collapse and its grammar allows one space
   between any two characters: a literal, as written in a document, is valid
   iff it is valid once all XML whitespace is taken out *)
Definition xsd_base64Binary (s : str) : option (list N) :=
  xsd_b64_nows (filter (fun c => negb (xml_ws c)) s).

(* ---- QName (Namespaces in XML 1.0, productions [4]-[11]; XML 1.0 5th ed. [4],[4a]) ---- *)
Definition in_cp_ranges (c : N) (t : list (N * N)) : bool :=
  existsb (fun r => (fst r <=? c) && (c <=? snd r)) t.

(* NameStartChar without ':' *)
Definition xml_name_start_ranges : list (N * N) :=
  [(65, 90); (95, 95); (97, 122); (0xC0, 0xD6); (0xD8, 0xF6); (0xF8, 0x2FF); (0x370, 0x37D);
   (0x37F, 0x1FFF); (0x200C, 0x200D); (0x2070, 0x218F); (0x2C00, 0x2FEF); (0x3001, 0xD7FF);
   (0xF900, 0xFDCF); (0xFDF0, 0xFFFD); (0x10000, 0xEFFFF)].
(* NameChar adds: "-" | "." | [0-9] | #xB7 | [#x0300-#x036F] | [#x203F-#x2040] *)
Definition xml_name_extra_ranges : list (N * N) :=
  [(45, 45); (46, 46); (48, 57); (0xB7, 0xB7); (0x300, 0x36F); (0x203F, 0x2040)].

Definition xml_ncname_start (c : N) : bool := in_cp_ranges c xml_name_start_ranges.
Definition xml_ncname_char (c : N) : bool :=
  in_cp_ranges c xml_name_start_ranges || in_cp_ranges c xml_name_extra_ranges.
Definition xsd_ncname (s : str) : bool :=
  match s with
  | [] => false
  | c :: r => xml_ncname_start c && forallb xml_ncname_char r
  end.

(* QName ::= (Prefix ':')? LocalPart *)
Record qname_sp := mk_qname_sp { q_prefix : option str; q_local : str }.
Definition wf_qname (q : qname_sp) : bool :=
  xsd_ncname (q_local q) && match q_prefix q with None => true | Some p => xsd_ncname p end.
Definition lex_qname (q : qname_sp) : str :=
  match q_prefix q with None => q_local q | Some p => p ++ [58] ++ q_local q end.

(* the in-scope namespace bindings: prefix (None = default namespace) -> URI *)
Definition nsenv := list (option str * str).
Definition opt_str_eqb (a b : option str) : bool :=
  match a, b with
  | None, None => true
  | Some x, Some y => str_eqb x y
  | _, _ => false
  end.
Fixpoint env_lookup (k : option str) (e : nsenv) : option str :=
  match e with
  | [] => None
  | (k', u) :: r => if opt_str_eqb k' k then Some u else env_lookup k r
  end.

(* the value: (namespace name or None, local part).  A prefix must be bound to a
   non-empty URI (else the literal is not a QName in this context); an unprefixed
   name takes the default namespace when one is declared *)
Definition val_qname (e : nsenv) (q : qname_sp) : option (option str * str) :=
  match q_prefix q with
  | Some p => match env_lookup (Some p) e with
              | Some (c :: u) => Some (Some (c :: u), q_local q)
              | _ => None
              end
  | None => match env_lookup None e with
            | Some (c :: u) => Some (Some (c :: u), q_local q)
            | _ => Some (None, q_local q)
            end
  end.

(* expanded-name notation {uri}local used for QName values *)
Definition expanded_name (v : option str * str) : str :=
  match fst v with
  | Some u => [123] ++ u ++ [125] ++ snd v
  | None => snd v
  end.

(* namespace names written with the plain ASCII URI characters of RFC 3986
   (unreserved, ':/?@', sub-delims without ',', '%'); no fragment *)
Definition uri_plain_char (c : N) : bool :=
  ((48 <=? c) && (c <=? 57)) || ((65 <=? c) && (c <=? 90)) || ((97 <=? c) && (c <=? 122))
  || mem c [45; 46; 95; 126; 58; 47; 63; 64; 33; 36; 38; 39; 40; 41; 42; 43; 59; 61; 37].
Definition spec_uri_plain (u : str) : bool :=
  negb (length u =? 0)%nat && forallb uri_plain_char u.

(* ---- double: sign? (digit+ ('.' digit* )? | '.' digit+) ([eE] sign? digit+)? | sign? INF | NaN ---- *)
Record exp_sp := mk_exp_sp { x_upper : bool; x_sign : sign_sp; x_digits : str }.
Inductive double_sp :=
| DbNum (mant : decimal_sp) (ex : option exp_sp)
| DbInf (sg : sign_sp)
| DbNaN.
Definition wf_exp (x : exp_sp) : bool := all_digits (x_digits x) && negb (length (x_digits x) =? 0)%nat.
Definition wf_double (d : double_sp) : bool :=
  match d with
  | DbNum m ex => wf_decimal m && match ex with None => true | Some x => wf_exp x end
  | _ => true
  end.
Definition lex_exp (x : exp_sp) : str := [if x_upper x then 69 else 101] ++ lex_sign (x_sign x) ++ x_digits x.
Definition lex_double (d : double_sp) : str :=
  match d with
  | DbNum m ex => lex_decimal m ++ match ex with None => [] | Some x => lex_exp x end
  | DbInf sg => lex_sign sg ++ [73;78;70]
  | DbNaN => [78;97;78]
  end.
Definition val_exp (x : exp_sp) : Z :=
  if sign_neg (x_sign x) then (- Z.of_N (str_val (x_digits x)))%Z else Z.of_N (str_val (x_digits x)).
(* the decimal number a numeric literal denotes; XSD maps it to the nearest
   binary64 value (that rounding is not specified here) *)
Definition val_double_num (m : decimal_sp) (ex : option exp_sp) : decnum :=
  let v := val_decimal m in
  mk_decnum (dn_neg v) (dn_coeff v) (dn_exp v + match ex with None => 0 | Some x => val_exp x end).

(* ---- candidate type lists: the documented priority --------------------------------
   "types are tried in this order: int, bool, float, Decimal, datetime, date, time,
   XmlTime, XmlDate, XmlDateTime, XmlDuration, XmlPeriod, QName, str" — strict types
   first, str last.  Names as code points. *)
Definition documented_priority : list str :=
  [ [105;110;116]; [98;111;111;108]; [102;108;111;97;116]; [68;101;99;105;109;97;108];
    [100;97;116;101;116;105;109;101]; [100;97;116;101]; [116;105;109;101];
    [88;109;108;84;105;109;101]; [88;109;108;68;97;116;101]; [88;109;108;68;97;116;101;84;105;109;101];
    [88;109;108;68;117;114;97;116;105;111;110]; [88;109;108;80;101;114;105;111;100];
    [81;78;97;109;101]; [115;116;114] ].

(* the first type, in documented order, that is a candidate and accepts *)
Fixpoint choose_by_priority {V} (order : list str) (candidates : list str) (accepts : str -> option V) : option V :=
  match order with
  | [] => None
  | t :: r =>
      if existsb (str_eqb t) candidates
      then match accepts t with
           | Some v => Some v
           | None => choose_by_priority r candidates accepts
           end
      else choose_by_priority r candidates accepts
  end.

(* the value spaces of the integer types DataType.from_value may choose *)
Definition xsd_integer_type_contains (name : str) (z : Z) : bool :=
  if str_eqb name [83;72;79;82;84] then ((-32768 <=? z) && (z <=? 32767))%Z                                   (* short *)
  else if str_eqb name [73;78;84] then ((-2147483648 <=? z) && (z <=? 2147483647))%Z                            (* int *)
  else if str_eqb name [76;79;78;71] then ((-9223372036854775808 <=? z) && (z <=? 9223372036854775807))%Z       (* long *)
  else str_eqb name [73;78;84;69;71;69;82].                                                                     (* integer *)

(* ---- which datatype's lexical space a written value must lie in ----------------------
   (DataType member names as code points).  The five g* lexical spaces are given
   generatively in Spec/XsdDates.v (period_sp); they are pairwise disjoint by shape. *)
Definition dt_G_DAY : str := [71;95;68;65;89].
Definition dt_G_MONTH : str := [71;95;77;79;78;84;72].
Definition dt_G_MONTH_DAY : str := [71;95;77;79;78;84;72;95;68;65;89].
Definition dt_G_YEAR : str := [71;95;89;69;65;82].
Definition dt_G_YEAR_MONTH : str := [71;95;89;69;65;82;95;77;79;78;84;72].
